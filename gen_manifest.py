#!/usr/bin/env python3
"""Writes MANIFEST.json from the table below (kept in one place so that the
manifest, the driver and DESIGN.md do not drift apart)."""
import json
import os
import subprocess

ROOT = os.path.dirname(os.path.abspath(__file__))

# id -> (technique, level text, level note, design ref)
T_NOTE = "Trusted: the reference codec / models under /verif/internal (written from RFC 6733 and the property text), the Go toolchain and runtime, pgregory.net/rapid. Exploration only: held on the cases generated or enumerated by the run, counted in the evidence."

CLAIMED = {
    "C01": ("property-based round-trip testing (rapid): API->wire->API->wire and reference-encoded wire->API->wire; native coverage-guided fuzzing of the wire round trip in the thorough tier",
            "Generated headers and AVP trees over all 18 data types, nesting, vendor-specific / undefined codes, every embedded dictionary and generated ones are round-tripped in both directions; header fields, the typed AVP tree and the bytes must be preserved. One representation defect (Address family ambiguity) is a listed known finding, excluded by construction and probed. Between serialising and reading back, another message is serialised and written (the bytes belong to the caller)."),
    "C02": ("property-based differential testing (rapid) against an independent RFC 6733 reference encoder; stateful operation histories with a model list; exhaustive enumeration of the 24-bit fields, the pad function and (thorough) all 2^32 payloads of six fixed-width types",
            "Serialize / SerializeTo (0xFF-prefilled buffer) / WriteTo must equal the reference encoder byte for byte, decoding the reference image must yield the encoded values, and Header.MessageLength must equal the serialised size after every NewAVP/AddAVP/InsertAVP/Marshal step. Finite sub-domains are enumerated completely (exhaustive: true in the evidence). The bytes returned by Serialize must not change when another message is serialised and written afterwards. The same message written again after its header fields were edited must carry the new values. Histories may end with a Marshal that fails; generated dictionaries list <item> values under AVPs of any type."),
    "C03": ("property-based fuzzing with structured corruptions and random inputs (rapid), crash/allocation oracle; child-process execution under RLIMIT_AS for process-killing inputs; native coverage-guided fuzz targets in the thorough tier",
            "Structured corruptions of valid messages (every length field to boundary values, truncation, flag flips, splices), random bytes and hostile constants are offered to every decoder entry point; every later inspection (re-serialisation, Unmarshal into struct families, smparser parsers, search, rendering) runs under recover with a TotalAlloc bound linear in the input; several goroutines decode with one dictionary at a time and the parser's retained memory is compared afterwards; inputs that could kill the process run in a child under an address-space limit. The 2M-deep nesting stack overflow is a listed known finding. ReadMessage is also driven without a dictionary and through an in-memory SCTP association, and Unmarshal also writes into destinations reused from case to case. While a multi-stream reader waits for a claimed body, records arrive on streams not seen before: the cost is bounded by what was supplied. Every 16-bit address family is decoded and rendered."),
    "C04": ("property-based differential testing (rapid) against an independent reference framer; native coverage-guided fuzzing in the thorough tier",
            "Generated bodies (fixed-width codes with payloads of every other length, Address payloads of every family/length, AVP-shaped payloads, nesting, boundary-valued length fields) are decoded by the library and framed by an independent RFC 6733 framer; trees must be identical and framing errors must be errors. Some AVPs carry 64 KiB..16 MiB of payload; deep chains of nested groups (up to 100 levels) are included."),
    "C05": ("property-based testing (rapid) over message sequences x fragmentation plans with scripted readers (fragments, data delivered together with EOF / an error, read timeouts in mid-message, interleaved connections); exhaustive split-point enumeration for short streams",
            "Sequences of messages around the 1 KiB buffer switch are delivered through every fragmentation (exhaustively for short streams) to ReadMessage and to the library's connection loop; messages, consumed byte counts, EOF / error outcomes and the declared-length<20 rejection are compared with the reference splitter. Consumers include bytes.Reader / bytes.Buffer / strings.Reader / bufio.Reader; messages of 1..8 MiB; a truncated message is never reported as a clean end of stream; an active peer whose segments straddle message boundaries for longer than Server.ReadTimeout keeps its connection. ReadMessage is also driven directly on a net.Conn. Scripted readers may return empty reads. A message the reader refuses (a command without rules) is still consumed whole; a truncated message with an unknown command code is not a clean end."),
    "C06": ("stateful property-based testing (rapid): histories of retain / read / write / unmarshal-into-a-reused-struct / answer with an invariant checked after every step",
            "Messages made of slice-backed types are decoded and retained while further reads (same goroutine, other goroutine, library-served connection) and writes happen; after every step each retained message must still equal the abstract message it was decoded from. Non-canonical wire images (odd Address widths, other version octets) are included, answers are echoed and marshalled, and the application overwrites its own copy of slice-backed values in place. A handler that keeps every request stands in front of a server state machine (CER accepted / refused, DWRs, accounting requests): the kept requests must not change when the state machine builds and writes its answers (one genuine defect found and repaired there). Two decodings of the same bytes are kept and one is overwritten by its holder."),
    "C07": ("property-based testing (rapid) over writer schedules and fault plans with a scripted transport that stalls mid-write and accepts partial writes",
            "Concurrent writers through a diam.Conn onto a transport that stalls inside Write: no overlapping transport writes, the stream parses into exactly the sent messages, per-writer order kept. Fault plans of (bytes accepted, temporary error): with retries the remaining bytes and only those are sent. Retries and concurrency are combined (one defect found and repaired), inbound requests are served while the writers write, handles of ended connections are written to while a live connection is in use, and the fault plans also run over an in-memory SCTP association. Retrying and plain writers are mixed on one connection; retry budgets include MaxInt and MaxUint. The fault plans also run on the Conn of a connection accepted by a Server with WriteTimeout (timeout-type faults)."),
    "C08": ("property-based testing (rapid) over arrival patterns and handler behaviours with scripted transports and harness-released handlers",
            "Numbered messages arrive in arbitrary fragments on several in-memory connections (accept and dial paths, multi-stream SCTP associations with a stream per message, an explicit ServeMux or the nil-Handler default mux); handlers log enter/exit and may block until released; per connection the log must be strictly sequential in sending order and a held handler must not delay other connections. Handlers may also block inside their transport write; handlers registered while another is held; one peer's CEA or DWA stuck in its transport while other peers use the same state machine. A connection made by sm.Client with an unanswered watchdog request handles the peer's application messages one at a time as well. Handlers may answer and then keep running. A handler stuck writing to another connection must not stall that connection's dispatch; more held handlers than 8 x GOMAXPROCS."),
    "C09": ("exhaustive enumeration of the dispatch decision space over dict.Default plus property-based testing (rapid) over generated dictionaries, against a reference decision table",
            "Every resolvable (application, command, R/A) message x every subset of the eight registration kinds (and every once/twice assignment for replacement) is dispatched through a fresh ServeMux and compared with the decision table index -> name -> ALL -> error report; registration / dispatch histories on ONE mux (incl. HandleIdx(ALL_CMD_INDEX) and replacement) are compared with a model after every step. Several goroutines dispatch through one mux while registrations go on (also under the race detector); a registration must not wait for a running handler. The error report is looked for only after the dispatch. For a command no dictionary entry names, a registered catch-all must run. Handlers are also registered by several goroutines at once, and one message object is reused for every dispatch."),
    "C10": ("exhaustive enumeration of short peer histories plus property-based testing (rapid) of longer ones against a handshake-gate model, server and client side",
            "Histories over {acceptable / rejected / retransmitted CER, DWR, application requests and answers registered by name, by index and via catch-all} are played to a state machine over in-memory transports; an application handler must run iff the handshake had succeeded when the message was dispatched, exactly once, in order; built-in CER/CEA/DWR processing must survive registration attempts. Up to 300 peers share one state machine; invocations are read again after a settling time (a refused message stays refused). Handlers may store values of their own in the connection's context; a client state machine with two connections must keep the second closed when a duplicate CEA arrives on the first."),
    "C11": ("exhaustive enumeration of small CERs plus property-based testing (rapid) of larger ones against an acceptance model written from the statement",
            "CERs over every presence combination of identity / inband security and multisets of application items (supported, unsupported, wrong type, relay, vendor-specific) are sent to a server state machine; acceptance, result code, closing, metadata and the CEA contents are compared with the model; several connections share one state machine and every connection's metadata is read again after all handshakes; custom dictionaries. The state machine's supported-applications list is compared with the reference dictionary's after every load of a dictionary history. A late CER to a server with a WriteTimeout still gets its CEA; an empty non-nil address list configures nothing. A refused peer is disconnected even when the failure CEA cannot be written."),
    "C12": ("property-based testing (rapid) of scripted peers against a handshake outcome model; real short timers, only sound lower bounds and counts asserted",
            "A scripted peer answers the k-th CER with success / failure / malformed / silence / disconnect and sends extra CEAs afterwards; transmissions (identical bytes, count, spacing), the outcome of the dial, closing on failure and stability after success are compared with the model; redials on one Client; CEAs advertising applications only in vendor-specific groups; the TLS dial entry points with a dial timeout over loopback TLS (inconclusive, never a violation, where loopback listening is unavailable). Also: a client with a dictionary of its own; multi-homed and zoned local endpoints when no address is configured. The peer may react to a CER with messages that are not a CEA. CEAs of a relay (relay application id only) are followed by answers in the advertised application. Two connections of one client state machine stay up when the earlier one receives extra CEAs; application lists cut from one array."),
    "C13": ("property-based testing (rapid) of scripted peers against a watchdog model; real short timers, only sound lower bounds and counts asserted",
            "A scripted peer answers the first or only a later transmission of the CER (no DWR may precede the CEA) and then answers / stops answering / answers only a retransmission of the client's DWRs; identity, spacing, retransmission count, closing of a silent peer and sparing of a responsive one are checked; a state machine must answer every well-formed DWR of a handshaken peer with a mirrored success DWA, whatever the order of its AVPs, also from several connections at once. Also: fail-over to a second peer on the same Client after the first one fell silent. Application traffic in both directions goes on while the watchdog runs; a state machine served by a Server with WriteTimeout, over an in-memory transport honouring write deadlines, keeps and answers a peer that is quiet for longer than the timeout; intervals left zero mean the documented defaults (lower bound). Over loopback TLS a hung peer must see the TCP connection end. One failed DWR write must not stop the watchdog silently. Application writes that stay in the transport must not be overlapped by watchdog requests; unsolicited watchdog answers must not stop the watchdog."),
    "C14": ("exhaustive enumeration of short event orders plus property-based testing (rapid) of longer ones, with a scripted transport that exposes 'reader is parked'; goroutine-leak oracle",
            "Orders of {CloseNotify requested from a handler / from another goroutine while the reader is parked / after termination, fragments of valid messages, one terminating event (EOF, read error, undecodable input, local Close, handler panic, failed TLS handshake; also while a handler waits for a channel requested earlier)} are executed; every channel must be open before and closed after termination, messages delivered exactly once in order, and no library goroutine may remain. Also: requests and end of input in one segment, several connections of one server, nobody reading ErrorReports(), a transport stuck in Write, and a schedule search that releases the first request and the termination at the same instant. Also: Close() after the channel fired while a handler is held or stuck in a write; a transient receive error played with and without a CloseNotify request. With a watchdog request in flight when the connection ends, the watchdog goroutine exits."),
    "C15": ("property-based testing (rapid) over fault placements among concurrent in-memory connections, incl. a listener handing out TLS connections before their handshake",
            "Handler panics, undecodable input, abrupt disconnects and temporary accept errors are placed among several connections served by one Server; healthy connections must receive every answer, faulty ones must be closed (with an error report for undecodable input), and the listener must keep accepting; on a TLS listener stalled, non-TLS and hung-up handshakes must not keep later connections from being served; the nil-Handler default mux. Undecodable input includes complete messages with a malformed member inside a grouped AVP. The server's handler may be an sm.StateMachine; runs of 9 and 11 consecutive temporary accept errors. Handler panics include panics with a nil value (GODEBUG panicnil=1)."),
    "C16": ("exhaustive enumeration of id pairs x flag bytes plus property-based testing (rapid); in-memory SCTP backend for the stream half",
            "Answers built through Message.Answer and by the state machine (CEA, DWA) are compared with the request: command, application, both identifiers incl. zero, R cleared, P unchanged, Result-Code iff asked; over the in-memory SCTP backend the answer must be written to the stream the request arrived on, also when it is written after the handler returned, through WriteToWithRetry against scripted write faults, or with Server.WriteTimeout set. 8..96 late answers written at once from a goroutine each are paired with their requests by hop-by-hop id (also under the race detector). Servers with ReadTimeout / WriteTimeout; some requests are first forwarded with WriteToStream, as a relay does. On the client side of an SCTP association DWAs go to the stream of the DWR."),
    "C17": ("exhaustive comparison of every lookup over the embedded dictionaries with an independent dictionary model, property-based testing (rapid) of generated dictionary sets in every load order, exhaustive type-name and constant checks",
            "An independent model (own XML structs, lookup rules from the statement) is compared with the library on every (application, code, name, vendor) of the embedded dictionaries and their neighbours, on generated dictionary sets after every Load (with monotonicity), on every declarable type name (encode + decode), and on the exported constants parsed from the sources. Documents are also loaded through Parser.LoadFile and loaded again under another spelling of their path."),
    "C18": ("property-based testing (rapid) over generated struct TYPES (reflect.StructOf) and values: hand-built-AVP oracle for Marshal, round trip through Unmarshal directly and over the wire",
            "Struct types covering every supported field shape and tag form (datatype types, other datatype types that convert losslessly, native Go types, pointers, slices, nested / embedded structs, diam.AVP fields) are generated together with values (zero values, empty slices, nil pointers included) and marshalled into fresh and into already used messages; Marshal output must equal the AVP list built by hand from the dictionary and Unmarshal into a fresh value must reproduce the fields. A second value goes through the same message object; one declared struct type is used for two applications that bind its names differently. Tag forms in which another key carries an omitempty option of its own."),
    "C19": ("exhaustive enumeration of small chunk interleavings plus property-based testing (rapid) of large ones over an in-memory SCTP backend consumed by the library's own connection loop",
            "Per-stream message sequences are cut into chunks and merged in any order that preserves each stream's order; the connection loop must deliver every message once, in its stream's order, reporting the right stream, and replies must be written to that stream. Delivered messages are compared again after the association is over (retention), header-only messages and stream numbers up to 65535 are included. 1 in 6 cases another association of the process has died in mid-message just before, with data still buffered for the same stream numbers. Half of the replies are written to the association itself."),
    "C20": ("property-based testing (rapid) against a reference pre-order tree walk, incl. search / change / search histories on one message and two dictionaries in one process",
            "AVP trees with repeated codes at several depths are built through the API and by decoding; FindAVP / FindAVPs / FindAVPsWithPath by number, name and path must return pointer-identical results to a reference walk; absent codes never yield another AVP. One AVP object placed at two positions of a tree is included. Private dictionaries that define a code twice (group for one vendor, scalar for the other) or one name for two vendors are searched by number and by name."),
}
# scenarios added after the twelfth seeding round (DESIGN.md 7.2, "Round 12")
ROUND12 = {
    "C03": "The String method of every decoded value is also called directly (package fmt hides a panicking Stringer), and payloads of one repeated byte (all 256 values, boundary lengths) are enumerated for 13 AVPs of different types.",
    "C05": "A refused message in the middle of a stream (declared length 21..27, a body that is no AVP sequence, an undefined command whose body is the image of a valid message) must cost exactly its declared length when read directly, and a served connection must never hand a handler a message that was not sent as one.",
    "C06": "A kept message with AVPs the dictionary defines only after it was read must stay what it was through later loads, reads and searches by code, path and the new names.",
    "C07": "Associations accepted by a Server with or without WriteTimeout whose transport write stalls: every message whole, at most once, in order.",
    "C08": "A handler that closes the connection with messages buffered behind it; a blocked handler (registered by index, name or catch-all) with a registration on the same mux pending while a second connection receives a message.",
    "C10": "Watchdog requests carry Origin-State-Id in half of the histories (also before any CER) and requests carry the T bit in a third.",
    "C11": "Applications declared with <vendor> (accounting ones too) in dict.Default, in a child process, must be accepted and advertised in the CEA.",
    "C12": "Second and third dials of one Client at 20 / 150 / 300 % of a RetransmitInterval after a completed handshake keep spacing and waiting time; the test binary runs with the timer semantics of the library's own go.mod (asynctimerchan=1).",
    "C13": "WatchdogInterval and RetransmitInterval far apart (20 ms / 300 ms with slow answers; 1 s / 30 ms with a silent peer) for every budget; the test binary runs with asynctimerchan=1.",
    "C14": "The first CloseNotify request made inside the termination (during a transport Close that takes 150 ms, or from the handler's Error method), byte-stream and multi-stream; every CloseNotify call of the harness is bounded and a call that does not return is reported.",
    "C15": "The same fault isolation on connections the application made itself with NewConn (ServeMux or state machine as handler).",
    "C18": "IPv6-typed net.IP fields also hold IPv4 addresses in their 4-byte form.",
    "C19": "Every third message may be an answer, the association may sit behind an application's wrapper type, and replies may be written while the next message is handled.",
    "C20": "Query values (paths and names) built once and used for messages of two applications that give the names different codes, sequentially and from several goroutines at once; lists returned by earlier searches are re-checked after later ones.",
}
# ... and after the thirteenth
ROUND13 = {
    "C05": "ReadMessage called directly on a multi-stream association is one more consumer (random and exhaustive split points).",
    "C06": "Kept messages are forwarded with retry budgets through writers that first refuse, and searched with an empty path and a concrete vendor.",
    "C07": "Message objects written again after other messages; every transport write of a message, retried ones included, must go to the named stream.",
    "C09": "A mux whose ErrorReports channel nobody reads must still call registered handlers after several unhandled messages.",
    "C12": "Application AVPs may be handed to the client as struct literals.",
    "C13": "A responsive TLS peer behind a 300 ms dial timeout must not be dropped; 3 / 12 / 24 peers of one state machine all get their DWRs answered, whether or not the application reads HandshakeNotify / ErrorReports.",
    "C14": "The peer's shutdown may arrive inside a header or a body.",
    "C15": "With nobody reading ErrorReports, faults on some connections must not stall a healthy one.",
    "C17": "The files of a set are also loaded through one NewParser(files...) call, and two parsers loaded side by side are asked in turn.",
}
for _k, _v in ROUND13.items():
    ROUND12[_k] = (ROUND12.get(_k, "") + " " + _v).strip()
# ... and after the fourteenth and fifteenth
ROUND15 = {
    "C01": "The image is offered to ReadMessage through several io.Reader shapes (data together with io.EOF, one byte or half a request per Read, a small bufio.Reader, trailing bytes of a next message); Time values handed to the API may carry a sub-second part.",
    "C02": "One history is taken by two messages under two generated dictionaries that define the same names differently, interleaved; Time values with sub-second parts.",
    "C04": "Fixed-width payloads of exactly the expected width carry boundary patterns (all zero, all ones, sign bit only).",
    "C06": "Further messages are built (Marshal, NewAVP, AddAVP, InsertAVP) from windows and values of kept messages, lists returned by searches are appended to, and AVPs of a kept CER are used as sm.Client configuration for a dial; kept groups may have members with non-canonical lengths.",
    "C07": "The Conn an sm.Client returns (watchdog on / off) with retried partial writes while the state machine answers DWRs; 2..4 concurrent writers of messages up to 300 KB on an in-memory SCTP association; three writers under a Server WriteTimeout with the first stalled.",
    "C08": "Several connections with the same peer identity on one state machine (server side and one sm.Client dialling several times) with a stuck handler on one; a handler blocked loading the shared private dictionary.",
    "C09": "Dictionary histories (Load of further documents, refused ones included, between registrations and dispatches) and the decision table through a sm.StateMachine after a handshake and through served connections.",
    "C10": "Registrations interleaved with traffic (also between two messages of the command they concern), case variants of the built-in names, built-in messages dispatched by name, and the server histories over a multi-stream association with every message on its own stream.",
    "C12": "Client options the handshake clauses do not mention (watchdog settings, vendor lists), CEA application lists mixing plain ids and Vendor-Specific-Application-Id groups, and the Dial entry points that take a local address over real loopback sockets.",
    "C13": "One Client value (or a copy) dialled again with another state machine; DWRs of other peers answered while an application handler is blocked and a registration is pending; WatchdogStream set on a byte-stream transport.",
    "C14": "Surplus success DWAs before the connection ends; real TCP / TLS loopback sockets with a peer that keeps its end open after a local Close; messages larger than the read buffer around the CloseNotify request; Server.ReadTimeout as the cause of termination.",
    "C15": "Listeners without an address and four kinds of temporary accept error; command codes of another application as undecodable input while healthy connections use the same command; undecodable input in one transport read behind valid requests; handlers that use the Conn accessors before the fault.",
    "C16": "Servers under the four ReadTimeout x WriteTimeout combinations whose handlers answer later than the read timeout; requests interleaved in chunks over three or more streams.",
    "C17": "dict.Default loaded into as the very first use (child process); the Marshal path of every data type name.",
    "C18": "AVP-typed fields holding a hand-built (grouped) AVP that was measured once and then edited through its exported fields.",
    "C19": "Replies under concurrent writers and from a state machine per stream; the io.Reader / io.Writer adaptors against a model written from their doc comments; reply modes through the Conn's stream-control methods.",
    "C20": "Searches by name in layered dictionaries (the same name bound to different codes per application layer) and in dictionaries built by successive loads that rebind names and codes.",
}
for _k, _v in ROUND15.items():
    ROUND12[_k] = (ROUND12.get(_k, "") + " " + _v).strip()

CLAIMED = {k: (v[0], v[1] + (" " + ROUND12[k] if k in ROUND12 else "") + " Exploration, not proof: the evidence reports how many cases, how many distinct non-trivial ones, and the class histogram.", T_NOTE, "DESIGN.md section 4, " + k) for k, v in CLAIMED.items()}

NOT_YET = "check not built yet in this session (see DESIGN.md section 5a for the order of work)"


def main():
    props = [json.loads(l) for l in open(os.path.join(ROOT, "properties.jsonl")) if l.strip()]
    hooks_commits = subprocess.run(["git", "-C", "/repo", "log", "--format=%H", "--grep=^verif hook"],
                                   stdout=subprocess.PIPE, text=True).stdout.split()
    checks, na = [], []
    for p in props:
        pid = p["id"]
        if pid in CLAIMED and os.path.isdir(os.path.join(ROOT, "props", pid.lower())):
            tech, text, note, ref = CLAIMED[pid]
            checks.append({
                "property_id": pid,
                "quick_cmd": "./check.py %s quick" % pid,
                "thorough_cmd": "./check.py %s thorough" % pid,
                "evidence_file": "/verif/evidence/%s.json" % pid,
                "replay_cmd_template": "./check.py %s --replay {path}" % pid,
                "engine": "go-pbt",
                "level_claimed": {"category": "exploration", "text": text, "design_ref": ref},
                "level_note": note,
                "technique": tech,
            })
        else:
            na.append({"property_id": pid, "reason": NOT_YET})
    man = {
        "version": 1,
        "setup_cmd": "./setup.sh",
        "hooks": {
            "guard": "verif",
            "enable": "Go build tag: every check compiles /repo through the replace directive of /verif/go.mod with `go test -tags verif`; the only hook is the add-only file diam/verif_sctp_hook.go (in-memory SCTP backend for diam.SCTPConn)",
            "baseline_off_cmd": "./baseline_off.sh",
            "source_commits": hooks_commits,
            "add_only": True,
        },
        "engines": [{
            "name": "go-pbt",
            "path": "/verif/check.py",
            "serves_properties": [c["property_id"] for c in checks],
            "kind_free_text": "pgregory.net/rapid v1.3.0 property-based tests (stateful where histories matter), exhaustive enumeration of small finite sub-domains, native go test -fuzz targets in the thorough tier; oracles = independent reference codec / framer / dictionary model / decision tables under /verif/internal; in-memory transports scripted by the harness",
        }],
        "checks": checks,
        "not_applicable": na,
        "notes": "Property-based testing and fuzzing only. exit 0 = held on everything explored, exit 1 = VIOLATION line, exit 2 = inconclusive (build error, deadline, worker death). VERIF_SEED selects the rapid seed (remapped so 0 never reaches rapid). known_findings.txt lists recorded and repaired defects.",
    }
    with open(os.path.join(ROOT, "MANIFEST.json"), "w") as f:
        json.dump(man, f, indent=1)
    print("claimed:", [c["property_id"] for c in checks])
    print("not applicable:", [n["property_id"] for n in na])


if __name__ == "__main__":
    main()
