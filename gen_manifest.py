#!/usr/bin/env python3
"""Writes MANIFEST.json from the table below (kept in one place so that the
manifest, the driver and DESIGN.md do not drift apart)."""
import json
import os
import subprocess

ROOT = os.path.dirname(os.path.abspath(__file__))

# id -> (technique, level text, level note, design ref)
CLAIMED = {
    "C04": ("property-based differential testing (rapid) against an independent reference framer; native coverage-guided fuzzing in the thorough tier",
            "Generated bodies (fixed-width codes with payloads of every other length, Address payloads of every family/length, AVP-shaped payloads, nesting, boundary-valued length fields) are decoded by the library and framed by an independent RFC 6733 framer; trees must be identical and framing errors must be errors. Exploration, not proof: the evidence reports how many cases, how many distinct non-trivial ones, and the class histogram.",
            "Trusted: internal/refcodec framer (60 lines, from RFC 6733 s4.1), the dictionary lookup used to decide which codes are grouped (C17 checks it separately), Go runtime, rapid.",
            "DESIGN.md section 4, C04"),
}

NOT_YET = "check not built yet in this session (see DESIGN.md section 5a for the order of work)"


def main():
    props = [json.loads(l) for l in open(os.path.join(ROOT, "properties.jsonl")) if l.strip()]
    hooks_commits = subprocess.run(["git", "-C", "/repo", "log", "--format=%H", "--grep=^verif hook"],
                                   stdout=subprocess.PIPE, text=True).stdout.split()
    checks, na = [], []
    for p in props:
        pid = p["id"]
        if pid in CLAIMED and os.path.isdir(os.path.join(ROOT, "props", pid.lower())):
            tech, text, note, ref = CLAIMED[pid]
            checks.append({
                "property_id": pid,
                "quick_cmd": "./check.py %s quick" % pid,
                "thorough_cmd": "./check.py %s thorough" % pid,
                "evidence_file": "/verif/evidence/%s.json" % pid,
                "replay_cmd_template": "./check.py %s --replay {path}" % pid,
                "engine": "go-pbt",
                "level_claimed": {"category": "exploration", "text": text, "design_ref": ref},
                "level_note": note,
                "technique": tech,
            })
        else:
            na.append({"property_id": pid, "reason": NOT_YET})
    man = {
        "version": 1,
        "setup_cmd": "./setup.sh",
        "hooks": {
            "guard": "verif",
            "enable": "Go build tag: every check compiles /repo through the replace directive of /verif/go.mod with `go test -tags verif`; the only hook is the add-only file diam/verif_sctp_hook.go (in-memory SCTP backend for diam.SCTPConn)",
            "baseline_off_cmd": "./baseline_off.sh",
            "source_commits": hooks_commits,
            "add_only": True,
        },
        "engines": [{
            "name": "go-pbt",
            "path": "/verif/check.py",
            "serves_properties": [c["property_id"] for c in checks],
            "kind_free_text": "pgregory.net/rapid v1.3.0 property-based tests (stateful where histories matter), exhaustive enumeration of small finite sub-domains, native go test -fuzz targets in the thorough tier; oracles = independent reference codec / framer / dictionary model / decision tables under /verif/internal; in-memory transports scripted by the harness",
        }],
        "checks": checks,
        "not_applicable": na,
        "notes": "Property-based testing and fuzzing only. exit 0 = held on everything explored, exit 1 = VIOLATION line, exit 2 = inconclusive (build error, deadline, worker death). VERIF_SEED selects the rapid seed (remapped so 0 never reaches rapid). known_findings.txt lists recorded and repaired defects.",
    }
    with open(os.path.join(ROOT, "MANIFEST.json"), "w") as f:
        json.dump(man, f, indent=1)
    print("claimed:", [c["property_id"] for c in checks])
    print("not applicable:", [n["property_id"] for n in na])


if __name__ == "__main__":
    main()
