#!/bin/bash
# round >= 2: like seed_prep.sh but also writes _AVOID.txt listing the ideas already used for this property
set -eu
id=$1; suf=${2:-r2}
wt=$(/verif/tools/seed_prep.sh $id $suf)
python3 - "$id" "$wt" <<'PY'
import json,sys,glob,os
pid,wt=sys.argv[1],sys.argv[2]
lines=[]
for d in sorted(glob.glob('/verif/seeded/%s-*'%pid)):
    m=json.load(open(os.path.join(d,'meta.json')))
    lines.append("- %s: needed %s"%(os.path.basename(d).split('-',2)[2].replace('-',' '), m['needs_to_manifest']))
open(os.path.join(wt,'_AVOID.txt'),'w').write("Ideas already used by earlier fault-injection rounds for this property (do NOT repeat them or close variants; find different code sites and different trigger conditions):\n"+"\n".join(lines)+"\n")
PY
echo $wt
