// mutgen enumerates small syntactic mutants of fiorix/go-diameter source files
// (operator swaps, guard removal, statement removal, literal +1, negation
// dropped) as JSON lines {file, start, end, new, line, kind, old}; the sweep
// driver (tools/mutsweep.py) applies one at a time through `go -overlay` and
// runs the checks against it. It is a sensitivity tool, not a check.
package main

import (
	"encoding/json"
	"fmt"
	"go/ast"
	"go/parser"
	"go/token"
	"os"
	"strconv"
)

type mut struct {
	File  string `json:"file"`
	Start int    `json:"start"`
	End   int    `json:"end"`
	New   string `json:"new"`
	Line  int    `json:"line"`
	Kind  string `json:"kind"`
	Old   string `json:"old"`
	Func  string `json:"func"`
}

var swap = map[token.Token]string{
	token.LSS: "<=", token.LEQ: "<", token.GTR: ">=", token.GEQ: ">",
	token.EQL: "!=", token.NEQ: "==", token.LAND: "||", token.LOR: "&&",
	token.ADD: "-", token.SUB: "+",
}

func main() {
	enc := json.NewEncoder(os.Stdout)
	for _, path := range os.Args[1:] {
		src, err := os.ReadFile(path)
		if err != nil {
			fmt.Fprintln(os.Stderr, err)
			os.Exit(1)
		}
		fset := token.NewFileSet()
		f, err := parser.ParseFile(fset, path, src, 0)
		if err != nil {
			fmt.Fprintln(os.Stderr, err)
			os.Exit(1)
		}
		off := func(p token.Pos) int { return fset.Position(p).Offset }
		emit := func(fn string, s, e token.Pos, neu, kind string) {
			so, eo := off(s), off(e)
			old := string(src[so:eo])
			if len(old) > 120 {
				old = old[:120] + "..."
			}
			enc.Encode(mut{File: path, Start: so, End: eo, New: neu, Line: fset.Position(s).Line, Kind: kind, Old: old, Func: fn})
		}
		for _, d := range f.Decls {
			fd, ok := d.(*ast.FuncDecl)
			if !ok || fd.Body == nil {
				continue
			}
			fn := fd.Name.Name
			if fd.Recv != nil && len(fd.Recv.List) == 1 {
				switch t := fd.Recv.List[0].Type.(type) {
				case *ast.StarExpr:
					if id, ok := t.X.(*ast.Ident); ok {
						fn = id.Name + "." + fn
					}
				case *ast.Ident:
					fn = t.Name + "." + fn
				}
			}
			ast.Inspect(fd.Body, func(n ast.Node) bool {
				switch x := n.(type) {
				case *ast.BinaryExpr:
					if neu, ok := swap[x.Op]; ok {
						emit(fn, x.OpPos, x.OpPos+token.Pos(len(x.Op.String())), neu, "op")
					}
				case *ast.UnaryExpr:
					if x.Op == token.NOT {
						emit(fn, x.OpPos, x.OpPos+1, "", "unnot")
					}
				case *ast.BasicLit:
					if x.Kind == token.INT {
						if v, err := strconv.ParseInt(x.Value, 0, 64); err == nil && v < 1<<31 {
							emit(fn, x.Pos(), x.End(), strconv.FormatInt(v+1, 10), "lit+1")
							if v > 0 {
								emit(fn, x.Pos(), x.End(), strconv.FormatInt(v-1, 10), "lit-1")
							}
						}
					}
				case *ast.IfStmt:
					// guard removal: an if without else whose body ends in return/continue/break
					if x.Else == nil && x.Init == nil && len(x.Body.List) > 0 {
						switch x.Body.List[len(x.Body.List)-1].(type) {
						case *ast.ReturnStmt, *ast.BranchStmt:
							emit(fn, x.Pos(), x.End(), "", "rmguard")
						}
					}
					if x.Else != nil {
						// drop the else branch
						emit(fn, x.Body.End(), x.Else.End(), "", "rmelse")
					}
				case *ast.BlockStmt:
					for _, s := range x.List {
						switch st := s.(type) {
						case *ast.ExprStmt:
							emit(fn, st.Pos(), st.End(), "", "rmstmt")
						case *ast.AssignStmt:
							if st.Tok != token.DEFINE {
								emit(fn, st.Pos(), st.End(), "", "rmstmt")
							}
						case *ast.IncDecStmt:
							emit(fn, st.Pos(), st.End(), "", "rmstmt")
						case *ast.DeferStmt:
							emit(fn, st.Pos(), st.End(), "", "rmdefer")
						case *ast.GoStmt:
							// run synchronously instead of in a goroutine
							emit(fn, st.Pos(), st.Pos()+2, "", "ungo")
						}
					}
				case *ast.CaseClause:
					for _, s := range x.Body {
						switch st := s.(type) {
						case *ast.ExprStmt:
							emit(fn, st.Pos(), st.End(), "", "rmstmt")
						case *ast.AssignStmt:
							if st.Tok != token.DEFINE {
								emit(fn, st.Pos(), st.End(), "", "rmstmt")
							}
						}
					}
				}
				return true
			})
		}
	}
}
