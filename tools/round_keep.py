#!/usr/bin/env python3
"""usage: round_keep.py <table.json>
table: list of {src, property, slug, needs, detected, demo_dir}; keeps every entry under
/verif/seeded/<Cxx>-<next label>-<slug>/ through tools/seed_keep.py (label = position in the
sequence A..Z, AA, AB, ... of the seeds already kept for that property)."""
import glob, json, subprocess, sys


def label(n):
    s = ""
    n += 1
    while n > 0:
        n, r = divmod(n - 1, 26)
        s = chr(65 + r) + s
    return s


RAN = ("seed_eval2.sh in a scratch worktree: patch applies to HEAD, go build ok, 140/140 baseline tests pass with the change, "
       "demo fails with and passes without the change; quick check run against the change through a go -overlay")
for e in json.load(open(sys.argv[1])):
    p = e["property"]
    n = len(glob.glob("/verif/seeded/%s-*" % p))
    name = "%s-%s-%s" % (p, label(n), e["slug"])
    subprocess.check_call(["/verif/tools/seed_keep.py", name, p, e["src"], e["demo_dir"], e["needs"], e["detected"], RAN])
