#!/bin/bash
# Compares the repository's whole test suite, run with -skip SCTP so that the packages whose test
# binaries abort at their first SCTP test in this sandbox run their other tests too, between the
# pinned commit (the "snapshot" commit) and the current /repo tree. Prints tests that passed at
# the pinned commit and do not pass now. Run before keeping a "fix:" commit.
export GOFLAGS=-mod=mod GOPROXY=off GOSUMDB=off GOTOOLCHAIN=local
pin=$(git -C /repo log --format=%h --grep='^snapshot$' | tail -1)
wt=$(mktemp -d /tmp/pinned.XXXXXX); rmdir $wt
git -C /repo worktree add --detach $wt $pin >/dev/null 2>&1 || exit 3
trap 'git -C /repo worktree remove --force $wt >/dev/null 2>&1; rm -f /tmp/ft-pinned.$$ /tmp/ft-current.$$' EXIT
(cd $wt && go test -json -vet=off -count=1 -skip SCTP ./... 2>/dev/null > /tmp/ft-pinned.$$)
(cd /repo && go test -json -vet=off -count=1 -skip SCTP ./... 2>/dev/null > /tmp/ft-current.$$; git checkout -- go.sum 2>/dev/null)
python3 - /tmp/ft-pinned.$$ /tmp/ft-current.$$ <<'PY'
import json,sys
def res(f):
    p=set()
    for l in open(f,errors='replace'):
        try: e=json.loads(l)
        except Exception: continue
        if e.get('Test') and e.get('Action')=='pass': p.add(e['Package']+'::'+e['Test'])
    return p
a,b=res(sys.argv[1]),res(sys.argv[2])
lost=sorted(a-b)
print("passing at the pinned commit: %d, now: %d, lost: %d"%(len(a),len(b),len(lost)))
for t in lost: print("  NOT PASSING NOW:",t)
sys.exit(1 if lost else 0)
PY
