#!/usr/bin/env python3
"""Sensitivity sweep: apply syntactic mutants of /repo (from tools/mutgen) one at a time through
`go -overlay` (never touching /repo) and run the quick checks against each.

usage: mutsweep.py <muts.jsonl> <outdir> [--workers N] [--limit N] [--seed N] [--only-file substr]

Per mutant: build; the checks anchored in the mutated file, cheapest first, until one reports a
violation ("killed by Cxx"); otherwise the pinned test suite (a mutant that fails a pinned test is
not a change "passing the existing tests": "killed by tests"); otherwise every remaining check;
a mutant that survives all of that is a SURVIVOR and must be reviewed by hand (equivalent, outside
every property, or a gap in a check). Results: <outdir>/results.jsonl (one line per mutant).
"""
import concurrent.futures as cf
import json, os, random, shutil, subprocess, sys, time

ROOT = "/verif"
ENV = dict(os.environ, GOFLAGS="-mod=mod", GOPROXY="off", GOSUMDB="off", GOTOOLCHAIN="local")
COST = {"C01": 20, "C02": 9, "C03": 63, "C04": 10, "C05": 15, "C06": 11, "C07": 6, "C08": 6, "C09": 10, "C10": 9,
        "C11": 8, "C12": 22, "C13": 64, "C14": 30, "C15": 19, "C16": 7, "C17": 10, "C18": 6, "C19": 13, "C20": 3}
ALL = sorted(COST, key=lambda c: COST[c])
REL = {
    "diam/avp.go": "C04 C02 C01 C20 C03", "diam/message.go": "C20 C04 C02 C05 C07 C16 C06 C01 C19 C03",
    "diam/group.go": "C04 C02 C06 C01 C03", "diam/header.go": "C02 C01 C05 C03", "diam/uintconv.go": "C02 C01 C04",
    "diam/reflect.go": "C18 C02 C03", "diam/server.go": "C08 C07 C09 C05 C16 C15 C14 C10",
    "diam/client.go": "C08 C15 C12 C14", "diam/network.go": "C08 C19 C15 C12", "diam/network_sctp.go": "C19 C16 C08",
    "diam/pretty_dump.go": "C03", "diam/sm/": "C16 C11 C10 C12 C14 C13", "diam/sm/smparser/": "C11 C12 C13 C10",
    "diam/sm/smpeer/": "C11 C10 C12", "diam/dict/": "C17 C09 C18 C02 C01 C11", "diam/datatype/": "C02 C04 C17 C06 C18 C01 C03",
}


def relevant(f):
    best = ""
    for k in REL:
        if f.startswith(k) and len(k) > len(best):
            best = k
    return REL[best].split() if best else []


BASE = json.load(open("/root/.vp/BASELINE.json"))["stable_pass"]


def run_check(cid, ov, work):
    env = dict(ENV, VERIF_OVERLAY=ov, VERIF_WORKROOT=work, VERIF_SHRINKTIME="1s", VERIF_SEED="1")
    try:
        p = subprocess.run(["./check.py", cid, "quick"], cwd=ROOT, env=env, stdout=subprocess.PIPE, stderr=subprocess.STDOUT,
                           text=True, timeout=1200)
    except subprocess.TimeoutExpired:
        return 2, "timeout"
    sig = ""
    for line in p.stdout.splitlines():
        if line.startswith("  ["):
            sig = line.strip()[:160]
            break
        if line.startswith("INCONCLUSIVE") or line.startswith("BUILD-ERROR"):
            sig = line[:160]
    return p.returncode, sig


def pinned_tests(ov):
    p = subprocess.run(["go", "test", "-overlay", ov, "-json", "-vet=off", "-count=1", "-timeout", "10m",
                        "github.com/fiorix/go-diameter/v4/diam/..."], cwd=ROOT, env=ENV, stdout=subprocess.PIPE,
                       stderr=subprocess.DEVNULL, text=True, errors="replace")
    passed = set()
    for l in p.stdout.splitlines():
        try:
            e = json.loads(l)
        except Exception:
            continue
        if e.get("Action") == "pass" and e.get("Test"):
            passed.add(e["Package"] + "::" + e["Test"])
    return [t for t in BASE if t not in passed]


def one(idx, m, outdir):
    d = os.path.join(outdir, "m%05d" % idx)
    shutil.rmtree(d, ignore_errors=True)
    os.makedirs(d)
    src = open(os.path.join("/repo", m["file"]), "rb").read()
    new = src[:m["start"]] + m["new"].encode() + src[m["end"]:]
    dst = os.path.join(d, m["file"].replace("/", "_"))
    open(dst, "wb").write(new)
    ov = os.path.join(d, "overlay.json")
    json.dump({"Replace": {os.path.join("/repo", m["file"]): dst}}, open(ov, "w"))
    res = dict(m, idx=idx, ran=[])
    t0 = time.time()
    try:
        b = subprocess.run(["go", "build", "-overlay", ov, "github.com/fiorix/go-diameter/v4/diam/..."], cwd=ROOT, env=ENV,
                           stdout=subprocess.PIPE, stderr=subprocess.STDOUT, text=True)
        if b.returncode != 0:
            res["status"] = "nobuild"
            return res
        rel = relevant(m["file"])
        for c in rel:
            rc, sig = run_check(c, ov, os.path.join(d, "work"))
            res["ran"].append([c, rc, sig])
            if rc == 1:
                res["status"] = "killed"; res["by"] = c
                return res
        missing = pinned_tests(ov)
        if missing:
            res["status"] = "killed-by-tests"; res["missing"] = missing[:3]
            return res
        for c in (ALL if os.environ.get("MUTSWEEP_ALL") else []):
            if c in rel:
                continue
            rc, sig = run_check(c, ov, os.path.join(d, "work"))
            res["ran"].append([c, rc, sig])
            if rc == 1:
                res["status"] = "killed"; res["by"] = c; res["late"] = True
                return res
        res["status"] = "SURVIVOR"
        return res
    finally:
        res["secs"] = round(time.time() - t0, 1)
        shutil.rmtree(d, ignore_errors=True)


def main():
    a = sys.argv[1:]
    mfile, outdir = a[0], a[1]
    opt = {"--workers": 6, "--limit": 10 ** 9, "--seed": 1, "--only-file": ""}
    for i in range(2, len(a), 2):
        opt[a[i]] = type(opt[a[i]])(a[i + 1])
    muts = [json.loads(l) for l in open(mfile)]
    muts = [m for m in muts if opt["--only-file"] in m["file"]]
    # rendering helpers are outside every property except "does not panic" (C03)
    muts = [m for m in muts if "pretty_dump" not in m["file"] and not m["func"].endswith("String") and m["func"] not in ("indentTabs",)]
    random.Random(opt["--seed"]).shuffle(muts)
    os.makedirs(outdir, exist_ok=True)
    done = set()
    rp = os.path.join(outdir, "results.jsonl")
    if os.path.exists(rp):
        for l in open(rp):
            r = json.loads(l)
            done.add((r["file"], r["start"], r["end"], r["new"]))
    todo = [m for m in muts if (m["file"], m["start"], m["end"], m["new"]) not in done][:opt["--limit"]]
    print("mutants: %d to do (%d done before)" % (len(todo), len(done)), flush=True)
    with cf.ThreadPoolExecutor(opt["--workers"]) as ex, open(rp, "a") as out:
        futs = [ex.submit(one, i, m, outdir) for i, m in enumerate(todo)]
        for f in cf.as_completed(futs):
            r = f.result()
            out.write(json.dumps(r) + "\n"); out.flush()
            if r["status"] in ("SURVIVOR",) or any(x[1] == 2 for x in r["ran"]):
                print(r["status"], r["file"], r["line"], r["kind"], repr(r["old"][:60]), "->", repr(r["new"]),
                      [x for x in r["ran"] if x[1] == 2], flush=True)


if __name__ == "__main__":
    main()
