#!/bin/bash
# round >= 7: like seed_prep2.sh, and _AVOID.txt also lists which files the earlier changes for this property touched
set -eu
id=$1; suf=${2:-r7}
wt=$(/verif/tools/seed_prep2.sh $id $suf | tail -1)
python3 - "$id" "$wt" <<'PY'
import glob,os,re,sys,collections
pid,wt=sys.argv[1],sys.argv[2]
cnt=collections.Counter()
for d in glob.glob('/verif/seeded/%s-*'%pid):
    p=os.path.join(d,'patch.diff')
    if os.path.exists(p):
        for f in set(re.findall(r'^\+\+\+ b/(\S+)',open(p).read(),re.M)):
            cnt[f]+=1
with open(os.path.join(wt,'_AVOID.txt'),'a') as f:
    f.write("\nFiles the earlier changes for this property touched (number of changes): "+", ".join("%s (%d)"%(k,v) for k,v in cnt.most_common())+"\nA change in a file (or a function) that is not on this list, but that the property's behaviour still depends on, is worth more than another change in the most visited ones.\n")
PY
echo $wt
