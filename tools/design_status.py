#!/usr/bin/env python3
"""Rewrites section 7.5 of DESIGN.md (what each check runs, measured) from evidence/*.json."""
import glob, json, os
rows = []
for f in sorted(glob.glob('/verif/evidence/C*.json')):
    e = json.load(open(f))
    cov = e['coverage']
    for name, t in sorted(cov.get('tests', {}).items()):
        rows.append((e['property_id'], e['tier'], name, t['evaluations'], t['distinct_nontrivial'], 'yes' if t.get('exhaustive') else '', t.get('excluded_known_finding_cases', 0)))
    for fz in cov.get('native_fuzz', []) or []:
        rows.append((e['property_id'], e['tier'], 'native fuzz ' + fz['target'], fz['execs'], fz['new_interesting_inputs'], '', 0))
txt = ["### 7.5 What each check ran in its last recorded run (from evidence/*.json)",
       "",
       "Counts are measured by the run (evaluations = cases executed; distinct non-trivial = size of the",
       "set of distinct case hashes satisfying the property's non-triviality rule, or the enumeration",
       "size for exhaustive sub-domains). The thorough tier multiplies the random case counts by",
       "`VERIF_THOROUGH_SCALE` (default 4) x the design's thorough/quick ratio, shards them over 16",
       "processes, enumerates the larger exhaustive sub-domains and adds native fuzzing for C01, C03, C04",
       "and a `-race` pass for C06-C08, C14, C15, C19.",
       "",
       "| property | tier | test / generator | evaluations | distinct non-trivial | exhaustive |",
       "|---|---|---|---|---|---|"]
for r in rows:
    txt.append("| %s | %s | %s | %d | %d | %s |" % r[:6])
txt.append("")
block = "\n".join(txt)
p = '/verif/DESIGN.md'
s = open(p).read()
start = s.find("### 7.5 What each check ran")
if start >= 0:
    end = s.find("\n### 7.6", start)
    s = s[:start] + block + (s[end + 1:] if end >= 0 else "")
else:
    s = s.rstrip("\n") + "\n\n" + block
open(p, 'w').write(s)
print(len(rows), "rows")
