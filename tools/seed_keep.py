#!/usr/bin/env python3
"""usage: seed_keep.py <name> <property> <srcdir> <demo pkg dir> <needs> <detected_by> <ran>
Copies a verified seeded change into /verif/seeded/<name>/ and writes meta.json."""
import json, os, shutil, sys, glob
name, prop, src, demodir, needs, detected, ran = sys.argv[1:8]
dst = os.path.join("/verif/seeded", name)
os.makedirs(dst, exist_ok=True)
shutil.copy(os.path.join(src, "patch.diff"), dst)
for f in glob.glob(os.path.join(src, "*_test.go")) + glob.glob(os.path.join(src, "README.md")) + glob.glob(os.path.join(src, "*.go")):
    shutil.copy(f, dst)
# demo files must not be compiled as part of /verif: rename *_test.go -> *_test.go.txt
for f in glob.glob(os.path.join(dst, "*.go")):
    os.rename(f, f + ".txt")
meta = {"breaks_property": prop, "needs_to_manifest": needs, "demo_package_dir": demodir,
        "verified": ran, "detected_by": detected,
        "how_to_run": "tools/seed_eval.sh %s /verif/seeded/%s %s   (rename the .go.txt demo back to .go first)" % (prop, name, demodir)}
json.dump(meta, open(os.path.join(dst, "meta.json"), "w"), indent=1)
print("kept", dst)
