#!/bin/bash
# usage: trial.sh <Cxx> <file> <old> <new> [...]  -> runs the quick check against the mutant
id=$1; shift
ov=$(/verif/tools/overlay.py "$@") || { echo "$ov"; exit 3; }
cd /verif && VERIF_OVERLAY=$ov VERIF_SHRINKTIME=${VERIF_SHRINKTIME:-3s} ./check.py $id ${TIER:-quick} 2>&1 | grep -v '^KNOWN-FINDING' | cut -c1-300 | tail -${LINES_OUT:-4}
rm -rf "$(dirname $ov)"
