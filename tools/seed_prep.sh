#!/bin/bash
# usage: seed_prep.sh <Cxx> [suffix]  -> creates a scratch worktree /tmp/seed/<Cxx><suffix> with the property text
set -eu
id=$1; suf=${2:-}
wt=/tmp/seed/$id$suf
git -C /repo worktree add --detach "$wt" HEAD >/dev/null 2>&1
python3 - "$id" "$wt" <<'PY'
import json,sys
pid,wt=sys.argv[1],sys.argv[2]
for l in open('/verif/properties.jsonl'):
    p=json.loads(l)
    if p['id']==pid:
        open(wt+'/_PROPERTY.txt','w').write("%s - %s\n\nStatement: %s\n\nQuantifier: %s\n\nAnchor files: %s\n"%(p['id'],p['title'],p['statement'],p['quantifier']['text'],", ".join(p['anchors']['files'])))
PY
mkdir -p "$wt/_out"
echo "$wt"
