#!/usr/bin/env python3
"""Build a `go test -overlay` file that replaces one /repo source file by a
mutated copy (the mutation is a literal old->new replacement), without
touching /repo. Prints the path of the overlay JSON.

usage: overlay.py <file relative to /repo> <old> <new> [<file> <old> <new> ...]
"""
import json, os, sys, tempfile
args = sys.argv[1:]
d = tempfile.mkdtemp(prefix="verif-ov-")
rep = {}
srcs = {}
for i in range(0, len(args), 3):
    rel, old, new = args[i:i + 3]
    src = os.path.join("/repo", rel)
    text = srcs.get(src) or open(src).read()
    if old not in text:
        sys.exit("pattern not found in %s: %r" % (rel, old))
    text = text.replace(old, new, 1)
    srcs[src] = text
for src, text in srcs.items():
    dst = os.path.join(d, src.strip("/").replace("/", "_"))
    open(dst, "w").write(text)
    rep[src] = dst
ov = os.path.join(d, "overlay.json")
json.dump({"Replace": rep}, open(ov, "w"))
print(ov)
