#!/usr/bin/env python3
"""Rewrites section 7.4 of DESIGN.md (which checks catch which seeded changes) from seeded/*/meta.json."""
import glob, json, os, re
rows = []
for d in sorted(glob.glob('/verif/seeded/*')):
    mp = os.path.join(d, 'meta.json')
    if not os.path.exists(mp):
        continue
    m = json.load(open(mp))
    rows.append((os.path.basename(d), m['breaks_property'], m['needs_to_manifest'], m['detected_by']))
missed_first = sum(1 for r in rows if 'after this seed was missed' in r[3])
txt = ["### 7.4 Seeded changes: which checks catch which changes",
       "",
       "Fresh sub-agents were given only the text of one property and a scratch worktree of `/repo`",
       "(nothing from `/verif`) and asked for changes that break the property, still compile and pass the",
       "pinned suite, and need something specific to manifest; from the second round on they were also",
       "told which ideas had been used before (fifteen rounds, two changes per property and round). Every change below was confirmed with `tools/seed_eval.sh`",
       "in a scratch worktree (patch applies, 140/140 baseline tests pass with it, its demonstration fails",
       "with and passes without it) before it was kept under `/verif/seeded/<name>/` (patch.diff, the",
       "demonstration renamed to `*.go.txt`, README.md, meta.json). The checks were run against each",
       "change through a `go -overlay` built from the patched worktree while other agents were working in",
       "the sandbox; `git -C /repo apply` / `checkout` gives the same result.",
       "",
       "%d changes kept; %d of them were **missed by the checks as first built** and led to the" % (len(rows), missed_first),
       "strengthening named in the last column (the generator or scenario that was missing, never a",
       "loosened oracle). All are detected now.",
       "",
       "| seeded change | property | needs, to manifest | detected by |",
       "|---|---|---|---|"]
for r in rows:
    txt.append("| `%s` | %s | %s | %s |" % (r[0], r[1], r[2].replace('|', '/'), r[3].replace('|', '/')))
txt += ["",
        "Discarded: one C13 seed (DWA identifier copies removed from `sm/dwr.go`) became an equivalent",
        "mutant once `Message.Answer` had been repaired to keep zero identifiers (fix for C16).",
        "One round-3 seed for C02 was the same change as `C07-E-retry-resumes-at-cumulative-offset`; two",
        "round-4 seeds (for C01 and C02: Marshal takes the V flag from the dictionary's must list) repeat",
        "`C18-D-v-flag-from-must-list` and are detected by C18 as that one is. Two round-4 seeds for C09 were",
        "written against `ServeMux.ServeDIAM` as it was before fix `dda5ec7` and were ported by hand.",
        "",
        "Two round-5 seeds were exact repeats (of `C15-D` and `C19-C`), three round-6 seeds too (of `C06-A`,",
        "`C05-A` and `C12-F`: sub-agents working on different properties converge on the same edit). Two seeds were written against code",
        "that a later `fix:` commit restructured (`C07-J`, both C09 seeds of round 4) and were ported by hand.",
        "Three round-7 seeds repeated earlier ideas and were not kept a second time: the reader that stops once the",
        "close notifier has seen the end of input came twice in that round (kept once, as a C14 seed), `Conn.Close`",
        "waiting for the write lock repeats `C14-H`, and the Time era offset derived from its comment repeats",
        "`C01-C` / `C02-F`; the checks that catch the kept ones catch these too.",
        "Eight round-8 seeds repeated kept ones (sub-agents that see only their own property's list converge on",
        "edits already filed under another property): pooled write buffers of finished connections (`C07`, round 7),",
        "the pooled buffer released before the write (`C07-F`, twice), the DWA acknowledgement that blocks the reader",
        "(round 7), the any-vendor fallback of the code lookup (round 7), WriteTimeout routing stream writes through",
        "Write (`C16-E`), supported applications de-duplicated by id (round 7), and group members decoded in the",
        "group's application (seeded for C02 and for C20 in the same round, kept once). All are detected.",
        "In round 9 the sub-agents also got the names of the ideas filed under OTHER properties; one pair was still the",
        "same change (WriteToStream storing its target stream in the message, seeded for C16 and C19, kept once), and two",
        "seeds repeat the arguable ones above (2xxx Result-Codes as success; failure-coded DWAs without the E bit as",
        "acknowledgements) and are not counted.",
        "Round 10: two pairs were the same change seeded for two properties (undefined AVPs with the M bit refused: C01 / C17;",
        "error answers decoded in the base application: C01 / C04), each kept once; not counted: the truncated-body report again",
        "(C05) and a change that reorders the definitions of ONE document (C17: the statement orders loads, not the elements of a load).",
        "Round 11: not counted - a local Close that closes the CloseNotify channel a moment before the transport (C14).",
        "Round 12: one pair was the same change seeded for two properties (Address.Padding computed as 4 - Len%4: C01 / C02), kept once; nothing was set aside as arguable.",
        "Round 13: two pairs were the same change (the Address decoder looking at the low octet of the family: C01 / C02; a blocking send in ServeMux.Error: C09 / C15), each kept once; 13 of the 38 kept changes are filed under the property whose check sees them rather than the one they were seeded for.",
        "Round 14: five changes repeated, through another property's door, ideas already filed elsewhere (the all-zero Time payload, UTF8String length in characters, `Handle` upper-casing names, IPv6 brackets stripped only with a zone, the route cache not reset by `HandleIdx`) and one reverts fix `dda5ec7`; they are kept under the property they were seeded for, because what mattered was whether THAT property's check sees them. From round 15 on the sub-agents also get the names of all ideas filed under other properties.",
        "Round 15: one change undoes fix `9f04de7` (group members serialised through buffers of their own); nothing was set aside as arguable, one scenario is (C08: a handler blocked inside `Load` of the live dictionary, which the library documents as unsupported).",
        "",
        "Not counted as violations, because the property does not decide the point (the checks stay",
        "silent on them, by design): a client that treats every 2xxx Result-Code in the CEA as success (C12",
        "says \"success CEA\" / \"failed result code\"; 2002 is neither clearly); a client that, after one",
        "reported failure-coded DWA, takes further failure-coded DWAs as acknowledgements (C13 speaks of",
        "success answers and of unanswered requests only - section 7.2); a client-role state machine that",
        "processes a CER sent by the peer with a non-zero header application id and then runs handlers",
        "(an exchange did succeed on that connection, in the other direction).",
        "",
        "Not counted as a violation, and therefore neither kept nor chased: a round-3 seed for C15 that",
        "suppresses the error report for a message whose *body is cut short by the peer's FIN* (`%w` in",
        "`readBody` plus an `errors.Is(err, io.ErrUnexpectedEOF)` filter in `conn.serve`). C15 asks for a",
        "report \"for undecodable input\" and lists \"malformed message\" and \"abrupt disconnect\" as separate",
        "faults; the check reads a message truncated by a disconnect as the latter (the unchanged code",
        "itself reports a truncated body but not a truncated header), so it requires the close and the",
        "isolation there but not a report. Requiring the report would also flag the unchanged tree for",
        "truncated headers, i.e. demand more than the property states.",
        "",
        "Seeds whose sub-agent was given another property than the one its change breaks are filed under",
        "the property whose clause is broken or whose check sees them (`C06-E`, `C07-E`, `C16-G`, and several of rounds 5 to 11: the 'needs' column says so); the check of the property they",
        "were written for does not, and need not, see them.",
        ""]
block = "\n".join(txt)
p = '/verif/DESIGN.md'
s = open(p).read()
start = s.find("### 7.4 Seeded changes")
if start >= 0:
    end = s.find("\n### 7.5", start)
    s = s[:start] + block + (s[end + 1:] if end >= 0 else "")
else:
    s = s.rstrip("\n") + "\n\n" + block
open(p, 'w').write(s)
print(len(rows), "rows;", missed_first, "missed at first")
