#!/bin/bash
# usage: run_all.sh <tier> [seeds...]   - runs every check, prints one line per check
tier=${1:-quick}; shift; seeds=${*:-1}
cd /verif
for s in $seeds; do
  for i in $(seq -w 1 20); do
    id=C$i
    t0=$(date +%s.%N)
    out=$(VERIF_SEED=$s ./check.py $id $tier 2>&1); rc=$?
    t1=$(date +%s.%N)
    printf "%s seed=%s rc=%d %.1fs  %s\n" $id $s $rc $(echo "$t1 - $t0" | bc) "$(echo "$out" | grep -E "^(VIOLATION|INCONCLUSIVE|BUILD)" | head -2 | tr '\n' ' ' | cut -c1-200)"
  done
done
