#!/bin/bash
# usage: seed_eval2.sh <Cxx> <dir with patch.diff + demo> [extra check ids...]
# Like seed_eval.sh but detects the demo's package directory and build tag itself and prints ONE
# summary line; the full log goes to /tmp/seedlogs/<name>.log
set -u
export GOFLAGS=-mod=mod GOPROXY=off GOSUMDB=off GOTOOLCHAIN=local
id=$1; src=$2; shift 2; checks="$id $*"
name=$(echo $src | sed 's#/tmp/seed/##; s#/_out/#-#; s#/#_#g')
mkdir -p /tmp/seedlogs; log=/tmp/seedlogs/$name.log; : > $log
demo=$(ls $src/*_test.go 2>/dev/null | head -1)
pkg=$(grep -m1 '^package ' "$demo" | awk '{print $2}' | sed 's/_test$//')
case "$pkg" in diam) d=diam;; sm) d=diam/sm;; dict) d=diam/dict;; smparser) d=diam/sm/smparser;; smpeer) d=diam/sm/smpeer;; datatype) d=diam/datatype;; diamtest) d=diam/diamtest;; *) d=diam;; esac
d=${DEMO_DIR:-$d}
tags=""; grep -q 'go:build verif' $src/*_test.go 2>/dev/null && tags="-tags verif"
wt=$(mktemp -d /tmp/seedv.XXXXXX); rmdir $wt
git -C /repo worktree add --detach $wt HEAD >>$log 2>&1 || { echo "$name: cannot create worktree"; exit 3; }
cleanup() { git -C /repo worktree remove --force $wt >/dev/null 2>&1; rm -rf $wt /tmp/seedv-ov.$$; }
trap cleanup EXIT
cd $wt
if ! git apply --check $src/patch.diff >>$log 2>&1; then echo "$name: PATCH DOES NOT APPLY"; exit 3; fi
git apply $src/patch.diff
if ! go build ./... >>$log 2>&1; then echo "$name: DOES NOT BUILD"; exit 3; fi
go test -json -vet=off -count=1 -timeout 20m ./... 2>/dev/null > /tmp/seedv-tests.$$.json
base=$(python3 - /tmp/seedv-tests.$$.json <<'PY'
import json,sys
base=json.load(open('/root/.vp/BASELINE.json'))['stable_pass']
passed=set()
for l in open(sys.argv[1],errors='replace'):
    try: e=json.loads(l)
    except Exception: continue
    if e.get('Action')=='pass' and e.get('Test'): passed.add(e['Package']+'::'+e['Test'])
missing=[t for t in base if t not in passed]
print("%d/%d"%(len(base)-len(missing),len(base)))
PY
)
rm -f /tmp/seedv-tests.$$.json
mkdir -p $wt/$d; cp $src/*_test.go $wt/$d/
names=$(grep -ho 'func Test[A-Za-z0-9_]*' $src/*_test.go | sed 's/func //' | paste -sd'|')
(cd $wt/$d && go test $tags -vet=off -count=1 -run "^($names)\$" . ) >>$log 2>&1; with=$?
git apply -R $src/patch.diff
(cd $wt/$d && go test $tags -vet=off -count=1 -run "^($names)\$" . ) >>$log 2>&1; without=$?
git apply $src/patch.diff
mkdir -p /tmp/seedv-ov.$$
python3 - $wt /tmp/seedv-ov.$$ <<'PY' >>$log
import json,os,subprocess,sys,shutil
wt,ov=sys.argv[1],sys.argv[2]
files=subprocess.run(["git","-C",wt,"diff","--name-only"],stdout=subprocess.PIPE,text=True).stdout.split()
rep={}
for f in files:
    if f.endswith("_test.go"): continue
    dst=os.path.join(ov,f.replace("/","_"))
    shutil.copy(os.path.join(wt,f),dst)
    rep["/repo/"+f]=dst
json.dump({"Replace":rep},open(os.path.join(ov,"overlay.json"),"w"))
print("overlay files:",list(rep))
PY
cd /verif
res=""
for c in $checks; do
  echo "=== ./check.py $c quick against the change" >>$log
  VERIF_WORKROOT=/tmp/seedv-ov.$$/work VERIF_OVERLAY=/tmp/seedv-ov.$$/overlay.json VERIF_SHRINKTIME=${VERIF_SHRINKTIME:-5s} ./check.py $c quick >>$log 2>&1; rc=$?
  sig=$(grep -o '^  \[[^]]*\]' $log | tail -1 | tr -d ' ')
  res="$res $c=exit$rc$sig"
done
echo "$name: baseline $base; demo with=$with without=$without (dir $d $tags);$res"
