#!/bin/bash
# usage: seed_eval.sh <Cxx> <dir with patch.diff + demo> [demo target dir relative to repo root] [check ids...]
# 1. verifies the seeded change in a scratch worktree: patch applies, existing baseline tests pass,
#    demo fails with the change and passes without;
# 2. runs the quick check(s) against the change through a go -overlay (no write to /repo).
set -u
export GOFLAGS=-mod=mod GOPROXY=off GOSUMDB=off GOTOOLCHAIN=local
id=$1; src=$2; demodir=${3:-diam}; shift 3 2>/dev/null; checks=${*:-$id}
wt=$(mktemp -d /tmp/seedv.XXXXXX); rmdir $wt
git -C /repo worktree add --detach $wt HEAD >/dev/null 2>&1 || { echo "cannot create worktree"; exit 3; }
cleanup() { git -C /repo worktree remove --force $wt >/dev/null 2>&1; rm -rf $wt /tmp/seedv-ov.$$; }
trap cleanup EXIT
cd $wt
git apply --check $src/patch.diff || { echo "PATCH DOES NOT APPLY"; exit 3; }
git apply $src/patch.diff
go build ./... || { echo "DOES NOT BUILD"; exit 3; }
# existing tests (baseline comparison)
go test -json -vet=off -count=1 -timeout 20m ./... 2>/dev/null > /tmp/seedv-tests.$$.json
python3 - /tmp/seedv-tests.$$.json <<'PY'
import json,sys
base=json.load(open('/root/.vp/BASELINE.json'))['stable_pass']
passed=set()
for l in open(sys.argv[1],errors='replace'):
    try: e=json.loads(l)
    except Exception: continue
    if e.get('Action')=='pass' and e.get('Test'): passed.add(e['Package']+'::'+e['Test'])
missing=[t for t in base if t not in passed]
print("EXISTING TESTS with change: %d/%d pass"%(len(base)-len(missing),len(base)))
for t in missing: print("   NOT PASSING:",t)
PY
rm -f /tmp/seedv-tests.$$.json
# demo
demos=$(ls $src/*_test.go 2>/dev/null)
if [ -n "$demos" ]; then
  cp $demos $wt/$demodir/
  names=$(grep -ho 'func Test[A-Za-z0-9_]*' $demos | sed 's/func //' | paste -sd'|')
  echo "--- demo WITH change (expect FAIL):"; (cd $wt/$demodir && go test -vet=off -count=1 -run "^($names)\$" . 2>&1 | tail -4)
  git apply -R $src/patch.diff
  echo "--- demo WITHOUT change (expect ok):"; (cd $wt/$demodir && go test -vet=off -count=1 -run "^($names)\$" . 2>&1 | tail -3)
  git apply $src/patch.diff
else
  echo "(no *_test.go demo found in $src)"
fi
# overlay for the checks
mkdir -p /tmp/seedv-ov.$$
python3 - $wt /tmp/seedv-ov.$$ <<'PY'
import json,os,subprocess,sys,shutil
wt,ov=sys.argv[1],sys.argv[2]
files=subprocess.run(["git","-C",wt,"diff","--name-only"],stdout=subprocess.PIPE,text=True).stdout.split()
rep={}
for f in files:
    if f.endswith("_test.go"): continue
    dst=os.path.join(ov,f.replace("/","_"))
    shutil.copy(os.path.join(wt,f),dst)
    rep["/repo/"+f]=dst
json.dump({"Replace":rep},open(os.path.join(ov,"overlay.json"),"w"))
print("overlay files:",list(rep))
PY
cd /verif
for c in $checks; do
  echo "=== ./check.py $c quick against the change"
  VERIF_OVERLAY=/tmp/seedv-ov.$$/overlay.json VERIF_SHRINKTIME=${VERIF_SHRINKTIME:-5s} ./check.py $c quick 2>&1 | grep -v "^KNOWN-FINDING" | cut -c1-400 | tail -${LINES_OUT:-6}
  echo "exit=${PIPESTATUS[0]}"
done
