package c13

import (
	"fmt"
	"sync"
	"testing"
	"time"

	"github.com/fiorix/go-diameter/v4/diam"
	"github.com/fiorix/go-diameter/v4/diam/datatype"
	"github.com/fiorix/go-diameter/v4/diam/sm"

	"verif/internal/ev"
	"verif/internal/memnet"
	"verif/internal/refcodec"
)

// One transport write of a watchdog request fails with a temporary error (nothing leaves); the
// connection stays usable. What the client does with that round is its business - retransmit,
// skip the round, or give the connection up - but the watchdog must not silently stop: either the
// connection is closed, or watchdog requests go on, and then a peer that falls silent later is
// still detected and closed.

type WriteFailCase struct {
	MaxRetransmits int `json:"max_retransmits"`
	FailAt         int `json:"fail_at"`      // the write of the n-th transmission of a DWR (1-based, counted over all DWR writes) fails
	AnswerAfter    int `json:"answer_after"` // fresh DWRs answered after the failure before the peer falls silent
}

func runWriteFail(c WriteFailCase) *ev.Failure {
	const w, r = 30 * time.Millisecond, 40 * time.Millisecond
	mc := memnet.NewConn()
	machine := sm.New(&sm.Settings{OriginHost: host, OriginRealm: realm, VendorID: 13, ProductName: "verif",
		HostIPAddresses: []datatype.Address{datatype.Address([]byte{10, 0, 0, 9})}})
	stop := make(chan struct{})
	defer close(stop)
	go func() {
		for {
			select {
			case <-machine.ErrorReports():
			case <-stop:
				return
			}
		}
	}()
	cli := &sm.Client{Handler: machine, MaxRetransmits: uint(c.MaxRetransmits), RetransmitInterval: r, EnableWatchdog: true, WatchdogInterval: w,
		AuthApplicationID: []*diam.AVP{diam.NewAVP(258, 0x40, 0, datatype.Unsigned32(4))}}
	var mu sync.Mutex
	writes, afterFail, answered := 0, 0, 0
	failed := false
	var lastID uint32
	silentTx := 0 // transmissions seen once the peer has fallen silent
	event := make(chan struct{}, 64)
	mc.WriteHook = func(b []byte, accept func([]byte)) (int, error) {
		h, err := refcodec.DecodeHeader(b)
		if err != nil {
			accept(b)
			return len(b), nil
		}
		switch {
		case h.Code == 257 && h.Flags&0x80 != 0:
			accept(b)
			mc.Feed(ceaFor(h))
			mc.WaitParked(2 * time.Second)
		case h.Code == 280 && h.Flags&0x80 != 0:
			mu.Lock()
			writes++
			if writes == c.FailAt && !failed {
				failed = true
				mu.Unlock()
				select {
				case event <- struct{}{}:
				default:
				}
				return 0, &memnet.TempError{Msg: "scripted temporary write error"}
			}
			fresh := h.HopByHop != lastID
			lastID = h.HopByHop
			answer := !failed
			if failed {
				if fresh {
					afterFail++
				}
				answer = afterFail <= c.AnswerAfter
				if !answer {
					silentTx++
				}
			}
			if answer {
				answered++
			}
			mu.Unlock()
			accept(b)
			if answer {
				mc.Feed(dwaFor(h, false))
				mc.WaitParked(2 * time.Second)
			}
			select {
			case event <- struct{}{}:
			default:
			}
		default:
			accept(b)
		}
		return len(b), nil
	}
	if _, err := cli.NewConn(mc, "peer"); err != nil {
		mc.Close()
		return ev.Failf("harness-handshake", "handshake failed: %v", err)
	}
	defer func() { mc.FeedEOF(); mc.WaitClosed(2 * time.Second); mc.Close() }()
	round := w + time.Duration(c.MaxRetransmits+1)*r
	// until the scripted failure
	deadline := time.Now().Add(time.Duration(c.FailAt+1)*round + 3*time.Second)
	for {
		mu.Lock()
		f := failed
		mu.Unlock()
		if f {
			break
		}
		if closed, _ := mc.Closed(); closed {
			return ev.Failf("responsive-peer-closed", "every watchdog request was answered, yet the client closed the connection before DWR write %d", c.FailAt)
		}
		if time.Now().After(deadline) {
			return ev.Failf("watchdog-stopped", "the client made fewer than %d watchdog writes within %v", c.FailAt, time.Until(deadline))
		}
		select {
		case <-event:
		case <-time.After(5 * time.Millisecond):
		}
	}
	// afterwards: the connection is closed, or the watchdog goes on until the silent peer is detected
	deadline = time.Now().Add(time.Duration(c.AnswerAfter+3)*round + 3*time.Second)
	for {
		if closed, _ := mc.Closed(); closed {
			return nil // given up (at the failure, or after the silence): the watchdog did not stop silently
		}
		if time.Now().After(deadline) {
			mu.Lock()
			defer mu.Unlock()
			return ev.Failf("watchdog-stopped-after-write-error", "watchdog write %d failed with a temporary error (nothing was sent); afterwards %d fresh watchdog requests were seen, %d answered, %d transmissions went unanswered - and within %v the connection was neither closed nor probed further: a silent peer would never be detected",
				c.FailAt, afterFail, c.AnswerAfter, silentTx, time.Duration(c.AnswerAfter+3)*round+3*time.Second)
		}
		select {
		case <-event:
		case <-time.After(5 * time.Millisecond):
		}
	}
}

var writeFailProp = ev.Register(&ev.Prop[WriteFailCase]{
	ID: "C13", Name: "watchdog-write-error",
	Rule: "sm.Client with the watchdog (WatchdogInterval 30 ms, RetransmitInterval 40 ms, MaxRetransmits 0..2) over an in-memory transport; the peer answers every DWR; the n-th DWR write (n = 1..3) fails with a temporary error without sending anything; afterwards the peer answers 0..2 further fresh DWRs and then falls silent. " +
		"Demanded: the watchdog does not stop silently - the connection is eventually closed (at the failed write, or after the silence was detected). Upper bounds are several seconds. Every case is non-trivial",
	Run: runWriteFail,
	Classify: func(c WriteFailCase) (bool, []string) {
		return true, []string{fmt.Sprintf("fail-at:%d", c.FailAt), fmt.Sprintf("budget:%d", c.MaxRetransmits+1)}
	},
})

func TestC13WatchdogWriteError(t *testing.T) {
	writeFailProp.Enumerate(t, true, func(yield func(WriteFailCase) bool) {
		for m := 0; m <= 2; m += 2 {
			for _, at := range []int{1, 2, 3} {
				for _, aa := range []int{0, 2} {
					if !yield(WriteFailCase{MaxRetransmits: m, FailAt: at, AnswerAfter: aa}) {
						return
					}
				}
			}
		}
	})
}
