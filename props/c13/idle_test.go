package c13

import (
	"fmt"
	"sync"
	"testing"
	"time"

	"github.com/fiorix/go-diameter/v4/diam"
	"github.com/fiorix/go-diameter/v4/diam/datatype"
	"github.com/fiorix/go-diameter/v4/diam/dict"
	"github.com/fiorix/go-diameter/v4/diam/sm"
	"pgregory.net/rapid"

	"verif/internal/ev"
	"verif/internal/memnet"
	"verif/internal/refcodec"
)

// "A state machine answers every well-formed DWR from a peer that completed the handshake": also
// when the state machine is served by a diam.Server with a WriteTimeout (and no ReadTimeout, or a
// much longer one) and the peer stays quiet for longer than that WriteTimeout before it sends its
// CER or its next DWR. A write timeout bounds a write, not the peer's silence before it.
// The transport is in memory and honours read and write deadlines like a socket does.

type IdleCase struct {
	WriteTimeoutMs int   `json:"write_timeout_ms"`
	ReadTimeoutMs  int   `json:"read_timeout_ms,omitempty"` // 0 = none
	PausesMs       []int `json:"pauses_ms"`                 // silence before the CER, then before each DWR
}

func runIdle(c IdleCase) *ev.Failure {
	machine := sm.New(&sm.Settings{OriginHost: "srv.example", OriginRealm: "srv-realm", VendorID: 13, ProductName: "verif",
		HostIPAddresses: []datatype.Address{datatype.Address([]byte{10, 0, 0, 1})}})
	stop := make(chan struct{})
	defer close(stop)
	var reports []string
	repc := make(chan string, 64)
	go func() {
		for {
			select {
			case r := <-machine.ErrorReports():
				select {
				case repc <- fmt.Sprint(r.Error):
				default:
				}
			case <-machine.HandshakeNotify():
			case <-stop:
				return
			}
		}
	}()
	lis := memnet.NewListener(1)
	srv := &diam.Server{Handler: machine, Dict: dict.Default, WriteTimeout: time.Duration(c.WriteTimeoutMs) * time.Millisecond,
		ReadTimeout: time.Duration(c.ReadTimeoutMs) * time.Millisecond}
	go srv.Serve(lis)
	defer lis.Close()
	mc := memnet.NewConn()
	lis.Push(mc)
	defer func() { mc.FeedEOF(); mc.WaitClosed(2 * time.Second); mc.Close() }()
	diag := func() string {
		for {
			select {
			case r := <-repc:
				reports = append(reports, r)
				continue
			default:
			}
			break
		}
		if len(reports) == 0 {
			return ""
		}
		return fmt.Sprintf("; error reports: %v", reports)
	}
	for i, pause := range c.PausesMs {
		time.Sleep(time.Duration(pause) * time.Millisecond)
		var req []byte
		hbh, e2e := uint32(0x3100+i), uint32(0x3200+i)
		what := fmt.Sprintf("DWR %d", i)
		if i == 0 {
			what = "the CER"
			req = refcodec.EncodeMessage(refcodec.Header{Version: 1, Flags: 0x80, Code: 257, HopByHop: hbh, EndToEnd: e2e},
				[]*refcodec.Node{{Code: 264, Flags: 0x40, Payload: []byte("peer.example")}, {Code: 296, Flags: 0x40, Payload: []byte("example")},
					{Code: 257, Flags: 0x40, Payload: refcodec.Address(1, []byte{10, 0, 0, 2})}, {Code: 266, Flags: 0x40, Payload: refcodec.U32(1)},
					{Code: 269, Payload: []byte("p")}, {Code: 258, Flags: 0x40, Payload: refcodec.U32(4)}}, false)
		} else {
			req = refcodec.EncodeMessage(refcodec.Header{Version: 1, Flags: 0x80, Code: 280, HopByHop: hbh, EndToEnd: e2e},
				[]*refcodec.Node{{Code: 264, Flags: 0x40, Payload: []byte("peer.example")}, {Code: 296, Flags: 0x40, Payload: []byte("example")}}, false)
		}
		if closed, _ := mc.Closed(); closed {
			return ev.Failf("idle:quiet-peer-closed", "the server (WriteTimeout %d ms, ReadTimeout %d ms) closed the connection while the peer was quiet for %d ms before %s%s", c.WriteTimeoutMs, c.ReadTimeoutMs, pause, what, diag())
		}
		before := len(mc.Writes())
		mc.Feed(req)
		if !mc.WaitWrites(before+1, 3*time.Second) {
			return ev.Failf("idle:request-unanswered", "%s, sent after %d ms of silence to a server with WriteTimeout %d ms / ReadTimeout %d ms, got no answer within 3 s%s", what, pause, c.WriteTimeoutMs, c.ReadTimeoutMs, diag())
		}
		ws := mc.Writes()
		if len(ws) <= before {
			closed, _ := mc.Closed()
			return ev.Failf("idle:request-unanswered", "%s, sent after %d ms of silence (WriteTimeout %d ms, ReadTimeout %d ms), got no answer; connection closed: %v%s", what, pause, c.WriteTimeoutMs, c.ReadTimeoutMs, closed, diag())
		}
		w := ws[before]
		if w.Err != nil {
			return ev.Failf("idle:request-unanswered", "the answer to %s, sent after %d ms of silence, failed in the transport: %v (WriteTimeout %d ms bounds the write, not the silence before the request)%s", what, pause, w.Err, c.WriteTimeoutMs, diag())
		}
		h, err := refcodec.DecodeHeader(w.Data)
		if err != nil || h.Flags&0x80 != 0 || h.HopByHop != hbh || h.EndToEnd != e2e || (i == 0) != (h.Code == 257) || (i > 0) != (h.Code == 280) {
			return ev.Failf("idle:wrong-answer", "%s was answered with header %+v (%v)%s", what, h, err, diag())
		}
		recs, err := refcodec.Frame(w.Data[20:])
		if err != nil {
			return ev.Failf("idle:wrong-answer", "the answer to %s does not frame: %v", what, err)
		}
		rc := uint32(0)
		for _, r := range recs {
			if r.Code == 268 && len(r.Payload) == 4 {
				rc = refcodec.Get32(r.Payload)
			}
		}
		if rc != 2001 {
			return ev.Failf("idle:wrong-answer", "%s was answered with Result-Code %d%s", what, rc, diag())
		}
	}
	return nil
}

var idleProp = ev.Register(&ev.Prop[IdleCase]{
	ID: "C13", Name: "idle-peer-of-a-server-with-write-timeout",
	Rule: "a server state machine served by diam.Server with WriteTimeout 20..40 ms and ReadTimeout none or 2 s, over an in-memory connection that honours read and write deadlines; the peer is quiet for 0 or 2..3 x WriteTimeout, sends an acceptable CER, and then 1..3 times stays quiet again and sends a DWR. " +
		"Demanded: the connection is not closed during the silence, and the CER and every DWR get their success answer (written without a transport error, with the request's identifiers). A lower bound only: nothing here is faster than a timeout. non-trivial = some request follows a silence longer than WriteTimeout",
	Gen: func(t *rapid.T) IdleCase {
		c := IdleCase{WriteTimeoutMs: rapid.IntRange(20, 40).Draw(t, "write-timeout-ms")}
		if rapid.Bool().Draw(t, "read-timeout") {
			c.ReadTimeoutMs = 2000
		}
		n := rapid.IntRange(2, 4).Draw(t, "requests")
		for i := 0; i < n; i++ {
			p := 0
			if rapid.IntRange(0, 2).Draw(t, "quiet") != 0 {
				p = c.WriteTimeoutMs * rapid.IntRange(2, 3).Draw(t, "factor")
			}
			c.PausesMs = append(c.PausesMs, p)
		}
		return c
	},
	Run: runIdle,
	Classify: func(c IdleCase) (bool, []string) {
		var cl []string
		nt := false
		for i, p := range c.PausesMs {
			if p > c.WriteTimeoutMs {
				nt = true
				if i == 0 {
					cl = append(cl, "quiet-before-the-cer")
				} else {
					cl = append(cl, "quiet-before-a-dwr")
				}
			}
		}
		if c.ReadTimeoutMs > 0 {
			cl = append(cl, "with-read-timeout")
		}
		seen := map[string]bool{}
		var out []string
		for _, x := range cl {
			if !seen[x] {
				seen[x] = true
				out = append(out, x)
			}
		}
		return nt, out
	},
	Attempts: 2,
})

func TestC13IdlePeer(t *testing.T) { idleProp.Check(t, 25, 600) }

// The documented defaults: a Client that leaves WatchdogInterval (and RetransmitInterval) zero sends
// its watchdog requests every 5 s. Checked as a lower bound only: within the first 300 ms after the
// handshake no DWR may be sent, whichever entry point made the connection.

type DefaultsCase struct {
	RetransmitMs int  `json:"retransmit_ms"` // 0 = left at its default (1 s)
	Retransmits  int  `json:"retransmits"`
	Reuse        bool `json:"reuse"` // the Client value made a connection before (its defaults may have been stored then)
}

func runDefaults(c DefaultsCase) *ev.Failure {
	machine := sm.New(&sm.Settings{OriginHost: host, OriginRealm: realm, VendorID: 13, ProductName: "verif",
		HostIPAddresses: []datatype.Address{datatype.Address([]byte{10, 0, 0, 9})}})
	stop := make(chan struct{})
	defer close(stop)
	go func() {
		for {
			select {
			case <-machine.ErrorReports():
			case <-stop:
				return
			}
		}
	}()
	cli := &sm.Client{Handler: machine, MaxRetransmits: uint(c.Retransmits), RetransmitInterval: time.Duration(c.RetransmitMs) * time.Millisecond,
		EnableWatchdog: true, AuthApplicationID: []*diam.AVP{diam.NewAVP(258, 0x40, 0, datatype.Unsigned32(4))}}
	rounds := 1
	if c.Reuse {
		rounds = 2
	}
	for round := 0; round < rounds; round++ {
		mc := memnet.NewConn()
		var dwrs int32
		var first time.Time
		var mu sync.Mutex
		mc.WriteHook = func(b []byte, accept func([]byte)) (int, error) {
			accept(b)
			h, err := refcodec.DecodeHeader(b)
			if err != nil {
				return len(b), nil
			}
			switch {
			case h.Code == 257 && h.Flags&0x80 != 0:
				mc.Feed(ceaFor(h))
				mc.WaitParked(2 * time.Second)
			case h.Code == 280 && h.Flags&0x80 != 0:
				mu.Lock()
				if dwrs == 0 {
					first = time.Now()
				}
				dwrs++
				mu.Unlock()
				mc.Feed(dwaFor(h, false))
			}
			return len(b), nil
		}
		if _, err := cli.NewConn(mc, "peer"); err != nil {
			mc.Close()
			return ev.Failf("harness-handshake", "handshake failed: %v", err)
		}
		handshook := time.Now()
		time.Sleep(300 * time.Millisecond)
		mu.Lock()
		n, at := dwrs, first
		mu.Unlock()
		mc.FeedEOF()
		mc.WaitClosed(2 * time.Second)
		mc.Close()
		if n > 0 {
			return ev.Failf("defaults:watchdog-too-early", "a Client with WatchdogInterval left at its default (5 s) sent %d watchdog requests within 300 ms of the handshake, the first after %v (connection %d of this Client, made with NewConn)", n, at.Sub(handshook), round+1)
		}
	}
	return nil
}

var defaultsProp = ev.Register(&ev.Prop[DefaultsCase]{
	ID: "C13", Name: "default-intervals",
	Rule: "sm.Client values with EnableWatchdog and WatchdogInterval left zero (documented default 5 s), RetransmitInterval zero (default 1 s) or 50 ms, MaxRetransmits 0..2, connected through Client.NewConn to a peer that answers at once, first or second connection of the Client value. " +
		"Demanded (lower bound only): no DWR within 300 ms of the handshake. Every case is non-trivial",
	Run: runDefaults,
	Classify: func(c DefaultsCase) (bool, []string) {
		return true, []string{fmt.Sprintf("retransmit-ms:%d", c.RetransmitMs)}
	},
})

func TestC13DefaultIntervals(t *testing.T) {
	defaultsProp.Enumerate(t, true, func(yield func(DefaultsCase) bool) {
		for _, r := range []int{0, 50} {
			for _, n := range []int{0, 2} {
				for _, reuse := range []bool{false, true} {
					if !yield(DefaultsCase{RetransmitMs: r, Retransmits: n, Reuse: reuse}) {
						return
					}
				}
			}
		}
	})
}
