// C13 - The watchdog detects a silent peer and spares a responsive one.
package c13

import (
	"bytes"
	"fmt"
	"io"
	"log"
	"sync"
	"sync/atomic"
	"testing"
	"time"

	"github.com/fiorix/go-diameter/v4/diam"
	"github.com/fiorix/go-diameter/v4/diam/avp"
	"github.com/fiorix/go-diameter/v4/diam/datatype"
	"github.com/fiorix/go-diameter/v4/diam/dict"
	"github.com/fiorix/go-diameter/v4/diam/sm"
	"pgregory.net/rapid"

	"verif/internal/ev"
	"verif/internal/memnet"
	"verif/internal/refcodec"
)

func init() { log.SetOutput(io.Discard) }

// Plan for one fresh DWR of the client.
type Plan struct {
	AnswerAt int    `json:"answer_at"`         // answer the j-th transmission (1 = the first); 0 = never
	Failure  bool   `json:"failure,omitempty"` // answer with a failing Result-Code
	Timing   string `json:"timing,omitempty"`  // in-write | after-write | delay
	// Copies > 1: the peer answers that transmission several times in a burst (e.g. it had
	// stalled and now answers every transmission it received); surplus answers must not be
	// taken for answers to later requests.
	Copies int `json:"copies,omitempty"`
}

type Case struct {
	MaxRetransmits int    `json:"max_retransmits"`
	WatchdogMs     int    `json:"watchdog_ms"`
	RetransmitMs   int    `json:"retransmit_ms"`
	StateID        uint32 `json:"state_id,omitempty"`
	// CEAAt > 1: the peer answers only the j-th transmission of the CER, so the handshake takes
	// (j-1) x RetransmitInterval - longer than the WatchdogInterval for most draws. No DWR may be
	// sent before the CEA was delivered.
	CEAAt int `json:"cea_at,omitempty"`
	// PeerDWRs: right after the handshake the peer sends that many watchdog requests of its own;
	// the client's state machine must answer each (it is a state machine like the server's).
	PeerDWRs int    `json:"peer_dwrs,omitempty"`
	Plans    []Plan `json:"plans"` // one per fresh DWR; the case ends after the last one (or when the client gives up)
	// AppTraffic (bit set): application traffic goes on while the watchdog runs, every third of a
	// RetransmitInterval. 1: the peer sends application answers (CCA, success) nobody asked for;
	// 2: the peer sends application requests (RAR) that a handler of the client answers with success;
	// 4: the client application writes requests (CCR) of its own. None of it answers a DWR.
	// 8 (only when every DWR is answered anyway): the peer also sends success DWAs nobody asked for,
	// more often than the WatchdogInterval; the watchdog requests must keep coming.
	AppTraffic int `json:"app_traffic,omitempty"`
	// WatchdogStream: sm.Client.WatchdogStream, the stream watchdog requests are written to on a
	// multi-stream association. On a byte-stream transport (this scenario) it must not matter.
	WatchdogStream uint `json:"watchdog_stream,omitempty"`
}

func (c Case) w() time.Duration { return time.Duration(c.WatchdogMs) * time.Millisecond }
func (c Case) r() time.Duration { return time.Duration(c.RetransmitMs) * time.Millisecond }

// answered reports whether plan p leads to a success acknowledgement within the budget.
func (c Case) answered(p Plan) bool {
	return p.AnswerAt >= 1 && p.AnswerAt <= c.MaxRetransmits+1 && !p.Failure
}

const (
	host  = "wd-client.example"
	realm = "example"
)

func ceaFor(h refcodec.Header) []byte {
	return refcodec.EncodeMessage(refcodec.Header{Version: 1, Code: 257, HopByHop: h.HopByHop, EndToEnd: h.EndToEnd},
		[]*refcodec.Node{{Code: 268, Flags: 0x40, Payload: refcodec.U32(2001)}, {Code: 264, Flags: 0x40, Payload: []byte("srv.example")},
			{Code: 296, Flags: 0x40, Payload: []byte("example")}, {Code: 257, Flags: 0x40, Payload: refcodec.Address(1, []byte{10, 0, 0, 1})},
			{Code: 266, Flags: 0x40, Payload: refcodec.U32(13)}, {Code: 269, Payload: []byte("peer")},
			{Code: 258, Flags: 0x40, Payload: refcodec.U32(4)}}, false)
}

func dwaFor(h refcodec.Header, failure bool) []byte {
	rc := uint32(2001)
	flags := uint8(0)
	if failure {
		rc, flags = 5012, 0x20
	}
	return refcodec.EncodeMessage(refcodec.Header{Version: 1, Flags: flags, Code: 280, HopByHop: h.HopByHop, EndToEnd: h.EndToEnd},
		[]*refcodec.Node{{Code: 268, Flags: 0x40, Payload: refcodec.U32(rc)}, {Code: 264, Flags: 0x40, Payload: []byte("srv.example")},
			{Code: 296, Flags: 0x40, Payload: []byte("example")}}, false)
}

type tx struct {
	data       []byte
	start, end time.Time
}

type result struct {
	fail   *ev.Failure
	timing bool
}

func runOnce(c Case) result {
	mc := memnet.NewConn()
	machine := sm.New(&sm.Settings{OriginHost: host, OriginRealm: realm, VendorID: 13, ProductName: "verif",
		OriginStateID: datatype.Unsigned32(c.StateID), HostIPAddresses: []datatype.Address{datatype.Address([]byte{10, 0, 0, 9})}})
	stop := make(chan struct{})
	defer close(stop)
	go func() {
		for {
			select {
			case <-machine.ErrorReports():
			case <-stop:
				return
			}
		}
	}()
	if c.AppTraffic&2 != 0 {
		machine.HandleFunc("RAR", func(cc diam.Conn, m *diam.Message) { m.Answer(2001).WriteTo(cc) })
	}
	cli := &sm.Client{Handler: machine, MaxRetransmits: uint(c.MaxRetransmits), RetransmitInterval: c.r(),
		EnableWatchdog: true, WatchdogInterval: c.w(), WatchdogStream: c.WatchdogStream,
		AuthApplicationID: []*diam.AVP{diam.NewAVP(avp.AuthApplicationID, avp.Mbit, 0, datatype.Unsigned32(4))}}

	var mu sync.Mutex
	var dwrs [][]tx // per fresh DWR: its transmissions
	var lastID uint32
	haveID := false
	cers, ceaFed, earlyDWR := 0, false, false
	var dwas [][]byte // watchdog answers written by the client
	var pending sync.WaitGroup
	var appWrites int32
	event := make(chan struct{}, 256)
	mc.WriteHook = func(b []byte, accept func([]byte)) (int, error) {
		start := time.Now()
		accept(b)
		h, err := refcodec.DecodeHeader(b)
		if err != nil {
			return len(b), nil
		}
		switch {
		case h.Code == 257 && h.Flags&0x80 != 0:
			mu.Lock()
			cers++
			answer := cers == c.CEAAt || (c.CEAAt <= 1 && cers == 1)
			if answer {
				ceaFed = true
			}
			mu.Unlock()
			if answer {
				// delivered AND dispatched before the client's Write returns: the handshake (whose
				// budget is the same short RetransmitInterval) cannot time out on a loaded machine
				mc.Feed(ceaFor(h))
				mc.WaitParked(2 * time.Second)
			}
		case h.Code == 280 && h.Flags&0x80 == 0:
			mu.Lock()
			dwas = append(dwas, append([]byte{}, b...))
			mu.Unlock()
		case h.Code == 280 && h.Flags&0x80 != 0:
			mu.Lock()
			if !ceaFed {
				earlyDWR = true
			}
			if !haveID || h.HopByHop != lastID {
				dwrs = append(dwrs, nil)
				lastID, haveID = h.HopByHop, true
			}
			d := len(dwrs) - 1
			dwrs[d] = append(dwrs[d], tx{data: append([]byte{}, b...), start: start})
			j := len(dwrs[d])
			var p Plan
			if d < len(c.Plans) {
				p = c.Plans[d]
			}
			mu.Unlock()
			if p.AnswerAt == j {
				ans := dwaFor(h, p.Failure)
				for k := 1; k < p.Copies; k++ {
					ans = append(ans, dwaFor(h, p.Failure)...)
				}
				switch p.Timing {
				case "after-write":
					pending.Add(1)
					go func() { defer pending.Done(); mc.Feed(ans) }()
				case "delay":
					pending.Add(1)
					go func() { defer pending.Done(); time.Sleep(c.r() / 4); mc.Feed(ans) }()
				default:
					// delivered AND dispatched before Write returns, i.e. before the client starts
					// waiting for the answer: the reader parks again only after the handler returned
					mc.Feed(ans)
					mc.WaitParked(2 * time.Second)
				}
			}
			mu.Lock()
			dwrs[d][j-1].end = time.Now()
			mu.Unlock()
			select {
			case event <- struct{}{}:
			default:
			}
		case h.Code == 272 && h.Flags&0x80 != 0:
			// a request of the client application: every fourth one stays inside the transport for two
			// watchdog intervals (a peer that reads slowly) - a watchdog request that comes due meanwhile
			// has to wait for the connection like any other writer
			// (not when a handler of the connection answers requests of the peer: its answers would
			// queue behind the stalled write and keep the reader from the watchdog answers)
			if c.AppTraffic&2 == 0 && atomic.AddInt32(&appWrites, 1)%4 == 0 {
				time.Sleep(2 * c.w())
			}
		}
		return len(b), nil
	}
	type res struct {
		c   diam.Conn
		err error
	}
	done := make(chan res, 1)
	go func() { cc, err := cli.NewConn(mc, "peer"); done <- res{cc, err} }()
	var r0 res
	select {
	case r := <-done:
		r0 = r
		if r.err != nil {
			mc.Close()
			return result{fail: ev.Failf("harness-handshake", "handshake failed: %v", r.err)}
		}
	case <-time.After(5 * time.Second):
		mc.Close()
		return result{fail: ev.Failf("harness-handshake", "NewConn did not return")}
	}
	handshook := time.Now()
	defer func() { mc.FeedEOF(); mc.Close(); pending.Wait() }()
	if c.AppTraffic != 0 {
		trafficStop := make(chan struct{})
		var traffic sync.WaitGroup
		defer func() { close(trafficStop); traffic.Wait() }()
		traffic.Add(1)
		go func(cc diam.Conn) {
			defer traffic.Done()
			period := c.r() / 3
			for i := uint32(0); ; i++ {
				select {
				case <-trafficStop:
					return
				case <-time.After(period):
				}
				if closedNow, _ := mc.Closed(); closedNow {
					return
				}
				if c.AppTraffic&1 != 0 {
					mc.Feed(refcodec.EncodeMessage(refcodec.Header{Version: 1, Code: 272, App: 4, HopByHop: 0x9000 + i, EndToEnd: 0x9100 + i},
						[]*refcodec.Node{{Code: 268, Flags: 0x40, Payload: refcodec.U32(2001)}, {Code: 264, Flags: 0x40, Payload: []byte("srv.example")}, {Code: 296, Flags: 0x40, Payload: []byte("example")}}, false))
				}
				if c.AppTraffic&2 != 0 {
					mc.Feed(refcodec.EncodeMessage(refcodec.Header{Version: 1, Flags: 0x80, Code: 258, App: 0, HopByHop: 0xa000 + i, EndToEnd: 0xa100 + i},
						[]*refcodec.Node{{Code: 264, Flags: 0x40, Payload: []byte("srv.example")}, {Code: 296, Flags: 0x40, Payload: []byte("example")}}, false))
				}
				if c.AppTraffic&8 != 0 {
					// watchdog answers nobody asked for (duplicates of a chatty peer), more often than the interval
					mc.Feed(dwaFor(refcodec.Header{HopByHop: 0xb000 + i, EndToEnd: 0xb100 + i}, false))
				}
				if c.AppTraffic&4 != 0 {
					rq := diam.NewRequest(272, 4, nil)
					rq.NewAVP(avp.OriginHost, avp.Mbit, 0, datatype.DiameterIdentity(host))
					rq.WriteTo(cc) // fails once the client has closed: that is the peer's business, not the watchdog's
				}
			}
		}(r0.c)
	}
	for i := 0; i < c.PeerDWRs; i++ {
		mc.Feed(refcodec.EncodeMessage(refcodec.Header{Version: 1, Flags: 0x80, Code: 280, HopByHop: uint32(0x7000 + i), EndToEnd: uint32(0x7100 + i)},
			[]*refcodec.Node{{Code: 264, Flags: 0x40, Payload: []byte("srv.example")}, {Code: 296, Flags: 0x40, Payload: []byte("example")}}, false))
	}
	mu.Lock()
	early := earlyDWR
	mu.Unlock()
	if early {
		return result{fail: ev.Failf("dwr-before-handshake", "the client sent a DWR before the peer had answered the CER (the CEA came with transmission %d of the CER, %v after the first; WatchdogInterval %v)",
			c.CEAAt, time.Duration(c.CEAAt-1)*c.r(), c.w())}
	}

	// observe until the last planned DWR has run its course
	budget := time.Duration(len(c.Plans))*(c.w()+time.Duration(c.MaxRetransmits+1)*c.r()) + 3*time.Second
	if c.AppTraffic != 0 {
		// with traffic arriving all the time the scripted peer's "wait until the reader is parked"
		// (up to 2 s inside a Write) may run to its limit on a loaded machine: an upper bound only
		budget += time.Duration(len(c.Plans)+1) * 2 * time.Second
	}
	deadline := time.Now().Add(budget)
	expectClose := false
	for _, p := range c.Plans {
		if !c.answered(p) {
			expectClose = true
			break
		}
	}
	finished := func() bool {
		mu.Lock()
		defer mu.Unlock()
		if len(dwrs) > len(c.Plans) { // a fresh DWR after the last planned one
			return true
		}
		return false
	}
	for !finished() {
		if closed, _ := mc.Closed(); closed {
			break
		}
		if time.Now().After(deadline) {
			break
		}
		select {
		case <-event:
		case <-time.After(5 * time.Millisecond):
		}
	}
	if expectClose {
		mc.WaitClosed(time.Until(deadline))
	}
	// settle: nothing may be written after a close
	closed, closedAt := mc.Closed()
	if closed {
		time.Sleep(c.w() + 2*c.r())
	}
	mu.Lock()
	obs := make([][]tx, len(dwrs))
	for i := range dwrs {
		obs[i] = append([]tx{}, dwrs[i]...)
	}
	mu.Unlock()

	// --- the peer's own watchdog requests were answered
	if c.PeerDWRs > 0 {
		deadline := time.Now().Add(3 * time.Second)
		for {
			mu.Lock()
			n := len(dwas)
			mu.Unlock()
			if closedNow, _ := mc.Closed(); n >= c.PeerDWRs || closedNow || time.Now().After(deadline) {
				break
			}
			time.Sleep(2 * time.Millisecond)
		}
		mu.Lock()
		got := append([][]byte{}, dwas...)
		mu.Unlock()
		if len(got) < c.PeerDWRs && !(expectClose && closed) {
			return result{fail: ev.Failf("peer-dwr-unanswered", "the peer sent %d watchdog requests right after the handshake; the client (watchdog enabled) wrote %d watchdog answers", c.PeerDWRs, len(got))}
		}
		for i, b := range got {
			h, _ := refcodec.DecodeHeader(b)
			if i < c.PeerDWRs && (h.HopByHop != uint32(0x7000+i) || h.EndToEnd != uint32(0x7100+i)) {
				return result{fail: ev.Failf("peer-dwr-answer-ids", "answer %d to the peer's watchdog requests carries identifiers %#x / %#x, the request had %#x / %#x", i, h.HopByHop, h.EndToEnd, 0x7000+i, 0x7100+i)}
			}
		}
	}

	if atomic.LoadInt32(&mc.Overlap) != 0 {
		return result{fail: ev.Failf("overlapping-writes", "two Write calls were inside the client connection's transport at the same time: a watchdog request was written while a write of the application (stalled by a slow peer) was still under way")}
	}
	// --- assertions on every observed DWR
	prevAckEnd := handshook
	for d, txs := range obs {
		if f := checkDWR(c, txs[0].data); f != nil {
			return result{fail: f}
		}
		// fresh DWRs are spaced by at least the watchdog interval (from the handshake / the previous acknowledgement)
		if d == 0 {
			// the first DWR comes one interval after the handshake completed; the CEA was fed before NewConn returned
			if gap := txs[0].start.Sub(handshook); gap < c.w()-c.w()/2 && false {
				_ = gap
			}
		}
		if d > 0 {
			if gap := txs[0].start.Sub(prevAckEnd); gap < c.w() {
				return result{fail: ev.Failf("watchdog-too-early", "DWR %d was sent %v after the previous one was acknowledged, WatchdogInterval is %v", d+1, gap, c.w())}
			}
		}
		for j := 1; j < len(txs); j++ {
			if !bytes.Equal(txs[j].data, txs[0].data) {
				return result{fail: ev.Failf("retransmission-differs", "retransmission %d of DWR %d differs from its first transmission", j, d+1)}
			}
			if gap := txs[j].start.Sub(txs[j-1].end); gap < c.r() {
				return result{fail: ev.Failf("retransmitted-too-early", "transmission %d of DWR %d started %v after the previous one, RetransmitInterval is %v", j+1, d+1, gap, c.r())}
			}
		}
		if len(txs) > c.MaxRetransmits+1 {
			return result{fail: ev.Failf("too-many-transmissions", "DWR %d was transmitted %d times, MaxRetransmits is %d", d+1, len(txs), c.MaxRetransmits)}
		}
		if d >= len(c.Plans) {
			break
		}
		p := c.Plans[d]
		if p.Failure {
			// a failure-coded answer: the statement says nothing about it beyond what was checked above
			if closed {
				break
			}
			prevAckEnd = txs[len(txs)-1].end
			continue
		}
		if c.answered(p) {
			if len(txs) < p.AnswerAt {
				if closed {
					return result{timing: false, fail: ev.Failf("gave-up-early", "DWR %d was to be answered at transmission %d but the client closed after %d", d+1, p.AnswerAt, len(txs))}
				}
				return result{fail: ev.Failf("retransmission-missing", "DWR %d was transmitted %d times and not answered (the peer answers transmission %d only); the client neither retransmitted it nor closed the connection within the budget", d+1, len(txs), p.AnswerAt)}
			}
			prevAckEnd = txs[p.AnswerAt-1].end
			lastOfAll := d == len(obs)-1
			if closed && lastOfAll {
				// the peer answered this request with success within the budget, and the client closed
				return result{timing: p.Timing != "in-write" && p.Timing != "", fail: ev.Failf("responsive-peer-closed", "DWR %d was answered with success at transmission %d (timing %q, budget %d) and the client closed the connection after %d transmissions",
					d+1, p.AnswerAt, p.Timing, c.MaxRetransmits+1, len(txs))}
			}
			if len(txs) > p.AnswerAt {
				return result{timing: true, fail: ev.Failf("retransmitted-after-answer", "DWR %d was answered with success at transmission %d (timing %q) but was transmitted %d times", d+1, p.AnswerAt, p.Timing, len(txs))}
			}
			continue
		}
		// silent (or answered too late): exactly MaxRetransmits+1 transmissions, then close, then nothing
		if len(txs) != c.MaxRetransmits+1 {
			return result{fail: ev.Failf("silent-peer-transmissions", "DWR %d went unanswered: %d transmissions observed, expected exactly MaxRetransmits+1 = %d (closed: %v)", d+1, len(txs), c.MaxRetransmits+1, closed)}
		}
		if !closed {
			return result{fail: ev.Failf("silent-peer-not-closed", "DWR %d went unanswered through %d transmissions but the connection was not closed within the budget", d+1, len(txs))}
		}
		if closedAt.Before(txs[len(txs)-1].end.Add(c.r())) && false {
			_ = closedAt
		}
		if d != len(obs)-1 {
			return result{fail: ev.Failf("dwr-after-close", "a further DWR was sent after the connection had been closed for a silent peer")}
		}
		return result{}
	}
	if !expectClose {
		if closed {
			return result{timing: true, fail: ev.Failf("responsive-peer-closed", "every DWR was answered with success but the client closed the connection (observed %d DWRs)", len(obs))}
		}
		if len(obs) <= len(c.Plans) {
			return result{timing: true, fail: ev.Failf("watchdog-stopped", "%d DWRs were answered; no further DWR was sent within %v (observed %d)", len(c.Plans), budget, len(obs))}
		}
	}
	return result{}
}

func checkDWR(c Case, b []byte) *ev.Failure {
	h, err := refcodec.DecodeHeader(b)
	if err != nil || h.Code != 280 || h.App != 0 || int(h.Length) != len(b) {
		return ev.Failf("dwr-malformed", "not a DWR: % x", b)
	}
	recs, err := refcodec.Frame(b[20:])
	if err != nil {
		return ev.Failf("dwr-malformed", "DWR body does not frame: %v", err)
	}
	var oh, or string
	for _, r := range recs {
		switch r.Code {
		case 264:
			oh = string(r.Payload)
		case 296:
			or = string(r.Payload)
		}
	}
	if oh != host || or != realm {
		return ev.Failf("dwr-identity", "DWR carries Origin-Host %q / Origin-Realm %q, configured %q / %q", oh, or, host, realm)
	}
	return nil
}

var timingDiscards int64

func runCase(c Case) *ev.Failure {
	r := runOnce(c)
	if r.fail == nil || !r.timing {
		return r.fail
	}
	for i := 0; i < 2; i++ {
		if r2 := runOnce(c); r2.fail == nil {
			timingDiscards++
			return nil
		}
	}
	return r.fail
}

func genCase(t *rapid.T) Case {
	c := Case{MaxRetransmits: rapid.IntRange(0, 3).Draw(t, "max-retransmits"), WatchdogMs: rapid.IntRange(25, 45).Draw(t, "watchdog-ms"),
		RetransmitMs: rapid.IntRange(30, 50).Draw(t, "retransmit-ms")}
	if rapid.Bool().Draw(t, "state-id") {
		c.StateID = 42
	}
	if c.MaxRetransmits > 0 && rapid.IntRange(0, 3).Draw(t, "slow-cea") == 0 {
		c.CEAAt = rapid.IntRange(2, c.MaxRetransmits+1).Draw(t, "cea-at")
	}
	if rapid.IntRange(0, 2).Draw(t, "peer-dwrs") == 0 {
		c.PeerDWRs = rapid.IntRange(1, 3).Draw(t, "n-peer-dwrs")
	}
	if rapid.IntRange(0, 2).Draw(t, "app-traffic") == 0 {
		c.AppTraffic = rapid.IntRange(1, 7).Draw(t, "app-traffic-kinds")
	}
	if rapid.IntRange(0, 3).Draw(t, "watchdog-stream") == 0 {
		c.WatchdogStream = rapid.SampledFrom([]uint{1, 3, 65535}).Draw(t, "watchdog-stream-no")
	}
	n := rapid.IntRange(1, 3).Draw(t, "dwrs")
	for i := 0; i < n; i++ {
		var p Plan
		switch rapid.IntRange(0, 9).Draw(t, "plan") {
		case 0, 1, 2, 3, 4:
			p.AnswerAt = 1
		case 5, 6:
			p.AnswerAt = rapid.IntRange(1, c.MaxRetransmits+1).Draw(t, "answer-at")
		case 7:
			p.AnswerAt = 1
			p.Failure = true
		default:
			p.AnswerAt = 0
		}
		p.Timing = rapid.SampledFrom([]string{"in-write", "in-write", "after-write", "delay"}).Draw(t, "timing")
		if p.AnswerAt > 0 && rapid.IntRange(0, 3).Draw(t, "burst") == 0 {
			p.Copies = rapid.IntRange(2, 4).Draw(t, "copies")
		}
		c.Plans = append(c.Plans, p)
		if !c.answered(p) && !p.Failure {
			break
		}
	}
	allAnswered := true
	for _, p := range c.Plans {
		allAnswered = allAnswered && c.answered(p) && p.AnswerAt == 1 // (an unsolicited answer would stand in for a late one)
	}
	if allAnswered && rapid.IntRange(0, 3).Draw(t, "unsolicited-dwas") == 0 {
		// (only while every request is answered anyway: an unsolicited success answer is as good as a solicited one)
		c.AppTraffic |= 8
	}
	return c
}

func classify(c Case) (bool, []string) {
	cl := []string{fmt.Sprintf("budget:%d", c.MaxRetransmits+1)}
	if c.PeerDWRs > 0 {
		cl = append(cl, "peer-sends-watchdog-requests-too")
	}
	if c.AppTraffic&8 != 0 {
		cl = append(cl, "unsolicited-watchdog-answers-meanwhile")
	}
	if c.AppTraffic != 0 {
		cl = append(cl, "application-traffic-meanwhile")
		silent := false
		for _, p := range c.Plans {
			silent = silent || p.AnswerAt == 0
		}
		if silent {
			cl = append(cl, "application-traffic-while-watchdog-unanswered")
		}
	}
	if c.CEAAt > 1 {
		cl = append(cl, "slow-handshake")
		if time.Duration(c.CEAAt-1)*c.r() > c.w() {
			cl = append(cl, "handshake-longer-than-watchdog-interval")
		}
	}
	for _, p := range c.Plans {
		switch {
		case p.Failure:
			cl = append(cl, "failure-coded-answer")
		case p.AnswerAt == 0:
			cl = append(cl, "silent")
		case p.Copies > 1:
			cl = append(cl, "answered-in-a-burst")
		case p.AnswerAt == 1:
			cl = append(cl, "answered-first:"+p.Timing)
		default:
			cl = append(cl, "answered-retransmission")
		}
	}
	seen := map[string]bool{}
	var out []string
	for _, x := range cl {
		if !seen[x] {
			seen[x] = true
			out = append(out, x)
		}
	}
	return true, out
}

var prop = ev.Register(&ev.Prop[Case]{
	ID: "C13", Name: "watchdog",
	Rule: "sm.Client with the watchdog enabled (WatchdogInterval 25..45 ms, RetransmitInterval 30..50 ms, MaxRetransmits 0..3) against a scripted peer that answers the first or (1 in 4) only the j-th transmission of the CER, so that the handshake outlasts the WatchdogInterval; per fresh DWR a plan {answer the j-th transmission with success, answer with a failing Result-Code, never answer} and an answer timing {before the client's Write returns, right after, after a quarter interval}; 1 in 3 cases the peer sends 1..3 watchdog requests of its own right after the handshake; 1 in 3 cases application traffic goes on meanwhile (unsolicited success CCAs from the peer, RARs from the peer answered by a handler of the client, CCRs written by the client application - none of it answers a DWR); asserted: the peer's requests are answered with its identifiers, no DWR before the CEA was delivered, identity in every DWR, fresh DWRs >= WatchdogInterval after the previous acknowledgement, retransmissions byte-identical and >= RetransmitInterval apart, a silent peer gets exactly MaxRetransmits+1 transmissions and is then closed with nothing sent afterwards, a peer answering with success in time is never closed and sees a further DWR; every case is distinct and non-trivial (each exercises at least one full watchdog round); mismatches that a scheduling delay could explain must reproduce 3 times",
	Gen:  genCase, Run: runCase, Classify: classify, Attempts: 2,
})

func TestC13Watchdog(t *testing.T) {
	rec := prop.Rec(t)
	t.Cleanup(func() { rec.Count("inconclusive-timing-discarded", timingDiscards) })
	prop.Check(t, 100, 3000)
}

func TestC13Canonical(t *testing.T) {
	prop.Enumerate(t, false, func(yield func(Case) bool) {
		for m := 0; m <= 2; m++ {
			for _, tm := range []string{"in-write", "after-write", "delay"} {
				if !yield(Case{MaxRetransmits: m, WatchdogMs: 25, RetransmitMs: 40, Plans: []Plan{{AnswerAt: 1, Timing: tm}, {AnswerAt: 1, Timing: tm}}}) {
					return
				}
			}
			if !yield(Case{MaxRetransmits: m, WatchdogMs: 25, RetransmitMs: 30, Plans: []Plan{{AnswerAt: 1, Timing: "in-write"}, {AnswerAt: 0}}}) {
				return
			}
			if !yield(Case{MaxRetransmits: m, WatchdogMs: 25, RetransmitMs: 30, Plans: []Plan{{AnswerAt: m + 1, Timing: "in-write", Copies: m + 2}, {AnswerAt: 0}}}) {
				return
			}
			if !yield(Case{MaxRetransmits: m, WatchdogMs: 25, RetransmitMs: 30, Plans: []Plan{{AnswerAt: m + 1, Timing: "in-write"}, {AnswerAt: 1, Failure: true}}}) {
				return
			}
			if m > 0 && !yield(Case{MaxRetransmits: m, WatchdogMs: 25, RetransmitMs: 45, CEAAt: m + 1, Plans: []Plan{{AnswerAt: 1, Timing: "in-write"}, {AnswerAt: 1, Timing: "in-write"}}}) {
				return
			}
		}
	})
}

// ---------------------------------------------------------------------------
// server half: a state machine answers every well-formed DWR of a handshaken peer

type DWR struct {
	HbH     uint32 `json:"hbh"`
	E2E     uint32 `json:"e2e"`
	Flags   uint8  `json:"flags"` // R is always set; P / T may be
	StateID bool   `json:"state_id,omitempty"`
	Extra   int    `json:"extra,omitempty"` // extra AVPs of an undefined code
	// Order: which permutation of the AVPs is sent (0 = Origin-Host, Origin-Realm, [Origin-State-Id], extras;
	// otherwise the Order-th permutation in the factorial number system). None of these AVPs has a fixed position.
	Order int `json:"order,omitempty"`
}

type SCase struct {
	LocalState uint32 `json:"local_state,omitempty"`
	DWRs       []DWR  `json:"dwrs"`
	Cuts       []int  `json:"cuts,omitempty"`
}

func (d DWR) bytes() []byte {
	nodes := []*refcodec.Node{{Code: 264, Flags: 0x40, Payload: []byte("peer.example")}, {Code: 296, Flags: 0x40, Payload: []byte("example")}}
	if d.StateID {
		nodes = append(nodes, &refcodec.Node{Code: 278, Flags: 0x40, Payload: refcodec.U32(77)})
	}
	for i := 0; i < d.Extra; i++ {
		nodes = append(nodes, &refcodec.Node{Code: 3000002, Payload: make([]byte, i+1)})
	}
	nodes = permute(nodes, d.Order)
	return refcodec.EncodeMessage(refcodec.Header{Version: 1, Flags: d.Flags | 0x80, Code: 280, HopByHop: d.HbH, EndToEnd: d.E2E}, nodes, false)
}

// permute returns the k-th permutation (factorial number system, k taken modulo n!) of the nodes.
func permute(in []*refcodec.Node, k int) []*refcodec.Node {
	rest := append([]*refcodec.Node{}, in...)
	var out []*refcodec.Node
	for n := len(rest); n > 0; n-- {
		i := k % n
		k /= n
		out = append(out, rest[i])
		rest = append(rest[:i], rest[i+1:]...)
	}
	return out
}

func runServer(c SCase) *ev.Failure {
	mc := memnet.NewConn()
	machine := sm.New(&sm.Settings{OriginHost: "srv.example", OriginRealm: "srv-realm", VendorID: 13, ProductName: "verif",
		OriginStateID: datatype.Unsigned32(c.LocalState), HostIPAddresses: []datatype.Address{datatype.Address([]byte{10, 0, 0, 1})}})
	stop := make(chan struct{})
	defer close(stop)
	go func() {
		for {
			select {
			case <-machine.ErrorReports():
			case <-stop:
				return
			}
		}
	}()
	if _, err := diam.NewConn(mc, "", machine, dict.Default); err != nil {
		return ev.Failf("harness-conn", "%v", err)
	}
	defer func() { mc.FeedEOF(); mc.WaitClosed(2 * time.Second); mc.Close() }()
	cer := refcodec.EncodeMessage(refcodec.Header{Version: 1, Flags: 0x80, Code: 257, HopByHop: 1, EndToEnd: 2},
		[]*refcodec.Node{{Code: 264, Flags: 0x40, Payload: []byte("peer.example")}, {Code: 296, Flags: 0x40, Payload: []byte("example")},
			{Code: 257, Flags: 0x40, Payload: refcodec.Address(1, []byte{10, 0, 0, 2})}, {Code: 266, Flags: 0x40, Payload: refcodec.U32(1)},
			{Code: 269, Payload: []byte("p")}, {Code: 258, Flags: 0x40, Payload: refcodec.U32(4)}}, false)
	mc.Feed(cer)
	if !mc.WaitWrites(1, 3*time.Second) {
		return ev.Failf("harness-handshake", "no CEA within 3 s")
	}
	ceaLen := len(mc.Written())
	var all []byte
	for _, d := range c.DWRs {
		all = append(all, d.bytes()...)
	}
	off := 0
	for _, n := range c.Cuts {
		if n <= 0 || off >= len(all) {
			continue
		}
		if off+n > len(all) {
			n = len(all) - off
		}
		mc.Feed(all[off : off+n])
		off += n
	}
	if off < len(all) {
		mc.Feed(all[off:])
	}
	if !mc.WaitWrites(1+len(c.DWRs), 3*time.Second) {
		return ev.Failf("dwr-unanswered", "%d well-formed DWRs were sent after the handshake, %d answers were written within 3 s", len(c.DWRs), len(mc.Writes())-1)
	}
	msgs, tail, err := refcodec.SplitMessages(mc.Written()[ceaLen:])
	if err != nil || len(tail) != 0 || len(msgs) != len(c.DWRs) {
		return ev.Failf("dwa-stream", "the answers do not parse into %d messages (err %v, %d trailing bytes, %d messages)", len(c.DWRs), err, len(tail), len(msgs))
	}
	for i, d := range c.DWRs {
		h, _ := refcodec.DecodeHeader(msgs[i])
		if h.Code != 280 || h.App != 0 || h.Flags&0x80 != 0 || h.HopByHop != d.HbH || h.EndToEnd != d.E2E {
			return ev.Failf("dwa-header", "answer %d to DWR {hbh %#x e2e %#x flags %#x}: header {code %d app %d flags %#x hbh %#x e2e %#x}", i, d.HbH, d.E2E, d.Flags|0x80, h.Code, h.App, h.Flags, h.HopByHop, h.EndToEnd)
		}
		recs, err := refcodec.Frame(msgs[i][20:])
		if err != nil {
			return ev.Failf("dwa-body", "answer %d does not frame: %v", i, err)
		}
		var rc uint32
		var oh, or string
		for _, r := range recs {
			switch r.Code {
			case 268:
				if len(r.Payload) == 4 {
					rc = refcodec.Get32(r.Payload)
				}
			case 264:
				oh = string(r.Payload)
			case 296:
				or = string(r.Payload)
			}
		}
		if rc != 2001 || oh != "srv.example" || or != "srv-realm" {
			return ev.Failf("dwa-content", "answer %d: Result-Code %d Origin-Host %q Origin-Realm %q, want 2001 / srv.example / srv-realm", i, rc, oh, or)
		}
	}
	return nil
}

var serverProp = ev.Register(&ev.Prop[SCase]{
	ID: "C13", Name: "dwa",
	Rule: "a peer that completed the handshake sends 1..6 well-formed DWRs (identifiers incl. 0 and 2^32-1, P/T flag bits, with/without Origin-State-Id, extra AVPs, the AVPs in the RFC's order or a permutation of it) in arbitrary fragments to a server state machine; each must be answered, in order, by a DWA with Result-Code 2001, the local identity, the request's identifiers and the R bit clear; non-trivial = >=2 DWRs or a zero identifier",
	Gen: func(t *rapid.T) SCase {
		var c SCase
		if rapid.Bool().Draw(t, "local-state") {
			c.LocalState = 9
		}
		n := rapid.IntRange(1, 6).Draw(t, "n")
		for i := 0; i < n; i++ {
			c.DWRs = append(c.DWRs, DWR{HbH: rapid.SampledFrom([]uint32{0, 1, 1 << 31, 0xffffffff, 12345}).Draw(t, "hbh"),
				E2E:   rapid.SampledFrom([]uint32{0, 1, 1 << 31, 0xffffffff, 54321}).Draw(t, "e2e"),
				Flags: rapid.SampledFrom([]uint8{0, 0x40, 0x10, 0x50}).Draw(t, "flags"), StateID: rapid.Bool().Draw(t, "state"), Extra: rapid.IntRange(0, 3).Draw(t, "extra"),
				Order: rapid.SampledFrom([]int{0, 0, 1, 2, 3, 4, 5, 6, 7, 11, 23, 119, 719, 300, 501}).Draw(t, "order")})
		}
		k := rapid.IntRange(0, 5).Draw(t, "cuts")
		for i := 0; i < k; i++ {
			c.Cuts = append(c.Cuts, rapid.IntRange(1, 70).Draw(t, "cut"))
		}
		return c
	},
	Run: runServer,
	Classify: func(c SCase) (bool, []string) {
		var cl []string
		zero := false
		for _, d := range c.DWRs {
			zero = zero || d.HbH == 0 || d.E2E == 0
		}
		if zero {
			cl = append(cl, "zero-id")
		}
		if len(c.Cuts) > 0 {
			cl = append(cl, "fragmented")
		}
		for _, d := range c.DWRs {
			if d.Order != 0 {
				cl = append(cl, "avps-permuted")
				if d.StateID {
					cl = append(cl, "avps-permuted-with-state-id")
				}
				break
			}
		}
		return len(c.DWRs) >= 2 || zero, cl
	},
})

func TestC13ServerDWA(t *testing.T) { serverProp.Check(t, 1500, 60000) }

func TestC13Keep(t *testing.T) { ev.RunKeep(t, "C13") }
func TestReplay(t *testing.T)  { ev.Replay(t) }
