package c13

import (
	"fmt"
	"sync"
	"testing"
	"time"

	"github.com/fiorix/go-diameter/v4/diam"
	"github.com/fiorix/go-diameter/v4/diam/avp"
	"github.com/fiorix/go-diameter/v4/diam/datatype"
	"github.com/fiorix/go-diameter/v4/diam/sm"
	"pgregory.net/rapid"

	"verif/internal/ev"
	"verif/internal/memnet"
	"verif/internal/refcodec"
)

// "The client, after the handshake, sends a device-watchdog request carrying its identity": its
// identity is the one of the state machine that is the Client's Handler when the connection is
// dialled (the identity that connection's CER announced). An sm.Client is a plain value: an
// application that talks to two realms keeps one template and derives the second client from it
// (`c2 := *c1; c2.Handler = sm2`), or gives a Client whose connection has ended another state
// machine before it dials again. Whatever the Client value kept from its earlier dials, the DWRs
// of every connection carry the identity that connection was dialled with.

type ReuseCase struct {
	// How the later dials get their state machine:
	// handler-replaced: the SAME Client value, its Handler field set to the other state machine
	// after the previous connection has ended; struct-copy: a copy of the Client value that was
	// dialled before, with the Handler field of the copy set to the other state machine.
	Mode string `json:"mode"`
	// FirstStaysOpen (struct-copy only): the earlier connection is still up, and its watchdog
	// running, while the copy dials and runs - its DWRs keep the first identity.
	FirstStaysOpen bool   `json:"first_stays_open,omitempty"`
	Dials          int    `json:"dials"` // 2 or 3; dial k uses state machine k%2 (the third one returns to the first identity)
	Rounds         int    `json:"rounds"`
	WatchdogMs     int    `json:"watchdog_ms"`
	StateID        uint32 `json:"state_id,omitempty"`
	SameRealm      bool   `json:"same_realm,omitempty"` // the two state machines differ in Origin-Host only
}

type reusePeer struct {
	mc  *memnet.Conn
	mu  sync.Mutex
	cer []byte
	dwr [][]byte
}

func newReusePeer() *reusePeer {
	p := &reusePeer{mc: memnet.NewConn()}
	p.mc.WriteHook = func(b []byte, accept func([]byte)) (int, error) {
		accept(b)
		h, err := refcodec.DecodeHeader(b)
		if err != nil {
			return len(b), nil
		}
		switch {
		case h.Code == 257 && h.Flags&0x80 != 0:
			p.mu.Lock()
			p.cer = append([]byte{}, b...)
			p.mu.Unlock()
			p.mc.Feed(ceaFor(h))
		case h.Code == 280 && h.Flags&0x80 != 0:
			p.mu.Lock()
			p.dwr = append(p.dwr, append([]byte{}, b...))
			p.mu.Unlock()
			p.mc.Feed(dwaFor(h, false))
		}
		return len(b), nil
	}
	return p
}

func (p *reusePeer) dwrs() [][]byte {
	p.mu.Lock()
	defer p.mu.Unlock()
	return append([][]byte{}, p.dwr...)
}

func identityOf(b []byte) (oh, or string, err error) {
	recs, err := refcodec.Frame(b[20:])
	if err != nil {
		return "", "", err
	}
	for _, r := range recs {
		switch r.Code {
		case 264:
			oh = string(r.Payload)
		case 296:
			or = string(r.Payload)
		}
	}
	return oh, or, nil
}

func runReuse(c ReuseCase) *ev.Failure {
	w := time.Duration(c.WatchdogMs) * time.Millisecond
	type ident struct{ host, realm string }
	ids := []ident{{"first.client.example", "realm.one"}, {"second.client.example", "realm.two"}}
	if c.SameRealm {
		ids[1].realm = ids[0].realm
	}
	var machines []*sm.StateMachine
	stop := make(chan struct{})
	defer close(stop)
	for _, id := range ids {
		m := sm.New(&sm.Settings{OriginHost: datatype.DiameterIdentity(id.host), OriginRealm: datatype.DiameterIdentity(id.realm), VendorID: 13, ProductName: "verif",
			OriginStateID: datatype.Unsigned32(c.StateID), HostIPAddresses: []datatype.Address{datatype.Address([]byte{10, 0, 0, 9})}})
		machines = append(machines, m)
		go func() {
			for {
				select {
				case <-m.ErrorReports():
				case <-m.HandshakeNotify():
				case <-stop:
					return
				}
			}
		}()
	}
	// answered at once, a retransmission or a close would need the dispatch of a DWA to take 3 x 500 ms
	template := &sm.Client{Handler: machines[0], MaxRetransmits: 2, RetransmitInterval: 500 * time.Millisecond,
		EnableWatchdog: true, WatchdogInterval: w,
		AuthApplicationID: []*diam.AVP{diam.NewAVP(avp.AuthApplicationID, avp.Mbit, 0, datatype.Unsigned32(4))}}
	var peers []*reusePeer
	defer func() {
		for _, p := range peers {
			p.mc.FeedEOF()
			p.mc.WaitClosed(2 * time.Second)
			p.mc.Close()
		}
	}()
	how := "the same sm.Client value, its Handler set to the other state machine after the previous connection had ended"
	if c.Mode == "struct-copy" {
		how = fmt.Sprintf("a struct copy of the sm.Client dialled before, Handler of the copy set to the other state machine (the earlier connection still up: %v)", c.FirstStaysOpen)
	}
	// check: every DWR that peer p (dial d) has seen carries the identity of dial d
	check := func(d int, p *reusePeer) *ev.Failure {
		want := ids[d%2]
		p.mu.Lock()
		cer := p.cer
		p.mu.Unlock()
		choh, chor, _ := identityOf(cer)
		for i, b := range p.dwrs() {
			h, err := refcodec.DecodeHeader(b)
			if err != nil || h.Code != 280 || h.App != 0 || int(h.Length) != len(b) {
				return ev.Failf("dwr-malformed", "not a DWR: % x", b)
			}
			oh, or, err := identityOf(b)
			if err != nil {
				return ev.Failf("dwr-malformed", "DWR body does not frame: %v", err)
			}
			if oh != want.host || or != want.realm {
				return ev.Failf("reuse:dwr-identity", "dial %d (%s): the client's Handler at dial time is the state machine %s / %s (the CER of this connection carries %s / %s); watchdog request %d on this connection carries Origin-Host %q / Origin-Realm %q",
					d+1, how, want.host, want.realm, choh, chor, i+1, oh, or)
			}
		}
		return nil
	}
	cur := template
	for d := 0; d < c.Dials; d++ {
		if d > 0 {
			switch c.Mode {
			case "struct-copy":
				cp := *cur
				cp.Handler = machines[d%2]
				cur = &cp
			default:
				cur.Handler = machines[d%2]
			}
		}
		p := newReusePeer()
		peers = append(peers, p)
		done := make(chan error, 1)
		go func(cl *sm.Client) { _, err := cl.NewConn(p.mc, "peer"); done <- err }(cur)
		select {
		case err := <-done:
			if err != nil {
				return ev.Failf("harness-handshake", "dial %d: %v", d+1, err)
			}
		case <-time.After(10 * time.Second):
			return ev.Failf("harness-handshake", "dial %d: NewConn did not return", d+1)
		}
		// Rounds watchdog requests on this connection
		deadline := time.Now().Add(time.Duration(c.Rounds)*w + 8*time.Second)
		for len(p.dwrs()) < c.Rounds {
			if closed, _ := p.mc.Closed(); closed {
				return ev.Failf("reuse:responsive-peer-closed", "dial %d (%s): the peer answered every watchdog request at once and the connection was closed after %d requests", d+1, how, len(p.dwrs()))
			}
			if time.Now().After(deadline) {
				return ev.Failf("reuse:watchdog-stopped", "dial %d (%s): %d watchdog requests within %v, WatchdogInterval is %v", d+1, how, len(p.dwrs()), time.Duration(c.Rounds)*w+8*time.Second, w)
			}
			time.Sleep(2 * time.Millisecond)
		}
		if f := check(d, p); f != nil {
			return f
		}
		if d+1 < c.Dials && !(c.Mode == "struct-copy" && c.FirstStaysOpen) {
			// this connection ends before the next dial; its watchdog goroutine leaves with it
			p.mc.FeedEOF()
			p.mc.WaitClosed(2 * time.Second)
			time.Sleep(2*w + 5*time.Millisecond)
		}
	}
	// the connections that stayed up went on sending: all their requests carry their own identity
	for d, p := range peers {
		if f := check(d, p); f != nil {
			return f
		}
	}
	return nil
}

var reuseProp = ev.Register(&ev.Prop[ReuseCase]{
	ID: "C13", Name: "client-value-reused",
	Rule: "two client state machines with different Origin-Host (and Origin-Realm) and one sm.Client value with the watchdog enabled (WatchdogInterval 15..30 ms, every DWR answered at once): dial 1 uses the first state machine; the later dials (2 or 3 in all, alternating the two state machines) use the same Client value with its Handler field replaced after the previous connection ended, or a struct copy of the previously dialled Client with the copy's Handler replaced (earlier connections ended or still up and sending). Demanded: each connection gets watchdog requests, is not closed, and every DWR on it carries Origin-Host / Origin-Realm of the state machine that was the Handler when it was dialled (what its CER announced); every case non-trivial",
	Gen: func(t *rapid.T) ReuseCase {
		c := ReuseCase{Mode: rapid.SampledFrom([]string{"handler-replaced", "struct-copy"}).Draw(t, "mode"), Dials: rapid.IntRange(2, 3).Draw(t, "dials"),
			Rounds: rapid.IntRange(2, 3).Draw(t, "rounds"), WatchdogMs: rapid.IntRange(15, 30).Draw(t, "watchdog-ms"), SameRealm: rapid.IntRange(0, 3).Draw(t, "same-realm") == 0}
		if c.Mode == "struct-copy" {
			c.FirstStaysOpen = rapid.Bool().Draw(t, "first-stays-open")
		}
		if rapid.Bool().Draw(t, "state-id") {
			c.StateID = 42
		}
		return c
	},
	Run: runReuse,
	Classify: func(c ReuseCase) (bool, []string) {
		cl := []string{"mode:" + c.Mode, fmt.Sprintf("dials:%d", c.Dials)}
		if c.FirstStaysOpen {
			cl = append(cl, "earlier-connection-still-up")
		}
		return true, cl
	},
})

func TestC13ClientValueReused(t *testing.T) { reuseProp.Check(t, 6, 300) }

func TestC13ClientValueReusedCanonical(t *testing.T) {
	reuseProp.Enumerate(t, false, func(yield func(ReuseCase) bool) {
		for _, c := range []ReuseCase{
			{Mode: "handler-replaced", Dials: 2, Rounds: 3, WatchdogMs: 20},
			{Mode: "handler-replaced", Dials: 3, Rounds: 2, WatchdogMs: 20, StateID: 42},
			{Mode: "struct-copy", Dials: 2, Rounds: 3, WatchdogMs: 20},
			{Mode: "struct-copy", Dials: 2, Rounds: 3, WatchdogMs: 20, FirstStaysOpen: true},
			{Mode: "struct-copy", Dials: 3, Rounds: 2, WatchdogMs: 20, FirstStaysOpen: true, SameRealm: true},
		} {
			if !yield(c) {
				return
			}
		}
	})
}
