package c13

import (
	"crypto/ecdsa"
	"crypto/elliptic"
	"crypto/rand"
	"crypto/tls"
	"crypto/x509"
	"crypto/x509/pkix"
	"fmt"
	"io"
	"math/big"
	"net"
	"sync/atomic"
	"testing"
	"time"

	"github.com/fiorix/go-diameter/v4/diam"
	"github.com/fiorix/go-diameter/v4/diam/datatype"
	"github.com/fiorix/go-diameter/v4/diam/sm"

	"verif/internal/ev"
	"verif/internal/refcodec"
)

// "... and then the connection is closed", for a connection made with the TLS dial entry point:
// a hung peer (answers the CER, then nothing, and does not hang up either) must see the TCP
// connection end, not only a TLS close_notify. Real TCP + TLS on 127.0.0.1; where loopback
// listening is unavailable the case is inconclusive, never a violation. The only timing
// assertions are an upper bound of several seconds and the count of transmissions.

type TLSCase struct {
	MaxRetransmits int `json:"max_retransmits"`
	// Responsive: the peer answers every watchdog request with success, and the connection is
	// watched for three times the dial timeout (300 ms): "while each request is answered ... the
	// client never closes the connection" - whatever the dial set up to bound itself.
	Responsive bool `json:"responsive,omitempty"`
}

var tlsUnavailable int64

func c13SelfSigned() (tls.Certificate, error) {
	key, err := ecdsa.GenerateKey(elliptic.P256(), rand.Reader)
	if err != nil {
		return tls.Certificate{}, err
	}
	tmpl := &x509.Certificate{SerialNumber: big.NewInt(1), Subject: pkix.Name{CommonName: "verif"}, NotBefore: time.Now().Add(-time.Hour),
		NotAfter: time.Now().Add(24 * time.Hour), KeyUsage: x509.KeyUsageDigitalSignature, ExtKeyUsage: []x509.ExtKeyUsage{x509.ExtKeyUsageServerAuth},
		IPAddresses: []net.IP{net.ParseIP("127.0.0.1")}}
	der, err := x509.CreateCertificate(rand.Reader, tmpl, tmpl, &key.PublicKey, key)
	if err != nil {
		return tls.Certificate{}, err
	}
	return tls.Certificate{Certificate: [][]byte{der}, PrivateKey: key}, nil
}

func runTLSHung(c TLSCase) *ev.Failure {
	cert, err := c13SelfSigned()
	if err != nil {
		return ev.Failf("harness-tls", "%v", err)
	}
	ln, err := net.Listen("tcp", "127.0.0.1:0")
	if err != nil {
		atomic.AddInt64(&tlsUnavailable, 1)
		return nil
	}
	defer ln.Close()
	type peerResult struct {
		dwrs     int
		tcpEnded bool
		err      error
	}
	res := make(chan peerResult, 1)
	go func() {
		raw, err := ln.Accept()
		if err != nil {
			res <- peerResult{err: err}
			return
		}
		defer raw.Close()
		pc := tls.Server(raw, &tls.Config{Certificates: []tls.Certificate{cert}})
		var r peerResult
		read := func() ([]byte, error) {
			h := make([]byte, 20)
			if _, err := io.ReadFull(pc, h); err != nil {
				return nil, err
			}
			hd, _ := refcodec.DecodeHeader(h)
			body := make([]byte, int(hd.Length)-20)
			if _, err := io.ReadFull(pc, body); err != nil {
				return nil, err
			}
			return append(h, body...), nil
		}
		for {
			pc.SetReadDeadline(time.Now().Add(8 * time.Second))
			m, err := read()
			if err != nil {
				break // close_notify, the end of the TCP stream, or the 8 s limit
			}
			h, _ := refcodec.DecodeHeader(m)
			switch {
			case h.Code == 257:
				pc.Write(ceaFor(h))
			case h.Code == 280 && h.Flags&0x80 != 0:
				r.dwrs++ // hung: no answer, no hang-up
				if c.Responsive {
					pc.Write(refcodec.EncodeMessage(refcodec.Header{Version: 1, Code: 280, HopByHop: h.HopByHop, EndToEnd: h.EndToEnd},
						[]*refcodec.Node{{Code: 268, Flags: 0x40, Payload: refcodec.U32(2001)}, {Code: 264, Flags: 0x40, Payload: []byte("srv.example")},
							{Code: 296, Flags: 0x40, Payload: []byte("example")}}, false))
				}
			}
		}
		// below TLS: has the TCP connection ended?
		raw.SetReadDeadline(time.Now().Add(3 * time.Second))
		buf := make([]byte, 256)
		for {
			_, err := raw.Read(buf)
			if err == io.EOF {
				r.tcpEnded = true
				break
			}
			if err != nil {
				if ne, ok := err.(net.Error); !ok || !ne.Timeout() {
					r.tcpEnded = true // reset: ended as well
				}
				break
			}
		}
		res <- r
	}()
	machine := sm.New(&sm.Settings{OriginHost: host, OriginRealm: realm, VendorID: 13, ProductName: "verif",
		HostIPAddresses: []datatype.Address{datatype.Address(net.ParseIP("127.0.0.1"))}})
	stop := make(chan struct{})
	defer close(stop)
	go func() {
		for {
			select {
			case <-machine.ErrorReports():
			case <-stop:
				return
			}
		}
	}()
	cli := &sm.Client{Handler: machine, MaxRetransmits: uint(c.MaxRetransmits), RetransmitInterval: 60 * time.Millisecond,
		EnableWatchdog: true, WatchdogInterval: 40 * time.Millisecond,
		AuthApplicationID: []*diam.AVP{diam.NewAVP(258, 0x40, 0, datatype.Unsigned32(4))}}
	dialTimeout := 2 * time.Second
	if c.Responsive {
		dialTimeout = 300 * time.Millisecond
	}
	conn, err := cli.DialTLSExt("tcp", ln.Addr().String(), "", "", dialTimeout, nil)
	if err != nil && c.Responsive {
		return nil // a dial that does not make it in 300 ms on a busy machine: inconclusive
	}
	if err != nil {
		// DialTLS verifies the peer's certificate against the system roots: use the insecure variant if there is one
		return ev.Failf("harness-dial", "DialTLSExt: %v", err)
	}
	defer conn.Close()
	if c.Responsive {
		dialled := time.Now()
		select {
		case <-conn.(diam.CloseNotifier).CloseNotify():
			return ev.Failf("tls:responsive-peer-closed", "a TLS connection made with DialTLSExt (dial timeout %v) to a peer that answers every watchdog request with success was closed %v after the dial", dialTimeout, time.Since(dialled))
		case r := <-res:
			return ev.Failf("tls:responsive-peer-closed", "a TLS connection made with DialTLSExt (dial timeout %v) to a peer that answers every watchdog request: the peer saw the connection end %v after the dial (%d watchdog requests, err %v)", dialTimeout, time.Since(dialled), r.dwrs, r.err)
		case <-time.After(3 * dialTimeout):
		}
		return nil
	}
	select {
	case r := <-res:
		if r.err != nil {
			return ev.Failf("harness-peer", "%v", r.err)
		}
		if r.dwrs != c.MaxRetransmits+1 {
			return ev.Failf("tls:silent-peer-transmissions", "a hung TLS peer saw %d transmissions of the watchdog request, MaxRetransmits is %d", r.dwrs, c.MaxRetransmits)
		}
		if !r.tcpEnded {
			return ev.Failf("tls:silent-peer-not-closed", "a hung peer on a TLS connection (made with DialTLS) went unanswered through %d transmissions; the client announced the end of the TLS session, but the TCP connection was still open 3 s later: the connection was not closed", r.dwrs)
		}
	case <-time.After(15 * time.Second):
		return ev.Failf("tls:silent-peer-not-closed", "a hung peer on a TLS connection: nothing ended within 15 s")
	}
	return nil
}

var tlsHungProp = ev.Register(&ev.Prop[TLSCase]{
	ID: "C13", Name: "hung-tls-peer",
	Rule: "sm.Client.DialTLSExt over real TCP + TLS on 127.0.0.1 (WatchdogInterval 40 ms, RetransmitInterval 60 ms, MaxRetransmits 0..2) to a peer that answers the CER and then neither answers nor hangs up; demanded: exactly MaxRetransmits+1 transmissions of the DWR and then the end of the TCP connection as seen below TLS by the peer (within 3 s of the end of the TLS stream). A second kind of case: the peer answers every watchdog request, the dial timeout is 300 ms, and for 900 ms after the dial the connection must not end (CloseNotify silent, the peer's TLS stream alive). Inconclusive where loopback listening is unavailable. Every case is non-trivial",
	Run:  runTLSHung,
	Classify: func(c TLSCase) (bool, []string) {
		return true, []string{fmt.Sprintf("budget:%d", c.MaxRetransmits+1), fmt.Sprintf("responsive-peer:%v", c.Responsive)}
	},
})

func TestC13HungTLSPeer(t *testing.T) {
	rec := tlsHungProp.Rec(t)
	t.Cleanup(func() { rec.Count("inconclusive-loopback-unavailable", atomic.LoadInt64(&tlsUnavailable)) })
	tlsHungProp.Enumerate(t, true, func(yield func(TLSCase) bool) {
		for m := 0; m <= 2; m++ {
			if !yield(TLSCase{MaxRetransmits: m}) {
				return
			}
		}
		for m := 0; m <= 2; m += 2 {
			if !yield(TLSCase{MaxRetransmits: m, Responsive: true}) {
				return
			}
		}
	})
}
