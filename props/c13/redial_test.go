package c13

import (
	"sync"
	"testing"
	"time"

	"github.com/fiorix/go-diameter/v4/diam"
	"github.com/fiorix/go-diameter/v4/diam/avp"
	"github.com/fiorix/go-diameter/v4/diam/datatype"
	"github.com/fiorix/go-diameter/v4/diam/sm"
	"pgregory.net/rapid"

	"verif/internal/ev"
	"verif/internal/memnet"
	"verif/internal/refcodec"
)

// One sm.Client (one state machine) used for a second connection after the first one went away
// (fail-over to a backup peer): the second peer answers every watchdog request, so its
// connection must never be closed - whatever the watchdog of the first connection was doing
// when that connection ended.

type RCase struct {
	MaxRetransmits int `json:"max_retransmits"`
	WatchdogMs     int `json:"watchdog_ms"`
	RetransmitMs   int `json:"retransmit_ms"`
	// First connection: the peer answers FirstAnswered watchdog requests, leaves the next one
	// unanswered and hangs up EndAfterMs after receiving it (0: hangs up between two rounds,
	// right after its last answer).
	FirstAnswered int `json:"first_answered"`
	EndAfterMs    int `json:"end_after_ms"`
	Rounds        int `json:"rounds"` // watchdog rounds observed on the second connection
}

func runRedialOnce(c RCase) (fail *ev.Failure, timing bool) {
	w := time.Duration(c.WatchdogMs) * time.Millisecond
	r := time.Duration(c.RetransmitMs) * time.Millisecond
	machine := sm.New(&sm.Settings{OriginHost: host, OriginRealm: realm, VendorID: 13, ProductName: "verif",
		HostIPAddresses: []datatype.Address{datatype.Address([]byte{10, 0, 0, 9})}})
	stop := make(chan struct{})
	defer close(stop)
	go func() {
		for {
			select {
			case <-machine.ErrorReports():
			case <-stop:
				return
			}
		}
	}()
	cli := &sm.Client{Handler: machine, MaxRetransmits: uint(c.MaxRetransmits), RetransmitInterval: r,
		EnableWatchdog: true, WatchdogInterval: w,
		AuthApplicationID: []*diam.AVP{diam.NewAVP(avp.AuthApplicationID, avp.Mbit, 0, datatype.Unsigned32(4))}}

	// a peer that answers the CER and the first `answer` fresh DWRs (answer < 0: all of them)
	type peer struct {
		mc    *memnet.Conn
		mu    sync.Mutex
		fresh int            // fresh DWRs seen
		tx    map[uint32]int // transmissions per hop-by-hop id
		last  uint32
		have  bool
		unans chan struct{} // closed when the first unanswered DWR arrived
	}
	newPeer := func(answer int) *peer {
		p := &peer{mc: memnet.NewConn(), tx: map[uint32]int{}, unans: make(chan struct{})}
		p.mc.WriteHook = func(b []byte, accept func([]byte)) (int, error) {
			accept(b)
			h, err := refcodec.DecodeHeader(b)
			if err != nil {
				return len(b), nil
			}
			switch {
			case h.Code == 257 && h.Flags&0x80 != 0:
				p.mc.Feed(ceaFor(h))
				p.mc.WaitParked(2 * time.Second) // dispatched before the Write returns
			case h.Code == 280 && h.Flags&0x80 != 0:
				p.mu.Lock()
				if !p.have || p.last != h.HopByHop {
					p.fresh++
					p.last, p.have = h.HopByHop, true
				}
				p.tx[h.HopByHop]++
				n := p.fresh
				first := p.tx[h.HopByHop] == 1
				p.mu.Unlock()
				if answer < 0 || n <= answer {
					p.mc.Feed(dwaFor(h, false))
					p.mc.WaitParked(2 * time.Second) // dispatched before the Write returns
				} else if first && n == answer+1 {
					close(p.unans)
				}
			}
			return len(b), nil
		}
		return p
	}
	dial := func(p *peer) *ev.Failure {
		done := make(chan error, 1)
		go func() { _, err := cli.NewConn(p.mc, "peer"); done <- err }()
		select {
		case err := <-done:
			if err != nil {
				return ev.Failf("harness-handshake", "handshake failed: %v", err)
			}
		case <-time.After(5 * time.Second):
			return ev.Failf("harness-handshake", "NewConn did not return")
		}
		return nil
	}
	p1 := newPeer(c.FirstAnswered)
	if f := dial(p1); f != nil {
		p1.mc.Close()
		return f, false
	}
	defer p1.mc.Close()
	if c.EndAfterMs == 0 && c.FirstAnswered > 0 {
		// between two rounds: right after the last answered request
		deadline := time.Now().Add(time.Duration(c.FirstAnswered)*(w+r) + 3*time.Second)
		for {
			p1.mu.Lock()
			n := p1.fresh
			p1.mu.Unlock()
			if n >= c.FirstAnswered || time.Now().After(deadline) {
				break
			}
			time.Sleep(time.Millisecond)
		}
	} else {
		select {
		case <-p1.unans:
		case <-time.After(time.Duration(c.FirstAnswered+1)*(w+r) + 3*time.Second):
			return ev.Failf("watchdog-request-missing", "the first connection (its peer answered every watchdog request so far) never saw watchdog request %d and was not closed either", c.FirstAnswered+1), true
		}
		time.Sleep(time.Duration(c.EndAfterMs) * time.Millisecond)
	}
	p1.mc.FeedEOF() // the first peer goes away
	p1.mc.WaitClosed(2 * time.Second)

	p2 := newPeer(-1)
	if f := dial(p2); f != nil {
		p2.mc.Close()
		return f, false
	}
	defer func() { p2.mc.FeedEOF(); p2.mc.Close() }()
	// observe: long enough for the first connection's watchdog to run out of its retransmissions,
	// and for Rounds rounds on the second connection
	observe := time.Duration(c.MaxRetransmits+2)*r + time.Duration(c.Rounds)*(w+w/2) + 50*time.Millisecond
	end := time.Now().Add(observe)
	for time.Now().Before(end) {
		if closed, _ := p2.mc.Closed(); closed {
			break
		}
		time.Sleep(2 * time.Millisecond)
	}
	p2.mu.Lock()
	fresh, tx := p2.fresh, map[uint32]int{}
	for k, v := range p2.tx {
		tx[k] = v
	}
	p2.mu.Unlock()
	if closed, _ := p2.mc.Closed(); closed {
		return ev.Failf("responsive-peer-closed", "fail-over: the second peer answered every one of its %d watchdog requests with success, and the client closed its connection (the first connection had ended %d ms after an unanswered request; budget %d x %v)", fresh, c.EndAfterMs, c.MaxRetransmits+1, r), true
	}
	for id, n := range tx {
		if n > 1 {
			return ev.Failf("retransmitted-after-answer", "fail-over: watchdog request %#x on the second connection was answered with success at once and yet transmitted %d times", id, n), true
		}
	}
	if fresh == 0 {
		return ev.Failf("watchdog-stopped", "fail-over: no watchdog request was sent on the second connection within %v (WatchdogInterval %v)", observe, w), true
	}
	return nil, false
}

func runRedial(c RCase) *ev.Failure {
	f, timing := runRedialOnce(c)
	if f == nil || !timing {
		return f
	}
	for i := 0; i < 2; i++ {
		if f2, _ := runRedialOnce(c); f2 == nil {
			timingDiscards++
			return nil
		}
	}
	return f
}

var redialProp = ev.Register(&ev.Prop[RCase]{
	ID: "C13", Name: "fail-over",
	Rule: "one sm.Client with the watchdog enabled (WatchdogInterval 25..40 ms, RetransmitInterval 60..120 ms, MaxRetransmits 0..3) connects to a first peer that answers 0..2 watchdog requests and then hangs up - between two rounds, or 0..90 ms after a request it leaves unanswered (the watchdog of that connection is then in the middle of its retransmissions) - and at once to a second peer that answers everything; observed for the first watchdog's whole retransmission budget plus 2..4 rounds: the second connection is never closed, none of its requests is retransmitted, and it does get watchdog requests; mismatches must reproduce 3 times; every case non-trivial",
	Gen: func(t *rapid.T) RCase {
		c := RCase{MaxRetransmits: rapid.IntRange(0, 3).Draw(t, "max-retransmits"), WatchdogMs: rapid.IntRange(25, 40).Draw(t, "watchdog-ms"),
			RetransmitMs: rapid.IntRange(60, 120).Draw(t, "retransmit-ms"), FirstAnswered: rapid.IntRange(0, 2).Draw(t, "first-answered"), Rounds: rapid.IntRange(2, 4).Draw(t, "rounds")}
		if rapid.IntRange(0, 3).Draw(t, "mid-round") != 0 {
			c.EndAfterMs = rapid.IntRange(1, 90).Draw(t, "end-after-ms")
		}
		return c
	},
	Run: runRedial,
	Classify: func(c RCase) (bool, []string) {
		if c.EndAfterMs == 0 {
			return true, []string{"first-connection-ends-between-rounds"}
		}
		return true, []string{"first-connection-ends-with-a-request-outstanding"}
	},
	Attempts: 2,
})

func TestC13FailOver(t *testing.T) { redialProp.Check(t, 40, 1200) }
