package c13

import (
	"sync"
	"testing"
	"time"

	"github.com/fiorix/go-diameter/v4/diam"
	"github.com/fiorix/go-diameter/v4/diam/datatype"
	"github.com/fiorix/go-diameter/v4/diam/dict"
	"github.com/fiorix/go-diameter/v4/diam/sm"
	"pgregory.net/rapid"

	"verif/internal/ev"
	"verif/internal/memnet"
	"verif/internal/refcodec"
)

// Several handshaken peers of ONE state machine send DWRs at the same time
// (each connection is served by its own goroutine): every DWA must carry the
// identifiers of its own request, whatever the other connections are doing.

type CCase struct {
	Conns   int `json:"conns"`
	PerConn int `json:"per_conn"`
}

func runConcurrent(c CCase) *ev.Failure {
	machine := sm.New(&sm.Settings{OriginHost: "srv.example", OriginRealm: "srv-realm", VendorID: 13, ProductName: "verif",
		HostIPAddresses: []datatype.Address{datatype.Address([]byte{10, 0, 0, 1})}})
	stop := make(chan struct{})
	defer close(stop)
	go func() {
		for {
			select {
			case <-machine.ErrorReports():
			case <-stop:
				return
			}
		}
	}()
	conns := make([]*memnet.Conn, c.Conns)
	defer func() {
		for _, mc := range conns {
			if mc != nil {
				mc.FeedEOF()
				mc.WaitClosed(2 * time.Second)
				mc.Close()
			}
		}
	}()
	cer := refcodec.EncodeMessage(refcodec.Header{Version: 1, Flags: 0x80, Code: 257, HopByHop: 1, EndToEnd: 2},
		[]*refcodec.Node{{Code: 264, Flags: 0x40, Payload: []byte("peer.example")}, {Code: 296, Flags: 0x40, Payload: []byte("example")},
			{Code: 257, Flags: 0x40, Payload: refcodec.Address(1, []byte{10, 0, 0, 2})}, {Code: 266, Flags: 0x40, Payload: refcodec.U32(1)},
			{Code: 269, Payload: []byte("p")}, {Code: 258, Flags: 0x40, Payload: refcodec.U32(4)}}, false)
	ceaLen := make([]int, c.Conns)
	for i := range conns {
		conns[i] = memnet.NewConn()
		if _, err := diam.NewConn(conns[i], "", machine, dict.Default); err != nil {
			return ev.Failf("harness-conn", "%v", err)
		}
		conns[i].Feed(cer)
		if !conns[i].WaitWrites(1, 3*time.Second) {
			return ev.Failf("harness-handshake", "connection %d: no CEA within 3 s", i)
		}
		ceaLen[i] = len(conns[i].Written())
	}
	// all connections send their DWRs at the same time, one message per fragment
	var start sync.WaitGroup
	var done sync.WaitGroup
	start.Add(1)
	for i := range conns {
		done.Add(1)
		go func(i int) {
			defer done.Done()
			start.Wait()
			for s := 0; s < c.PerConn; s++ {
				id := uint32(i+1)<<16 | uint32(s)
				conns[i].Feed(DWR{HbH: id, E2E: ^id}.bytes())
			}
		}(i)
	}
	start.Done()
	done.Wait()
	for i, mc := range conns {
		if !mc.WaitWrites(1+c.PerConn, 10*time.Second) {
			return ev.Failf("dwr-unanswered", "connection %d sent %d DWRs, %d answers were written within 10 s", i, c.PerConn, len(mc.Writes())-1)
		}
		msgs, tail, err := refcodec.SplitMessages(mc.Written()[ceaLen[i]:])
		if err != nil || len(tail) != 0 || len(msgs) != c.PerConn {
			return ev.Failf("dwa-stream", "connection %d: the answers do not parse into %d messages (err %v, %d trailing bytes, %d messages)", i, c.PerConn, err, len(tail), len(msgs))
		}
		for s, m := range msgs {
			h, _ := refcodec.DecodeHeader(m)
			id := uint32(i+1)<<16 | uint32(s)
			if h.Code != 280 || h.Flags&0x80 != 0 || h.HopByHop != id || h.EndToEnd != ^id {
				return ev.Failf("dwa-ids-of-another-request", "connection %d, DWR %d had identifiers %#x/%#x; its DWA carries %#x/%#x (the identifiers of a request of connection %d) while %d connections were sending concurrently",
					i, s, id, ^id, h.HopByHop, h.EndToEnd, int(h.HopByHop>>16)-1, c.Conns)
			}
		}
	}
	return nil
}

var concurrentProp = ev.Register(&ev.Prop[CCase]{
	ID: "C13", Name: "dwa-concurrent",
	Rule: "2..8 handshaken connections of one state machine each send 20..200 DWRs with identifiers unique to (connection, sequence) at the same time; every DWA on every connection must carry the identifiers of its own request, in order; every case exercises concurrent connections (distinct by shape); the thorough tier repeats it under the race detector",
	Gen: func(t *rapid.T) CCase {
		return CCase{Conns: rapid.IntRange(2, 8).Draw(t, "conns"), PerConn: rapid.IntRange(20, 200).Draw(t, "per-conn")}
	},
	Run:      runConcurrent,
	Hash:     func(c CCase) uint64 { return uint64(c.Conns)<<32 | uint64(c.PerConn) },
	Attempts: 5,
})

func TestC13ServerConcurrent(t *testing.T) { concurrentProp.Check(t, 150, 5000) }
