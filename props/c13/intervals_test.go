//go:debug asynctimerchan=1

package c13

import (
	"fmt"
	"sync"
	"testing"
	"time"

	"github.com/fiorix/go-diameter/v4/diam"
	"github.com/fiorix/go-diameter/v4/diam/avp"
	"github.com/fiorix/go-diameter/v4/diam/datatype"
	"github.com/fiorix/go-diameter/v4/diam/sm"

	"verif/internal/ev"
	"verif/internal/memnet"
	"verif/internal/refcodec"
)

// The go:debug line above gives this test binary the timer semantics of the library's OWN go.mod
// (go 1.20: buffered timer channels, where Reset / Stop can leave a stale tick behind) - what an
// application whose go.mod says less than 1.23 gets; under the harness module's 1.23 semantics a
// stale tick cannot be observed at all.
//
// The two intervals far apart (the main histories draw them within a few ms of each other, so
// taking one for the other would go unnoticed there), for every retransmission budget:
//
//   slow-answers: WatchdogInterval 20 ms, RetransmitInterval 300 ms; the peer answers every
//                 transmission with success after 80 ms - later than a WatchdogInterval, well
//                 inside the RetransmitInterval. "While each request is answered with a success
//                 answer the client never closes the connection."
//   silent:       WatchdogInterval 1 s, RetransmitInterval 30 ms; the peer answers nothing.
//                 "Retransmitted MaxRetransmits times at RetransmitInterval and then closed":
//                 budget+1 transmissions, the close not earlier than (budget+1) x RetransmitInterval
//                 after the first one, and not as late as half a WatchdogInterval beyond that.
//
// Mismatches that a scheduling delay could explain must reproduce three times.

type IntervalsCase struct {
	Mode   string `json:"mode"` // slow-answers | silent
	Budget int    `json:"budget"`
}

func runIntervalsOnce(c IntervalsCase) (fail *ev.Failure, timing bool) {
	w, r, answerAfter := 20*time.Millisecond, 300*time.Millisecond, 80*time.Millisecond
	if c.Mode == "silent" {
		w, r = time.Second, 30*time.Millisecond
	}
	machine := sm.New(&sm.Settings{OriginHost: "cli.example", OriginRealm: "example", VendorID: 13, ProductName: "verif",
		HostIPAddresses: []datatype.Address{datatype.Address([]byte{10, 0, 0, 9})}})
	stop := make(chan struct{})
	defer close(stop)
	go func() {
		for {
			select {
			case <-machine.ErrorReports():
			case <-machine.HandshakeNotify():
			case <-stop:
				return
			}
		}
	}()
	cli := &sm.Client{Handler: machine, MaxRetransmits: uint(c.Budget), RetransmitInterval: r, EnableWatchdog: true, WatchdogInterval: w,
		AuthApplicationID: []*diam.AVP{diam.NewAVP(avp.AuthApplicationID, avp.Mbit, 0, datatype.Unsigned32(4))}}
	mc := memnet.NewConn()
	var mu sync.Mutex
	var dwrAt []time.Time
	var dwrIDs []uint32
	mc.WriteHook = func(b []byte, accept func([]byte)) (int, error) {
		accept(b)
		h, err := refcodec.DecodeHeader(b)
		if err != nil || h.Flags&0x80 == 0 {
			return len(b), nil
		}
		switch h.Code {
		case 257:
			mc.Feed(refcodec.EncodeMessage(refcodec.Header{Version: 1, Code: 257, HopByHop: h.HopByHop, EndToEnd: h.EndToEnd},
				[]*refcodec.Node{{Code: 268, Flags: 0x40, Payload: refcodec.U32(2001)}, {Code: 264, Flags: 0x40, Payload: []byte("srv.example")},
					{Code: 296, Flags: 0x40, Payload: []byte("example")}, {Code: 257, Flags: 0x40, Payload: refcodec.Address(1, []byte{10, 0, 0, 1})},
					{Code: 266, Flags: 0x40, Payload: refcodec.U32(13)}, {Code: 269, Payload: []byte("peer")},
					{Code: 258, Flags: 0x40, Payload: refcodec.U32(4)}}, false))
		case 280:
			mu.Lock()
			dwrAt = append(dwrAt, time.Now())
			dwrIDs = append(dwrIDs, h.HopByHop)
			mu.Unlock()
			if c.Mode == "slow-answers" {
				time.AfterFunc(answerAfter, func() {
					mc.Feed(refcodec.EncodeMessage(refcodec.Header{Version: 1, Code: 280, HopByHop: h.HopByHop, EndToEnd: h.EndToEnd},
						[]*refcodec.Node{{Code: 268, Flags: 0x40, Payload: refcodec.U32(2001)}, {Code: 264, Flags: 0x40, Payload: []byte("srv.example")},
							{Code: 296, Flags: 0x40, Payload: []byte("example")}}, false))
				})
			}
		}
		return len(b), nil
	}
	defer func() { mc.FeedEOF(); mc.WaitClosed(2 * time.Second); mc.Close() }()
	if _, err := cli.NewConn(mc, "peer"); err != nil {
		return ev.Failf("harness-handshake", "handshake failed: %v", err), false
	}
	desc := fmt.Sprintf("WatchdogInterval %v, RetransmitInterval %v, MaxRetransmits %d", w, r, c.Budget)
	count := func() int { mu.Lock(); defer mu.Unlock(); return len(dwrAt) }
	if c.Mode == "slow-answers" {
		const rounds = 4
		deadline := time.Now().Add(15 * time.Second)
		for count() < rounds && time.Now().Before(deadline) {
			if closed, _ := mc.Closed(); closed {
				mu.Lock()
				n := len(dwrAt)
				mu.Unlock()
				return ev.Failf("responsive-peer-closed", "%s; the peer answers every watchdog request with success %v after it arrives - inside the RetransmitInterval: the client closed the connection (after %d requests)", desc, answerAfter, n), true
			}
			time.Sleep(2 * time.Millisecond)
		}
		if count() < rounds {
			return nil, false // inconclusive: the machine is too slow for four rounds in 15 s
		}
		time.Sleep(answerAfter + 30*time.Millisecond)
		if closed, _ := mc.Closed(); closed {
			return ev.Failf("responsive-peer-closed", "%s; the peer answers every watchdog request with success %v after it arrives - inside the RetransmitInterval: the client closed the connection", desc, answerAfter), true
		}
		// every request was answered in time: none may have been transmitted twice
		mu.Lock()
		defer mu.Unlock()
		seen := map[uint32]bool{}
		for _, id := range dwrIDs {
			if seen[id] {
				return ev.Failf("retransmitted-after-answer", "%s; every request is answered %v after it arrives, yet request %#x was transmitted again", desc, answerAfter, id), true
			}
			seen[id] = true
		}
		return nil, false
	}
	// silent peer
	if !mc.WaitClosed(w + time.Duration(c.Budget+1)*r + w + 10*time.Second) {
		return ev.Failf("silent-peer-not-closed", "%s, the peer answers no watchdog request: the connection was not closed", desc), false
	}
	_, closedAt := mc.Closed()
	mu.Lock()
	defer mu.Unlock()
	if len(dwrAt) != c.Budget+1 {
		return ev.Failf("transmission-count", "%s, silent peer: %d transmissions of the watchdog request before the close, want %d", desc, len(dwrAt), c.Budget+1), false
	}
	took := closedAt.Sub(dwrAt[0])
	want := time.Duration(c.Budget+1) * r
	if took < want-2*time.Millisecond {
		return ev.Failf("closed-early", "%s, silent peer: the connection was closed %v after the first transmission, earlier than (budget+1) x RetransmitInterval = %v", desc, took, want), false
	}
	if took > want+w/2 {
		return ev.Failf("unanswered-request-given-up-late", "%s, silent peer: the connection was closed %v after the first transmission; (MaxRetransmits+1) x RetransmitInterval is %v (half a WatchdogInterval of slack allowed)", desc, took, want), true
	}
	return nil, false
}

func runIntervals(c IntervalsCase) *ev.Failure {
	f, timing := runIntervalsOnce(c)
	if f == nil || !timing {
		return f
	}
	for i := 0; i < 2; i++ {
		if f2, _ := runIntervalsOnce(c); f2 == nil {
			timingDiscards++
			return nil
		}
	}
	return f
}

var intervalsProp = ev.Register(&ev.Prop[IntervalsCase]{
	ID: "C13", Name: "intervals-far-apart",
	Rule: "sm.Client over an in-memory transport, MaxRetransmits 0..3. slow-answers: WatchdogInterval 20 ms, RetransmitInterval 300 ms, every transmission answered with success after 80 ms; demanded over four rounds: never closed, no request transmitted twice. silent: WatchdogInterval 1 s, RetransmitInterval 30 ms, no answers; demanded: exactly MaxRetransmits+1 transmissions, closed not before (MaxRetransmits+1) x RetransmitInterval after the first and not later than that plus half a WatchdogInterval. " +
		"Mismatches that a scheduling delay could explain must reproduce three times. Every case is non-trivial",
	Run: runIntervals,
	Classify: func(c IntervalsCase) (bool, []string) {
		return true, []string{"mode:" + c.Mode, fmt.Sprintf("budget:%d", c.Budget)}
	},
})

func TestC13IntervalsFarApart(t *testing.T) {
	intervalsProp.Enumerate(t, true, func(yield func(IntervalsCase) bool) {
		for _, mode := range []string{"slow-answers", "silent"} {
			for b := 0; b <= 3; b++ {
				if !yield(IntervalsCase{Mode: mode, Budget: b}) {
					return
				}
			}
		}
	})
}
