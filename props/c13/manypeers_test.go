package c13

import (
	"fmt"
	"testing"
	"time"

	"github.com/fiorix/go-diameter/v4/diam"
	"github.com/fiorix/go-diameter/v4/diam/datatype"
	"github.com/fiorix/go-diameter/v4/diam/dict"
	"github.com/fiorix/go-diameter/v4/diam/sm"

	"verif/internal/ev"
	"verif/internal/memnet"
	"verif/internal/refcodec"
)

// "A state machine answers every well-formed DWR from a peer that completed the handshake": for
// the 2nd, 9th, 20th peer of ONE state machine as for the first, and whether or not the
// application reads the state machine's HandshakeNotify and ErrorReports channels (a server
// that only registers handlers reads neither).

type ManyPeersCase struct {
	Peers     int  `json:"peers"`
	ReadsChan bool `json:"reads_channels"` // the application drains HandshakeNotify / ErrorReports
	DWRs      int  `json:"dwrs"`           // watchdog requests per peer
}

func runManyPeers(c ManyPeersCase) *ev.Failure {
	machine := sm.New(&sm.Settings{OriginHost: "srv.example", OriginRealm: "srv-realm", VendorID: 13, ProductName: "verif",
		HostIPAddresses: []datatype.Address{datatype.Address([]byte{10, 0, 0, 1})}})
	stop := make(chan struct{})
	defer close(stop)
	if c.ReadsChan {
		go func() {
			for {
				select {
				case <-machine.ErrorReports():
				case <-machine.HandshakeNotify():
				case <-stop:
					return
				}
			}
		}()
	}
	var conns []*memnet.Conn
	defer func() {
		for _, mc := range conns {
			mc.FeedEOF()
			mc.WaitClosed(time.Second)
			mc.Close()
		}
	}()
	for p := 0; p < c.Peers; p++ {
		mc := memnet.NewConn()
		conns = append(conns, mc)
		if _, err := diam.NewConn(mc, "", machine, dict.Default); err != nil {
			return ev.Failf("harness-conn", "%v", err)
		}
		exchange := func(req []byte, code uint32, hbh uint32, what string) *ev.Failure {
			before := len(mc.Writes())
			mc.Feed(req)
			if !mc.WaitWrites(before+1, 5*time.Second) || len(mc.Writes()) <= before {
				return ev.Failf("many-peers:"+what+"-unanswered", "peer %d of %d of one state machine (the application reads HandshakeNotify / ErrorReports: %v): its %s got no answer within 5 s", p+1, c.Peers, c.ReadsChan, what)
			}
			w := mc.Writes()[before].Data
			h, err := refcodec.DecodeHeader(w)
			if err != nil || h.Code != code || h.Flags&0x80 != 0 || h.HopByHop != hbh {
				return ev.Failf("many-peers:"+what+"-answer-differs", "peer %d: the answer to its %s is command %d flags %#x hop-by-hop %#x (err %v)", p+1, what, h.Code, h.Flags, h.HopByHop, err)
			}
			recs, err := refcodec.Frame(w[20:])
			if err != nil {
				return ev.Failf("many-peers:"+what+"-answer-differs", "peer %d: %v", p+1, err)
			}
			for _, r := range recs {
				if r.Code == 268 && (len(r.Payload) != 4 || refcodec.Get32(r.Payload) != 2001) {
					return ev.Failf("many-peers:"+what+"-refused", "peer %d: the answer to its %s carries Result-Code % x", p+1, what, r.Payload)
				}
			}
			return nil
		}
		cer := refcodec.EncodeMessage(refcodec.Header{Version: 1, Flags: 0x80, Code: 257, HopByHop: uint32(1000 + p), EndToEnd: 7},
			[]*refcodec.Node{{Code: 264, Flags: 0x40, Payload: []byte(fmt.Sprintf("peer%d.example", p))}, {Code: 296, Flags: 0x40, Payload: []byte("example")},
				{Code: 257, Flags: 0x40, Payload: refcodec.Address(1, []byte{10, 0, 1, byte(p)})}, {Code: 266, Flags: 0x40, Payload: refcodec.U32(1)},
				{Code: 269, Payload: []byte("p")}, {Code: 258, Flags: 0x40, Payload: refcodec.U32(4)}}, false)
		if f := exchange(cer, 257, uint32(1000+p), "CER"); f != nil {
			return f
		}
		for d := 0; d < c.DWRs; d++ {
			hbh := uint32(5000 + p*10 + d)
			dwr := refcodec.EncodeMessage(refcodec.Header{Version: 1, Flags: 0x80, Code: 280, HopByHop: hbh, EndToEnd: 8},
				[]*refcodec.Node{{Code: 264, Flags: 0x40, Payload: []byte(fmt.Sprintf("peer%d.example", p))}, {Code: 296, Flags: 0x40, Payload: []byte("example")}}, false)
			if f := exchange(dwr, 280, hbh, "DWR"); f != nil {
				return f
			}
		}
	}
	return nil
}

var manyPeersProp = ev.Register(&ev.Prop[ManyPeersCase]{
	ID: "C13", Name: "many-peers-of-one-state-machine",
	Rule: "one sm.StateMachine serves 3 / 12 / 24 in-memory connections one after the other (all stay open); each peer sends a CER and 1..2 DWRs; the application reads the state machine's HandshakeNotify and ErrorReports channels, or neither. Demanded: every CER and every DWR is answered with success and the request's hop-by-hop id. non-trivial = nobody reads the channels and there are more than 8 peers",
	Run:  runManyPeers,
	Classify: func(c ManyPeersCase) (bool, []string) {
		return !c.ReadsChan && c.Peers > 8, []string{fmt.Sprintf("peers:%d", c.Peers), fmt.Sprintf("channels-read:%v", c.ReadsChan)}
	},
})

func TestC13ManyPeers(t *testing.T) {
	manyPeersProp.Enumerate(t, true, func(yield func(ManyPeersCase) bool) {
		for _, peers := range []int{3, 12, 24} {
			for _, reads := range []bool{false, true} {
				if !yield(ManyPeersCase{Peers: peers, ReadsChan: reads, DWRs: 1 + peers%2}) {
					return
				}
			}
		}
	})
}
