package c13

import (
	"fmt"
	"sync"
	"testing"
	"time"

	"github.com/fiorix/go-diameter/v4/diam"
	"github.com/fiorix/go-diameter/v4/diam/datatype"
	"github.com/fiorix/go-diameter/v4/diam/dict"
	"github.com/fiorix/go-diameter/v4/diam/sm"
	"pgregory.net/rapid"

	"verif/internal/ev"
	"verif/internal/memnet"
	"verif/internal/refcodec"
)

// "A state machine answers every well-formed DWR from a peer that completed the handshake" -
// also while the application is busy elsewhere: an application handler of the state machine is
// still running (blocked) for one peer, and the application registers further handlers on the
// state machine from another goroutine meanwhile (servers do that when a module is loaded).
// Whether the registration itself may wait is not the subject; the DWRs of the OTHER handshaken
// peers must each be answered (bounded wait of seconds), before the blocked handler is released.

type BusyCase struct {
	Peers     int      `json:"peers"`              // handshaken peers of one state machine, 2..6
	Blocked   int      `json:"blocked"`            // index of the peer whose application request blocks in its handler
	Blocked2  bool     `json:"blocked2,omitempty"` // a second peer (the last one, if it is another) has a blocked handler too
	Via       string   `json:"via"`                // how the blocking handler was registered: name (HandleFunc "RAR") | idx (HandleIdx)
	Register  []string `json:"register"`           // registrations issued meanwhile, each from its own goroutine: func | handle | idx | none
	DWRs      int      `json:"dwrs"`               // DWRs per other peer while the handler is blocked
	LocalSID  uint32   `json:"local_state,omitempty"`
	AfterToo  bool     `json:"after_too,omitempty"` // one more DWR per peer after the handler was released
	ReadsChan bool     `json:"reads_channels"`
}

func checkDWA(w []byte, hbh, e2e uint32) *ev.Failure {
	h, err := refcodec.DecodeHeader(w)
	if err != nil || h.Code != 280 || h.App != 0 || h.Flags&0x80 != 0 || h.HopByHop != hbh || h.EndToEnd != e2e {
		return ev.Failf("busy:dwa-header", "the answer to DWR {hbh %#x e2e %#x}: header {code %d app %d flags %#x hbh %#x e2e %#x} (err %v)", hbh, e2e, h.Code, h.App, h.Flags, h.HopByHop, h.EndToEnd, err)
	}
	recs, err := refcodec.Frame(w[20:])
	if err != nil {
		return ev.Failf("busy:dwa-body", "the DWA does not frame: %v", err)
	}
	var rc uint32
	var oh, or string
	for _, r := range recs {
		switch r.Code {
		case 268:
			if len(r.Payload) == 4 {
				rc = refcodec.Get32(r.Payload)
			}
		case 264:
			oh = string(r.Payload)
		case 296:
			or = string(r.Payload)
		}
	}
	if rc != 2001 || oh != "srv.example" || or != "srv-realm" {
		return ev.Failf("busy:dwa-content", "DWA: Result-Code %d Origin-Host %q Origin-Realm %q, want 2001 / srv.example / srv-realm", rc, oh, or)
	}
	return nil
}

func runBusy(c BusyCase) *ev.Failure {
	machine := sm.New(&sm.Settings{OriginHost: "srv.example", OriginRealm: "srv-realm", VendorID: 13, ProductName: "verif",
		OriginStateID: datatype.Unsigned32(c.LocalSID), HostIPAddresses: []datatype.Address{datatype.Address([]byte{10, 0, 0, 1})}})
	release := make(chan struct{})
	var relOnce sync.Once
	defer relOnce.Do(func() { close(release) })
	entered := make(chan string, 16)
	blockedAddr := map[string]bool{fmt.Sprintf("10.7.0.%d:1", c.Blocked): true}
	if c.Blocked2 && c.Peers-1 != c.Blocked {
		blockedAddr[fmt.Sprintf("10.7.0.%d:1", c.Peers-1)] = true
	}
	slow := diam.HandlerFunc(func(cn diam.Conn, m *diam.Message) {
		who := cn.RemoteAddr().String()
		entered <- who
		if blockedAddr[who] {
			<-release
		}
	})
	rar := diam.CommandIndex{AppID: 0, Code: 258, Request: true}
	if c.Via == "idx" {
		machine.HandleIdx(rar, slow)
	} else {
		machine.HandleFunc("RAR", slow)
	}
	stop := make(chan struct{})
	defer close(stop)
	if c.ReadsChan {
		go func() {
			for {
				select {
				case <-machine.ErrorReports():
				case <-machine.HandshakeNotify():
				case <-stop:
					return
				}
			}
		}()
	}
	conns := make([]*memnet.Conn, c.Peers)
	defer func() {
		relOnce.Do(func() { close(release) })
		for _, mc := range conns {
			if mc != nil {
				mc.FeedEOF()
				mc.WaitClosed(2 * time.Second)
				mc.Close()
			}
		}
	}()
	for i := range conns {
		mc := memnet.NewConn()
		mc.Remote = memnet.Addr{Net: "tcp", Str: fmt.Sprintf("10.7.0.%d:1", i)}
		conns[i] = mc
		if _, err := diam.NewConn(mc, "", machine, dict.Default); err != nil {
			return ev.Failf("harness-conn", "%v", err)
		}
		mc.Feed(refcodec.EncodeMessage(refcodec.Header{Version: 1, Flags: 0x80, Code: 257, HopByHop: uint32(100 + i), EndToEnd: 2},
			[]*refcodec.Node{{Code: 264, Flags: 0x40, Payload: []byte(fmt.Sprintf("peer%d.example", i))}, {Code: 296, Flags: 0x40, Payload: []byte("example")},
				{Code: 257, Flags: 0x40, Payload: refcodec.Address(1, []byte{10, 7, 0, byte(i)})}, {Code: 266, Flags: 0x40, Payload: refcodec.U32(1)},
				{Code: 269, Payload: []byte("p")}, {Code: 258, Flags: 0x40, Payload: refcodec.U32(4)}}, false))
		if !mc.WaitWrites(1, 5*time.Second) || len(mc.Writes()) < 1 {
			return ev.Failf("harness-handshake", "peer %d: no CEA within 5 s", i)
		}
	}
	// the application request whose handler blocks
	for i := range conns {
		if !blockedAddr[conns[i].Remote.String()] {
			continue
		}
		conns[i].Feed(refcodec.EncodeMessage(refcodec.Header{Version: 1, Flags: 0x80, Code: 258, App: 0, HopByHop: 9, EndToEnd: 9},
			[]*refcodec.Node{{Code: 263, Flags: 0x40, Payload: []byte("s;9")}, {Code: 264, Flags: 0x40, Payload: []byte(fmt.Sprintf("peer%d.example", i))},
				{Code: 296, Flags: 0x40, Payload: []byte("example")}}, false))
		select {
		case <-entered:
		case <-time.After(5 * time.Second):
			return ev.Failf("harness-dispatch", "the application request of handshaken peer %d did not reach its handler within 5 s", i)
		}
	}
	// registrations from other goroutines while that handler is blocked
	var regs sync.WaitGroup
	noop := func(diam.Conn, *diam.Message) {}
	for k, how := range c.Register {
		if how == "none" {
			continue
		}
		regs.Add(1)
		go func(k int, how string) {
			defer regs.Done()
			switch how {
			case "func":
				machine.HandleFunc([]string{"ACR", "STR", "ASR"}[k%3], noop)
			case "handle":
				machine.Handle([]string{"STR", "ASR", "ACR"}[k%3], diam.HandlerFunc(noop))
			case "idx":
				machine.HandleIdx(diam.CommandIndex{AppID: 0, Code: 274 + uint32(k), Request: true}, diam.HandlerFunc(noop))
			}
		}(k, how)
	}
	registered := make(chan struct{})
	go func() { regs.Wait(); close(registered) }()
	select {
	case <-registered:
	case <-time.After(100 * time.Millisecond): // a registration that waits has reached its lock by now
	}
	what := fmt.Sprintf("%d handshaken peers of one state machine; an application handler (registered by %s) is blocked for peer %d (second blocked peer: %v); meanwhile the application issued the registrations %v from other goroutines",
		c.Peers, c.Via, c.Blocked, len(blockedAddr) > 1, c.Register)
	round := func(seq int, when string) *ev.Failure {
		type sent struct {
			i        int
			before   int
			hbh, e2e uint32
		}
		var out []sent
		for i, mc := range conns {
			if blockedAddr[mc.Remote.String()] && when == "blocked" {
				continue // a connection is served one message at a time: this one is busy with its handler
			}
			id := uint32(i+1)<<16 | uint32(seq)
			s := sent{i: i, before: len(mc.Writes()), hbh: id, e2e: ^id}
			mc.Feed(DWR{HbH: s.hbh, E2E: s.e2e, StateID: seq%2 == 1}.bytes())
			out = append(out, s)
		}
		for _, s := range out {
			mc := conns[s.i]
			if !mc.WaitWrites(s.before+1, 5*time.Second) || len(mc.Writes()) <= s.before {
				sig := "busy:dwr-unanswered"
				if when != "blocked" {
					sig = "busy:dwr-unanswered-after-release"
				}
				return ev.Failf(sig, "%s; DWR %d of handshaken peer %d (%s) got no DWA within 5 s", what, seq+1, s.i, map[bool]string{true: "sent while that handler was still blocked", false: when}[when == "blocked"])
			}
			if f := checkDWA(mc.Writes()[s.before].Data, s.hbh, s.e2e); f != nil {
				f.Detail = what + "; peer " + fmt.Sprint(s.i) + ": " + f.Detail
				return f
			}
		}
		return nil
	}
	for seq := 0; seq < c.DWRs; seq++ {
		if f := round(seq, "blocked"); f != nil {
			return f
		}
	}
	relOnce.Do(func() { close(release) })
	if c.AfterToo {
		select {
		case <-registered:
		case <-time.After(5 * time.Second): // not the subject
		}
		// the released peers answer their application request themselves (nothing is written for it): every peer sends a DWR
		if f := round(c.DWRs, "after the handler was released"); f != nil {
			return f
		}
	}
	return nil
}

var busyProp = ev.Register(&ev.Prop[BusyCase]{
	ID: "C13", Name: "dwa-while-a-handler-is-busy",
	Rule: "2..6 in-memory peers complete the handshake with ONE state machine; an application request (RAR, handler registered by name or by command index) of one of them (optionally of two) blocks in its handler; while it is blocked the application issues 0..3 registrations (HandleFunc / Handle / HandleIdx of other commands) from other goroutines; then every OTHER peer sends 1..3 DWRs (with / without Origin-State-Id): each must be answered within 5 s - before the handler is released - by a DWA with Result-Code 2001, the local identity, the request's identifiers and the R bit clear; optionally one more DWR per peer (the formerly blocked ones included) after the release; non-trivial = at least one registration is issued while the handler is blocked",
	Gen: func(t *rapid.T) BusyCase {
		c := BusyCase{Peers: rapid.IntRange(2, 6).Draw(t, "peers"), Via: rapid.SampledFrom([]string{"name", "idx"}).Draw(t, "via"), DWRs: rapid.IntRange(1, 3).Draw(t, "dwrs"),
			AfterToo: rapid.Bool().Draw(t, "after-too"), ReadsChan: rapid.Bool().Draw(t, "reads-channels")}
		c.Blocked = rapid.IntRange(0, c.Peers-1).Draw(t, "blocked")
		c.Blocked2 = c.Peers > 2 && rapid.IntRange(0, 2).Draw(t, "blocked2") == 0
		for i, n := 0, rapid.IntRange(1, 3).Draw(t, "registrations"); i < n; i++ {
			c.Register = append(c.Register, rapid.SampledFrom([]string{"func", "func", "handle", "idx", "none"}).Draw(t, "register"))
		}
		if rapid.Bool().Draw(t, "local-state") {
			c.LocalSID = 9
		}
		return c
	},
	Run: runBusy,
	Classify: func(c BusyCase) (bool, []string) {
		nt := false
		cl := []string{fmt.Sprintf("peers:%d", c.Peers), "blocked-handler-registered-by:" + c.Via}
		for _, r := range c.Register {
			nt = nt || r != "none"
			cl = append(cl, "register:"+r)
		}
		if c.Blocked2 {
			cl = append(cl, "two-blocked-peers")
		}
		seen := map[string]bool{}
		var out []string
		for _, x := range cl {
			if !seen[x] {
				seen[x] = true
				out = append(out, x)
			}
		}
		return nt, out
	},
})

func TestC13ServerBusyHandler(t *testing.T) { busyProp.Check(t, 40, 1500) }

func TestC13ServerBusyHandlerCanonical(t *testing.T) {
	busyProp.Enumerate(t, false, func(yield func(BusyCase) bool) {
		for _, via := range []string{"name", "idx"} {
			for _, reg := range [][]string{{"none"}, {"func"}, {"handle"}, {"idx"}, {"func", "idx"}} {
				if !yield(BusyCase{Peers: 3, Blocked: 0, Via: via, Register: reg, DWRs: 2, AfterToo: true, ReadsChan: true}) {
					return
				}
			}
		}
	})
}
