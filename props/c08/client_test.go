package c08

import (
	"context"
	"fmt"
	"sync"
	"testing"
	"time"

	"github.com/fiorix/go-diameter/v4/diam"
	"github.com/fiorix/go-diameter/v4/diam/avp"
	"github.com/fiorix/go-diameter/v4/diam/datatype"
	"github.com/fiorix/go-diameter/v4/diam/sm"
	"pgregory.net/rapid"

	"verif/internal/ev"
	"verif/internal/memnet"
	"verif/internal/refcodec"
)

// The client side: a connection made by sm.Client, with or without the watchdog, and with or
// without a watchdog request that the peer has not answered yet. Application messages of the peer
// are handled one at a time, in arrival order, whatever the watchdog is waiting for.

type ClientCase struct {
	Watchdog bool     `json:"watchdog"` // EnableWatchdog; the peer never answers the DWR, so one is pending while the messages arrive
	Apps     []uint32 `json:"apps"`     // application id of each message of the peer (0 = base accounting ACR, 4 = CCR)
	HoldMs   int      `json:"hold_ms"`  // how long each handler is held before it may return
	// CancelCtx: the first handler replaces the connection's context by a cancellable one
	// (SetContext) and the application cancels it while that handler is still running.
	CancelCtx bool `json:"cancel_ctx,omitempty"`
}

func runClient(c ClientCase) *ev.Failure {
	mc := memnet.NewConn()
	machine := sm.New(&sm.Settings{OriginHost: "cli.example", OriginRealm: "example", VendorID: 13, ProductName: "verif",
		HostIPAddresses: []datatype.Address{datatype.Address([]byte{10, 0, 0, 9})}})
	type evt struct {
		kind string
		i    int
		at   time.Time
	}
	var mu sync.Mutex
	var log []evt
	running := 0
	overlap := ""
	release := make([]chan struct{}, len(c.Apps))
	for i := range release {
		release[i] = make(chan struct{})
	}
	entered := make(chan int, len(c.Apps))
	var cancel context.CancelFunc
	machine.HandleFunc("ALL", func(cn diam.Conn, m *diam.Message) {
		i := int(m.Header.HopByHopID) - 0x4000
		if i < 0 || i >= len(c.Apps) {
			return
		}
		if i == 0 && c.CancelCtx {
			var ctx context.Context
			mu.Lock()
			ctx, cancel = context.WithCancel(cn.Context())
			mu.Unlock()
			cn.SetContext(ctx)
		}
		mu.Lock()
		log = append(log, evt{"enter", i, time.Now()})
		running++
		if running > 1 && overlap == "" {
			overlap = fmt.Sprintf("the handler for message %d was started while %d handler(s) of the same connection had not returned", i, running-1)
		}
		mu.Unlock()
		entered <- i
		<-release[i]
		mu.Lock()
		running--
		log = append(log, evt{"exit", i, time.Now()})
		mu.Unlock()
	})
	stop := make(chan struct{})
	defer close(stop)
	go func() {
		for {
			select {
			case <-machine.ErrorReports():
			case <-stop:
				return
			}
		}
	}()
	cli := &sm.Client{Handler: machine, MaxRetransmits: 3, RetransmitInterval: 3 * time.Second,
		AuthApplicationID: []*diam.AVP{diam.NewAVP(avp.AuthApplicationID, avp.Mbit, 0, datatype.Unsigned32(4))}}
	if c.Watchdog {
		cli.EnableWatchdog, cli.WatchdogInterval = true, 15*time.Millisecond
	}
	dwr := make(chan struct{}, 8)
	mc.WriteHook = func(b []byte, accept func([]byte)) (int, error) {
		accept(b)
		h, err := refcodec.DecodeHeader(b)
		if err != nil {
			return len(b), nil
		}
		switch {
		case h.Code == 257 && h.Flags&0x80 != 0:
			mc.Feed(refcodec.EncodeMessage(refcodec.Header{Version: 1, Code: 257, HopByHop: h.HopByHop, EndToEnd: h.EndToEnd},
				[]*refcodec.Node{{Code: 268, Flags: 0x40, Payload: refcodec.U32(2001)}, {Code: 264, Flags: 0x40, Payload: []byte("srv.example")},
					{Code: 296, Flags: 0x40, Payload: []byte("example")}, {Code: 257, Flags: 0x40, Payload: refcodec.Address(1, []byte{10, 0, 0, 1})},
					{Code: 266, Flags: 0x40, Payload: refcodec.U32(13)}, {Code: 269, Payload: []byte("peer")},
					{Code: 258, Flags: 0x40, Payload: refcodec.U32(4)}, {Code: 259, Flags: 0x40, Payload: refcodec.U32(3)}}, false))
			mc.WaitParked(2 * time.Second)
		case h.Code == 280 && h.Flags&0x80 != 0:
			select {
			case dwr <- struct{}{}:
			default:
			}
		}
		return len(b), nil
	}
	type res struct {
		c   diam.Conn
		err error
	}
	done := make(chan res, 1)
	go func() { cc, err := cli.NewConn(mc, "peer"); done <- res{cc, err} }()
	select {
	case r := <-done:
		if r.err != nil {
			mc.Close()
			return ev.Failf("harness-handshake", "handshake failed: %v", r.err)
		}
	case <-time.After(5 * time.Second):
		mc.Close()
		return ev.Failf("harness-handshake", "NewConn did not return")
	}
	defer func() {
		for _, ch := range release {
			select {
			case <-ch:
			default:
				close(ch)
			}
		}
		mc.FeedEOF()
		mc.WaitClosed(2 * time.Second)
		mc.Close()
	}()
	if c.Watchdog {
		select {
		case <-dwr: // sent, and it stays unanswered for the rest of the case (RetransmitInterval 3 s)
		case <-time.After(3 * time.Second):
			return ev.Failf("harness-no-dwr", "the client sent no watchdog request within 3 s")
		}
	}
	var seg []byte
	for i, app := range c.Apps {
		code := uint32(272)
		if app == 0 {
			code = 271
		}
		seg = append(seg, refcodec.EncodeMessage(refcodec.Header{Version: 1, Flags: 0x80, Code: code, App: app, HopByHop: uint32(0x4000 + i), EndToEnd: uint32(0x5000 + i)},
			[]*refcodec.Node{{Code: 263, Flags: 0x40, Payload: []byte(fmt.Sprintf("s;%d", i))}}, false)...)
	}
	mc.Feed(seg)
	for i := range c.Apps {
		select {
		case got := <-entered:
			if got != i {
				return ev.Failf("client:order", "message %d of the peer was handled when message %d was due (watchdog request pending: %v)", got, i, c.Watchdog)
			}
		case <-time.After(5 * time.Second):
			return ev.Failf("client:dispatch-missing", "message %d of the peer was not handed to the handler within 5 s (watchdog request pending: %v)", i, c.Watchdog)
		}
		if i == 0 && c.CancelCtx {
			mu.Lock()
			cf := cancel
			mu.Unlock()
			if cf != nil {
				cf()
			}
		}
		// while this handler is held, the next one must not start
		select {
		case got := <-entered:
			return ev.Failf("client:handlers-overlap", "the handler for message %d (application %d) was started while the handler for message %d had not returned; watchdog request pending: %v", got, c.Apps[got], i, c.Watchdog)
		case <-time.After(time.Duration(c.HoldMs) * time.Millisecond):
		}
		close(release[i])
	}
	mu.Lock()
	defer mu.Unlock()
	if overlap != "" {
		return ev.Failf("client:handlers-overlap", "%s (watchdog request pending: %v)", overlap, c.Watchdog)
	}
	return nil
}

var clientProp = ev.Register(&ev.Prop[ClientCase]{
	ID: "C08", Name: "client-connection",
	Rule: "a connection made by sm.Client over an in-memory transport, watchdog off or on with a watchdog request the peer leaves unanswered; the peer sends 2..5 application requests (accounting of the base application, credit control of application 4) in one segment; every handler is held for 5..25 ms; 1 in 3 cases the first handler installs a cancellable context on the connection (SetContext) and the application cancels it while that handler runs. " +
		"Demanded: handlers start in arrival order and none starts before the previous one returned. non-trivial = the watchdog is waiting for an answer while the messages arrive, or the context is cancelled",
	Gen: func(t *rapid.T) ClientCase {
		c := ClientCase{Watchdog: rapid.IntRange(0, 2).Draw(t, "watchdog") != 0, HoldMs: rapid.IntRange(5, 25).Draw(t, "hold-ms"),
			CancelCtx: rapid.IntRange(0, 2).Draw(t, "cancel-ctx") == 0}
		n := rapid.IntRange(2, 5).Draw(t, "messages")
		for i := 0; i < n; i++ {
			c.Apps = append(c.Apps, rapid.SampledFrom([]uint32{0, 4, 4}).Draw(t, "app"))
		}
		return c
	},
	Run: runClient,
	Classify: func(c ClientCase) (bool, []string) {
		var cl []string
		if c.CancelCtx {
			cl = append(cl, "connection-context-cancelled-while-a-handler-runs")
		}
		if c.Watchdog {
			return true, append(cl, "watchdog-request-pending")
		}
		return c.CancelCtx, append(cl, "watchdog-off")
	},
})

func TestC08ClientConnection(t *testing.T) { clientProp.Check(t, 30, 800) }
