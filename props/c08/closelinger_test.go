package c08

import (
	"fmt"
	"sync"
	"testing"
	"time"

	"github.com/fiorix/go-diameter/v4/diam"
	"github.com/fiorix/go-diameter/v4/diam/dict"
	"pgregory.net/rapid"

	"verif/internal/ev"
	"verif/internal/memnet"
	"verif/internal/refcodec"
)

func clMsg(i int) []byte {
	return refcodec.EncodeMessage(refcodec.Header{Version: 1, Flags: 0x80, Code: 271, App: 0, HopByHop: uint32(0x4000 + i), EndToEnd: uint32(0x5000 + i)},
		[]*refcodec.Node{{Code: 263, Flags: 0x40, Payload: []byte(fmt.Sprintf("s;%d", i))}}, false)
}

// A handler CLOSES the connection - what a handler does with a peer it does not like - while
// further complete messages of the same connection are already buffered (they arrived in the same
// segment), and goes on for a moment after Close returned. Whether the buffered messages are still
// dispatched is not the subject; if they are, then not before that handler has returned.

type CloseLingerCase struct {
	N       int  `json:"n"`        // messages, all in one segment
	CloseAt int  `json:"close_at"` // the handler of this message closes the connection ...
	HoldMs  int  `json:"hold_ms"`  // ... and runs on for so long
	Served  bool `json:"served"`   // the connection was accepted by Server.Serve (else made with NewConn)
}

func runCloseLinger(c CloseLingerCase) *ev.Failure {
	var mu sync.Mutex
	running := 0
	overlap := ""
	var order []int
	mux := diam.NewServeMux()
	mux.HandleFunc("ALL", func(cn diam.Conn, m *diam.Message) {
		i := int(m.Header.HopByHopID) - 0x4000
		mu.Lock()
		if running > 0 && overlap == "" {
			overlap = fmt.Sprintf("the handler for message %d was started while the handler for message %d - which had called Close() on the connection and was still running - had not returned", i, order[len(order)-1])
		}
		running++
		order = append(order, i)
		mu.Unlock()
		if i == c.CloseAt {
			cn.Close()
			time.Sleep(time.Duration(c.HoldMs) * time.Millisecond)
		}
		mu.Lock()
		running--
		mu.Unlock()
	})
	stop := make(chan struct{})
	defer close(stop)
	go func() {
		for {
			select {
			case <-mux.ErrorReports():
			case <-stop:
				return
			}
		}
	}()
	mc := memnet.NewConn()
	if c.Served {
		lis := memnet.NewListener(1)
		srv := &diam.Server{Handler: mux, Dict: dict.Default}
		go srv.Serve(lis)
		defer lis.Close()
		lis.Push(mc)
	} else if _, err := diam.NewConn(mc, "", mux, dict.Default); err != nil {
		return ev.Failf("harness-conn", "%v", err)
	}
	var seg []byte
	for i := 0; i < c.N; i++ {
		seg = append(seg, clMsg(i)...)
	}
	mc.Feed(seg)
	mc.WaitClosed(5 * time.Second)
	// let whatever the library still dispatches from its buffer run
	deadline := time.Now().Add(time.Duration(c.HoldMs)*time.Millisecond + 200*time.Millisecond)
	for time.Now().Before(deadline) {
		mu.Lock()
		done := running == 0 && len(order) == c.N
		mu.Unlock()
		if done {
			break
		}
		time.Sleep(2 * time.Millisecond)
	}
	mc.FeedEOF()
	mu.Lock()
	defer mu.Unlock()
	if overlap != "" {
		return ev.Failf("handlers-overlap:close-from-handler", "%d messages in one segment, the handler of message %d closes the connection and runs on for %d ms: %s (handlers started: %v)", c.N, c.CloseAt, c.HoldMs, overlap, order)
	}
	for k := range order {
		if order[k] != k {
			return ev.Failf("order:close-from-handler", "%d messages in one segment, the handler of message %d closes the connection: handlers were started for %v", c.N, c.CloseAt, order)
		}
	}
	if len(order) <= c.CloseAt {
		return ev.Failf("dispatch-missing", "message %d (before any Close) was never handled: %v", c.CloseAt, order)
	}
	return nil
}

var closeLingerProp = ev.Register(&ev.Prop[CloseLingerCase]{
	ID: "C08", Name: "handler-closes-the-connection",
	Rule: "3..6 messages in one segment on an in-memory connection (accepted by Serve or made with NewConn); the handler of message k calls Close() on the connection and runs on for 5..30 ms; " +
		"demanded: no handler is started while another has not returned, and handlers start in arrival order (whether the messages behind k are still dispatched is left open). non-trivial = messages are buffered behind k",
	Gen: func(t *rapid.T) CloseLingerCase {
		n := rapid.IntRange(3, 6).Draw(t, "n")
		return CloseLingerCase{N: n, CloseAt: rapid.IntRange(0, n-1).Draw(t, "close-at"), HoldMs: rapid.IntRange(5, 30).Draw(t, "hold-ms"), Served: rapid.Bool().Draw(t, "served")}
	},
	Run: runCloseLinger,
	Classify: func(c CloseLingerCase) (bool, []string) {
		return c.CloseAt < c.N-1, []string{fmt.Sprintf("served:%v", c.Served), fmt.Sprintf("buffered-behind:%d", c.N-1-c.CloseAt)}
	},
})

func TestC08HandlerClosesConnection(t *testing.T) { closeLingerProp.Check(t, 40, 1500) }

// A handler registered BY INDEX (HandleIdx, what sm.StateMachine uses for its own commands) is
// blocked on one connection; meanwhile the application registers another handler on the same mux
// (sm.Client does on every dial); then a message arrives on a second connection. "A handler that
// blocks on one connection does not delay the dispatch of messages arriving on other connections."

type BlockedRegCase struct {
	Blocked  string `json:"blocked"`  // how the handler that blocks is registered: idx | name | all
	Register string `json:"register"` // what is registered while it is blocked: name | idx | none
	Second   string `json:"second"`   // the second connection's message goes to: same (handler, returns at once there) | other
}

func runBlockedReg(c BlockedRegCase) *ev.Failure {
	mux := diam.NewServeMux()
	release := make(chan struct{})
	var relOnce sync.Once
	defer relOnce.Do(func() { close(release) })
	entered := make(chan string, 8)
	h := diam.HandlerFunc(func(cn diam.Conn, m *diam.Message) {
		entered <- cn.RemoteAddr().String()
		if cn.RemoteAddr().String() == "10.1.1.1:1" {
			<-release
		}
	})
	acr := diam.CommandIndex{AppID: 0, Code: 271, Request: true}
	switch c.Blocked {
	case "idx":
		mux.HandleIdx(acr, h)
	case "name":
		mux.Handle("ACR", h)
	default:
		mux.Handle("ALL", h)
	}
	other := diam.HandlerFunc(func(cn diam.Conn, m *diam.Message) { entered <- cn.RemoteAddr().String() })
	if c.Second == "other" {
		mux.HandleIdx(diam.CommandIndex{AppID: 0, Code: 258, Request: true}, other) // RAR
	}
	stop := make(chan struct{})
	defer close(stop)
	go func() {
		for {
			select {
			case <-mux.ErrorReports():
			case <-stop:
				return
			}
		}
	}()
	one, two := memnet.NewConn(), memnet.NewConn()
	one.Remote, two.Remote = memnet.Addr{Net: "tcp", Str: "10.1.1.1:1"}, memnet.Addr{Net: "tcp", Str: "10.2.2.2:2"}
	defer func() {
		relOnce.Do(func() { close(release) })
		for _, mc := range []*memnet.Conn{one, two} {
			mc.FeedEOF()
			mc.WaitClosed(2 * time.Second)
			mc.Close()
		}
	}()
	for _, mc := range []*memnet.Conn{one, two} {
		if _, err := diam.NewConn(mc, "", mux, dict.Default); err != nil {
			return ev.Failf("harness-conn", "%v", err)
		}
	}
	one.Feed(clMsg(0))
	select {
	case <-entered:
	case <-time.After(5 * time.Second):
		return ev.Failf("dispatch-missing", "the first connection's message was not handled within 5 s")
	}
	// the application registers something else on the mux while that handler is blocked
	registered := make(chan struct{})
	go func() {
		switch c.Register {
		case "name":
			mux.HandleFunc("STR", func(diam.Conn, *diam.Message) {})
		case "idx":
			mux.HandleIdx(diam.CommandIndex{AppID: 0, Code: 274, Request: true}, other)
		}
		close(registered)
	}()
	select {
	case <-registered:
	case <-time.After(100 * time.Millisecond): // whether a registration may wait is not the subject
	}
	msg := clMsg(1)
	if c.Second == "other" {
		msg = refcodec.EncodeMessage(refcodec.Header{Version: 1, Flags: 0x80, Code: 258, App: 0, HopByHop: 9, EndToEnd: 9},
			[]*refcodec.Node{{Code: 263, Flags: 0x40, Payload: []byte("s;9")}}, false)
	}
	two.Feed(msg)
	select {
	case who := <-entered:
		if who != "10.2.2.2:2" {
			return ev.Failf("harness-entered", "unexpected handler entry for %s", who)
		}
	case <-time.After(3 * time.Second):
		return ev.Failf("cross-connection-delay:registration-pending", "a handler registered %s is blocked on connection 1; the application registered another handler (%s) on the same mux meanwhile; a message arriving on connection 2 was not dispatched within 3 s", c.Blocked, c.Register)
	}
	return nil
}

var blockedRegProp = ev.Register(&ev.Prop[BlockedRegCase]{
	ID: "C08", Name: "blocked-handler-and-registration",
	Rule: "one ServeMux, two in-memory connections; the handler of connection 1's message (registered by index, by name or as catch-all) blocks until the end of the case; the application then registers another handler on the mux (by name, by index, or nothing); a message arrives on connection 2 (for the same registration, or for another index-registered handler). " +
		"Demanded: connection 2's handler starts within 3 s. non-trivial = a registration is attempted while the handler is blocked",
	Run: runBlockedReg,
	Classify: func(c BlockedRegCase) (bool, []string) {
		return c.Register != "none", []string{"blocked:" + c.Blocked, "register:" + c.Register, "second:" + c.Second}
	},
})

func TestC08BlockedHandlerAndRegistration(t *testing.T) {
	blockedRegProp.Enumerate(t, true, func(yield func(BlockedRegCase) bool) {
		for _, b := range []string{"idx", "name", "all"} {
			for _, r := range []string{"name", "idx", "none"} {
				for _, s := range []string{"same", "other"} {
					if b == "all" && s == "other" {
						continue // the index entry would win over the catch-all; covered by the other rows
					}
					if !yield(BlockedRegCase{Blocked: b, Register: r, Second: s}) {
						return
					}
				}
			}
		}
	})
}
