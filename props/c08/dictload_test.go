package c08

import (
	"fmt"
	"io"
	"os"
	"path/filepath"
	"sync"
	"syscall"
	"testing"
	"time"

	"github.com/fiorix/go-diameter/v4/diam"
	"github.com/fiorix/go-diameter/v4/diam/dict"

	"verif/internal/dicts"
	"verif/internal/ev"
	"verif/internal/memnet"
)

// "A handler that blocks on one connection does not delay the dispatch of messages arriving on
// other connections" - one more way for a handler to block: inside Parser.Load / LoadFile of the
// dictionary the connections of the case share (a private parser, never dict.Default), reading
// from a source that the test holds open after a valid beginning of a document. Load keeps the
// parser's mutex while it decodes; whatever the dispatch path needs from the dictionary
// (FindCommand for every inbound message) must not wait for it.

const dictLoadPrefix = "<?xml version=\"1.0\" encoding=\"UTF-8\"?>\n<diameter>\n"

type DictLoadCase struct {
	Server   bool `json:"server"`    // connections accepted by diam.Server.Serve (else diam.NewConn)
	LoadFile bool `json:"load_file"` // the handler calls LoadFile on a FIFO (else Load on a pipe)
	Others   int  `json:"others"`    // other connections
	Msgs     int  `json:"msgs"`      // messages on each of them while the handler is blocked
	Complete bool `json:"complete"`  // the document is completed (else the source is closed in the middle)
}

func privateBaseParser() (*dict.Parser, error) {
	emb, err := dicts.EmbeddedXML()
	if err != nil {
		return nil, err
	}
	for _, e := range emb {
		if e.Var == "baseXML" {
			return dicts.Load(e.XML)
		}
	}
	return nil, fmt.Errorf("baseXML not found")
}

func runDictLoad(c DictLoadCase) *ev.Failure {
	dp, err := privateBaseParser()
	if err != nil {
		return ev.Failf("harness-dict", "%v", err)
	}
	// the source the blocked handler reads from
	var (
		pr       *io.PipeReader
		pw       io.WriteCloser
		fifo     string
		openedW  = make(chan error, 1)
		fifoW    *os.File
		fifoWMu  sync.Mutex
		scratch  string
		loadDone = make(chan error, 1)
	)
	if c.LoadFile {
		scratch, err = os.MkdirTemp("", "c08dictload")
		if err != nil {
			return ev.Failf("harness-fifo", "%v", err)
		}
		defer os.RemoveAll(scratch)
		fifo = filepath.Join(scratch, "extra.xml")
		if err = syscall.Mkfifo(fifo, 0600); err != nil {
			return ev.Failf("harness-fifo", "%v", err)
		}
	} else {
		var w *io.PipeWriter
		pr, w = io.Pipe()
		pw = w
	}

	type seen struct {
		conn int
		hbh  uint32
	}
	handled := make(chan seen, 64)
	startedA := make(chan struct{})
	mux := diam.NewServeMux()
	stop := make(chan struct{})
	defer close(stop)
	go func() {
		for {
			select {
			case <-mux.ErrorReports():
			case <-stop:
				return
			}
		}
	}()
	mux.HandleFunc("ALL", func(cn diam.Conn, m *diam.Message) {
		h := m.Header.HopByHopID
		switch {
		case h == 0xa001:
			close(startedA)
			if c.LoadFile {
				loadDone <- cn.Dictionary().LoadFile(fifo)
			} else {
				loadDone <- cn.Dictionary().Load(pr)
			}
		default:
			handled <- seen{int(h >> 8), h}
		}
	})

	conns := make([]*memnet.Conn, c.Others+1) // [0] = A
	for i := range conns {
		conns[i] = memnet.NewConn()
	}
	var lis *memnet.Listener
	if c.Server {
		lis = memnet.NewListener(len(conns))
		srv := &diam.Server{Handler: mux, Dict: dp}
		go srv.Serve(lis)
		defer lis.Close()
		for _, mc := range conns {
			lis.Push(mc)
		}
	} else {
		for _, mc := range conns {
			if _, err := diam.NewConn(mc, "", mux, dp); err != nil {
				return ev.Failf("harness-conn", "%v", err)
			}
		}
	}
	var relOnce sync.Once
	// release ends the blocked Load: completes the document or closes the source in the middle.
	release := func(complete bool) {
		relOnce.Do(func() {
			if c.LoadFile {
				fifoWMu.Lock()
				w := fifoW
				fifoWMu.Unlock()
				if w == nil {
					// the handler may still sit in open(2): give it a writer
					if f, err := os.OpenFile(fifo, os.O_WRONLY|syscall.O_NONBLOCK, 0); err == nil {
						w = f
					}
				}
				if w != nil {
					if complete {
						w.Write([]byte("</diameter>\n"))
					}
					w.Close()
				}
				return
			}
			if complete {
				pw.Write([]byte("</diameter>\n"))
				pw.Close()
			} else {
				pw.(*io.PipeWriter).CloseWithError(io.ErrUnexpectedEOF)
			}
		})
	}
	defer func() {
		release(false)
		for _, mc := range conns {
			mc.FeedEOF()
		}
		for _, mc := range conns {
			mc.WaitClosed(2 * time.Second)
			mc.Close()
		}
	}()

	// connection A: its handler blocks inside Load / LoadFile
	conns[0].Feed(crossMsg(0xa001))
	select {
	case <-startedA:
	case <-time.After(5 * time.Second):
		return ev.Failf("dispatch-missing", "the first message of connection A was not dispatched within 5 s")
	}
	if c.LoadFile {
		go func() {
			f, err := os.OpenFile(fifo, os.O_WRONLY, 0) // returns when the handler has opened the FIFO for reading
			if err == nil {
				fifoWMu.Lock()
				fifoW = f
				fifoWMu.Unlock()
			}
			openedW <- err
		}()
		select {
		case err := <-openedW:
			if err != nil {
				return ev.Failf("harness-fifo", "%v", err)
			}
		case <-time.After(5 * time.Second):
			return ev.Failf("harness-fifo", "the handler did not open the FIFO within 5 s")
		}
		if _, err := fifoW.Write([]byte(dictLoadPrefix)); err != nil {
			return ev.Failf("harness-fifo", "%v", err)
		}
		// the FIFO buffers: leave Load the time to pick the beginning up (no assertion depends on it)
		time.Sleep(50 * time.Millisecond)
	} else {
		// a pipe write returns when Load has consumed the bytes: from here on the handler sits
		// inside Load, waiting for the rest of the document
		wrote := make(chan error, 1)
		go func() { _, err := pw.Write([]byte(dictLoadPrefix)); wrote <- err }()
		select {
		case err := <-wrote:
			if err != nil {
				return ev.Failf("harness-pipe", "%v", err)
			}
		case <-time.After(5 * time.Second):
			return ev.Failf("harness-pipe", "Load did not read the beginning of the document within 5 s")
		}
	}
	select {
	case err := <-loadDone:
		return ev.Failf("harness-load", "Load returned although its source is still open: %v", err)
	default:
	}

	// messages arriving on the other connections meanwhile
	what := "Load(reader)"
	if c.LoadFile {
		what = "LoadFile(fifo)"
	}
	for k := 0; k < c.Msgs; k++ {
		for i := 1; i <= c.Others; i++ {
			conns[i].Feed(crossMsg(uint32(i)<<8 | uint32(k+1)))
		}
		got := map[int]bool{}
		deadline := time.After(5 * time.Second)
		for len(got) < c.Others {
			select {
			case s := <-handled:
				if s.hbh&0xff != uint32(k+1) || got[s.conn] {
					return ev.Failf("out-of-order", "connection %d: message %#x was handled in round %d", s.conn, s.hbh, k+1)
				}
				got[s.conn] = true
			case err := <-loadDone:
				return ev.Failf("harness-load", "Load returned although its source is still open: %v", err)
			case <-deadline:
				return ev.Failf("dispatch-delayed-by-held-handler", "the handler of connection A is blocked inside c.Dictionary().%s on the dictionary shared by the connections (its source delivered the beginning of a document and is held open); round %d of messages arriving on the %d other connections: only %d dispatched within 5 s", what, k+1, c.Others, len(got))
			}
		}
	}
	// the other connections are idle again (their readers wait for input) before the load ends:
	// the documentation forbids lookups concurrent with the part of Load that fills the indexes
	for i := 1; i <= c.Others; i++ {
		if !conns[i].WaitParked(5 * time.Second) {
			return ev.Failf("harness-parked", "connection %d did not go back to reading within 5 s", i)
		}
	}
	release(c.Complete)
	select {
	case err := <-loadDone:
		if c.Complete && err != nil {
			return ev.Failf("harness-load", "the completed (empty) document did not load: %v", err)
		}
		if !c.Complete && err == nil {
			return ev.Failf("harness-load", "Load of a document cut in the middle reported success")
		}
	case <-time.After(5 * time.Second):
		return ev.Failf("harness-load", "Load did not return within 5 s after its source was completed / closed")
	}
	// the handler of A has returned: A's next message is dispatched, and the others' too
	conns[0].Feed(crossMsg(0x00ff))
	for i := 1; i <= c.Others; i++ {
		conns[i].Feed(crossMsg(uint32(i)<<8 | 0xff))
	}
	got := map[int]bool{}
	deadline := time.After(5 * time.Second)
	for len(got) < c.Others+1 {
		select {
		case s := <-handled:
			if s.hbh&0xff != 0xff || got[s.conn] {
				return ev.Failf("out-of-order", "connection %d: message %#x was handled in the last round", s.conn, s.hbh)
			}
			got[s.conn] = true
		case <-deadline:
			return ev.Failf("dispatch-missing", "after the blocked handler returned, one more message per connection: only %d of %d dispatched within 5 s", len(got), c.Others+1)
		}
	}
	return nil
}

var dictLoadProp = ev.Register(&ev.Prop[DictLoadCase]{
	ID: "C08", Name: "handler-blocked-loading-the-shared-dictionary",
	Rule: "1..3 + 1 in-memory connections (Server.Serve or diam.NewConn) sharing a private base dictionary; the handler of connection A calls c.Dictionary().Load on a pipe / LoadFile on a FIFO whose writer delivered `<?xml ...?><diameter>` and then waits; 1..3 rounds of one message on every other connection arrive meanwhile; demanded: each round is dispatched within 5 s, per connection in order; then the source is completed or closed (other connections idle), the handler returns and one more message on every connection (A included) is dispatched. Every case is non-trivial",
	Run:  runDictLoad,
	Classify: func(c DictLoadCase) (bool, []string) {
		return true, []string{fmt.Sprintf("server:%v", c.Server), fmt.Sprintf("load-file:%v", c.LoadFile), fmt.Sprintf("complete:%v", c.Complete), fmt.Sprintf("others:%d", c.Others)}
	},
})

func TestC08HandlerBlockedLoadingDictionary(t *testing.T) {
	dictLoadProp.Enumerate(t, true, func(yield func(DictLoadCase) bool) {
		maxOthers, maxMsgs := 2, 2
		if ev.Thorough() {
			maxOthers, maxMsgs = 3, 3
		}
		for _, server := range []bool{true, false} {
			for _, lf := range []bool{false, true} {
				for _, complete := range []bool{false, true} {
					for others := 1; others <= maxOthers; others++ {
						for msgs := 1; msgs <= maxMsgs; msgs++ {
							if !ev.Thorough() && others != msgs { // quick: (1,1) and (2,2)
								continue
							}
							if !yield(DictLoadCase{Server: server, LoadFile: lf, Others: others, Msgs: msgs, Complete: complete}) {
								return
							}
						}
					}
				}
			}
		}
	})
}
