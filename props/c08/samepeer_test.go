package c08

import (
	"fmt"
	"sync"
	"testing"
	"time"

	"github.com/fiorix/go-diameter/v4/diam"
	"github.com/fiorix/go-diameter/v4/diam/avp"
	"github.com/fiorix/go-diameter/v4/diam/datatype"
	"github.com/fiorix/go-diameter/v4/diam/dict"
	"github.com/fiorix/go-diameter/v4/diam/sm"
	"pgregory.net/rapid"

	"verif/internal/ev"
	"verif/internal/memnet"
	"verif/internal/refcodec"
)

// "A handler that blocks on one connection does not delay the dispatch of messages arriving on
// other connections" - when the connections are those of state machines and several of them
// completed their capabilities exchange with the SAME peer identity (one client that dialled twice,
// a peer that reconnected while its old connection is still busy, a peer behind a load balancer) as
// well as with different ones. Connections are served by a server-side sm.StateMachine (the scripted
// peer sends the CER) or were made by ONE sm.Client that dialled several times (the scripted peer
// answers the CER); the peers' Origin-Host / Origin-Realm / application lists are drawn from a small
// alphabet so that equal identities, equal hosts with other realms or applications, and different
// hosts all occur, on one side and across both.

type SPConn struct {
	Role  string `json:"role"`           // server: served by the state machine of a server | client: dialled by the sm.Client
	Host  int    `json:"host"`           // the peer is peer<Host>.example
	Realm int    `json:"realm"`          // 0: example, 1: other.example
	Apps  int    `json:"apps"`           // 0: the peer announces {auth 4}, 1: {auth 4, acct 3}
	Late  bool   `json:"late,omitempty"` // its capabilities exchange happens only after the handler of the blocked connection is stuck
}

type SamePeerCase struct {
	Conns []SPConn `json:"conns"` // 2..4
	Block int      `json:"block"` // the connection whose handler gets stuck (never Late)
	// BlockIn: handler = the application handler waits until the test releases it;
	// answer-write = it writes the answer and that write is stuck inside the transport (the peer does not read)
	BlockIn string `json:"block_in"`
	// BlockMsg / Items: ACR (request), ACA (answer) of the accounting application 3, DWR (watchdog request)
	BlockMsg string   `json:"block_msg"` // ACR | ACA (ACR when BlockIn is answer-write)
	Reg      string   `json:"reg"`       // how the application handler is registered in the state machines: ALL | name | idx
	Items    []string `json:"items"`     // what arrives on each of the other connections while the handler is stuck (1..3)
}

func spIdentity(c SPConn) (host, realm string, apps []*refcodec.Node) {
	host, realm = fmt.Sprintf("peer%d.example", c.Host), "example"
	if c.Realm == 1 {
		realm = "other.example"
	}
	apps = []*refcodec.Node{{Code: 258, Flags: 0x40, Payload: refcodec.U32(4)}}
	if c.Apps == 1 {
		apps = append(apps, &refcodec.Node{Code: 259, Flags: 0x40, Payload: refcodec.U32(3)})
	}
	return
}

func spHbH(ci, seq int) uint32 { return uint32(0x10000 + ci<<8 + seq) }

func spMsg(kind string, c SPConn, ci, seq int) []byte {
	host, realm, _ := spIdentity(c)
	hbh := spHbH(ci, seq)
	switch kind {
	case "DWR":
		return refcodec.EncodeMessage(refcodec.Header{Version: 1, Flags: 0x80, Code: 280, HopByHop: hbh, EndToEnd: hbh},
			[]*refcodec.Node{{Code: 264, Flags: 0x40, Payload: []byte(host)}, {Code: 296, Flags: 0x40, Payload: []byte(realm)}}, false)
	case "ACA":
		return refcodec.EncodeMessage(refcodec.Header{Version: 1, Code: 271, App: 3, HopByHop: hbh, EndToEnd: hbh},
			[]*refcodec.Node{{Code: 263, Flags: 0x40, Payload: []byte(fmt.Sprintf("s;%d;%d", ci, seq))}, {Code: 268, Flags: 0x40, Payload: refcodec.U32(2001)}}, false)
	}
	return refcodec.EncodeMessage(refcodec.Header{Version: 1, Flags: 0x80, Code: 271, App: 3, HopByHop: hbh, EndToEnd: hbh},
		[]*refcodec.Node{{Code: 263, Flags: 0x40, Payload: []byte(fmt.Sprintf("s;%d;%d", ci, seq))}}, false)
}

func runSamePeer(c SamePeerCase) *ev.Failure {
	newMachine := func(host string) *sm.StateMachine {
		return sm.New(&sm.Settings{OriginHost: datatype.DiameterIdentity(host), OriginRealm: "example", VendorID: 13, ProductName: "verif",
			HostIPAddresses: []datatype.Address{datatype.Address([]byte{10, 0, 0, 1})}})
	}
	srv, cliM := newMachine("srv.example"), newMachine("cli.example")
	type evt struct{ ci, seq int }
	var mu sync.Mutex
	var entered []evt
	dwas := make([]int, len(c.Conns)) // watchdog answers written per connection
	cond := sync.NewCond(&mu)
	release := make(chan struct{})
	var once sync.Once
	doRelease := func() { once.Do(func() { close(release) }) }
	defer doRelease()
	handler := diam.HandlerFunc(func(cn diam.Conn, m *diam.Message) {
		h := int(m.Header.HopByHopID) - 0x10000
		if h < 0 || h>>8 >= len(c.Conns) {
			return
		}
		ci, seq := h>>8, h&0xff
		mu.Lock()
		entered = append(entered, evt{ci, seq})
		cond.Broadcast()
		mu.Unlock()
		if ci == c.Block && seq == 0 {
			if c.BlockIn == "answer-write" {
				m.Answer(2001).WriteTo(cn) // stuck inside the transport until released
			} else {
				<-release
			}
		}
	})
	for _, machine := range []*sm.StateMachine{srv, cliM} {
		switch c.Reg {
		case "name":
			machine.Handle("ACR", handler)
			machine.Handle("ACA", handler)
		case "idx":
			machine.HandleIdx(diam.CommandIndex{AppID: 3, Code: 271, Request: true}, handler)
			machine.HandleIdx(diam.CommandIndex{AppID: 3, Code: 271, Request: false}, handler)
		default:
			machine.Handle("ALL", handler)
		}
	}
	stop := make(chan struct{})
	defer close(stop)
	for _, machine := range []*sm.StateMachine{srv, cliM} {
		go func(machine *sm.StateMachine) {
			for {
				select {
				case <-machine.ErrorReports():
				case <-machine.HandshakeNotify():
				case <-stop:
					return
				}
			}
		}(machine)
	}
	cli := &sm.Client{Handler: cliM, MaxRetransmits: 0, RetransmitInterval: 20 * time.Second,
		AuthApplicationID: []*diam.AVP{diam.NewAVP(avp.AuthApplicationID, avp.Mbit, 0, datatype.Unsigned32(4))},
		AcctApplicationID: []*diam.AVP{diam.NewAVP(avp.AcctApplicationID, avp.Mbit, 0, datatype.Unsigned32(3))}}

	conns := make([]*memnet.Conn, len(c.Conns))
	stuck := make(chan struct{}, 1)
	defer func() {
		doRelease()
		for _, mc := range conns {
			if mc != nil {
				mc.FeedEOF()
			}
		}
		for _, mc := range conns {
			if mc != nil {
				mc.WaitClosed(2 * time.Second)
				mc.Close()
			}
		}
	}()
	// wait until pred holds (called with mu held) or the deadline passes
	waitFor := func(pred func() bool) bool {
		deadline := time.Now().Add(dispatchDeadline)
		timer := time.AfterFunc(dispatchDeadline, func() { mu.Lock(); cond.Broadcast(); mu.Unlock() })
		defer timer.Stop()
		mu.Lock()
		defer mu.Unlock()
		for !pred() {
			if !time.Now().Before(deadline) {
				return false
			}
			cond.Wait()
		}
		return true
	}
	describe := func(ci int) string {
		h, r, _ := spIdentity(c.Conns[ci])
		return fmt.Sprintf("connection %d (%s side, peer %s / %s / application set %d)", ci, c.Conns[ci].Role, h, r, c.Conns[ci].Apps)
	}
	held := func() string {
		return fmt.Sprintf("the handler of the %s on %s is stuck (%s)", c.BlockMsg, describe(c.Block), c.BlockIn)
	}
	// handshake performs the capabilities exchange of connection ci; blocked says whether the
	// handler of the blocked connection is stuck meanwhile
	handshake := func(ci int, blocked bool) *ev.Failure {
		sc := c.Conns[ci]
		host, realm, apps := spIdentity(sc)
		mc := memnet.NewConn()
		mc.Remote = memnet.Addr{Net: "tcp", Str: fmt.Sprintf("10.9.6.%d:40000", ci+1)}
		conns[ci] = mc
		sig := "harness-handshake"
		why := ""
		if blocked {
			sig, why = "dispatch-delayed-by-held-handler", " while "+held()
		}
		mc.WriteHook = func(b []byte, accept func([]byte)) (int, error) {
			h, err := refcodec.DecodeHeader(b)
			if err == nil && ci == c.Block && c.BlockIn == "answer-write" && h.Code == 271 && h.Flags&0x80 == 0 {
				select {
				case stuck <- struct{}{}:
				default:
				}
				<-release
			}
			accept(b)
			if err != nil {
				return len(b), nil
			}
			switch {
			case h.Code == 257 && h.Flags&0x80 != 0 && sc.Role == "client":
				nodes := []*refcodec.Node{{Code: 268, Flags: 0x40, Payload: refcodec.U32(2001)}, {Code: 264, Flags: 0x40, Payload: []byte(host)},
					{Code: 296, Flags: 0x40, Payload: []byte(realm)}, {Code: 257, Flags: 0x40, Payload: refcodec.Address(1, []byte{10, 0, 0, 2})},
					{Code: 266, Flags: 0x40, Payload: refcodec.U32(13)}, {Code: 269, Payload: []byte("peer")}}
				mc.Feed(refcodec.EncodeMessage(refcodec.Header{Version: 1, Code: 257, HopByHop: h.HopByHop, EndToEnd: h.EndToEnd}, append(nodes, apps...), false))
			case h.Code == 280 && h.Flags&0x80 == 0:
				mu.Lock()
				dwas[ci]++
				cond.Broadcast()
				mu.Unlock()
			}
			return len(b), nil
		}
		if sc.Role == "client" {
			done := make(chan error, 1)
			go func() { _, err := cli.NewConn(mc, "peer"); done <- err }()
			select {
			case err := <-done:
				if err != nil {
					return ev.Failf("harness-handshake", "%s: the client's handshake failed: %v", describe(ci), err)
				}
			case <-time.After(dispatchDeadline):
				return ev.Failf(sig, "%s: the scripted peer answered the client's CER at once, but the client's capabilities exchange did not complete within %v%s", describe(ci), dispatchDeadline, why)
			}
			return nil
		}
		if _, err := diam.NewConn(mc, "", srv, dict.Default); err != nil {
			return ev.Failf("harness-conn", "%v", err)
		}
		nodes := []*refcodec.Node{{Code: 264, Flags: 0x40, Payload: []byte(host)}, {Code: 296, Flags: 0x40, Payload: []byte(realm)},
			{Code: 257, Flags: 0x40, Payload: refcodec.Address(1, []byte{10, 0, 0, 2})}, {Code: 266, Flags: 0x40, Payload: refcodec.U32(1)}, {Code: 269, Payload: []byte("p")}}
		mc.Feed(refcodec.EncodeMessage(refcodec.Header{Version: 1, Flags: 0x80, Code: 257, HopByHop: 1, EndToEnd: 2}, append(nodes, apps...), false))
		if !mc.WaitWrites(1, dispatchDeadline) {
			return ev.Failf(sig, "%s sent its CER and got no CEA within %v%s", describe(ci), dispatchDeadline, why)
		}
		if w := mc.Writes(); len(w) > 0 {
			if h, err := refcodec.DecodeHeader(w[0].Data); err != nil || h.Code != 257 {
				return ev.Failf("harness-handshake", "%s: the first thing written is not a CEA", describe(ci))
			}
		}
		return nil
	}
	for ci := range c.Conns {
		if !c.Conns[ci].Late || ci == c.Block {
			if f := handshake(ci, false); f != nil {
				return f
			}
		}
	}
	// the message whose handler gets stuck, and one more behind it on the same connection
	conns[c.Block].Feed(spMsg(c.BlockMsg, c.Conns[c.Block], c.Block, 0), spMsg("ACR", c.Conns[c.Block], c.Block, 1))
	if !waitFor(func() bool { return len(entered) > 0 }) {
		return ev.Failf("dispatch-missing", "%s completed its capabilities exchange and sent a %s; its handler was not started within %v", describe(c.Block), c.BlockMsg, dispatchDeadline)
	}
	if c.BlockIn == "answer-write" {
		select {
		case <-stuck:
		case <-time.After(dispatchDeadline):
			return ev.Failf("harness-no-answer", "the handler's answer on %s did not reach the transport within %v", describe(c.Block), dispatchDeadline)
		}
	}
	for ci := range c.Conns {
		if c.Conns[ci].Late && ci != c.Block {
			if f := handshake(ci, true); f != nil {
				return f
			}
		}
	}
	// messages arrive on every other connection, all at once
	wantApp, wantDWA := make([]int, len(c.Conns)), make([]int, len(c.Conns))
	for ci := range c.Conns {
		if ci == c.Block {
			continue
		}
		var seg []byte
		for k, it := range c.Items {
			seg = append(seg, spMsg(it, c.Conns[ci], ci, k)...)
			if it == "DWR" {
				wantDWA[ci]++
			} else {
				wantApp[ci]++
			}
		}
		conns[ci].Feed(seg)
	}
	count := func(ci int) (n int) {
		for _, e := range entered {
			if e.ci == ci {
				n++
			}
		}
		return
	}
	for ci := range c.Conns {
		if ci == c.Block {
			continue
		}
		ci := ci
		if !waitFor(func() bool { return count(ci) >= wantApp[ci] && dwas[ci] >= wantDWA[ci] }) {
			mu.Lock()
			got, gotDWA := count(ci), dwas[ci]
			mu.Unlock()
			return ev.Failf("dispatch-delayed-by-held-handler", "while %s, %v arrived on %s: after %v %d of %d application messages had reached the handler and %d of %d watchdog requests had been answered",
				held(), c.Items, describe(ci), dispatchDeadline, got, wantApp[ci], gotDWA, wantDWA[ci])
		}
	}
	mu.Lock()
	// per connection, the handler saw the messages in the order they were sent; on the blocked
	// connection nothing was started behind the stuck handler
	last := map[int]int{}
	for _, e := range entered {
		if e.ci == c.Block && e.seq != 0 {
			mu.Unlock()
			return ev.Failf("handler-overlap", "the handler for the next message on %s was started while %s", describe(c.Block), held())
		}
		if prev, ok := last[e.ci]; ok && e.seq <= prev {
			mu.Unlock()
			return ev.Failf("out-of-order", "%s: the handler saw message %d after message %d", describe(e.ci), e.seq, prev)
		}
		last[e.ci] = e.seq
	}
	mu.Unlock()
	doRelease()
	if !waitFor(func() bool { return count(c.Block) >= 2 }) {
		return ev.Failf("dispatch-missing", "after the stuck handler on %s was released, the next message of that connection was not handed to the handler within %v", describe(c.Block), dispatchDeadline)
	}
	return nil
}

func genSamePeer(t *rapid.T) SamePeerCase {
	var c SamePeerCase
	n := rapid.IntRange(2, 4).Draw(t, "conns")
	side := rapid.SampledFrom([]string{"server", "client", "mixed"}).Draw(t, "side")
	hosts := rapid.IntRange(1, 2).Draw(t, "hosts") // 1: every connection is the same host
	for i := 0; i < n; i++ {
		sc := SPConn{Role: side, Host: rapid.IntRange(0, hosts-1).Draw(t, "host")}
		if side == "mixed" {
			sc.Role = rapid.SampledFrom([]string{"server", "client"}).Draw(t, "role")
		}
		if rapid.IntRange(0, 4).Draw(t, "other-realm") == 0 {
			sc.Realm = 1
		}
		if rapid.IntRange(0, 4).Draw(t, "other-apps") == 0 {
			sc.Apps = 1
		}
		sc.Late = rapid.IntRange(0, 3).Draw(t, "late") == 0
		c.Conns = append(c.Conns, sc)
	}
	c.Block = rapid.IntRange(0, n-1).Draw(t, "block")
	c.Conns[c.Block].Late = false
	c.BlockIn = rapid.SampledFrom([]string{"handler", "handler", "answer-write"}).Draw(t, "block-in")
	c.BlockMsg = "ACR"
	if c.BlockIn == "handler" && rapid.Bool().Draw(t, "block-on-answer") {
		c.BlockMsg = "ACA"
	}
	c.Reg = rapid.SampledFrom([]string{"ALL", "name", "idx"}).Draw(t, "reg")
	k := rapid.IntRange(1, 3).Draw(t, "items")
	for i := 0; i < k; i++ {
		c.Items = append(c.Items, rapid.SampledFrom([]string{"ACR", "ACR", "ACA", "DWR"}).Draw(t, "item"))
	}
	return c
}

func samePeerClasses(c SamePeerCase) (bool, []string) {
	cl := map[string]bool{"block-in:" + c.BlockIn: true, "reg:" + c.Reg: true, "blocked-side:" + c.Conns[c.Block].Role: true}
	nt := false
	b := c.Conns[c.Block]
	for i, sc := range c.Conns {
		if i == c.Block {
			continue
		}
		same := sc.Host == b.Host && sc.Realm == b.Realm && sc.Apps == b.Apps
		switch {
		case same:
			cl["other-connection-of-the-same-peer-identity"] = true
			nt = true
			if sc.Role != b.Role {
				cl["same-identity-across-client-and-server"] = true
			}
			if sc.Late {
				cl["same-identity-handshake-while-blocked"] = true
			}
		case sc.Host == b.Host:
			cl["same-host-other-realm-or-applications"] = true
		default:
			cl["other-host"] = true
		}
	}
	var ks []string
	for k := range cl {
		ks = append(ks, k)
	}
	for i := 1; i < len(ks); i++ {
		for j := i; j > 0 && ks[j] < ks[j-1]; j-- {
			ks[j], ks[j-1] = ks[j-1], ks[j]
		}
	}
	return nt, ks
}

var samePeerProp = ev.Register(&ev.Prop[SamePeerCase]{
	ID: "C08", Name: "state-machine-same-peer",
	Rule: "2..4 in-memory connections of state machines: served by one server-side sm.StateMachine (scripted peers send the CER) and / or made by ONE sm.Client dialling several times (scripted peers answer the CER); the peers' Origin-Host (1..2 hosts), Origin-Realm and application list are drawn so that several connections complete the capabilities exchange with the SAME identity, others with the same host but another realm / application list, others with another host; the application handler (registered as ALL, by name or by index) of a request or an answer on one connection gets stuck - waiting for the test, or writing its answer into a transport whose peer does not read - with one more message queued behind it; 0.. of the other connections do their capabilities exchange only then; 1..3 messages {ACR, ACA, DWR} arrive on every other connection. " +
		"Demanded, with 5 s bounds: the late capabilities exchanges complete, every application message on the other connections reaches the handler (in order) and every watchdog request is answered while the handler is still stuck; nothing is started behind the stuck handler on its own connection, and the queued message is handled once it is released. non-trivial = another connection has the same peer identity as the blocked one",
	Gen: genSamePeer, Run: runSamePeer, Classify: samePeerClasses,
})

func TestC08SamePeerConnections(t *testing.T) { samePeerProp.Check(t, 60, 2500) }

// The plain cases: two and three connections of one peer identity on the server side, on the client
// side (one client dialling twice) and across, every registration, both ways of getting stuck.
func TestC08SamePeerFixed(t *testing.T) {
	samePeerProp.Enumerate(t, false, func(yield func(SamePeerCase) bool) {
		for _, roles := range [][]string{{"server", "server"}, {"client", "client"}, {"server", "client"}, {"client", "server"}, {"client", "client", "client"}, {"server", "server", "server"}} {
			for _, reg := range []string{"ALL", "name", "idx"} {
				for _, blockIn := range []string{"handler", "answer-write"} {
					for _, late := range []bool{false, true} {
						c := SamePeerCase{Block: 0, BlockIn: blockIn, BlockMsg: "ACR", Reg: reg, Items: []string{"ACR", "DWR", "ACA"}}
						for i, r := range roles {
							c.Conns = append(c.Conns, SPConn{Role: r, Late: late && i == len(roles)-1})
						}
						if !yield(c) {
							return
						}
					}
				}
			}
		}
	})
}
