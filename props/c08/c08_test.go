// C08 - On one connection handlers run one at a time, in arrival order; a
// handler that blocks on one connection does not delay the others.
//
// The harness is the scheduler: a Case scripts, for 1..4 connections served
// by the library (accept path: Server.Serve on a memnet.Listener; dial path:
// diam.NewConn), the fragments in which numbered messages arrive, the global
// interleaving of those fragments, what each handler does (return, yield,
// sleep, block until released) and when blocked handlers are released. A
// model of "one handler at a time per connection, connections independent"
// says, at every release point, how far each connection must have got; the
// harness waits for exactly that (bounded) before it releases anything.
package c08

import (
	"fmt"
	"io"
	"log"
	"os"
	"runtime"
	"sort"
	"sync"
	"sync/atomic"
	"testing"
	"time"

	"github.com/fiorix/go-diameter/v4/diam"
	"github.com/fiorix/go-diameter/v4/diam/datatype"
	"github.com/fiorix/go-diameter/v4/diam/dict"
	"pgregory.net/rapid"

	"verif/internal/ev"
	"verif/internal/gen"
	"verif/internal/memnet"
)

const (
	codeConn = 258 // Auth-Application-Id, Unsigned32: connection tag
	codeSeq  = 278 // Origin-State-Id, Unsigned32: 1-based number of the message on its connection
	codeFill = 33  // Proxy-State, OctetString
)

// dispatchDeadline bounds the waits for events that take microseconds on
// correct code (a delivered message is handed to its handler).
const dispatchDeadline = 5 * time.Second

type HMsg struct {
	Beh  string `json:"beh"` // return | gosched | sleep | hold | write (answers with WriteToWithRetry) | write-hold (answers with WriteToWithRetry and the transport stalls that write until released)
	K    int    `json:"k,omitempty"`
	Fill int    `json:"fill,omitempty"`
	Ans  bool   `json:"ans,omitempty"` // the message is an answer (R bit clear): the client-side case
	// Stream: on a multi-stream (SCTP) connection, the stream the message arrives on. The
	// association is ONE connection: messages are handled one at a time in arrival order
	// whatever streams they use.
	Stream uint16 `json:"stream,omitempty"`
}

type CConn struct {
	Dial    bool   `json:"dial"` // diam.NewConn instead of Server.Serve
	Msgs    []HMsg `json:"msgs"`
	Pattern string `json:"pattern"`        // one | bytes | frags
	Cuts    []int  `json:"cuts,omitempty"` // frags: cut points, permille of the connection's byte stream
	// SCTP: a multi-stream association (diam.SCTPConn over the in-memory backend, dial path);
	// every message arrives as one chunk on its HMsg.Stream.
	SCTP bool `json:"sctp,omitempty"`
	// CloseNotify: the handler of the connection's first message asks for the CloseNotify channel
	// (from then on the library keeps a read outstanding on the transport while handlers run).
	CloseNotify bool `json:"close_notify,omitempty"`
	// EOFEarly: the peer closes its side right behind the last fragment instead of at the end of
	// the case; what it sent before must still be handled one message at a time, in order.
	EOFEarly bool `json:"eof_early,omitempty"`
}

type Step struct {
	Op   string `json:"op"` // feed | release | register (a handler for another command is registered on the mux from another goroutine, as sm.Client does for every dial)
	Conn int    `json:"conn"`
	N    int    `json:"n,omitempty"` // feed: number of fragments
}

type Case struct {
	Conns []CConn `json:"conns"`
	Steps []Step  `json:"steps"` // afterwards: everything left is fed, then held handlers are released one by one
	// WriteTimeoutMs > 0: the accepting Server is configured with that WriteTimeout (a deadline
	// for writes to the peer; it must not change how handlers are sequenced, however long they run)
	WriteTimeoutMs int `json:"write_timeout_ms,omitempty"`
	// NilHandler: Server.Handler is nil and NewConn gets a nil handler: messages go to
	// diam.DefaultServeMux (handlers registered with diam.HandleFunc).
	NilHandler bool `json:"nil_handler,omitempty"`
}

// The handler registered on diam.DefaultServeMux forwards to the running case.
var defaultTarget atomic.Value // func(diam.Conn, *diam.Message)

func init() {
	diam.HandleFunc("ALL", func(c diam.Conn, m *diam.Message) {
		if f, ok := defaultTarget.Load().(func(diam.Conn, *diam.Message)); ok && f != nil {
			f(c, m)
		}
	})
}

func abstractMsg(conn, seq, fill int, ans bool) gen.Msg {
	flags := uint8(0x80)
	if ans {
		flags = 0
	}
	m := gen.Msg{Flags: flags, Code: 280, App: 0, HbH: uint32(conn + 1), E2E: uint32(seq), AVPs: []*gen.AVP{
		{Code: codeConn, Flags: 0x40, V: gen.Val{T: gen.TUnsigned32, U: uint64(conn)}},
		{Code: codeSeq, Flags: 0x40, V: gen.Val{T: gen.TUnsigned32, U: uint64(seq)}},
	}}
	if fill > 0 {
		f := make([]byte, fill)
		for i := range f {
			f[i] = byte(conn*16 + seq + i)
		}
		m.AVPs = append(m.AVPs, &gen.AVP{Code: codeFill, Flags: 0x40, V: gen.Val{T: gen.TOctetString, B: f}})
	}
	return m
}

// layout returns the fragments of a connection and the end offset of each message.
func layout(ci int, c *CConn) (frags [][]byte, ends []int) {
	var stream []byte
	for i, m := range c.Msgs {
		a := abstractMsg(ci, i+1, m.Fill, m.Ans)
		stream = append(stream, a.RefBytes()...)
		ends = append(ends, len(stream))
	}
	if c.SCTP { // one chunk per message
		prev := 0
		for _, e := range ends {
			frags = append(frags, stream[prev:e])
			prev = e
		}
		return frags, ends
	}
	switch c.Pattern {
	case "bytes":
		for i := range stream {
			frags = append(frags, stream[i:i+1])
		}
	case "frags":
		var cuts []int
		for _, p := range c.Cuts {
			if p < 0 {
				p = 0
			}
			if p > 1000 {
				p = 1000
			}
			cuts = append(cuts, len(stream)*p/1000)
		}
		sort.Ints(cuts)
		prev := 0
		for _, x := range cuts {
			if x > prev && x < len(stream) {
				frags = append(frags, stream[prev:x])
				prev = x
			}
		}
		frags = append(frags, stream[prev:])
	default:
		frags = [][]byte{stream}
	}
	return frags, ends
}

// ---------------------------------------------------------------------------
// the model and the driver shared by the runner and the classifier

type model struct {
	c         *Case
	frags     [][][]byte
	ends      [][]int
	next      []int // next fragment to feed
	fed       []int // bytes fed
	delivered []int // complete messages fed
	done      []int // handlers that must have returned
	held      []int // seq of the handler that must be blocked now (0: none)
	released  []map[int]bool
}

func newModel(c *Case) *model {
	n := len(c.Conns)
	m := &model{c: c, frags: make([][][]byte, n), ends: make([][]int, n), next: make([]int, n), fed: make([]int, n),
		delivered: make([]int, n), done: make([]int, n), held: make([]int, n), released: make([]map[int]bool, n)}
	for i := range c.Conns {
		m.frags[i], m.ends[i] = layout(i, &c.Conns[i])
		m.released[i] = map[int]bool{}
	}
	return m
}

func (m *model) advance(ci int) {
	m.held[ci] = 0
	for m.done[ci] < m.delivered[ci] {
		nx := m.done[ci] + 1
		if b := m.c.Conns[ci].Msgs[nx-1].Beh; (b == "hold" || b == "write-hold" || b == "answer-hold") && !m.released[ci][nx] {
			m.held[ci] = nx
			return
		}
		m.done[ci] = nx
	}
}

type hooks struct {
	eof        func(ci int)
	register   func()
	feed       func(ci int, frag []byte)
	release    func(ci, seq int)
	checkpoint func(m *model, why string) *ev.Failure
}

// drive executes the script against the hooks.
func drive(c *Case, h hooks) *ev.Failure {
	m := newModel(c)
	feed := func(ci, n int) {
		for ; n > 0 && m.next[ci] < len(m.frags[ci]); n-- {
			f := m.frags[ci][m.next[ci]]
			m.next[ci]++
			m.fed[ci] += len(f)
			for m.delivered[ci] < len(m.ends[ci]) && m.ends[ci][m.delivered[ci]] <= m.fed[ci] {
				m.delivered[ci]++
			}
			h.feed(ci, f)
			if m.next[ci] == len(m.frags[ci]) && c.Conns[ci].EOFEarly && h.eof != nil {
				h.eof(ci)
			}
		}
		m.advance(ci)
	}
	release := func(ci int) *ev.Failure {
		if m.held[ci] == 0 {
			return nil
		}
		// every connection must have got as far as it can before anything is released
		if f := h.checkpoint(m, fmt.Sprintf("before releasing the handler of message %d on connection %d", m.held[ci], ci)); f != nil {
			return f
		}
		seq := m.held[ci]
		m.released[ci][seq] = true
		h.release(ci, seq)
		m.advance(ci)
		return nil
	}
	for _, s := range c.Steps {
		if s.Conn < 0 || s.Conn >= len(c.Conns) {
			continue
		}
		switch s.Op {
		case "feed":
			feed(s.Conn, s.N)
		case "release":
			if f := release(s.Conn); f != nil {
				return f
			}
		case "register":
			if h.register != nil {
				h.register()
			}
		}
	}
	for ci := range c.Conns {
		feed(ci, len(m.frags[ci]))
	}
	for {
		anyHeld := false
		for ci := range c.Conns {
			if m.held[ci] != 0 {
				anyHeld = true
				if f := release(ci); f != nil {
					return f
				}
				break
			}
		}
		if !anyHeld {
			break
		}
	}
	return h.checkpoint(m, "at the end")
}

// ---------------------------------------------------------------------------
// the runner

// transport is what the runner needs from a scripted connection (TCP-like or SCTP).
type transport struct {
	Feed       func([]byte)
	FeedEOF    func()
	WaitClosed func(time.Duration) bool
	Close      func()
}

type event struct {
	conn, seq int
	exit      bool
}

type eventLog struct {
	mu     sync.Mutex
	cond   *sync.Cond
	events []event
	enters []int // highest seq entered per connection (count of enter events)
	exits  []int
	bad    string
}

func (l *eventLog) add(e event) {
	l.mu.Lock()
	l.events = append(l.events, e)
	if e.conn >= 0 && e.conn < len(l.enters) {
		if e.exit {
			l.exits[e.conn]++
		} else {
			l.enters[e.conn]++
		}
	}
	l.cond.Broadcast()
	l.mu.Unlock()
}

func (l *eventLog) wait(timeout time.Duration, pred func() bool) bool {
	deadline := time.Now().Add(timeout)
	timer := time.AfterFunc(timeout, func() { l.mu.Lock(); l.cond.Broadcast(); l.mu.Unlock() })
	defer timer.Stop()
	l.mu.Lock()
	defer l.mu.Unlock()
	for !pred() {
		if time.Now().After(deadline) {
			return false
		}
		l.cond.Wait()
	}
	return true
}

func u32(m *diam.Message, code uint32) (int, bool) {
	a, err := m.FindAVP(code, 0)
	if err != nil || a == nil {
		return 0, false
	}
	v, ok := a.Data.(datatype.Unsigned32)
	return int(v), ok
}

func runCase(c Case) *ev.Failure {
	n := len(c.Conns)
	if n == 0 {
		return nil
	}
	lg := &eventLog{enters: make([]int, n), exits: make([]int, n)}
	lg.cond = sync.NewCond(&lg.mu)
	gates := make([][]chan struct{}, n)
	var gateOnce sync.Mutex
	gateOpen := make([]map[int]bool, n)
	for i := range c.Conns {
		gates[i] = make([]chan struct{}, len(c.Conns[i].Msgs))
		gateOpen[i] = map[int]bool{}
		for j := range gates[i] {
			gates[i][j] = make(chan struct{})
		}
	}
	open := func(ci, seq int) {
		gateOnce.Lock()
		if !gateOpen[ci][seq] {
			gateOpen[ci][seq] = true
			close(gates[ci][seq-1])
		}
		gateOnce.Unlock()
	}

	stall := make([]*atomic.Value, n) // per TCP-like connection: the gate its transport's Write waits on, if any
	mux := diam.NewServeMux()
	handle := func(hc diam.Conn, m *diam.Message) {
		ci, ok1 := u32(m, codeConn)
		seq, ok2 := u32(m, codeSeq)
		if !ok1 || !ok2 || ci < 0 || ci >= n || seq < 1 || seq > len(c.Conns[ci].Msgs) {
			lg.mu.Lock()
			if lg.bad == "" {
				lg.bad = fmt.Sprintf("a handler received a message that was never sent (connection tag %d ok=%v, seq %d ok=%v)", ci, ok1, seq, ok2)
			}
			lg.cond.Broadcast()
			lg.mu.Unlock()
			return
		}
		lg.add(event{conn: ci, seq: seq})
		if seq == 1 && c.Conns[ci].CloseNotify {
			if cn, ok := hc.(diam.CloseNotifier); ok {
				ch := cn.CloseNotify()
				_ = ch
			}
		}
		b := c.Conns[ci].Msgs[seq-1]
		switch b.Beh {
		case "gosched":
			for i := 0; i < b.K; i++ {
				runtime.Gosched()
			}
		case "sleep":
			time.Sleep(time.Duration(b.K) * time.Microsecond)
		case "hold":
			<-gates[ci][seq-1]
		case "answer-hold":
			// the request is answered, and the handler goes on with work of its own
			m.Answer(2001).WriteTo(hc)
			<-gates[ci][seq-1]
		case "write":
			m.Answer(2001).WriteToWithRetry(hc, 2)
		case "write-hold":
			// the handler is stuck inside the library's own write path: the peer does not read
			if stall[ci] == nil { // a multi-stream association: no scripted write path, hold in the handler
				<-gates[ci][seq-1]
				break
			}
			stall[ci].Store(gates[ci][seq-1])
			m.Answer(2001).WriteToWithRetry(hc, 2)
			stall[ci].Store((chan struct{})(nil))
		}
		lg.add(event{conn: ci, seq: seq, exit: true})
	}
	mux.HandleFunc("ALL", handle)
	var handler diam.Handler = mux
	reports := mux.ErrorReports()
	if c.NilHandler {
		defaultTarget.Store(handle)
		defer defaultTarget.Store(func(diam.Conn, *diam.Message) {})
		handler, reports = nil, diam.ErrorReports()
	}
	stop := make(chan struct{})
	var bg sync.WaitGroup
	bg.Add(1)
	go func() {
		defer bg.Done()
		for {
			select {
			case <-reports:
			case <-stop:
				return
			}
		}
	}()

	lis := memnet.NewListener(n + 1)
	srv := &diam.Server{Handler: handler, Dict: dict.Default, WriteTimeout: time.Duration(c.WriteTimeoutMs) * time.Millisecond}
	served := make(chan error, 1)
	go func() { served <- srv.Serve(lis) }()
	conns := make([]transport, n)
	var fail *ev.Failure
	for i := range c.Conns {
		if c.Conns[i].SCTP {
			be := memnet.NewSCTP()
			cc := &c.Conns[i]
			k := 0
			conns[i] = transport{
				Feed:       func(b []byte) { be.Feed(memnet.Chunk{Stream: cc.Msgs[k].Stream, Data: b}); k++ },
				FeedEOF:    be.FeedEOF,
				WaitClosed: be.WaitClosed,
				Close:      func() { be.Close() },
			}
			if _, err := diam.NewConn(diam.NewVerifSCTPConn(be), "", handler, dict.Default); err != nil && fail == nil {
				fail = ev.Failf("harness-conn", "NewConn: %v", err)
			}
			continue
		}
		mc := memnet.NewConn()
		mc.Remote = memnet.Addr{Net: "tcp", Str: fmt.Sprintf("10.9.8.%d:40000", i+1)}
		st := &atomic.Value{}
		st.Store((chan struct{})(nil))
		stall[i] = st
		mc.WriteHook = func(b []byte, accept func([]byte)) (int, error) {
			if g, _ := st.Load().(chan struct{}); g != nil {
				<-g
			}
			accept(b)
			return len(b), nil
		}
		conns[i] = transport{Feed: func(b []byte) { mc.Feed(b) }, FeedEOF: mc.FeedEOF, WaitClosed: mc.WaitClosed, Close: func() { mc.Close() }}
		if c.Conns[i].Dial {
			if _, err := diam.NewConn(mc, "", handler, dict.Default); err != nil && fail == nil {
				fail = ev.Failf("harness-conn", "NewConn: %v", err)
			}
		} else {
			lis.Push(mc)
		}
	}

	var regs sync.WaitGroup
	nreg := 0
	if fail == nil {
		fail = drive(&c, hooks{
			register: func() {
				// from another goroutine; it may have to wait for handlers that are running, but
				// must not keep later messages of any connection from being dispatched
				nreg++
				name := fmt.Sprintf("ZZ%dR", nreg)
				done := make(chan struct{})
				regs.Add(1)
				go func() {
					defer regs.Done()
					defer close(done)
					if c.NilHandler {
						diam.HandleFunc(name, func(diam.Conn, *diam.Message) {})
					} else {
						mux.HandleFunc(name, func(diam.Conn, *diam.Message) {})
					}
				}()
				select {
				case <-done:
				case <-time.After(3 * time.Millisecond):
				}
			},
			feed:    func(ci int, frag []byte) { conns[ci].Feed(frag) },
			eof:     func(ci int) { conns[ci].FeedEOF() },
			release: open,
			checkpoint: func(m *model, why string) *ev.Failure {
				ok := lg.wait(dispatchDeadline, func() bool {
					if lg.bad != "" {
						return true
					}
					for ci := 0; ci < n; ci++ {
						if lg.exits[ci] < m.done[ci] || m.held[ci] != 0 && lg.enters[ci] < m.held[ci] {
							return false
						}
					}
					return true
				})
				if ok {
					return nil
				}
				lg.mu.Lock()
				defer lg.mu.Unlock()
				holder := -1
				for ci := 0; ci < n; ci++ {
					if m.held[ci] != 0 && lg.enters[ci] >= m.held[ci] {
						holder = ci
					}
				}
				for ci := 0; ci < n; ci++ {
					if lg.exits[ci] < m.done[ci] || m.held[ci] != 0 && lg.enters[ci] < m.held[ci] {
						want := fmt.Sprintf("%d handlers returned", m.done[ci])
						if m.held[ci] != 0 {
							want += fmt.Sprintf(" and the handler of message %d entered", m.held[ci])
						}
						if holder >= 0 && holder != ci {
							return ev.Failf("dispatch-delayed-by-held-handler", "%s: connection %d has %d complete messages delivered (want %s) but after %v only %d handlers were entered and %d returned, while the handler of message %d on connection %d is held", why, ci, m.delivered[ci], want, dispatchDeadline, lg.enters[ci], lg.exits[ci], m.held[holder], holder)
						}
						return ev.Failf("dispatch-missing", "%s: connection %d has %d complete messages delivered (want %s) but after %v only %d handlers were entered and %d returned", why, ci, m.delivered[ci], want, dispatchDeadline, lg.enters[ci], lg.exits[ci])
					}
				}
				return ev.Failf("harness-wait", "%s: wait failed without a lagging connection", why)
			},
		})
	}

	// shut everything down (also after a failure: no goroutine may survive the case)
	for i := range c.Conns {
		for j := range c.Conns[i].Msgs {
			open(i, j+1)
		}
	}
	for i := range conns {
		conns[i].FeedEOF()
	}
	for i := range conns {
		if !conns[i].WaitClosed(dispatchDeadline) && fail == nil {
			fail = ev.Failf("harness-conn-not-closed", "connection %d was not closed within %v of EOF", i, dispatchDeadline)
		}
		conns[i].Close()
	}
	lis.Close()
	select {
	case <-served:
	case <-time.After(dispatchDeadline):
		if fail == nil {
			fail = ev.Failf("harness-serve", "Serve did not return within %v of closing the listener", dispatchDeadline)
		}
	}
	close(stop)
	bg.Wait()
	regs.Wait()
	if fail != nil {
		return fail
	}

	lg.mu.Lock()
	defer lg.mu.Unlock()
	if lg.bad != "" {
		return ev.Failf("foreign-message", "%s", lg.bad)
	}
	// per connection the log must read enter 1, exit 1, enter 2, exit 2, ...
	pos := make([]int, n) // number of events seen per connection
	for _, e := range lg.events {
		k := pos[e.conn]
		pos[e.conn]++
		wantSeq, wantExit := k/2+1, k%2 == 1
		if e.seq == wantSeq && e.exit == wantExit {
			continue
		}
		what := "enter"
		if e.exit {
			what = "exit"
		}
		switch {
		case !e.exit && !wantExit && e.seq > wantSeq:
			return ev.Failf("out-of-order", "connection %d: the handler of message %d was entered before the handler of message %d", e.conn, e.seq, wantSeq)
		case !e.exit && wantExit:
			return ev.Failf("handler-overlap", "connection %d: the handler of message %d was entered before the handler of message %d had returned (%s)", e.conn, e.seq, wantSeq, describe(&c, e.conn))
		case !e.exit && e.seq < wantSeq:
			return ev.Failf("dispatched-twice", "connection %d: message %d was handed to a handler again after message %d", e.conn, e.seq, wantSeq-1)
		default:
			return ev.Failf("log-order", "connection %d: event %d is %s %d, want seq %d exit=%v", e.conn, k, what, e.seq, wantSeq, wantExit)
		}
	}
	for ci := range c.Conns {
		if pos[ci] != 2*len(c.Conns[ci].Msgs) {
			return ev.Failf("dispatch-missing", "connection %d: %d messages were delivered but the log has %d enter/exit events", ci, len(c.Conns[ci].Msgs), pos[ci])
		}
	}
	return nil
}

func describe(c *Case, ci int) string {
	s := fmt.Sprintf("pattern %s, behaviours", c.Conns[ci].Pattern)
	for _, m := range c.Conns[ci].Msgs {
		s += " " + m.Beh
	}
	return s
}

// ---------------------------------------------------------------------------
// generator and classification

func genCase(t *rapid.T) Case {
	var c Case
	if rapid.IntRange(0, 3).Draw(t, "write-timeout") == 0 {
		c.WriteTimeoutMs = rapid.IntRange(1, 20).Draw(t, "write-timeout-ms")
	}
	c.NilHandler = rapid.IntRange(0, 4).Draw(t, "nil-handler") == 0
	nc := rapid.IntRange(1, 4).Draw(t, "conns")
	for i := 0; i < nc; i++ {
		cc := CConn{Dial: rapid.Bool().Draw(t, "dial")}
		if rapid.IntRange(0, 4).Draw(t, "sctp") == 0 {
			cc.SCTP, cc.Dial = true, true
		}
		nm := rapid.IntRange(1, 8).Draw(t, "msgs")
		for j := 0; j < nm; j++ {
			m := HMsg{Beh: rapid.SampledFrom([]string{"return", "hold", "gosched", "return", "hold", "sleep", "return", "gosched", "write", "write-hold", "answer-hold"}).Draw(t, "beh")}
			switch m.Beh {
			case "gosched":
				m.K = rapid.IntRange(1, 20).Draw(t, "k")
			case "sleep":
				m.K = rapid.IntRange(1, 1000).Draw(t, "us")
			}
			if rapid.IntRange(0, 3).Draw(t, "filler") == 0 {
				m.Fill = rapid.IntRange(1, 60).Draw(t, "fill")
			}
			m.Ans = rapid.IntRange(0, 2).Draw(t, "answer") == 0
			if cc.SCTP {
				m.Stream = rapid.SampledFrom([]uint16{0, 0, 1, 2, 7}).Draw(t, "stream")
			}
			cc.Msgs = append(cc.Msgs, m)
		}
		cc.CloseNotify = rapid.IntRange(0, 3).Draw(t, "close-notify") == 0
		cc.EOFEarly = rapid.IntRange(0, 3).Draw(t, "eof-early") == 0
		cc.Pattern = rapid.SampledFrom([]string{"one", "frags", "bytes", "one", "frags"}).Draw(t, "pattern")
		if cc.SCTP {
			cc.Pattern = "chunk-per-message"
		}
		if cc.Pattern == "frags" {
			k := rapid.IntRange(1, 6).Draw(t, "ncuts")
			for j := 0; j < k; j++ {
				cc.Cuts = append(cc.Cuts, rapid.IntRange(0, 1000).Draw(t, "cut"))
			}
		}
		c.Conns = append(c.Conns, cc)
	}
	ns := rapid.IntRange(0, 24).Draw(t, "steps")
	for i := 0; i < ns; i++ {
		s := Step{Op: "feed", Conn: rapid.IntRange(0, nc-1).Draw(t, "conn")}
		if k := rapid.IntRange(0, 11).Draw(t, "release"); k < 3 {
			s.Op = "release"
		} else if k == 3 {
			s.Op = "register"
		} else if c.Conns[s.Conn].Pattern == "bytes" {
			s.N = rapid.IntRange(1, 120).Draw(t, "n")
		} else {
			s.N = rapid.IntRange(1, 3).Draw(t, "n")
		}
		c.Steps = append(c.Steps, s)
	}
	return c
}

func classify(c Case) (bool, []string) {
	var cl []string
	seen := map[string]bool{}
	add := func(s string) {
		if !seen[s] {
			seen[s] = true
			cl = append(cl, s)
		}
	}
	add(fmt.Sprintf("conns:%d", len(c.Conns)))
	if c.NilHandler {
		add("handler:nil-DefaultServeMux")
	}
	burst, hold := false, false
	for i := range c.Conns {
		cc := &c.Conns[i]
		if cc.SCTP {
			add("path:sctp-association")
			for j := 1; j < len(cc.Msgs); j++ {
				if cc.Msgs[j].Stream != cc.Msgs[j-1].Stream {
					add("sctp:consecutive-messages-on-different-streams")
					if cc.Msgs[j-1].Beh == "hold" || cc.Msgs[j-1].Beh == "write-hold" || cc.Msgs[j-1].Beh == "answer-hold" {
						add("sctp:held-handler-then-message-on-another-stream")
					}
				}
			}
		} else if cc.Dial {
			add("path:dial")
		} else {
			add("path:accept")
		}
		add("pattern:" + cc.Pattern)
		if cc.CloseNotify {
			add("close-notify-requested-by-first-handler")
		}
		if cc.EOFEarly {
			add("peer-closes-right-behind-its-last-byte")
			if cc.CloseNotify {
				add("close-notify+early-eof")
			}
		}
		for _, m := range cc.Msgs {
			add("beh:" + m.Beh)
			if m.Beh == "hold" || m.Beh == "write-hold" || m.Beh == "answer-hold" {
				hold = true
			}
		}
		frags, ends := layout(i, cc)
		off := 0
		for _, f := range frags {
			k := 0
			for j, e := range ends {
				start := 0
				if j > 0 {
					start = ends[j-1]
				}
				if start >= off && e <= off+len(f) {
					k++
				}
			}
			if k >= 3 {
				burst = true
			}
			if k == 0 {
				add("fragment-inside-a-message")
			}
			off += len(f)
		}
	}
	if burst {
		add("burst>=3-in-one-segment")
	}
	// what the script exercises, by the model
	last := make([]int, len(c.Conns))
	var mdl *model
	drive(&c, hooks{
		register: func() {
			add("handler-registered-while-serving")
			if mdl != nil {
				for ci := range c.Conns {
					if mdl.held[ci] != 0 {
						add("handler-registered-while-a-handler-is-held")
					}
				}
			}
		},
		feed:    func(int, []byte) {},
		release: func(int, int) {},
		checkpoint: func(m *model, why string) *ev.Failure {
			mdl = m
			heldConns := 0
			for ci := range c.Conns {
				if m.held[ci] != 0 {
					heldConns++
				}
			}
			for ci := range c.Conns {
				progressed := m.done[ci] > last[ci]
				last[ci] = m.done[ci]
				others := heldConns
				if m.held[ci] != 0 {
					others--
				}
				if progressed && others > 0 {
					add("progress-required-while-another-connection-is-held")
				}
			}
			if heldConns >= 2 {
				add("two-connections-held-at-once")
			}
			for ci := range c.Conns {
				if m.held[ci] != 0 && m.delivered[ci] > m.held[ci] {
					add("messages-queued-behind-held-handler")
				}
			}
			return nil
		},
	})
	return len(c.Conns) >= 2 && burst && hold, cl
}

var prop = ev.Register(&ev.Prop[Case]{
	ID: "C08", Name: "dispatch",
	Rule: "1..4 connections (accept path via Server.Serve on a memnet.Listener and dial path via diam.NewConn, or a multi-stream SCTP association over the in-memory backend whose messages arrive one chunk each on streams {0,1,2,7}; one shared ServeMux, or (1 in 5) a nil Handler = diam.DefaultServeMux), 1..8 numbered messages each, arriving in one segment / one byte at a time / arbitrary fragments, a scripted global interleaving of the fragments, handler behaviours {return, Gosched x k, sleep <= 1 ms, hold until released, answer and then hold until released, answer with WriteToWithRetry, answer with WriteToWithRetry while the transport stalls that write until released; optionally the first handler requests CloseNotify}, optionally the peer's EOF right behind its last byte, scripted release points and scripted registrations of further handlers on the mux from another goroutine; before every release each connection must have reached the point the model 'one handler at a time per connection, connections independent' predicts (bounded wait 5 s), and the enter/exit log of each connection must read enter 1, exit 1, enter 2, ...; non-trivial = >= 2 connections, >= 3 messages inside one segment on one of them and >= 1 held handler",
	Gen:  genCase, Run: runCase, Classify: classify, Attempts: 5,
})

func TestMain(m *testing.M) {
	log.SetOutput(io.Discard)
	os.Exit(m.Run())
}

func TestC08Dispatch(t *testing.T) { prop.Check(t, 400, 20000) }
func TestC08Keep(t *testing.T)     { ev.RunKeep(t, "C08") }

// The minimal histories behind the finding "registration while a handler is held": a handler of
// connection 0 blocks, a handler for another command is registered from another goroutine, then
// messages arrive on connection 1.
func TestC08RegisterWhileHeld(t *testing.T) {
	prop.Enumerate(t, false, func(yield func(Case) bool) {
		for _, nilHandler := range []bool{false, true} {
			for _, dial := range []bool{false, true} {
				for n := 1; n <= 3; n++ {
					c := Case{NilHandler: nilHandler, Conns: []CConn{
						{Dial: dial, Msgs: []HMsg{{Beh: "hold"}, {Beh: "return"}}, Pattern: "one"},
						{Dial: !dial, Msgs: []HMsg{{Beh: "return"}, {Beh: "return"}, {Beh: "return"}}[:n], Pattern: "one"},
					}, Steps: []Step{{Op: "feed", Conn: 0, N: 1}, {Op: "register"}, {Op: "feed", Conn: 1, N: 1}, {Op: "release", Conn: 0}}}
					if !yield(c) {
						return
					}
				}
			}
		}
	})
}
func TestReplay(t *testing.T) { ev.Replay(t) }
