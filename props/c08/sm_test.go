package c08

import (
	"fmt"
	"sync"
	"testing"
	"time"

	"github.com/fiorix/go-diameter/v4/diam"
	"github.com/fiorix/go-diameter/v4/diam/datatype"
	"github.com/fiorix/go-diameter/v4/diam/dict"
	"github.com/fiorix/go-diameter/v4/diam/sm"
	"pgregory.net/rapid"

	"verif/internal/ev"
	"verif/internal/memnet"
	"verif/internal/refcodec"
)

// The same serialisation when the connection's handler is an sm.StateMachine: the handlers the
// state machine brings along (here the one that answers watchdog requests) are handlers of the
// connection like any other. While the answer to a DWR is still being written - the scripted
// transport stalls that write - the handler for the next message must not have been started.

type SMCase struct {
	Items []string `json:"items"` // DWR | APP, sent in one segment after the handshake
}

func smDWR(i int) []byte {
	return refcodec.EncodeMessage(refcodec.Header{Version: 1, Flags: 0x80, Code: 280, HopByHop: uint32(100 + i), EndToEnd: uint32(200 + i)},
		[]*refcodec.Node{{Code: 264, Flags: 0x40, Payload: []byte("peer.example")}, {Code: 296, Flags: 0x40, Payload: []byte("example")}}, false)
}

func smAPP(i int) []byte { // an accounting request of the base application
	return refcodec.EncodeMessage(refcodec.Header{Version: 1, Flags: 0x80, Code: 271, HopByHop: uint32(100 + i), EndToEnd: uint32(200 + i)},
		[]*refcodec.Node{{Code: 263, Flags: 0x40, Payload: []byte(fmt.Sprintf("s;%d", i))}}, false)
}

func runSM(c SMCase) *ev.Failure {
	mc := memnet.NewConn()
	machine := sm.New(&sm.Settings{OriginHost: "srv.example", OriginRealm: "example", VendorID: 13, ProductName: "verif",
		HostIPAddresses: []datatype.Address{datatype.Address([]byte{10, 0, 0, 1})}})
	var mu sync.Mutex
	var entered []int
	machine.HandleFunc("ALL", func(_ diam.Conn, m *diam.Message) {
		mu.Lock()
		entered = append(entered, int(m.Header.HopByHopID)-100)
		mu.Unlock()
	})
	stop := make(chan struct{})
	defer close(stop)
	go func() {
		for {
			select {
			case <-machine.ErrorReports():
			case <-machine.HandshakeNotify():
			case <-stop:
				return
			}
		}
	}()
	stalled := make(chan int, 16) // index of the DWR whose answer is being written
	release := make(chan struct{})
	mc.WriteHook = func(b []byte, accept func([]byte)) (int, error) {
		if h, err := refcodec.DecodeHeader(b); err == nil && h.Code == 280 && h.Flags&0x80 == 0 {
			stalled <- int(h.HopByHop) - 100
			<-release
		}
		accept(b)
		return len(b), nil
	}
	if _, err := diam.NewConn(mc, "", machine, dict.Default); err != nil {
		return ev.Failf("harness-conn", "%v", err)
	}
	defer func() { mc.FeedEOF(); mc.WaitClosed(2 * time.Second); mc.Close() }()
	cer := refcodec.EncodeMessage(refcodec.Header{Version: 1, Flags: 0x80, Code: 257, HopByHop: 1, EndToEnd: 2},
		[]*refcodec.Node{{Code: 264, Flags: 0x40, Payload: []byte("peer.example")}, {Code: 296, Flags: 0x40, Payload: []byte("example")},
			{Code: 257, Flags: 0x40, Payload: refcodec.Address(1, []byte{10, 0, 0, 2})}, {Code: 266, Flags: 0x40, Payload: refcodec.U32(1)},
			{Code: 269, Payload: []byte("p")}, {Code: 258, Flags: 0x40, Payload: refcodec.U32(4)}}, false)
	mc.Feed(cer)
	if !mc.WaitWrites(1, dispatchDeadline) {
		return ev.Failf("harness-handshake", "no CEA within %v", dispatchDeadline)
	}
	var all []byte
	for i, it := range c.Items {
		if it == "DWR" {
			all = append(all, smDWR(i)...)
		} else {
			all = append(all, smAPP(i)...)
		}
	}
	mc.Feed(all)
	var apps []int // APP items that must have been entered so far, in order
	check := func(when string) *ev.Failure {
		mu.Lock()
		defer mu.Unlock()
		if len(entered) > len(apps) {
			return ev.Failf("handler-overlap", "%s: the handler for message %d was started (%d application handlers entered, %d expected so far); items %v", when, entered[len(entered)-1], len(entered), len(apps), c.Items)
		}
		for k := range entered {
			if entered[k] != apps[k] {
				return ev.Failf("out-of-order", "%s: application handlers were entered for messages %v, sent %v", when, entered, apps)
			}
		}
		return nil
	}
	for i, it := range c.Items {
		if it == "APP" {
			apps = append(apps, i)
			continue
		}
		select {
		case k := <-stalled:
			if k != i {
				close(release)
				return ev.Failf("out-of-order", "the answer to watchdog request %d is being written, request %d was the next in the stream", k, i)
			}
		case <-time.After(dispatchDeadline):
			close(release)
			return ev.Failf("dispatch-missing", "watchdog request %d (item %d of %v) was not answered within %v", i, i, c.Items, dispatchDeadline)
		}
		// the DWR handler is inside the transport's Write now: give a wrongly concurrent dispatch time to show
		time.Sleep(15 * time.Millisecond)
		if f := check(fmt.Sprintf("while the answer to watchdog request %d is still being written", i)); f != nil {
			close(release)
			return f
		}
		release <- struct{}{}
	}
	close(release)
	deadline := time.Now().Add(dispatchDeadline)
	for {
		mu.Lock()
		n := len(entered)
		mu.Unlock()
		if n >= len(apps) || time.Now().After(deadline) {
			break
		}
		time.Sleep(time.Millisecond)
	}
	mu.Lock()
	n := len(entered)
	mu.Unlock()
	if n < len(apps) {
		return ev.Failf("dispatch-missing", "%d application messages were sent, %d reached the handler within %v; items %v", len(apps), n, dispatchDeadline, c.Items)
	}
	return check("at the end")
}

var smProp = ev.Register(&ev.Prop[SMCase]{
	ID: "C08", Name: "state-machine-handlers",
	Rule: "one connection served by an sm.StateMachine; after the handshake 2..8 messages {watchdog request, application request} arrive in one segment; the transport stalls the write of every watchdog answer until released; while an answer is being written no handler for a later message may have started, and the application handler sees its messages once each in order; non-trivial = an application request follows a watchdog request",
	Gen: func(t *rapid.T) SMCase {
		var c SMCase
		n := rapid.IntRange(2, 8).Draw(t, "n")
		for i := 0; i < n; i++ {
			c.Items = append(c.Items, rapid.SampledFrom([]string{"DWR", "APP", "APP"}).Draw(t, "item"))
		}
		return c
	},
	Run: runSM,
	Classify: func(c SMCase) (bool, []string) {
		nt := false
		for i := 1; i < len(c.Items); i++ {
			if c.Items[i-1] == "DWR" && c.Items[i] == "APP" {
				nt = true
			}
		}
		return nt, nil
	},
})

func TestC08StateMachine(t *testing.T) { smProp.Check(t, 60, 2000) }

// ---------------------------------------------------------------------------
// Several connections on one state machine: the capabilities exchange of one peer, stuck because
// that peer does not read its CEA, must not hold up another peer's exchange or its requests.

type SM2Case struct {
	Others int `json:"others"` // further connections that shake hands and send requests meanwhile (1..3)
	Apps   int `json:"apps"`   // requests each of them sends after its CEA (1..3)
	// StuckAt: the message of the first peer whose answer gets stuck in the transport:
	// "CEA" (its capabilities exchange) or "DWA" (a watchdog answer after a completed exchange)
	StuckAt string `json:"stuck_at"`
}

func smCER(hbh uint32) []byte {
	return refcodec.EncodeMessage(refcodec.Header{Version: 1, Flags: 0x80, Code: 257, HopByHop: hbh, EndToEnd: 2},
		[]*refcodec.Node{{Code: 264, Flags: 0x40, Payload: []byte("peer.example")}, {Code: 296, Flags: 0x40, Payload: []byte("example")},
			{Code: 257, Flags: 0x40, Payload: refcodec.Address(1, []byte{10, 0, 0, 2})}, {Code: 266, Flags: 0x40, Payload: refcodec.U32(1)},
			{Code: 269, Payload: []byte("p")}, {Code: 258, Flags: 0x40, Payload: refcodec.U32(4)}}, false)
}

func runSM2(c SM2Case) *ev.Failure {
	machine := sm.New(&sm.Settings{OriginHost: "srv.example", OriginRealm: "example", VendorID: 13, ProductName: "verif",
		HostIPAddresses: []datatype.Address{datatype.Address([]byte{10, 0, 0, 1})}})
	var mu sync.Mutex
	seen := map[string]int{} // remote address -> application requests handled
	machine.HandleFunc("ALL", func(cn diam.Conn, m *diam.Message) {
		mu.Lock()
		seen[cn.RemoteAddr().String()]++
		mu.Unlock()
	})
	stop := make(chan struct{})
	defer close(stop)
	go func() { // the application reads neither channel eagerly; keep them from filling for good
		for {
			select {
			case <-machine.ErrorReports():
			case <-stop:
				return
			}
		}
	}()
	first := memnet.NewConn()
	first.Remote = memnet.Addr{Net: "tcp", Str: "10.9.5.1:40000"}
	stuck := make(chan struct{}, 1)
	release := make(chan struct{})
	wantCode := uint32(257)
	if c.StuckAt == "DWA" {
		wantCode = 280
	}
	first.WriteHook = func(b []byte, accept func([]byte)) (int, error) {
		if h, err := refcodec.DecodeHeader(b); err == nil && h.Code == wantCode && h.Flags&0x80 == 0 {
			select {
			case stuck <- struct{}{}:
			default:
			}
			<-release
		}
		accept(b)
		return len(b), nil
	}
	var all []*memnet.Conn
	defer func() {
		close(release)
		for _, mc := range all {
			mc.FeedEOF()
			mc.WaitClosed(2 * time.Second)
			mc.Close()
		}
	}()
	all = append(all, first)
	if _, err := diam.NewConn(first, "", machine, dict.Default); err != nil {
		return ev.Failf("harness-conn", "%v", err)
	}
	first.Feed(smCER(1))
	if c.StuckAt == "DWA" {
		if !first.WaitWrites(1, dispatchDeadline) {
			return ev.Failf("harness-handshake", "no CEA for the first peer within %v", dispatchDeadline)
		}
		first.Feed(smDWR(0))
	}
	select {
	case <-stuck:
	case <-time.After(dispatchDeadline):
		return ev.Failf("dispatch-missing", "the first peer's %s was not written within %v", c.StuckAt, dispatchDeadline)
	}
	// the first peer's answer is stuck in its transport now
	for k := 0; k < c.Others; k++ {
		mc := memnet.NewConn()
		mc.Remote = memnet.Addr{Net: "tcp", Str: fmt.Sprintf("10.9.5.%d:40000", k+2)}
		all = append(all, mc)
		if _, err := diam.NewConn(mc, "", machine, dict.Default); err != nil {
			return ev.Failf("harness-conn", "%v", err)
		}
		mc.Feed(smCER(uint32(10 + k)))
		if !mc.WaitWrites(1, dispatchDeadline) {
			return ev.Failf("dispatch-delayed-by-held-handler", "while the %s of connection 0 is stuck in its transport (that peer does not read), connection %d sent a CER and got no CEA within %v: the state machine's handlers of one connection hold up another connection", c.StuckAt, k+1, dispatchDeadline)
		}
		for i := 0; i < c.Apps; i++ {
			mc.Feed(smAPP(i))
		}
		deadline := time.Now().Add(dispatchDeadline)
		for {
			mu.Lock()
			n := seen[mc.Remote.String()]
			mu.Unlock()
			if n >= c.Apps {
				break
			}
			if time.Now().After(deadline) {
				return ev.Failf("dispatch-delayed-by-held-handler", "while the %s of connection 0 is stuck in its transport, connection %d completed its handshake and sent %d requests; %d reached the handler within %v", c.StuckAt, k+1, c.Apps, n, dispatchDeadline)
			}
			time.Sleep(time.Millisecond)
		}
	}
	return nil
}

var sm2Prop = ev.Register(&ev.Prop[SM2Case]{
	ID: "C08", Name: "state-machine-connections",
	Rule: "several connections served by ONE sm.StateMachine; the first peer does not read: its CEA (or, after its exchange, a watchdog answer) is stuck inside the transport's Write; 1..3 further peers then send a CER and 1..3 requests each: every one must get its CEA and have its requests handled within 5 s; every case non-trivial",
	Gen: func(t *rapid.T) SM2Case {
		return SM2Case{Others: rapid.IntRange(1, 3).Draw(t, "others"), Apps: rapid.IntRange(1, 3).Draw(t, "apps"), StuckAt: rapid.SampledFrom([]string{"CEA", "DWA"}).Draw(t, "stuck-at")}
	},
	Run:      runSM2,
	Classify: func(c SM2Case) (bool, []string) { return true, []string{"stuck:" + c.StuckAt} },
})

func TestC08StateMachineConnections(t *testing.T) { sm2Prop.Check(t, 18, 400) }
