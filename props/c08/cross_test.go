package c08

import (
	"fmt"
	"runtime"
	"sync"
	"testing"
	"time"

	"github.com/fiorix/go-diameter/v4/diam"
	"github.com/fiorix/go-diameter/v4/diam/dict"

	"verif/internal/ev"
	"verif/internal/memnet"
	"verif/internal/refcodec"
)

// "A handler that blocks on one connection does not delay the dispatch of messages arriving on
// other connections" - two shapes the scripted histories do not have: (1) a relay: the handler of
// connection A is stuck writing to connection B (B's peer reads slowly) while B goes on receiving,
// on a server with a ReadTimeout; (2) very many connections whose handlers are all held.

func crossMsg(hbh uint32) []byte {
	return refcodec.EncodeMessage(refcodec.Header{Version: 1, Flags: 0x80, Code: 280, HopByHop: hbh, EndToEnd: hbh},
		[]*refcodec.Node{{Code: 264, Flags: 0x40, Payload: []byte("peer.example")}, {Code: 296, Flags: 0x40, Payload: []byte("example")}}, false)
}

type RelayCase struct {
	ReadTimeoutMs int `json:"read_timeout_ms"` // 0 = none
	More          int `json:"more"`            // messages arriving on B while A's handler is stuck writing to B
}

func runRelay(c RelayCase) *ev.Failure {
	var mu sync.Mutex
	var connB diam.Conn
	haveB := make(chan struct{})
	handledB := make(chan uint32, 16)
	stuck := make(chan struct{})
	mux := diam.NewServeMux()
	stop := make(chan struct{})
	defer close(stop)
	go func() {
		for {
			select {
			case <-mux.ErrorReports():
			case <-stop:
				return
			}
		}
	}()
	mux.HandleFunc("ALL", func(cn diam.Conn, m *diam.Message) {
		switch h := m.Header.HopByHopID; {
		case h == 0xb001:
			mu.Lock()
			connB = cn
			mu.Unlock()
			close(haveB)
		case h >= 0xb002 && h < 0xb100:
			handledB <- h
		case h == 0xa001:
			mu.Lock()
			b := connB
			mu.Unlock()
			close(stuck)
			m.Answer(2001).WriteTo(b) // forwarded to B, whose peer does not read for now
		}
	})
	lis := memnet.NewListener(2)
	srv := &diam.Server{Handler: mux, Dict: dict.Default, ReadTimeout: time.Duration(c.ReadTimeoutMs) * time.Millisecond}
	go srv.Serve(lis)
	defer lis.Close()
	a, b := memnet.NewConn(), memnet.NewConn()
	release := make(chan struct{})
	var once sync.Once
	free := func() { once.Do(func() { close(release) }) }
	defer func() {
		free()
		for _, mc := range []*memnet.Conn{a, b} {
			mc.FeedEOF()
			mc.WaitClosed(2 * time.Second)
			mc.Close()
		}
	}()
	inWrite := make(chan struct{}, 1)
	b.WriteHook = func(p []byte, accept func([]byte)) (int, error) {
		select {
		case inWrite <- struct{}{}:
		default:
		}
		<-release
		accept(p)
		return len(p), nil
	}
	lis.Push(a)
	lis.Push(b)
	b.Feed(crossMsg(0xb001))
	select {
	case <-haveB:
	case <-time.After(5 * time.Second):
		return ev.Failf("dispatch-missing", "the first message of connection B was not dispatched within 5 s")
	}
	a.Feed(crossMsg(0xa001))
	select {
	case <-inWrite:
	case <-time.After(5 * time.Second):
		return ev.Failf("harness-write", "the handler of connection A did not reach B's transport within 5 s")
	}
	for k := 0; k < c.More; k++ {
		want := uint32(0xb002 + k)
		b.Feed(crossMsg(want))
		select {
		case got := <-handledB:
			if got != want {
				return ev.Failf("out-of-order", "connection B: message %#x was handled when %#x was due", got, want)
			}
		case <-time.After(5 * time.Second):
			return ev.Failf("dispatch-delayed-by-held-handler", "the handler of connection A is stuck writing to connection B (B's peer does not read); message %d arriving on B meanwhile was not dispatched within 5 s (Server.ReadTimeout %d ms)", k+1, c.ReadTimeoutMs)
		}
	}
	return nil
}

var relayProp = ev.Register(&ev.Prop[RelayCase]{
	ID: "C08", Name: "relay-stuck-writing-to-another-connection",
	Rule: "Server.Serve (ReadTimeout none / 3 s) with two in-memory connections: the handler of connection A forwards an answer to connection B and is stuck in B's transport; 1..3 messages arrive on B meanwhile; demanded: each is dispatched within 5 s, in order. Every case is non-trivial",
	Run:  runRelay,
	Classify: func(c RelayCase) (bool, []string) {
		return true, []string{fmt.Sprintf("read-timeout-ms:%d", c.ReadTimeoutMs)}
	},
})

func TestC08RelayStuckWriting(t *testing.T) {
	relayProp.Enumerate(t, true, func(yield func(RelayCase) bool) {
		for _, rt := range []int{0, 3000} {
			for more := 1; more <= 3; more++ {
				if !yield(RelayCase{ReadTimeoutMs: rt, More: more}) {
					return
				}
			}
		}
	})
}

// ManyHeldCase: more connections with a held handler than any pool sized by the number of CPUs.
type ManyHeldCase struct {
	Conns int `json:"conns"`
}

func runManyHeld(c ManyHeldCase) *ev.Failure {
	entered := make(chan int, c.Conns+1)
	release := make(chan struct{})
	mux := diam.NewServeMux()
	stop := make(chan struct{})
	defer close(stop)
	go func() {
		for {
			select {
			case <-mux.ErrorReports():
			case <-stop:
				return
			}
		}
	}()
	mux.HandleFunc("ALL", func(_ diam.Conn, m *diam.Message) {
		entered <- int(m.Header.HopByHopID)
		if m.Header.EndToEndID == 1 {
			<-release
		}
	})
	conns := make([]*memnet.Conn, c.Conns+1)
	defer func() {
		close(release)
		for _, mc := range conns {
			if mc != nil {
				mc.FeedEOF()
			}
		}
		for _, mc := range conns {
			if mc != nil {
				mc.WaitClosed(2 * time.Second)
				mc.Close()
			}
		}
	}()
	for i := range conns {
		conns[i] = memnet.NewConn()
		if _, err := diam.NewConn(conns[i], "", mux, dict.Default); err != nil {
			return ev.Failf("harness-conn", "%v", err)
		}
	}
	for i := 0; i < c.Conns; i++ {
		conns[i].Feed(refcodec.EncodeMessage(refcodec.Header{Version: 1, Flags: 0x80, Code: 280, HopByHop: uint32(i), EndToEnd: 1},
			[]*refcodec.Node{{Code: 264, Flags: 0x40, Payload: []byte("peer.example")}, {Code: 296, Flags: 0x40, Payload: []byte("example")}}, false))
	}
	seen := 0
	deadline := time.After(10 * time.Second)
	for seen < c.Conns {
		select {
		case <-entered:
			seen++
		case <-deadline:
			return ev.Failf("dispatch-delayed-by-held-handler", "%d connections received one message each, all handlers are held: only %d of them were started within 10 s", c.Conns, seen)
		}
	}
	// one more connection: its message is dispatched although all the others are held
	conns[c.Conns].Feed(refcodec.EncodeMessage(refcodec.Header{Version: 1, Flags: 0x80, Code: 280, HopByHop: uint32(c.Conns), EndToEnd: 2},
		[]*refcodec.Node{{Code: 264, Flags: 0x40, Payload: []byte("peer.example")}, {Code: 296, Flags: 0x40, Payload: []byte("example")}}, false))
	select {
	case <-entered:
	case <-time.After(5 * time.Second):
		return ev.Failf("dispatch-delayed-by-held-handler", "%d connections have a held handler each; a message arriving on one more connection was not dispatched within 5 s", c.Conns)
	}
	return nil
}

var manyHeldProp = ev.Register(&ev.Prop[ManyHeldCase]{
	ID: "C08", Name: "many-held-handlers",
	Rule:     "8 x GOMAXPROCS + 5 in-memory connections (at least 69) sharing one mux, one message each, every handler held; demanded: all of them are started, and a message on one more connection is dispatched within 5 s. The case is non-trivial",
	Run:      runManyHeld,
	Classify: func(c ManyHeldCase) (bool, []string) { return true, []string{fmt.Sprintf("connections:%d", c.Conns)} },
})

func TestC08ManyHeldHandlers(t *testing.T) {
	manyHeldProp.Enumerate(t, true, func(yield func(ManyHeldCase) bool) {
		n := 8*runtime.GOMAXPROCS(0) + 5
		if n < 69 {
			n = 69
		}
		yield(ManyHeldCase{Conns: n})
	})
}
