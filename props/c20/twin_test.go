package c20

import (
	"bytes"
	"fmt"
	"sort"
	"sync"
	"testing"

	"github.com/fiorix/go-diameter/v4/diam"
	"github.com/fiorix/go-diameter/v4/diam/datatype"
	"github.com/fiorix/go-diameter/v4/diam/dict"
	"pgregory.net/rapid"

	"verif/internal/dicts"
	"verif/internal/ev"
)

// "Following the given codes through nested groups": the walk goes by the
// CODES of the AVPs in the tree. A dictionary may define one code twice, as a
// Grouped AVP for one vendor and as a scalar for another (the shipped
// dictionaries do: 458, 625, 626, ...). Which of the two definitions the
// dictionary hands out for a path element must not matter: the element only
// contributes its code. Generated here: private dictionaries with two such
// twin codes (definition order, vendor assignment and the application that
// holds each definition all vary), trees that contain the grouped and the
// scalar twin, and paths given by number or by either twin's name.

const (
	twinApp    = 16779910
	twinVendor = 999
)

// TwinDef says how one twin code is defined.
type TwinDef struct {
	GroupVendored bool `json:"group_vendored"` // the Grouped definition belongs to vendor 999 (the scalar one to no vendor), or the other way round
	GroupFirst    bool `json:"group_first"`    // order of the two definitions in their document
	GroupInApp    bool `json:"group_in_app"`   // the Grouped definition sits in the application (else in base)
	ScalarInApp   bool `json:"scalar_in_app"`
}

var twinCodes = []uint32{2001, 2003}

const (
	twinLeaf  = 2002 // TW-Leaf, no vendor, base
	twinLeafV = 2004 // TW-Leaf-V, vendor 999, application
	// one NAME for two AVPs of the application: TW-Shared is code 2005 without a vendor and code 2006 for vendor 999
	sharedPlain    = 2005
	sharedVendored = 2006
	// an AVP the private dictionary does not define at all, under a code and name that the
	// built-in dictionaries know (Origin-Host, 264): a search by that name has nothing to resolve it
	foreignCode = 264
	foreignName = "Origin-Host"
)

func twinName(code uint32, grouped bool) string {
	if grouped {
		return fmt.Sprintf("TW-Group-%d", code)
	}
	return fmt.Sprintf("TW-Scalar-%d", code)
}

func twinXML(defs [2]TwinDef, sharedVendoredFirst bool) string {
	var base, app string
	for i, d := range defs {
		code := twinCodes[i]
		gv, sv := "", fmt.Sprintf(` vendor-id="%d"`, twinVendor)
		if d.GroupVendored {
			gv, sv = sv, gv
		}
		g := fmt.Sprintf(`<avp name="%s" code="%d"%s><data type="Grouped"/></avp>`+"\n", twinName(code, true), code, gv)
		s := fmt.Sprintf(`<avp name="%s" code="%d"%s><data type="Unsigned32"/></avp>`+"\n", twinName(code, false), code, sv)
		put := func(x string, inApp bool) {
			if inApp {
				app += x
			} else {
				base += x
			}
		}
		if d.GroupFirst {
			put(g, d.GroupInApp)
			put(s, d.ScalarInApp)
		} else {
			put(s, d.ScalarInApp)
			put(g, d.GroupInApp)
		}
	}
	sp := fmt.Sprintf(`<avp name="TW-Shared" code="%d"><data type="Unsigned32"/></avp>`+"\n", sharedPlain)
	sv := fmt.Sprintf(`<avp name="TW-Shared" code="%d" vendor-id="%d"><data type="Unsigned32"/></avp>`+"\n", sharedVendored, twinVendor)
	if sharedVendoredFirst {
		app += sv + sp
	} else {
		app += sp + sv
	}
	return fmt.Sprintf(`<?xml version="1.0" encoding="UTF-8"?>
<diameter>
 <application id="0" name="Base">
  <vendor id="%d" name="Acme"/>
  <command code="301" short="TW" name="Twin"><request><rule avp="TW-Leaf" required="false"/></request><answer><rule avp="TW-Leaf" required="false"/></answer></command>
  <avp name="TW-Leaf" code="%d"><data type="Unsigned32"/></avp>
%s </application>
 <application id="%d" name="TW">
  <avp name="TW-Leaf-V" code="%d" vendor-id="%d"><data type="Unsigned32"/></avp>
%s </application>
</diameter>`, twinVendor, twinLeaf, base, twinApp, twinLeafV, twinVendor, app)
}

var (
	twinMu      sync.Mutex
	twinParsers = map[twinKey]*dict.Parser{}
)

type twinKey struct {
	defs  [2]TwinDef
	first bool
}

func twinParser(defs [2]TwinDef, sharedVendoredFirst bool) (*dict.Parser, error) {
	twinMu.Lock()
	defer twinMu.Unlock()
	k := twinKey{defs, sharedVendoredFirst}
	if p := twinParsers[k]; p != nil {
		return p, nil
	}
	p, err := dicts.Load(twinXML(defs, sharedVendoredFirst))
	if err != nil {
		return nil, err
	}
	twinParsers[k] = p
	return p, nil
}

// TwinNode is one AVP of the tree: a twin code as its group or as its scalar, or a leaf.
type TwinNode struct {
	Code     uint32      `json:"code"`
	Group    bool        `json:"group,omitempty"`
	Children []*TwinNode `json:"children,omitempty"`
}

// TwinElem is one path element: a number (as uint32 or int) or a name.
type TwinElem struct {
	Code uint32 `json:"code"`
	Form string `json:"form"` // u32 | int | group-name | scalar-name | leaf-name | shared-name (TW-Shared: code 2005 for no vendor, 2006 for vendor 999)
}

type TwinQuery struct {
	Path   []TwinElem `json:"path"`
	Vendor uint32     `json:"vendor"` // dict.UndefinedVendorID | 0 | 999
}

type TwinCase struct {
	Defs                [2]TwinDef  `json:"defs"`
	SharedVendoredFirst bool        `json:"shared_vendored_first,omitempty"` // order of the two TW-Shared definitions
	Decoded             bool        `json:"decoded"`                         // the message is serialised and read back before it is searched
	Tree                []*TwinNode `json:"tree"`
	Queries             []TwinQuery `json:"queries"`
}

// vendorOf gives the vendor id the dictionary attaches to (code, grouped).
func (c *TwinCase) vendorOf(code uint32, grouped bool) uint32 {
	switch code {
	case twinLeaf, sharedPlain:
		return 0
	case twinLeafV, sharedVendored:
		return twinVendor
	}
	for i, tc := range twinCodes {
		if tc == code {
			if c.Defs[i].GroupVendored == grouped {
				return twinVendor
			}
			return 0
		}
	}
	return 0
}

func (c *TwinCase) build(n *TwinNode, seq *uint32) *diam.AVP {
	v := c.vendorOf(n.Code, n.Group)
	flags := uint8(0)
	if v != 0 {
		flags = 0x80
	}
	if n.Group {
		g := &diam.GroupedAVP{}
		for _, ch := range n.Children {
			g.AddAVP(c.build(ch, seq))
		}
		return diam.NewAVP(n.Code, flags, v, g)
	}
	*seq++
	if n.Code == foreignCode {
		return diam.NewAVP(n.Code, 0x40, 0, datatype.OctetString(fmt.Sprintf("host%d.example", *seq)))
	}
	return diam.NewAVP(n.Code, flags, v, datatype.Unsigned32(*seq))
}

// resolvable: does the dictionary define the element for the query's vendor (in the application or in base)?
func (c *TwinCase) resolvable(e TwinElem, vendor uint32) bool {
	match := func(v uint32) bool { return vendor == dict.UndefinedVendorID || vendor == v }
	switch e.Form {
	case "group-name":
		return match(c.vendorOf(e.Code, true))
	case "scalar-name":
		return match(c.vendorOf(e.Code, false))
	case "leaf-name":
		return match(c.vendorOf(e.Code, false))
	case "shared-name":
		return true // defined for no vendor and for vendor 999
	case "foreign-name":
		return false
	}
	if e.Code == foreignCode {
		return false
	}
	if e.Code == twinLeaf || e.Code == twinLeafV || e.Code == sharedPlain || e.Code == sharedVendored {
		return match(c.vendorOf(e.Code, false))
	}
	return match(0) || match(twinVendor) // a twin code has a definition for either vendor
}

func (e TwinElem) arg() interface{} {
	switch e.Form {
	case "int":
		return int(e.Code)
	case "group-name":
		return twinName(e.Code, true)
	case "scalar-name":
		return twinName(e.Code, false)
	case "leaf-name":
		if e.Code == twinLeafV {
			return "TW-Leaf-V"
		}
		return "TW-Leaf"
	case "shared-name":
		return "TW-Shared"
	case "foreign-name":
		return foreignName
	}
	return e.Code
}

func twinWalk(avps []*diam.AVP, path []uint32) []*diam.AVP {
	var out []*diam.AVP
	for _, a := range avps {
		if a.Code != path[0] {
			continue
		}
		if len(path) == 1 {
			out = append(out, a)
			continue
		}
		if g, ok := a.Data.(*diam.GroupedAVP); ok && g != nil {
			out = append(out, twinWalk(g.AVP, path[1:])...)
		}
	}
	return out
}

func runTwin(c TwinCase) *ev.Failure {
	p, err := twinParser(c.Defs, c.SharedVendoredFirst)
	if err != nil {
		return ev.Failf("harness-dict", "%v\n%s", err, twinXML(c.Defs, c.SharedVendoredFirst))
	}
	m := diam.NewMessage(301, 0x80, twinApp, 1, 2, p)
	var seq uint32
	for _, n := range c.Tree {
		m.AddAVP(c.build(n, &seq))
	}
	if c.Decoded {
		b, err := m.Serialize()
		if err != nil {
			return ev.Failf("harness-serialize", "%v", err)
		}
		if m, err = diam.ReadMessage(bytes.NewReader(b), p); err != nil {
			return ev.Failf("harness-decode", "%v", err)
		}
	}
	for qi, q := range c.Queries {
		var args []interface{}
		var codes []uint32
		all := true
		sharedAnyVendor := false
		foreign := false
		for _, e := range q.Path {
			foreign = foreign || e.Form == "foreign-name"
			args = append(args, e.arg())
			code := e.Code
			if e.Form == "shared-name" {
				// the name stands for the code of the vendor asked for
				switch q.Vendor {
				case 0:
					code = sharedPlain
				case twinVendor:
					code = sharedVendored
				default:
					sharedAnyVendor = true // either definition may answer: the statement does not say which
				}
			}
			codes = append(codes, code)
			all = all && c.resolvable(e, q.Vendor)
		}
		want := twinWalk(m.AVP, codes)
		got, err := m.FindAVPsWithPath(args, q.Vendor)
		desc := fmt.Sprintf("query %d: FindAVPsWithPath(%v, vendor %d)", qi, args, q.Vendor)
		if foreign {
			// a name this dictionary does not define (another dictionary of the process does): an error or nothing
			if err == nil && len(got) > 0 {
				return ev.Failf("twin:absent-but-returned", "%s returned %d AVPs (first code %d) although the message's dictionary does not define the name %q", desc, len(got), got[0].Code, foreignName)
			}
			if len(q.Path) == 1 {
				if a, err := m.FindAVP(foreignName, q.Vendor); err == nil && a != nil {
					return ev.Failf("twin:absent-but-returned", "query %d: FindAVP(%q, vendor %d) returned an AVP with code %d although the message's dictionary does not define that name", qi, foreignName, q.Vendor, a.Code)
				}
				if as, err := m.FindAVPs(foreignName, q.Vendor); err == nil && len(as) > 0 {
					return ev.Failf("twin:absent-but-returned", "query %d: FindAVPs(%q, vendor %d) returned %d AVPs although the message's dictionary does not define that name", qi, foreignName, q.Vendor, len(as))
				}
			}
			continue
		}
		if sharedAnyVendor {
			// accept the walk for any assignment of the two codes to the shared-name elements
			if err != nil {
				return ev.Failf("twin:path-differs", "%s failed: %v (the name is defined)", desc, err)
			}
			ok := false
			var idx []int
			for i, e := range q.Path {
				if e.Form == "shared-name" {
					idx = append(idx, i)
				}
			}
			for mask := 0; mask < 1<<len(idx) && !ok; mask++ {
				alt := append([]uint32{}, codes...)
				for b, i := range idx {
					alt[i] = sharedPlain
					if mask>>b&1 == 1 {
						alt[i] = sharedVendored
					}
				}
				w := twinWalk(m.AVP, alt)
				same := len(w) == len(got)
				for k := 0; same && k < len(w); k++ {
					same = w[k] == got[k]
				}
				ok = same
			}
			if !ok {
				return ev.Failf("twin:path-differs", "%s returned %d AVPs that match the reference walk for neither code of the name", desc, len(got))
			}
			continue
		}
		if !all {
			// an element the dictionary does not define for that vendor: an error or nothing, never another AVP
			if err == nil {
				for _, g := range got {
					found := false
					for _, w := range want {
						found = found || g == w
					}
					if !found {
						return ev.Failf("twin:absent-but-returned", "%s returned an AVP with code %d that the reference walk does not reach", desc, g.Code)
					}
				}
			}
			continue
		}
		if err != nil || len(got) != len(want) {
			return ev.Failf("twin:path-differs", "%s returned %d AVPs (err %v), the reference walk over the codes %v reaches %d", desc, len(got), err, codes, len(want))
		}
		for k := range want {
			if got[k] != want[k] {
				return ev.Failf("twin:path-differs", "%s: result %d is an AVP with code %d, the reference walk gives code %d at that position", desc, k, got[k].Code, want[k].Code)
			}
		}
		if len(codes) == 1 {
			// the same codes through the two other searches
			var wantAll []*diam.AVP
			tdWalk(m.AVP, codes[0], &wantAll)
			gotAll, err := m.FindAVPs(args[0], q.Vendor)
			if len(wantAll) == 0 {
				if err == nil && len(gotAll) > 0 {
					return ev.Failf("twin:absent-but-returned", "query %d: FindAVPs(%v, vendor %d) returned %d AVPs, the tree holds none with code %d", qi, args[0], q.Vendor, len(gotAll), codes[0])
				}
				continue
			}
			if err != nil || len(gotAll) != len(wantAll) {
				return ev.Failf("twin:all-differs", "query %d: FindAVPs(%v, vendor %d) returned %d AVPs (err %v), the reference walk finds %d", qi, args[0], q.Vendor, len(gotAll), err, len(wantAll))
			}
			for k := range wantAll {
				if gotAll[k] != wantAll[k] {
					return ev.Failf("twin:all-differs", "query %d: FindAVPs(%v) result %d differs from the reference walk", qi, args[0], k)
				}
			}
			first, err := m.FindAVP(args[0], q.Vendor)
			if err != nil || first != wantAll[0] {
				return ev.Failf("twin:first-differs", "query %d: FindAVP(%v, vendor %d) returned %v (err %v), want the first AVP with code %d in document order", qi, args[0], q.Vendor, first, err, codes[0])
			}
		}
	}
	return nil
}

func genTwinTree(t *rapid.T, depth int) []*TwinNode {
	n := rapid.IntRange(1, 4).Draw(t, "n")
	if depth > 3 {
		n = rapid.IntRange(1, 2).Draw(t, "n-deep")
	}
	var out []*TwinNode
	for i := 0; i < n; i++ {
		nd := &TwinNode{Code: rapid.SampledFrom([]uint32{2001, 2001, 2003, 2003, twinLeaf, twinLeafV, sharedPlain, sharedVendored, foreignCode}).Draw(t, "code")}
		if nd.Code == 2001 || nd.Code == 2003 {
			nd.Group = rapid.IntRange(0, 3).Draw(t, "as-group") != 0
			if nd.Group && depth < twinMaxDepth {
				nd.Children = genTwinTree(t, depth+1)
			}
		}
		out = append(out, nd)
	}
	return out
}

// nesting depth of the generated trees (groups inside groups): deep enough for a walk that keeps
// its own stack to have to grow it
const twinMaxDepth = 7

func genTwinElem(t *rapid.T, code uint32) TwinElem {
	e := TwinElem{Code: code}
	if code == foreignCode {
		e.Form = rapid.SampledFrom([]string{"u32", "foreign-name", "foreign-name"}).Draw(t, "form")
		return e
	}
	if code == sharedPlain || code == sharedVendored {
		e.Form = rapid.SampledFrom([]string{"u32", "int", "shared-name", "shared-name"}).Draw(t, "form")
	} else if code == twinLeaf || code == twinLeafV {
		e.Form = rapid.SampledFrom([]string{"u32", "int", "leaf-name"}).Draw(t, "form")
	} else {
		e.Form = rapid.SampledFrom([]string{"u32", "u32", "int", "int", "group-name", "scalar-name"}).Draw(t, "form")
	}
	return e
}

var twinProp = ev.Register(&ev.Prop[TwinCase]{
	ID: "C20", Name: "twin-codes",
	Rule: "a private dictionary defines two codes twice each, as a Grouped AVP for one vendor and as an Unsigned32 for the other (which vendor, which definition comes first and whether each sits in the application or in base are generated); " +
		"trees of depth <= 7 hold both twins, two leaves and an AVP of code 264 that the private dictionary does not define (searched by the name the built-in dictionaries give that code: an error or nothing), two AVPs that share one NAME (code 2005 without a vendor, 2006 for vendor 999; the name then stands for the code of the vendor asked for, for UndefinedVendorID for either); 1..5 path searches follow true paths of the tree (or random ones), elements given as uint32, int or by either twin's name, with vendor UndefinedVendorID / 0 / 999; built in memory or read back from the wire. " +
		"Demanded: when the dictionary defines every element for that vendor the result is pointer-identical to a reference walk over the CODES (single-element paths also through FindAVPs / FindAVP); otherwise an error, or nothing the walk does not reach. " +
		"non-trivial = some path of length >= 2 passes through a twin code's group",
	Gen: func(t *rapid.T) TwinCase {
		var c TwinCase
		for i := range c.Defs {
			l := fmt.Sprintf("twin%d-", i)
			c.Defs[i] = TwinDef{rapid.Bool().Draw(t, l+"group-vendored"), rapid.Bool().Draw(t, l+"group-first"), rapid.Bool().Draw(t, l+"group-in-app"), rapid.Bool().Draw(t, l+"scalar-in-app")}
		}
		c.SharedVendoredFirst = rapid.Bool().Draw(t, "shared-vendored-first")
		c.Decoded = rapid.Bool().Draw(t, "decoded")
		c.Tree = genTwinTree(t, 1)
		// true paths of the tree
		var paths [][]uint32
		var walk func(ns []*TwinNode, prefix []uint32)
		walk = func(ns []*TwinNode, prefix []uint32) {
			for _, n := range ns {
				p := append(append([]uint32{}, prefix...), n.Code)
				paths = append(paths, p)
				walk(n.Children, p)
			}
		}
		walk(c.Tree, nil)
		nq := rapid.IntRange(1, 5).Draw(t, "queries")
		for i := 0; i < nq; i++ {
			var codes []uint32
			if rapid.IntRange(0, 4).Draw(t, "true-path") != 0 {
				codes = rapid.SampledFrom(paths).Draw(t, "path")
			} else {
				for k := rapid.IntRange(1, 3).Draw(t, "len"); k > 0; k-- {
					codes = append(codes, rapid.SampledFrom([]uint32{2001, 2003, twinLeaf, twinLeafV, sharedPlain, sharedVendored}).Draw(t, "code"))
				}
			}
			q := TwinQuery{Vendor: rapid.SampledFrom([]uint32{dict.UndefinedVendorID, dict.UndefinedVendorID, 0, twinVendor}).Draw(t, "vendor")}
			for _, code := range codes {
				q.Path = append(q.Path, genTwinElem(t, code))
			}
			c.Queries = append(c.Queries, q)
		}
		return c
	},
	Run: runTwin,
	Classify: func(c TwinCase) (bool, []string) {
		cl := map[string]bool{}
		nontrivial := false
		for _, q := range c.Queries {
			cl[fmt.Sprintf("path-len=%d", len(q.Path))] = true
			switch q.Vendor {
			case dict.UndefinedVendorID:
				cl["vendor:any"] = true
			case 0:
				cl["vendor:0"] = true
			default:
				cl["vendor:999"] = true
			}
			all := true
			for i, e := range q.Path {
				all = all && c.resolvable(e, q.Vendor)
				if e.Form == "shared-name" {
					cl["name-shared-by-two-vendors"] = true
				}
				if e.Form == "foreign-name" {
					cl["name-only-another-dictionary-defines"] = true
				}
				if len(q.Path) >= 5 {
					cl["path-len>=5"] = true
				}
				if i < len(q.Path)-1 && (e.Code == 2001 || e.Code == 2003) {
					cl["through-twin:"+e.Form] = true
					nontrivial = true
				}
			}
			if !all {
				cl["element-not-defined-for-vendor"] = true
			}
		}
		if c.Decoded {
			cl["decoded"] = true
		}
		var ks []string
		for k := range cl {
			ks = append(ks, k)
		}
		sort.Strings(ks)
		return nontrivial, ks
	},
})

func TestC20TwinCodes(t *testing.T) { twinProp.Check(t, 1500, 60000) }
