// C20 - AVP search returns exactly the AVPs a reference tree walk finds.
//
// A tree drawn from a small alphabet of dict.Default codes (so that codes
// repeat at several depths) is built through the API and also obtained by
// decoding the serialised message. Every query (first / all / path; codes as
// uint32, int or name; vendor wildcard or the dictionary vendor) is answered
// by the library and by a reference pre-order walk over Message.AVP; results
// are compared by pointer identity.
package c20

import (
	"bytes"
	"fmt"
	"sort"
	"strings"
	"testing"

	"github.com/fiorix/go-diameter/v4/diam"
	"github.com/fiorix/go-diameter/v4/diam/dict"
	"pgregory.net/rapid"

	"verif/internal/ev"
	"verif/internal/gen"
)

// ---------------------------------------------------------------------------
// alphabet

type sym struct {
	Code    uint32
	Vendor  uint32 // the dictionary vendor of the definition
	Name    string // "" for a code no dictionary defines
	Grouped bool
	MinApp  int // 0: every application; 1: applications 4 and 16777251; 2: 16777251 only
}

// The applications messages are built for, each with a command the
// dictionary resolves. 16777251 reaches its AVPs through the parents 4, 1
// and the base application.
var apps = []struct {
	ID, Cmd uint32
	Level   int
}{{0, 257, 0}, {4, 272, 1}, {16777251, 316, 2}}

const undefinedCode = 999999

var alphabet = []sym{
	{260, 0, "Vendor-Specific-Application-Id", true, 0},
	{279, 0, "Failed-AVP", true, 0},
	{284, 0, "Proxy-Info", true, 0},
	{297, 0, "Experimental-Result", true, 0},
	{264, 0, "Origin-Host", false, 0},
	{296, 0, "Origin-Realm", false, 0},
	{266, 0, "Vendor-Id", false, 0},
	{258, 0, "Auth-Application-Id", false, 0},
	{268, 0, "Result-Code", false, 0},
	{263, 0, "Session-Id", false, 0},
	{undefinedCode, 0, "", false, 0},
	{873, 10415, "Service-Information", true, 1},
	{874, 10415, "PS-Information", true, 1},
	{2, 10415, "TGPP-Charging-Id", false, 1},
	{1, 10415, "TGPP-IMSI", false, 1},
	{1400, 10415, "Subscription-Data", true, 2},
}

// aliases are further dictionary names of alphabet codes (another vendor's
// definition of the same code, reached through the parent applications).
var aliases = []sym{
	{1, 0, "User-Name", false, 1},
}

// neverGenerated are defined codes that no tree contains, and codes / names
// nothing defines.
var neverGenerated = []sym{
	{283, 0, "Destination-Realm", false, 0},
	{293, 0, "Destination-Host", false, 0},
	{257, 0, "Host-IP-Address", false, 0},
	{888888, 0, "", false, 0},
}

const noSuchName = "No-Such-AVP"

func appLevel(app uint32) int {
	for _, a := range apps {
		if a.ID == app {
			return a.Level
		}
	}
	return 0
}

func symsFor(app uint32, table []sym) []sym {
	var out []sym
	for _, s := range table {
		if s.MinApp <= appLevel(app) {
			out = append(out, s)
		}
	}
	return out
}

// namesFor lists (name, vendor) pairs that denote code in application app.
func namesFor(app, code uint32) []sym {
	var out []sym
	for _, tbl := range [][]sym{alphabet, aliases, neverGenerated} {
		for _, s := range symsFor(app, tbl) {
			if s.Code == code && s.Name != "" {
				out = append(out, s)
			}
		}
	}
	return out
}

// ---------------------------------------------------------------------------
// case

// Elem is one code of a query in the form handed to the library.
type Elem struct {
	Form string `json:"form"` // u32 | int | name
	Code uint32 `json:"code"` // for a name: the code the dictionary gives it
	Name string `json:"name,omitempty"`
	// NoSuchName: the name is defined nowhere. Undef: a number the
	// dictionary does not define.
	NoSuchName bool `json:"no_such_name,omitempty"`
	Undef      bool `json:"undef,omitempty"`
}

func (e Elem) arg() interface{} {
	switch e.Form {
	case "int":
		return int(e.Code)
	case "name":
		return e.Name
	}
	return e.Code
}

// Query is one search.
type Query struct {
	Op     string `json:"op"` // first | all | path
	Path   []Elem `json:"path"`
	Vendor uint32 `json:"vendor"`
	Why    string `json:"why"` // how the generator arrived at it (measurement only)
}

// Case is a tree and the queries put to it.
type Case struct {
	App     uint32     `json:"app"`
	Build   int        `json:"build"` // 0 AddAVP(ToDiamAVP), 1 Message.NewAVP by number, 2 Message.NewAVP by name, 3 groups created empty and filled afterwards (top-down), 4 AVP struct literals (Length never set), 5 as 0, then shared objects: every top-level group is added once more as another AVP wrapping the SAME *GroupedAVP, and the first nested AVP pointer is also added at top level
	AVPs    []*gen.AVP `json:"avps"`
	Queries []Query    `json:"queries"`
}

// ---------------------------------------------------------------------------
// reference walk (over the library's own tree, by pointer)

func children(a *diam.AVP) ([]*diam.AVP, bool) {
	if g, ok := a.Data.(*diam.GroupedAVP); ok && g != nil {
		return g.AVP, true
	}
	return nil, false
}

// refAll lists every AVP with the code in depth-first document order.
func refAll(avps []*diam.AVP, code uint32, out []*diam.AVP) []*diam.AVP {
	for _, a := range avps {
		if a.Code == code {
			out = append(out, a)
		}
		if ch, ok := children(a); ok {
			out = refAll(ch, code, out)
		}
	}
	return out
}

// refPath follows the codes level by level from the top level.
func refPath(avps []*diam.AVP, path []uint32) []*diam.AVP {
	level := avps
	for i, code := range path {
		var matched []*diam.AVP
		for _, a := range level {
			if a.Code == code {
				matched = append(matched, a)
			}
		}
		if i == len(path)-1 {
			return matched
		}
		level = nil
		for _, a := range matched {
			if ch, ok := children(a); ok {
				level = append(level, ch...)
			}
		}
	}
	return nil
}

// ---------------------------------------------------------------------------
// runner

var defaultDict = gen.DictChoice{Name: "default"}

func cmdFor(app uint32) uint32 {
	for _, a := range apps {
		if a.ID == app {
			return a.Cmd
		}
	}
	return 257
}

func build(c Case, p *dict.Parser, cat *gen.Catalog) (*diam.Message, error) {
	m := diam.NewMessage(cmdFor(c.App), diam.RequestFlag, c.App, 1, 2, p)
	for _, a := range c.AVPs {
		b := a.ToDiamAVP()
		switch c.Build {
		case 3:
			m.AddAVP(a.Build(gen.BuildOpts{TopDown: true}))
			continue
		case 4:
			m.AddAVP(literalAVP(a))
			continue
		case 1:
			if _, err := m.NewAVP(b.Code, b.Flags, b.VendorID, b.Data); err != nil {
				return nil, err
			}
		case 2:
			if _, name := cat.ResolveName(c.App, a.Code, a.Vendor); name != "" {
				if _, err := m.NewAVP(name, b.Flags, b.VendorID, b.Data); err != nil {
					return nil, err
				}
				if got := m.AVP[len(m.AVP)-1].Code; got != a.Code {
					return nil, fmt.Errorf("Message.NewAVP(%q) made code %d, the generator meant %d", name, got, a.Code)
				}
				continue
			}
			m.AddAVP(b)
		default:
			m.AddAVP(b)
		}
	}
	if c.Build == 5 {
		// an application assembling messages from parts it keeps: one object at several positions
		top := append([]*diam.AVP{}, m.AVP...)
		var nested *diam.AVP
		for _, a := range top {
			if g, ok := a.Data.(*diam.GroupedAVP); ok && g != nil {
				m.AddAVP(&diam.AVP{Code: a.Code, Flags: a.Flags, VendorID: a.VendorID, Data: g})
				if nested == nil && len(g.AVP) > 0 {
					nested = g.AVP[len(g.AVP)-1]
				}
			}
		}
		if nested != nil {
			m.AddAVP(nested)
		}
	}
	return m, nil
}

// literalAVP builds the tree from AVP struct literals, the way Message.Marshal and some callers
// do: the Length field (meaningful only for decoded AVPs) stays zero.
func literalAVP(a *gen.AVP) *diam.AVP {
	out := &diam.AVP{Code: a.Code, Flags: a.Flags, VendorID: a.Vendor}
	if a.V.T == gen.TGrouped {
		g := &diam.GroupedAVP{}
		for _, c := range a.Children {
			g.AVP = append(g.AVP, literalAVP(c))
		}
		out.Data = g
		return out
	}
	out.Data = a.V.ToDatatype()
	return out
}

func describe(avps []*diam.AVP) string {
	var b strings.Builder
	var walk func(as []*diam.AVP)
	walk = func(as []*diam.AVP) {
		for i, a := range as {
			if i > 0 {
				b.WriteByte(' ')
			}
			fmt.Fprintf(&b, "%d", a.Code)
			if ch, ok := children(a); ok {
				b.WriteByte('{')
				walk(ch)
				b.WriteByte('}')
			}
		}
	}
	walk(avps)
	return b.String()
}

// position names an AVP by its index path in the tree.
func position(avps []*diam.AVP, target *diam.AVP) string {
	var find func(as []*diam.AVP, prefix string) string
	find = func(as []*diam.AVP, prefix string) string {
		for i, a := range as {
			p := fmt.Sprintf("%s/%d", prefix, i)
			if a == target {
				return fmt.Sprintf("%s(code %d)", p, a.Code)
			}
			if ch, ok := children(a); ok {
				if s := find(ch, p); s != "" {
					return s
				}
			}
		}
		return ""
	}
	if target == nil {
		return "nil"
	}
	if s := find(avps, ""); s != "" {
		return s
	}
	return fmt.Sprintf("an AVP outside the message (code %d)", target.Code)
}

func positions(avps, list []*diam.AVP) string {
	s := make([]string, len(list))
	for i, a := range list {
		s[i] = position(avps, a)
	}
	return "[" + strings.Join(s, " ") + "]"
}

func showQuery(q Query) string {
	var parts []string
	for _, e := range q.Path {
		switch e.Form {
		case "name":
			parts = append(parts, fmt.Sprintf("%q", e.Name))
		case "int":
			parts = append(parts, fmt.Sprintf("int(%d)", e.Code))
		default:
			parts = append(parts, fmt.Sprintf("uint32(%d)", e.Code))
		}
	}
	v := fmt.Sprintf("%d", q.Vendor)
	if q.Vendor == dict.UndefinedVendorID {
		v = "UndefinedVendorID"
	}
	fn := map[string]string{"first": "FindAVP", "all": "FindAVPs", "path": "FindAVPsWithPath"}[q.Op]
	return fmt.Sprintf("%s(%s, vendor %s)", fn, strings.Join(parts, ", "), v)
}

// checkQuery compares the library's answer with the reference walk.
func checkQuery(m *diam.Message, cat *gen.Catalog, app uint32, q Query, where string) *ev.Failure {
	if len(q.Path) == 0 || (q.Op != "path" && len(q.Path) != 1) {
		return ev.Failf("harness-query", "malformed query %+v", q)
	}
	unresolvable, guard := false, false
	codes := make([]uint32, len(q.Path))
	for i, e := range q.Path {
		codes[i] = e.Code
		if e.Form == "name" {
			if e.NoSuchName {
				unresolvable = true
			}
			continue
		}
		undef := cat.Resolve(app, e.Code, dict.UndefinedVendorID) == gen.TUnknown
		if undef != e.Undef {
			return ev.Failf("harness-alphabet", "code %d: the case says undefined=%v, the dictionary says %v", e.Code, e.Undef, undef)
		}
		if undef {
			guard = true
		}
	}
	var ref []*diam.AVP
	if !unresolvable {
		if q.Op == "path" {
			ref = refPath(m.AVP, codes)
		} else {
			ref = refAll(m.AVP, codes[0], nil)
		}
	}
	inRef := func(a *diam.AVP) bool {
		for _, r := range ref {
			if r == a {
				return true
			}
		}
		return false
	}
	ctx := func() string {
		return fmt.Sprintf("%s on the %s message (application %d) with tree %s; reference walk: %s", showQuery(q), where, app, describe(m.AVP), positions(m.AVP, ref))
	}

	var got []*diam.AVP
	var err error
	switch q.Op {
	case "first":
		var a *diam.AVP
		a, err = m.FindAVP(q.Path[0].arg(), q.Vendor)
		if a != nil {
			got = []*diam.AVP{a}
		}
		if err != nil && a != nil {
			return ev.Failf("first:error-and-avp", "an error (%v) together with an AVP %s; %s", err, position(m.AVP, a), ctx())
		}
	case "all":
		got, err = m.FindAVPs(q.Path[0].arg(), q.Vendor)
	case "path":
		args := make([]interface{}, len(q.Path))
		for i, e := range q.Path {
			args[i] = e.arg()
		}
		got, err = m.FindAVPsWithPath(args, q.Vendor)
	default:
		return ev.Failf("harness-query", "unknown op %q", q.Op)
	}
	for _, a := range got {
		if a == nil {
			return ev.Failf(q.Op+":nil-in-result", "a nil AVP in the result; %s", ctx())
		}
	}
	if err != nil && len(got) > 0 {
		return ev.Failf(q.Op+":error-and-avps", "an error (%v) together with %d AVPs; %s", err, len(got), ctx())
	}

	if len(ref) == 0 {
		// absent: an error or an empty result, never a different AVP
		if len(got) != 0 {
			return ev.Failf(q.Op+":absent-but-returned", "nothing in the message matches, yet %s was returned; %s", positions(m.AVP, got), ctx())
		}
		return nil
	}
	if guard {
		// a number the dictionary does not define: the statement is silent on
		// whether it can be searched for; only "never a different AVP"
		for _, a := range got {
			if !inRef(a) {
				return ev.Failf(q.Op+":different-avp", "returned %s, which the query does not denote; %s", position(m.AVP, a), ctx())
			}
		}
		return nil
	}
	if err != nil || len(got) == 0 {
		return ev.Failf(q.Op+":not-found", "the message holds %d matching AVPs but the search returned %d (error: %v); %s", len(ref), len(got), err, ctx())
	}
	if q.Op == "first" {
		if got[0] == ref[0] {
			return nil
		}
		if inRef(got[0]) {
			return ev.Failf("first:not-first-in-document-order", "returned %s, the first in depth-first document order is %s; %s", position(m.AVP, got[0]), position(m.AVP, ref[0]), ctx())
		}
		return ev.Failf("first:different-avp", "returned %s, which does not have the requested code; %s", position(m.AVP, got[0]), ctx())
	}
	same := len(got) == len(ref)
	for i := 0; same && i < len(ref); i++ {
		same = got[i] == ref[i]
	}
	if same {
		return nil
	}
	extra, missing := 0, 0
	for _, a := range got {
		if !inRef(a) {
			extra++
		}
	}
	for _, r := range ref {
		found := false
		for _, a := range got {
			found = found || a == r
		}
		if !found {
			missing++
		}
	}
	switch {
	case extra > 0:
		return ev.Failf(q.Op+":extra", "returned %s: %d of them are not denoted by the query; %s", positions(m.AVP, got), extra, ctx())
	case missing > 0:
		return ev.Failf(q.Op+":missing", "returned %s: %d matching AVPs are missing; %s", positions(m.AVP, got), missing, ctx())
	}
	return ev.Failf(q.Op+":order", "returned %s: same AVPs, other order or duplicates; %s", positions(m.AVP, got), ctx())
}

func runCase(c Case) *ev.Failure {
	p, cat, err := defaultDict.Load()
	if err != nil {
		return ev.Failf("harness-dict", "%v", err)
	}
	built, err := build(c, p, cat)
	if err != nil {
		return ev.Failf("harness-build", "%v", err)
	}
	wire, err := built.Serialize()
	if err != nil {
		return ev.Failf("harness-serialize", "%v", err)
	}
	decoded, err := diam.ReadMessage(bytes.NewReader(wire), p)
	if err != nil {
		return ev.Failf("harness-decode", "the serialised tree does not decode: %v", err)
	}
	if d := gen.CompareTree(c.AVPs, decoded.AVP, ""); d != "" && c.Build != 5 { // mode 5 repeats parts of the tree
		return ev.Failf("decoded-tree-differs", "the message read back from the wire does not hold the tree that was built (searches on it cannot find what the sender put there): %s", d)
	}
	for _, q := range c.Queries {
		if f := checkQuery(built, cat, c.App, q, "API-built"); f != nil {
			return f
		}
		if f := checkQuery(decoded, cat, c.App, q, "decoded"); f != nil {
			return f
		}
	}
	return nil
}

// ---------------------------------------------------------------------------
// measuring

type occ struct {
	n      int
	depths map[int]bool
}

func occurrences(avps []*gen.AVP) (map[uint32]*occ, int, bool, bool) {
	m := map[uint32]*occ{}
	maxDepth, emptyGroup, groupInGroup := 0, false, false
	gen.Walk(avps, 1, func(a *gen.AVP, d int) {
		o := m[a.Code]
		if o == nil {
			o = &occ{depths: map[int]bool{}}
			m[a.Code] = o
		}
		o.n++
		o.depths[d] = true
		if d > maxDepth {
			maxDepth = d
		}
		if a.V.T == gen.TGrouped {
			if len(a.Children) == 0 {
				emptyGroup = true
			}
			for _, ch := range a.Children {
				if ch.V.T == gen.TGrouped {
					groupInGroup = true
				}
			}
		}
	})
	return m, maxDepth, emptyGroup, groupInGroup
}

// abstract reference (same rules, over the generated tree) - used only to
// label cases, never as the oracle.
func absPath(avps []*gen.AVP, path []uint32) (n int, throughScalar bool) {
	level := avps
	for i, code := range path {
		var matched []*gen.AVP
		for _, a := range level {
			if a.Code == code {
				matched = append(matched, a)
			}
		}
		if i == len(path)-1 {
			return len(matched), throughScalar
		}
		level = nil
		for _, a := range matched {
			if a.V.T == gen.TGrouped {
				level = append(level, a.Children...)
			} else {
				throughScalar = true
			}
		}
	}
	return 0, throughScalar
}

func classify(c Case) (bool, []string) {
	occs, maxDepth, emptyGroup, gig := occurrences(c.AVPs)
	set := map[string]bool{}
	set[fmt.Sprintf("app:%d", c.App)] = true
	set[fmt.Sprintf("build:%d", c.Build)] = true
	if maxDepth >= 3 {
		set["depth>=3"] = true
	}
	if maxDepth >= 4 {
		set["depth>=4"] = true
	}
	if emptyGroup {
		set["empty-group"] = true
	}
	if gig {
		set["group-in-group"] = true
	}
	for code, o := range occs {
		if o.n >= 2 && len(o.depths) >= 2 {
			set["tree:code-repeated-at-2-depths"] = true
		}
		if len(o.depths) >= 3 {
			set["tree:code-at-3-depths"] = true
		}
		if code == undefinedCode {
			set["tree:undefined-code"] = true
		}
	}
	gen.Walk(c.AVPs, 1, func(a *gen.AVP, d int) {
		if a.Vendor != 0 {
			set["tree:vendor-avp"] = true
		}
	})
	nontrivial := false
	for _, q := range c.Queries {
		set["q:"+q.Op] = true
		set["why:"+q.Why] = true
		if q.Vendor == dict.UndefinedVendorID {
			set["q:vendor-wildcard"] = true
		} else {
			set[fmt.Sprintf("q:vendor-dict=%d", q.Vendor)] = true
		}
		if len(q.Path) == 0 {
			continue
		}
		mixed := map[string]bool{}
		resolvable := true
		codes := make([]uint32, len(q.Path))
		for i, e := range q.Path {
			set["q:form-"+e.Form] = true
			mixed[e.Form] = true
			codes[i] = e.Code
			if e.NoSuchName {
				resolvable = false
				set["q:no-such-name"] = true
			}
			if e.Undef {
				set["q:undefined-number"] = true
			}
		}
		target := codes[len(codes)-1]
		o := occs[target]
		deep := resolvable && o != nil && o.n >= 2 && len(o.depths) >= 2
		if deep {
			nontrivial = true
			set["q:"+q.Op+":code-repeated-at-2-depths"] = true
		}
		if q.Op == "path" {
			n, ts := absPath(c.AVPs, codes)
			if !resolvable {
				n = 0
			}
			set[fmt.Sprintf("q:path-len=%d", len(codes))] = true
			if len(mixed) > 1 {
				set["q:path-mixed-forms"] = true
			}
			switch {
			case n == 0:
				set["q:path:no-match"] = true
				if o != nil && resolvable {
					set["q:path:no-match-but-last-code-present"] = true
				}
			case n == 1:
				set["q:path:one-match"] = true
			default:
				set["q:path:multi-match"] = true
			}
			if n > 0 && o != nil && o.n > n {
				set["q:path:matches-fewer-than-code-occurs"] = true
			}
			if ts {
				set["q:path:meets-non-grouped-on-the-way"] = true
			}
		} else {
			switch {
			case !resolvable || o == nil:
				set["q:"+q.Op+":absent"] = true
			case o.n == 1:
				set["q:"+q.Op+":one-match"] = true
			default:
				set["q:"+q.Op+":multi-match"] = true
			}
			if resolvable && o != nil && q.Path[0].Undef {
				set["q:guarded-undefined-present"] = true
			}
			if resolvable && o != nil && !o.depths[1] {
				set["q:"+q.Op+":only-inside-groups"] = true
			}
		}
	}
	cl := make([]string, 0, len(set))
	for k := range set {
		cl = append(cl, k)
	}
	sort.Strings(cl)
	return nontrivial, cl
}

// ---------------------------------------------------------------------------
// generator

type nodeInfo struct {
	a    *gen.AVP
	path []uint32
}

func genTree(t *rapid.T, cat *gen.Catalog, app uint32, groups, scalars []sym) []*gen.AVP {
	var node func(depth int) *gen.AVP
	node = func(depth int) *gen.AVP {
		var s sym
		if depth < 4 && len(groups) > 0 && rapid.IntRange(0, 99).Draw(t, "grouped") < 48 {
			s = rapid.SampledFrom(groups).Draw(t, "group-code")
		} else {
			s = rapid.SampledFrom(scalars).Draw(t, "scalar-code")
		}
		a := &gen.AVP{Code: s.Code, Vendor: s.Vendor}
		if s.Name != "" {
			a.Flags = 0x40
		}
		if s.Vendor != 0 {
			a.Flags |= 0x80
		}
		typ := cat.Resolve(app, s.Code, s.Vendor)
		if (typ == gen.TGrouped) != s.Grouped {
			t.Fatalf("harness: alphabet says grouped=%v for code %d, the dictionary says %s", s.Grouped, s.Code, typ)
		}
		if s.Grouped {
			a.V = gen.Val{T: gen.TGrouped}
			n := rapid.SampledFrom([]int{0, 1, 1, 2, 2, 3}).Draw(t, "n-children")
			for i := 0; i < n; i++ {
				a.Children = append(a.Children, node(depth+1))
			}
			return a
		}
		a.V = gen.Value(t, typ, gen.ValueOpts{MaxBytes: 9})
		return a
	}
	n := rapid.IntRange(1, 5).Draw(t, "n-top")
	out := make([]*gen.AVP, 0, n)
	for i := 0; i < n; i++ {
		out = append(out, node(1))
	}
	return out
}

func collect(avps []*gen.AVP, prefix []uint32, out *[]nodeInfo) {
	for _, a := range avps {
		p := append(append([]uint32{}, prefix...), a.Code)
		*out = append(*out, nodeInfo{a, p})
		if a.V.T == gen.TGrouped {
			collect(a.Children, p, out)
		}
	}
}

// elemFor draws the form in which a code is handed to the library and
// returns the dictionary vendor that form goes with.
func elemFor(t *rapid.T, app, code uint32) (Elem, uint32) {
	names := namesFor(app, code)
	undef := len(names) == 0
	form := rapid.SampledFrom([]string{"u32", "int", "name"}).Draw(t, "form")
	if form == "name" && !undef {
		s := rapid.SampledFrom(names).Draw(t, "name")
		return Elem{Form: "name", Code: code, Name: s.Name}, s.Vendor
	}
	if form == "name" {
		form = "u32"
	}
	e := Elem{Form: form, Code: code, Undef: undef}
	if undef {
		return e, 0
	}
	return e, names[0].Vendor
}

func genQuery(t *rapid.T, app uint32, nodes []nodeInfo, palette []sym) Query {
	present := map[uint32]bool{}
	for _, n := range nodes {
		present[n.a.Code] = true
	}
	var absent []sym
	for _, tbl := range [][]sym{symsFor(app, alphabet), symsFor(app, neverGenerated)} {
		for _, s := range tbl {
			if !present[s.Code] && s.Code != undefinedCode {
				absent = append(absent, s)
			}
		}
	}
	anyNode := func(label string) nodeInfo { return nodes[rapid.IntRange(0, len(nodes)-1).Draw(t, label)] }
	anyCode := func(label string) uint32 {
		if rapid.IntRange(0, 3).Draw(t, label+"-from-tree") > 0 {
			return anyNode(label).a.Code
		}
		return rapid.SampledFrom(palette).Draw(t, label).Code
	}
	var q Query
	var codes []uint32
	noSuch := false
	op := rapid.SampledFrom([]string{"first", "all"}).Draw(t, "op")
	switch k := rapid.IntRange(0, 13).Draw(t, "query-kind"); {
	case k <= 3:
		q.Op, q.Why, codes = op, "present-code", []uint32{anyNode("target").a.Code}
	case k == 4:
		q.Op, q.Why, codes = op, "absent-code", []uint32{rapid.SampledFrom(absent).Draw(t, "absent").Code}
	case k == 5:
		q.Op, q.Why = op, "no-such-name"
		noSuch = true
	case k == 8:
		q.Op, q.Why = "path", "path-with-no-such-name"
		codes = anyNode("target").path
		noSuch = true
	case k == 9:
		// a true path without its first elements: strict matching starts at the top level
		n := anyNode("target")
		for tries := 0; len(n.path) < 2 && tries < 4; tries++ {
			n = anyNode("deeper-target")
		}
		q.Op, q.Why, codes = "path", "path-suffix", n.path
		if len(n.path) >= 2 {
			codes = n.path[rapid.IntRange(1, len(n.path)-1).Draw(t, "drop"):]
		}
	case k == 10:
		// continue below a non-grouped AVP
		var scalars []nodeInfo
		for _, n := range nodes {
			if n.a.V.T != gen.TGrouped {
				scalars = append(scalars, n)
			}
		}
		q.Op, q.Why = "path", "path-through-non-grouped"
		if len(scalars) == 0 {
			codes = anyNode("target").path
		} else {
			n := scalars[rapid.IntRange(0, len(scalars)-1).Draw(t, "scalar")]
			codes = append(append([]uint32{}, n.path...), anyCode("below-scalar"))
		}
	case k == 11:
		// a true path with one element replaced (absent code or another present one) or skipped
		n := anyNode("target")
		codes = append([]uint32{}, n.path...)
		q.Op, q.Why = "path", "path-perturbed"
		i := rapid.IntRange(0, len(codes)-1).Draw(t, "at")
		switch rapid.IntRange(0, 2).Draw(t, "perturbation") {
		case 0:
			codes[i] = rapid.SampledFrom(absent).Draw(t, "absent").Code
		case 1:
			codes[i] = anyCode("other")
		default:
			if len(codes) >= 2 {
				codes = append(codes[:i], codes[i+1:]...)
			}
		}
	case k == 12:
		q.Op, q.Why = "path", "path-random"
		n := rapid.IntRange(1, 3).Draw(t, "path-len")
		for i := 0; i < n; i++ {
			codes = append(codes, anyCode("step"))
		}
	default: // 6, 7, 13
		q.Op, q.Why, codes = "path", "path-of-a-node", anyNode("target").path
	}
	vendors := map[uint32]bool{}
	for _, code := range codes {
		e, v := elemFor(t, app, code)
		q.Path = append(q.Path, e)
		vendors[v] = true
	}
	if noSuch {
		e := Elem{Form: "name", Name: noSuchName, NoSuchName: true}
		if len(q.Path) == 0 {
			q.Path = []Elem{e}
		} else {
			q.Path[rapid.IntRange(0, len(q.Path)-1).Draw(t, "no-such-at")] = e
		}
	}
	q.Vendor = dict.UndefinedVendorID
	if len(vendors) == 1 && rapid.Bool().Draw(t, "dictionary-vendor") {
		for v := range vendors {
			q.Vendor = v
		}
	}
	return q
}

func pickSome(t *rapid.T, label string, from []sym, min, max int) []sym {
	if max > len(from) {
		max = len(from)
	}
	if min > max {
		min = max
	}
	n := rapid.IntRange(min, max).Draw(t, label+"-n")
	perm := rapid.Permutation(from).Draw(t, label)
	return perm[:n]
}

func genCase(t *rapid.T) Case {
	_, cat, err := defaultDict.Load()
	if err != nil {
		t.Fatalf("harness: %v", err)
	}
	c := Case{App: rapid.SampledFrom(apps).Draw(t, "app").ID, Build: rapid.IntRange(0, 5).Draw(t, "build")}
	var groups, scalars []sym
	for _, s := range symsFor(c.App, alphabet) {
		if s.Grouped {
			groups = append(groups, s)
		} else {
			scalars = append(scalars, s)
		}
	}
	// a small palette per case, so that codes repeat; Failed-AVP and the
	// vendor-specific groups take any child, as every group does for the codec
	groups = pickSome(t, "groups", groups, 1, 3)
	scalars = pickSome(t, "scalars", scalars, 1, 4)
	c.AVPs = genTree(t, cat, c.App, groups, scalars)
	var nodes []nodeInfo
	collect(c.AVPs, nil, &nodes)
	palette := append(append([]sym{}, groups...), scalars...)
	for i := 0; i < 6; i++ {
		c.Queries = append(c.Queries, genQuery(t, c.App, nodes, palette))
	}
	return c
}

// ---------------------------------------------------------------------------
// property and tests

var prop = ev.Register(&ev.Prop[Case]{
	ID:   "C20",
	Name: "search",
	Rule: "dict.Default; message application in {0, 4, 16777251}; trees of depth <= 4 over a per-case palette of 1-3 grouped and 1-4 non-grouped codes (base codes 260 279 284 297 / 264 296 266 258 268 263, 3GPP codes 873 874 1400 / 1 2 with vendor 10415, one code the dictionary does not define), built by AddAVP / Message.NewAVP by number / by name / top-down / from struct literals / with one group object and one AVP object placed at two positions each, and, independently, decoded from the serialised message; 6 queries per tree (FindAVP / FindAVPs for present, absent and undefined codes and names; FindAVPsWithPath for paths of nodes, path suffixes, paths continuing below non-grouped AVPs, perturbed and random paths), codes as uint32 / int / name, vendor wildcard or the dictionary vendor, each query run on the built and on the decoded message against a reference pre-order walk by pointer identity; non-trivial = some query's (last) code occurs at least twice at two or more depths of the tree",
	Gen:  genCase, Run: runCase, Classify: classify,
})

func TestC20Search(t *testing.T) { prop.Check(t, 5000, 300000) }

// The alphabet says what the dictionary says: grouped-ness, vendor, and
// every name leads back to its code with the wildcard and with its vendor.
func TestC20Alphabet(t *testing.T) {
	p, cat, err := defaultDict.Load()
	if err != nil {
		t.Fatal(err)
	}
	for _, app := range apps {
		if _, err := p.FindCommand(app.ID, app.Cmd); err != nil {
			t.Fatalf("harness: command %d of application %d: %v", app.Cmd, app.ID, err)
		}
		for _, tbl := range [][]sym{alphabet, aliases, neverGenerated} {
			for _, s := range symsFor(app.ID, tbl) {
				typ := cat.Resolve(app.ID, s.Code, dict.UndefinedVendorID)
				if s.Name == "" {
					if typ != gen.TUnknown {
						t.Fatalf("harness: code %d is meant to be undefined but resolves to %s in application %d", s.Code, typ, app.ID)
					}
					continue
				}
				if typ == gen.TUnknown || (typ == gen.TGrouped) != s.Grouped {
					t.Fatalf("harness: code %d in application %d resolves to %s, alphabet says grouped=%v", s.Code, app.ID, typ, s.Grouped)
				}
				for _, v := range []uint32{dict.UndefinedVendorID, s.Vendor} {
					d, err := p.FindAVPWithVendor(app.ID, s.Name, v)
					if err != nil || d.Code != s.Code {
						t.Fatalf("harness: name %q (vendor %d) in application %d does not lead to code %d: %v %v", s.Name, v, app.ID, s.Code, d, err)
					}
					if _, err := p.FindAVPWithVendor(app.ID, s.Code, v); err != nil {
						t.Fatalf("harness: code %d (vendor %d) in application %d: %v", s.Code, v, app.ID, err)
					}
				}
			}
		}
		if _, err := p.FindAVPWithVendor(app.ID, noSuchName, dict.UndefinedVendorID); err == nil {
			t.Fatalf("harness: %q is defined", noSuchName)
		}
	}
}

// Hand-written trees for the shapes the statement names, run through the
// same oracle: a code repeated at three depths with the deeper occurrence
// first in document order, an empty group, a path through a non-grouped AVP.
func TestC20Canonical(t *testing.T) {
	u32 := func(code uint32, v uint64) *gen.AVP {
		return &gen.AVP{Code: code, Flags: 0x40, V: gen.Val{T: gen.TUnsigned32, U: v}}
	}
	grp := func(code uint32, ch ...*gen.AVP) *gen.AVP {
		return &gen.AVP{Code: code, Flags: 0x40, V: gen.Val{T: gen.TGrouped}, Children: ch}
	}
	wild := uint32(dict.UndefinedVendorID)
	n := func(code uint32) Elem { return Elem{Form: "u32", Code: code} }
	name := func(code uint32, s string) Elem { return Elem{Form: "name", Code: code, Name: s} }
	tree := []*gen.AVP{
		grp(279, grp(297, u32(268, 3)), u32(268, 2), grp(284)),
		u32(268, 1),
		grp(297, u32(268, 4), grp(279, u32(268, 5))),
		grp(260),
	}
	c := Case{App: 0, AVPs: tree, Queries: []Query{
		{Op: "first", Path: []Elem{n(268)}, Vendor: wild, Why: "canonical"},
		{Op: "all", Path: []Elem{name(268, "Result-Code")}, Vendor: 0, Why: "canonical"},
		{Op: "all", Path: []Elem{{Form: "int", Code: 297}}, Vendor: wild, Why: "canonical"},
		{Op: "path", Path: []Elem{n(268)}, Vendor: wild, Why: "canonical"},
		{Op: "path", Path: []Elem{n(297), name(268, "Result-Code")}, Vendor: wild, Why: "canonical"},
		{Op: "path", Path: []Elem{n(279), n(297), n(268)}, Vendor: wild, Why: "canonical"},
		{Op: "path", Path: []Elem{n(268), n(268)}, Vendor: wild, Why: "canonical"},
		{Op: "path", Path: []Elem{n(260), n(268)}, Vendor: wild, Why: "canonical"},
		{Op: "path", Path: []Elem{n(284)}, Vendor: wild, Why: "canonical"},
		{Op: "first", Path: []Elem{n(264)}, Vendor: wild, Why: "canonical"},
		{Op: "first", Path: []Elem{{Form: "name", Name: noSuchName, NoSuchName: true}}, Vendor: wild, Why: "canonical"},
	}}
	for b := 0; b <= 5; b++ {
		c.Build = b
		prop.One(t, c)
	}
}

func TestC20Keep(t *testing.T) { ev.RunKeep(t, "C20") }

func TestReplay(t *testing.T) { ev.Replay(t) }
