package c20

import (
	"bytes"
	"fmt"
	"sort"
	"sync"
	"testing"

	"github.com/fiorix/go-diameter/v4/diam"
	"github.com/fiorix/go-diameter/v4/diam/dict"
	"pgregory.net/rapid"

	"verif/internal/ev"
	"verif/internal/gen"
	"verif/internal/refdict"
)

// "A code given by name resolves through the message's dictionary": the dictionary of a message is
// layered - the message's application, then its parent applications (Gx 16777238 and S6a 16777251
// extend 4, which extends 1), then the base application - and ONE NAME may stand for different
// codes at different layers. The shipped dictionaries never do that, so here the dictionary is
// generated: a handful of names, each defined at a random subset of the layers of a child
// application (and in applications that are no ancestor at all) with a code of its own per layer.
// The tree holds AVPs with every one of those codes. Which code a name stands for in a message of a
// given application is decided by the independent dictionary model (internal/refdict), never by
// the library; the search result must be the reference walk for THAT code.

// the names: four non-grouped, two grouped
var hierLeafNames = []string{"H-Leaf-0", "H-Leaf-1", "H-Leaf-2", "H-Leaf-3"}
var hierGroupNames = []string{"H-Group-0", "H-Group-1"}

// the codes the names are bound to; a code's kind and vendor never change
var hierLeafCodes = []uint32{6001, 6002, 6003, 6004, 6005, 6006}
var hierGroupCodes = []uint32{6101, 6102, 6103}

const hierUndefinedCode = 6999
const hierVendor = 10415
const hierCmd = 300

// the command needs a rule; its AVP is in no tree and in no query
var hierRuleAVP = gen.DictAVP{Name: "H-Rule", Code: 6900, Type: gen.TUnsigned32}

func hierVendorOf(code uint32) uint32 {
	if code == 6003 || code == 6006 || code == 6103 {
		return hierVendor
	}
	return 0
}

func hierIsGroup(code uint32) bool { return code >= 6101 && code <= 6103 }

// applications a message may belong to, and applications that hold definitions
var hierMsgApps = []uint32{16777238, 16777238, 16777251, 16777251, 4, 4, 1, 7, 0}
var hierDictApps = []uint32{0, 1, 4, 16777238, 16777251, 7, 1000}

// HQuery is a search; names are resolved at run time by the reference model.
type HQuery struct {
	Op     string  `json:"op"`   // first | all | path
	Path   []HElem `json:"path"` // one element unless Op is path
	Vendor uint32  `json:"vendor"`
}

type HElem struct {
	Form string `json:"form"` // name | u32 | int
	Name string `json:"name,omitempty"`
	Code uint32 `json:"code,omitempty"`
}

type HCase struct {
	Dict    gen.DictFile `json:"dict"`
	App     uint32       `json:"app"`
	AVPs    []*gen.AVP   `json:"avps"`
	Queries []HQuery     `json:"queries"`
}

// hierResolve turns an HQuery into the Query checkQuery understands: every name element gets the code
// the reference model resolves it to for (application, query vendor). skip: the model does not
// decide (never by construction), or a numeric element is not defined for the query vendor (the
// statement does not say what a search for such a number does).
func hierResolve(ref *refdict.Model, app uint32, hq HQuery) (q Query, contested bool, skip bool) {
	q = Query{Op: hq.Op, Vendor: hq.Vendor}
	for _, e := range hq.Path {
		el := Elem{Form: e.Form, Code: e.Code, Name: e.Name}
		switch e.Form {
		case "name":
			r := ref.FindAVPByName(app, e.Name, hq.Vendor)
			if len(r.Alt) > 0 {
				return q, false, true
			}
			if r.Found {
				el.Code = r.Def.Code
				// the layers of this application give the name more than one code
				codes := map[uint32]bool{}
				for _, level := range refdict.Chain(app) {
					for _, d := range ref.AVPs {
						if d.App == level && d.Name == e.Name {
							codes[d.Code] = true
						}
					}
				}
				contested = contested || len(codes) >= 2
			} else {
				el.NoSuchName = true
				el.Code = 0
			}
		default:
			r := ref.FindAVPByCode(app, e.Code, refdict.AnyVendor)
			el.Undef = !r.Found
			if r.Found && hq.Vendor != dict.UndefinedVendorID && !ref.FindAVPByCode(app, e.Code, hq.Vendor).Found {
				return q, false, true
			}
		}
		q.Path = append(q.Path, el)
	}
	return q, contested, false
}

// hierLoad loads the case's dictionary into a fresh parser and the reference model; the last one is
// kept (classification and run of one case use the same document; a parser is never modified).
var hierLast struct {
	sync.Mutex
	xml string
	p   *dict.Parser
	cat *gen.Catalog
}

func hierLoad(f *gen.DictFile) (*dict.Parser, *gen.Catalog, error) {
	x := f.XML()
	hierLast.Lock()
	defer hierLast.Unlock()
	if hierLast.xml == x && hierLast.p != nil {
		return hierLast.p, hierLast.cat, nil
	}
	p, cat, err := gen.DictChoice{Name: "generated", Gen: f}.Load()
	if err != nil {
		return nil, nil, err
	}
	hierLast.xml, hierLast.p, hierLast.cat = x, p, cat
	return p, cat, nil
}

func runHier(c HCase) *ev.Failure {
	p, cat, err := hierLoad(&c.Dict)
	if err != nil {
		return ev.Failf("harness-dict", "%v", err)
	}
	built := diam.NewMessage(hierCmd, diam.RequestFlag, c.App, 1, 2, p)
	for _, a := range c.AVPs {
		if a == nil {
			return ev.Failf("harness-build", "nil AVP in the case")
		}
		built.AddAVP(a.ToDiamAVP())
	}
	wire, err := built.Serialize()
	if err != nil {
		return ev.Failf("harness-serialize", "%v", err)
	}
	decoded, err := diam.ReadMessage(bytes.NewReader(wire), p)
	if err != nil {
		return ev.Failf("harness-decode", "the serialised tree does not decode: %v", err)
	}
	for _, hq := range c.Queries {
		q, _, skip := hierResolve(cat.Ref, c.App, hq)
		if skip {
			continue
		}
		where := "API-built"
		for _, m := range []*diam.Message{built, decoded} {
			if f := checkQuery(m, cat, c.App, q, where); f != nil {
				layers := ""
				for _, e := range q.Path {
					if e.Form != "name" {
						continue
					}
					layers += fmt.Sprintf("; %q is defined as", e.Name)
					for _, level := range refdict.Chain(c.App) {
						for _, d := range cat.Ref.AVPs {
							if d.App == level && d.Name == e.Name {
								layers += fmt.Sprintf(" code %d (vendor %d) in application %d,", d.Code, d.Vendor, level)
							}
						}
					}
					if e.NoSuchName {
						layers += " nothing this application reaches for the query vendor"
					} else {
						layers += fmt.Sprintf(" so in a message of application %d (lookup order %v) it stands for code %d", c.App, refdict.Chain(c.App), e.Code)
					}
				}
				return ev.Failf("layered:"+f.Sig, "%s%s", f.Detail, layers)
			}
			where = "decoded"
		}
	}
	return nil
}

// ---------------------------------------------------------------------------
// generator

func genHierDict(t *rapid.T) gen.DictFile {
	var f gen.DictFile
	for _, id := range hierDictApps {
		app := gen.DictApp{ID: id, Name: fmt.Sprintf("H%d", id)}
		if id == 0 {
			app.Name = "Base"
			app.Cmds = []gen.DictCmd{{Code: hierCmd, Short: "HQ", Name: "Hier-Query", Req: []string{hierRuleAVP.Name}, Ans: []string{hierRuleAVP.Name}}}
			app.AVPs = append(app.AVPs, hierRuleAVP)
		} else {
			app.Type = "auth"
		}
		// every layer binds a random subset of the names, each to a code no other name of the layer has
		leaf := rapid.Permutation(hierLeafCodes).Draw(t, "leaf-codes")
		for i, name := range hierLeafNames {
			if rapid.IntRange(0, 9).Draw(t, "defined") < 5 {
				app.AVPs = append(app.AVPs, gen.DictAVP{Name: name, Code: leaf[i], Vendor: hierVendorOf(leaf[i]), Type: gen.TUnsigned32})
			}
		}
		grp := rapid.Permutation(hierGroupCodes).Draw(t, "group-codes")
		for i, name := range hierGroupNames {
			if rapid.IntRange(0, 9).Draw(t, "defined") < 6 {
				app.AVPs = append(app.AVPs, gen.DictAVP{Name: name, Code: grp[i], Vendor: hierVendorOf(grp[i]), Type: gen.TGrouped})
			}
		}
		f.Apps = append(f.Apps, app)
	}
	return f
}

func genHierTree(t *rapid.T, depth int, seq *uint64) []*gen.AVP {
	n := rapid.IntRange(1, 4).Draw(t, "n")
	var out []*gen.AVP
	for i := 0; i < n; i++ {
		var code uint32
		switch k := rapid.IntRange(0, 11).Draw(t, "kind"); {
		case k < 4 && depth < 4:
			code = rapid.SampledFrom(hierGroupCodes).Draw(t, "group-code")
		case k == 11:
			code = hierUndefinedCode
		default:
			code = rapid.SampledFrom(hierLeafCodes).Draw(t, "leaf-code")
		}
		a := &gen.AVP{Code: code, Vendor: hierVendorOf(code)}
		if a.Vendor != 0 {
			a.Flags = 0x80
		}
		if hierIsGroup(code) {
			a.V = gen.Val{T: gen.TGrouped}
			if rapid.IntRange(0, 5).Draw(t, "empty") > 0 {
				a.Children = genHierTree(t, depth+1, seq)
			}
		} else {
			*seq++
			a.V = gen.Val{T: gen.TUnsigned32, U: *seq}
			if code == hierUndefinedCode {
				a.V = gen.Val{T: gen.TUnknown, B: []byte{byte(*seq), 2, 3, 4}}
			}
		}
		out = append(out, a)
	}
	return out
}

func genHierElem(t *rapid.T, group bool) HElem {
	names, codes := hierLeafNames, hierLeafCodes
	if group {
		names, codes = hierGroupNames, hierGroupCodes
	}
	switch k := rapid.IntRange(0, 9).Draw(t, "form"); {
	case k < 7:
		return HElem{Form: "name", Name: rapid.SampledFrom(names).Draw(t, "name")}
	case k == 7:
		return HElem{Form: "int", Code: rapid.SampledFrom(codes).Draw(t, "code")}
	default:
		return HElem{Form: "u32", Code: rapid.SampledFrom(codes).Draw(t, "code")}
	}
}

func genHierCase(t *rapid.T) HCase {
	c := HCase{Dict: genHierDict(t), App: rapid.SampledFrom(hierMsgApps).Draw(t, "app")}
	var seq uint64
	c.AVPs = genHierTree(t, 1, &seq)
	nq := rapid.IntRange(2, 6).Draw(t, "queries")
	for i := 0; i < nq; i++ {
		q := HQuery{Op: rapid.SampledFrom([]string{"first", "all", "path", "path"}).Draw(t, "op"), Vendor: dict.UndefinedVendorID}
		switch rapid.IntRange(0, 5).Draw(t, "vendor") {
		case 0:
			q.Vendor = 0
		case 1:
			q.Vendor = hierVendor
		}
		if q.Op == "path" {
			for j, n := 0, rapid.IntRange(0, 2).Draw(t, "groups-on-path"); j < n; j++ {
				q.Path = append(q.Path, genHierElem(t, true))
			}
		}
		q.Path = append(q.Path, genHierElem(t, rapid.IntRange(0, 3).Draw(t, "last-is-group") == 0))
		c.Queries = append(c.Queries, q)
	}
	return c
}

func classifyHier(c HCase) (bool, []string) {
	_, cat, err := hierLoad(&c.Dict)
	if err != nil {
		return false, []string{"invalid-case"}
	}
	ref := cat.Ref
	set := map[string]bool{fmt.Sprintf("app:%d", c.App): true, fmt.Sprintf("lookup-layers:%d", len(refdict.Chain(c.App))): true}
	inTree := map[uint32]bool{}
	gen.Walk(c.AVPs, 1, func(a *gen.AVP, d int) { inTree[a.Code] = true })
	nontrivial := false
	for _, hq := range c.Queries {
		q, contested, skip := hierResolve(ref, c.App, hq)
		if skip {
			set["q:skipped"] = true
			continue
		}
		set["q:"+q.Op] = true
		if q.Vendor == dict.UndefinedVendorID {
			set["q:vendor-wildcard"] = true
		} else {
			set[fmt.Sprintf("q:vendor=%d", q.Vendor)] = true
		}
		for _, e := range q.Path {
			if e.Form != "name" {
				continue
			}
			r := ref.FindAVPByName(c.App, e.Name, hq.Vendor)
			switch {
			case !r.Found:
				set["name:not-reachable"] = true
			case r.Hops == 0:
				set["name:own-application"] = true
			case r.Level == 0:
				set["name:from-base"] = true
			default:
				set["name:from-parent"] = true
				// the base application binds the name too, to another code: the order of the layers decides
				if b := ref.FindAVPByName(0, e.Name, hq.Vendor); b.Found && b.Def.Code != r.Def.Code {
					set["name:parent-and-base-differ"] = true
					if inTree[b.Def.Code] && inTree[r.Def.Code] {
						set["name:parent-and-base-differ+both-codes-in-tree"] = true
					}
				}
			}
			// a code the name has at another layer (or in an unrelated application) is in the tree
			other := false
			for _, d := range ref.AVPs {
				if d.Name == e.Name && (!r.Found || d.Code != r.Def.Code) && inTree[d.Code] {
					other = true
				}
			}
			if other {
				set["tree:holds-a-code-the-name-has-elsewhere"] = true
				if contested {
					nontrivial = true
				}
			}
		}
	}
	cl := make([]string, 0, len(set))
	for k := range set {
		cl = append(cl, k)
	}
	sort.Strings(cl)
	return nontrivial, cl
}

var hierProp = ev.Register(&ev.Prop[HCase]{
	ID: "C20", Name: "layered-dictionary",
	Rule: "generated one-document dictionaries over the applications 0, 1, 4, 16777238, 16777251 (the static child -> parent chains 16777238 -> 4 -> 1 and 16777251 -> 4 -> 1, then base), 7 and 1000: each application binds a random half of four non-grouped and two grouped NAMES, each to a code of its own drawn per application from 6 / 3 codes (two non-grouped codes and one grouped code are vendor-specific), so one name stands for different codes at different layers; a message of application 16777238 / 16777251 / 4 / 1 / 7 / 0 holds a tree (depth <= 4, 1..4 AVPs per level) over all nine codes plus an undefined one; 2..6 searches FindAVP / FindAVPs / FindAVPsWithPath (0..2 group elements, then any), 7 in 10 elements by name, else by number (uint32 / int), vendor wildcard (4 in 6), 0 or 10415; " +
		"the reference model (internal/refdict: own application, parents, base; vendor filter) decides which code each name stands for, and whether it resolves at all; demanded, on the API-built and on the decoded message: the result is the reference walk for that code (first in document order / all / strict path), an unresolvable name or an absent code gives an error or nothing, never another AVP. non-trivial = a name queried has two or more codes along the message's layers and the tree holds a code the name has elsewhere",
	Gen: genHierCase, Run: runHier, Classify: classifyHier,
})

func TestC20LayeredDictionary(t *testing.T) { hierProp.Check(t, 1500, 100000) }

// The shape of the round-14 change that was missed: a Gx message, a name bound to one code in
// application 4 and to another in the base application (and to a third in an unrelated one).
func TestC20LayeredCanonical(t *testing.T) {
	u32 := func(code uint32, v uint64) *gen.AVP {
		return &gen.AVP{Code: code, V: gen.Val{T: gen.TUnsigned32, U: v}}
	}
	grp := func(code uint32, ch ...*gen.AVP) *gen.AVP {
		return &gen.AVP{Code: code, V: gen.Val{T: gen.TGrouped}, Children: ch}
	}
	d := gen.DictFile{Apps: []gen.DictApp{
		{ID: 0, Name: "Base", Cmds: []gen.DictCmd{{Code: hierCmd, Short: "HQ", Name: "Hier-Query", Req: []string{hierRuleAVP.Name}, Ans: []string{hierRuleAVP.Name}}},
			AVPs: []gen.DictAVP{hierRuleAVP, {Name: "H-Leaf-0", Code: 6001, Type: gen.TUnsigned32}, {Name: "H-Group-0", Code: 6101, Type: gen.TGrouped}}},
		{ID: 1, Type: "auth", Name: "H1", AVPs: []gen.DictAVP{{Name: "H-Leaf-1", Code: 6004, Type: gen.TUnsigned32}}},
		{ID: 4, Type: "auth", Name: "H4", AVPs: []gen.DictAVP{{Name: "H-Leaf-0", Code: 6002, Type: gen.TUnsigned32}, {Name: "H-Group-0", Code: 6102, Type: gen.TGrouped}}},
		{ID: 16777238, Type: "auth", Name: "HGx", AVPs: []gen.DictAVP{{Name: "H-Leaf-2", Code: 6005, Type: gen.TUnsigned32}}},
		{ID: 1000, Type: "auth", Name: "H1000", AVPs: []gen.DictAVP{{Name: "H-Leaf-0", Code: 6004, Type: gen.TUnsigned32}}},
	}}
	any := uint32(dict.UndefinedVendorID)
	name := func(n string) HElem { return HElem{Form: "name", Name: n} }
	both := []*gen.AVP{u32(6001, 1), grp(6102, u32(6002, 2), u32(6001, 3)), grp(6101, u32(6002, 4)), u32(6002, 5), u32(6004, 6)}
	onlyBase := []*gen.AVP{u32(6001, 7), grp(6101, u32(6001, 8)), grp(6102, u32(6001, 9)), u32(6004, 10)}
	queries := []HQuery{
		{Op: "first", Path: []HElem{name("H-Leaf-0")}, Vendor: any},
		{Op: "all", Path: []HElem{name("H-Leaf-0")}, Vendor: any},
		{Op: "path", Path: []HElem{name("H-Group-0"), name("H-Leaf-0")}, Vendor: any},
		{Op: "path", Path: []HElem{{Form: "u32", Code: 6101}, name("H-Leaf-0")}, Vendor: any},
		{Op: "first", Path: []HElem{name("H-Leaf-0")}, Vendor: 0},
		{Op: "all", Path: []HElem{name("H-Leaf-1")}, Vendor: any},
	}
	for _, app := range []uint32{16777238, 16777251, 4, 1, 0, 7} {
		for tn, tree := range map[string][]*gen.AVP{"both-codes": both, "only-the-base-code": onlyBase} {
			c := HCase{Dict: d, App: app, AVPs: tree, Queries: queries}
			t.Run(fmt.Sprintf("app-%d/%s", app, tn), func(t *testing.T) { hierProp.One(t, c) })
		}
	}
}
