package c20

import (
	"fmt"
	"testing"

	"github.com/fiorix/go-diameter/v4/diam"
	"github.com/fiorix/go-diameter/v4/diam/datatype"
	"github.com/fiorix/go-diameter/v4/diam/dict"
	"pgregory.net/rapid"

	"verif/internal/dicts"
	"verif/internal/ev"
)

// "A code given by name resolves through the MESSAGE's dictionary": two
// private dictionaries define the same names for one application id with
// different codes (and one name only in the first). Messages built under
// either dictionary are searched by name in one process, in generated order.

const twoDictApp = 16779900

func twoDictXML(swap bool) string {
	a, b := 7001, 7002
	if swap {
		a, b = b, a
	}
	extra := `<avp name="TD-Only-First" code="7004"><data type="Unsigned32"/></avp>`
	if swap {
		extra = ""
	}
	return fmt.Sprintf(`<?xml version="1.0" encoding="UTF-8"?>
<diameter>
 <application id="0" name="Base">
  <command code="300" short="TD" name="Two-Dict"><request><rule avp="TD-Group" required="false"/></request><answer><rule avp="TD-Group" required="false"/></answer></command>
  <avp name="TD-Group" code="7003"><data type="Grouped"/></avp>
 </application>
 <application id="%d" name="TD">
  <avp name="TD-Colour" code="%d"><data type="Unsigned32"/></avp>
  <avp name="TD-Shape" code="%d"><data type="Unsigned32"/></avp>
  %s
 </application>
</diameter>`, twoDictApp, a, b, extra)
}

type TDNode struct {
	Code     uint32    `json:"code"` // 7001 | 7002 | 7003 (group) | 7004
	Children []*TDNode `json:"children,omitempty"`
}

type TDStep struct {
	Swap  bool      `json:"swap"` // which dictionary the message uses
	Tree  []*TDNode `json:"tree"`
	Query string    `json:"query"` // TD-Colour | TD-Shape | TD-Only-First | TD-Group
}

type TDCase struct {
	Steps []TDStep `json:"steps"`
}

var tdParsers [2]*dict.Parser

func tdParser(swap bool) (*dict.Parser, error) {
	i := 0
	if swap {
		i = 1
	}
	if tdParsers[i] == nil {
		p, err := dicts.Load(twoDictXML(swap))
		if err != nil {
			return nil, err
		}
		tdParsers[i] = p
	}
	return tdParsers[i], nil
}

func tdCode(swap bool, name string) (uint32, bool) {
	switch name {
	case "TD-Colour":
		if swap {
			return 7002, true
		}
		return 7001, true
	case "TD-Shape":
		if swap {
			return 7001, true
		}
		return 7002, true
	case "TD-Group":
		return 7003, true
	case "TD-Only-First":
		return 7004, !swap
	}
	return 0, false
}

func tdBuild(n *TDNode, seq *uint32) *diam.AVP {
	if n.Code == 7003 {
		g := &diam.GroupedAVP{}
		for _, c := range n.Children {
			g.AddAVP(tdBuild(c, seq))
		}
		return diam.NewAVP(7003, 0, 0, g)
	}
	*seq++
	return diam.NewAVP(n.Code, 0, 0, datatype.Unsigned32(*seq))
}

func tdWalk(avps []*diam.AVP, code uint32, out *[]*diam.AVP) {
	for _, a := range avps {
		if a.Code == code {
			*out = append(*out, a)
		}
		if g, ok := a.Data.(*diam.GroupedAVP); ok {
			tdWalk(g.AVP, code, out)
		}
	}
}

func runTwoDict(c TDCase) *ev.Failure {
	for i, st := range c.Steps {
		p, err := tdParser(st.Swap)
		if err != nil {
			return ev.Failf("harness-dict", "%v", err)
		}
		m := diam.NewMessage(300, 0x80, twoDictApp, 1, 2, p)
		var seq uint32
		for _, n := range st.Tree {
			m.AddAVP(tdBuild(n, &seq))
		}
		code, defined := tdCode(st.Swap, st.Query)
		var want []*diam.AVP
		if defined {
			tdWalk(m.AVP, code, &want)
		}
		desc := fmt.Sprintf("step %d: message under dictionary #%d (in which %q is code %d, defined: %v)", i, map[bool]int{false: 1, true: 2}[st.Swap], st.Query, code, defined)
		got, err := m.FindAVPs(st.Query, dict.UndefinedVendorID)
		if !defined || len(want) == 0 {
			if err == nil && len(got) > 0 {
				return ev.Failf("twodict:absent-but-returned", "%s: FindAVPs returned %d AVPs (first code %d) although the message holds no AVP the name resolves to", desc, len(got), got[0].Code)
			}
		} else {
			if err != nil || len(got) != len(want) {
				return ev.Failf("twodict:all-differs", "%s: FindAVPs returned %d AVPs (err %v), the reference walk finds %d", desc, len(got), err, len(want))
			}
			for k := range want {
				if got[k] != want[k] {
					return ev.Failf("twodict:all-differs", "%s: FindAVPs result %d is the AVP with code %d, the reference walk gives code %d", desc, k, got[k].Code, want[k].Code)
				}
			}
		}
		first, err := m.FindAVP(st.Query, dict.UndefinedVendorID)
		if !defined || len(want) == 0 {
			if err == nil && first != nil {
				return ev.Failf("twodict:absent-but-returned", "%s: FindAVP returned an AVP with code %d", desc, first.Code)
			}
		} else if err != nil || first != want[0] {
			return ev.Failf("twodict:first-differs", "%s: FindAVP returned %v (err %v), want the first AVP with code %d", desc, first, err, code)
		}
		path, err := m.FindAVPsWithPath([]interface{}{"TD-Group", st.Query}, dict.UndefinedVendorID)
		var wantPath []*diam.AVP
		if defined {
			for _, a := range m.AVP {
				if g, ok := a.Data.(*diam.GroupedAVP); ok && a.Code == 7003 {
					for _, b := range g.AVP {
						if b.Code == code {
							wantPath = append(wantPath, b)
						}
					}
				}
			}
		}
		if !defined {
			if err == nil && len(path) > 0 {
				return ev.Failf("twodict:absent-but-returned", "%s: FindAVPsWithPath returned %d AVPs for a name the dictionary does not define", desc, len(path))
			}
		} else {
			if err != nil || len(path) != len(wantPath) {
				return ev.Failf("twodict:path-differs", "%s: FindAVPsWithPath returned %d AVPs (err %v), the reference finds %d", desc, len(path), err, len(wantPath))
			}
			for k := range wantPath {
				if path[k] != wantPath[k] {
					return ev.Failf("twodict:path-differs", "%s: FindAVPsWithPath result %d has code %d, reference code %d", desc, k, path[k].Code, wantPath[k].Code)
				}
			}
		}
	}
	return nil
}

func genTDTree(t *rapid.T, depth int) []*TDNode {
	n := rapid.IntRange(1, 4).Draw(t, "n")
	var out []*TDNode
	for i := 0; i < n; i++ {
		code := rapid.SampledFrom([]uint32{7001, 7002, 7003, 7003, 7004}).Draw(t, "code")
		nd := &TDNode{Code: code}
		if code == 7003 && depth < 3 {
			nd.Children = genTDTree(t, depth+1)
		}
		out = append(out, nd)
	}
	return out
}

var twoDict = ev.Register(&ev.Prop[TDCase]{
	ID: "C20", Name: "two-dictionaries",
	Rule: "2..5 searches by name (FindAVP, FindAVPs, FindAVPsWithPath) in one process on messages of one application id built under two private dictionaries that give the same names different codes (one name exists only in the first); the reference resolves each name through the message's own dictionary and walks the tree; non-trivial = consecutive steps use different dictionaries",
	Gen: func(t *rapid.T) TDCase {
		var c TDCase
		n := rapid.IntRange(2, 5).Draw(t, "steps")
		for i := 0; i < n; i++ {
			c.Steps = append(c.Steps, TDStep{Swap: rapid.Bool().Draw(t, "swap"), Tree: genTDTree(t, 1),
				Query: rapid.SampledFrom([]string{"TD-Colour", "TD-Shape", "TD-Only-First", "TD-Group"}).Draw(t, "query")})
		}
		return c
	},
	Run: runTwoDict,
	Classify: func(c TDCase) (bool, []string) {
		for i := 1; i < len(c.Steps); i++ {
			if c.Steps[i].Swap != c.Steps[i-1].Swap {
				return true, []string{"dictionary-switch"}
			}
		}
		return false, nil
	},
})

func TestC20TwoDictionaries(t *testing.T) { twoDict.Check(t, 1500, 60000) }
