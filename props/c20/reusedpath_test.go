package c20

import (
	"bytes"
	"fmt"
	"sync"
	"testing"

	"github.com/fiorix/go-diameter/v4/diam"
	"github.com/fiorix/go-diameter/v4/diam/datatype"
	"github.com/fiorix/go-diameter/v4/diam/dict"
	"pgregory.net/rapid"

	"verif/internal/dicts"
	"verif/internal/ev"
)

// "A code given by name resolves through the MESSAGE's dictionary" - and application: one
// dictionary, two applications that give the same names to different codes. An application keeps
// its query values (a path built once, a package-level variable) and uses them for every
// message; several goroutines - the handlers of several connections - search at the same time,
// each in its own message, all through the one shared dictionary. Every search must return what
// the reference walk finds for the codes the names have in THAT message's application.

const (
	rpAppA = 16779920
	rpAppB = 16779921
)

const reusedPathXML = `<?xml version="1.0" encoding="UTF-8"?>
<diameter>
 <application id="0" name="Base">
  <command code="302" short="RP" name="Reused-Path"><request><rule avp="RP-Other" required="false"/></request><answer><rule avp="RP-Other" required="false"/></answer></command>
  <avp name="RP-Other" code="2103"><data type="Unsigned32"/></avp>
 </application>
 <application id="16779920" name="RPA">
  <avp name="RP-Name" code="2101"><data type="Unsigned32"/></avp>
  <avp name="RP-Group" code="2110"><data type="Grouped"/></avp>
 </application>
 <application id="16779921" name="RPB">
  <avp name="RP-Name" code="2102"><data type="Unsigned32"/></avp>
  <avp name="RP-Group" code="2111"><data type="Grouped"/></avp>
 </application>
</diameter>`

var (
	rpOnce   sync.Once
	rpParser *dict.Parser
	rpErr    error
)

var rpCodes = map[uint32]map[string]uint32{
	rpAppA: {"RP-Name": 2101, "RP-Group": 2110, "RP-Other": 2103},
	rpAppB: {"RP-Name": 2102, "RP-Group": 2111, "RP-Other": 2103},
}

type ReusedPathCase struct {
	Apps    []int `json:"apps"`              // the application (0 = A, 1 = B) of each message searched, in order
	Decoded bool  `json:"decoded,omitempty"` // the messages are serialised and read back first
	Conc    int   `json:"conc,omitempty"`    // > 0: that many goroutines search at the same time, Rounds times each
	Rounds  int   `json:"rounds,omitempty"`
}

func rpMessage(app uint32, decoded bool) (*diam.Message, error) {
	m := diam.NewMessage(302, 0x80, app, 1, 2, rpParser)
	v := uint32(0)
	leaf := func(code uint32) *diam.AVP { v++; return diam.NewAVP(code, 0, 0, datatype.Unsigned32(v)) }
	for _, g := range []uint32{2110, 2111} {
		m.AddAVP(diam.NewAVP(g, 0, 0, &diam.GroupedAVP{AVP: []*diam.AVP{leaf(2101), leaf(2102), leaf(2103)}}))
	}
	m.AddAVP(leaf(2101))
	m.AddAVP(leaf(2102))
	m.AddAVP(leaf(2103))
	if !decoded {
		return m, nil
	}
	b, err := m.Serialize()
	if err != nil {
		return nil, err
	}
	return diam.ReadMessage(bytes.NewReader(b), rpParser)
}

func rpAll(avps []*diam.AVP, code uint32) []*diam.AVP {
	var out []*diam.AVP
	for _, a := range avps {
		if a.Code == code {
			out = append(out, a)
		}
		if g, ok := a.Data.(*diam.GroupedAVP); ok && g != nil {
			out = append(out, rpAll(g.AVP, code)...)
		}
	}
	return out
}

func samePtrs(a, b []*diam.AVP) bool {
	if len(a) != len(b) {
		return false
	}
	for i := range a {
		if a[i] != b[i] {
			return false
		}
	}
	return true
}

func rpDescribe(avps []*diam.AVP) string {
	s := "["
	for _, a := range avps {
		s += fmt.Sprintf(" %d=%v", a.Code, a.Data)
	}
	return s + " ]"
}

// the application's query values, built once
var (
	rpPath     = []interface{}{"RP-Group", "RP-Name"}
	rpPathOne  = []interface{}{"RP-Name"}
	rpPathMix  = []interface{}{"RP-Group", uint32(2103)}
	rpNameArgs = []string{"RP-Name", "RP-Group", "RP-Other"}
)

// searchAll runs every kind of search on m and compares with the reference walk.
func searchAll(m *diam.Message, app uint32, what string) *ev.Failure {
	codes := rpCodes[app]
	// results an application holds on to while it goes on searching the same message
	type heldResult struct {
		desc      string
		got, want []*diam.AVP
	}
	var held []heldResult
	for _, q := range []struct {
		path []interface{}
		want []uint32
	}{{rpPath, []uint32{codes["RP-Group"], codes["RP-Name"]}}, {rpPathOne, []uint32{codes["RP-Name"]}}, {rpPathMix, []uint32{codes["RP-Group"], 2103}}} {
		got, err := m.FindAVPsWithPath(q.path, dict.UndefinedVendorID)
		want := twinWalk(m.AVP, q.want)
		held = append(held, heldResult{fmt.Sprintf("FindAVPsWithPath(%v)", q.want), got, want})
		if err != nil || !samePtrs(got, want) {
			return ev.Failf("name-resolved-through-another-message", "%s: FindAVPsWithPath(%v) on a message of application %d (where the names stand for the codes %v) returned %s (err %v); the reference walk finds %s", what, []interface{}{"RP-Group", "RP-Name"}[:len(q.path)], app, q.want, rpDescribe(got), err, rpDescribe(want))
		}
	}
	for _, name := range rpNameArgs {
		want := rpAll(m.AVP, codes[name])
		got, err := m.FindAVPs(name, dict.UndefinedVendorID)
		held = append(held, heldResult{fmt.Sprintf("FindAVPs(%q)", name), got, want})
		if err != nil || !samePtrs(got, want) {
			return ev.Failf("name-resolved-through-another-message", "%s: FindAVPs(%q) on a message of application %d (where the name stands for code %d) returned %s (err %v); the reference walk finds %s", what, name, app, codes[name], rpDescribe(got), err, rpDescribe(want))
		}
		one, err := m.FindAVP(name, dict.UndefinedVendorID)
		if err != nil || one != want[0] {
			return ev.Failf("name-resolved-through-another-message", "%s: FindAVP(%q) on a message of application %d (where the name stands for code %d) returned %v (err %v); the first such AVP in document order is %v", what, name, app, codes[name], one, err, want[0])
		}
	}
	// "searching for all returns every such AVP in that order": what a search returned stays
	// that list while the same message is searched again
	for _, h := range held {
		if !samePtrs(h.got, h.want) {
			return ev.Failf("earlier-result-changed-by-a-later-search", "%s: the list that %s returned was right when it was returned; after further searches of the same message it reads %s, the reference walk finds %s", what, h.desc, rpDescribe(h.got), rpDescribe(h.want))
		}
	}
	return nil
}

func runReusedPath(c ReusedPathCase) *ev.Failure {
	rpOnce.Do(func() { rpParser, rpErr = dicts.Load(reusedPathXML) })
	if rpErr != nil {
		return ev.Failf("harness-dict", "%v", rpErr)
	}
	appOf := func(i int) uint32 {
		if i == 0 {
			return rpAppA
		}
		return rpAppB
	}
	if c.Conc == 0 {
		for i, a := range c.Apps {
			m, err := rpMessage(appOf(a), c.Decoded)
			if err != nil {
				return ev.Failf("harness-message", "%v", err)
			}
			if f := searchAll(m, appOf(a), fmt.Sprintf("message %d of the sequence %v (query values built once and used for every message)", i, c.Apps)); f != nil {
				return f
			}
		}
		return nil
	}
	var wg sync.WaitGroup
	fails := make(chan *ev.Failure, c.Conc)
	for g := 0; g < c.Conc; g++ {
		g := g
		app := appOf(c.Apps[g%len(c.Apps)])
		m, err := rpMessage(app, c.Decoded)
		if err != nil {
			return ev.Failf("harness-message", "%v", err)
		}
		wg.Add(1)
		go func() {
			defer wg.Done()
			for r := 0; r < c.Rounds; r++ {
				if f := searchAll(m, app, fmt.Sprintf("goroutine %d of %d, each searching its own message through the shared dictionary, round %d", g, c.Conc, r)); f != nil {
					fails <- f
					return
				}
			}
		}()
	}
	wg.Wait()
	select {
	case f := <-fails:
		return f
	default:
		return nil
	}
}

var reusedPathProp = ev.Register(&ev.Prop[ReusedPathCase]{
	ID: "C20", Name: "query-values-reused-across-messages",
	Rule: "one private dictionary whose two applications give the names RP-Name and RP-Group to different codes; messages (built, or serialised and read back) of either application whose trees hold the codes of both; the query values (paths by name, by name and number; names) are built once and used for 2..6 messages in sequence, or by 2..8 goroutines at the same time, each on its own message, 50..400 rounds. " +
		"Demanded of every FindAVPsWithPath / FindAVPs / FindAVP: exactly the AVPs (pointer identity, order) of the reference walk for the codes the names have in that message's application. non-trivial = the sequence switches application, or the searches run concurrently with both applications present",
	Gen: func(t *rapid.T) ReusedPathCase {
		c := ReusedPathCase{Decoded: rapid.Bool().Draw(t, "decoded")}
		n := rapid.IntRange(2, 6).Draw(t, "messages")
		for i := 0; i < n; i++ {
			c.Apps = append(c.Apps, rapid.IntRange(0, 1).Draw(t, "app"))
		}
		if rapid.IntRange(0, 2).Draw(t, "concurrent") == 0 {
			c.Conc = rapid.IntRange(2, 8).Draw(t, "goroutines")
			c.Rounds = rapid.IntRange(50, 400).Draw(t, "rounds")
		}
		return c
	},
	Run: runReusedPath,
	Classify: func(c ReusedPathCase) (bool, []string) {
		both := false
		for _, a := range c.Apps {
			both = both || a != c.Apps[0]
		}
		cl := []string{fmt.Sprintf("concurrent:%v", c.Conc > 0), fmt.Sprintf("switches-application:%v", both)}
		return both, cl
	},
})

func TestC20QueryValuesReused(t *testing.T) { reusedPathProp.Check(t, 300, 6000) }
