package c20

import (
	"bytes"
	"fmt"
	"sort"
	"strings"
	"sync"
	"testing"

	"github.com/fiorix/go-diameter/v4/diam"
	"github.com/fiorix/go-diameter/v4/diam/dict"
	"pgregory.net/rapid"

	"verif/internal/dicts"
	"verif/internal/ev"
	"verif/internal/gen"
	"verif/internal/refdict"
)

// "Searching a message for an AVP returns the first AVP with the REQUESTED code ... never a
// different AVP": a number stands for itself, whatever the dictionary's history is. The dictionary
// of a deployment is built by SUCCESSIVE loads (the base document, then vendor documents, then local
// corrections); a later document may give an existing name another code and an existing code another
// name, for the same application and vendor. Nothing removes the earlier definition of the old
// code: a search by the old number still means the old number, a search by the new number the new
// one, and a search by name the code of the most recent definition the message's application
// reaches (decided by internal/refdict, never by the library).
//
// The documents are those of the layered-dictionary scenario (hierarchy_test.go: names bound to a
// code of their own per application, drawn per document), two or three of them loaded one after the
// other into one parser; the trees hold AVPs with every code.

type RCase struct {
	Docs    []gen.DictFile `json:"docs"` // loaded in this order into one parser
	App     uint32         `json:"app"`
	AVPs    []*gen.AVP     `json:"avps"`
	Queries []HQuery       `json:"queries"`
}

var reloadLast struct {
	sync.Mutex
	key string
	p   *dict.Parser
	cat *gen.Catalog
}

func reloadLoad(docs []gen.DictFile) (*dict.Parser, *gen.Catalog, error) {
	if len(docs) == 0 {
		return nil, nil, fmt.Errorf("no documents")
	}
	xmls := make([]string, len(docs))
	for i := range docs {
		xmls[i] = docs[i].XML()
	}
	key := strings.Join(xmls, "\x00")
	reloadLast.Lock()
	defer reloadLast.Unlock()
	if reloadLast.key == key && reloadLast.p != nil {
		return reloadLast.p, reloadLast.cat, nil
	}
	p, err := dicts.Load(xmls...)
	if err != nil {
		return nil, nil, fmt.Errorf("the documents do not load one after the other: %v", err)
	}
	cat := gen.NewCatalog(p)
	cat.Ref = refdict.New()
	for i, x := range xmls {
		if is := cat.Ref.Load(x); len(is) > 0 {
			return nil, nil, fmt.Errorf("document #%d: %v", i, is)
		}
	}
	reloadLast.key, reloadLast.p, reloadLast.cat = key, p, cat
	return p, cat, nil
}

// reloadHistory describes what the documents say about a code and a name (for the failure text).
func reloadHistory(ref *refdict.Model, app uint32, e Elem) string {
	var b strings.Builder
	for _, level := range refdict.Chain(app) {
		for _, d := range ref.AVPs {
			if d.App != level {
				continue
			}
			if (e.Form == "name" && d.Name == e.Name) || (e.Form != "name" && d.Code == e.Code) {
				fmt.Fprintf(&b, " document #%d application %d: %q = code %d (vendor %d);", d.File, d.App, d.Name, d.Code, d.Vendor)
			}
		}
	}
	// for a number: the names it has had, and the codes those names got later
	if e.Form != "name" {
		for _, d := range ref.AVPs {
			if d.Code != e.Code {
				continue
			}
			for _, o := range ref.AVPs {
				if o.App == d.App && o.Name == d.Name && o.Vendor == d.Vendor && o.Code != d.Code && o.File > d.File {
					fmt.Fprintf(&b, " document #%d gives %q of application %d code %d instead;", o.File, o.Name, o.App, o.Code)
				}
			}
		}
	}
	return b.String()
}

func runReload(c RCase) *ev.Failure {
	p, cat, err := reloadLoad(c.Docs)
	if err != nil {
		return ev.Failf("harness-dict", "%v", err)
	}
	built := diam.NewMessage(hierCmd, diam.RequestFlag, c.App, 1, 2, p)
	for _, a := range c.AVPs {
		if a == nil {
			return ev.Failf("harness-build", "nil AVP in the case")
		}
		built.AddAVP(a.ToDiamAVP())
	}
	wire, err := built.Serialize()
	if err != nil {
		return ev.Failf("harness-serialize", "%v", err)
	}
	decoded, err := diam.ReadMessage(bytes.NewReader(wire), p)
	if err != nil {
		return ev.Failf("harness-decode", "the serialised tree does not decode: %v", err)
	}
	for _, hq := range c.Queries {
		q, _, skip := hierResolve(cat.Ref, c.App, hq)
		if skip {
			continue
		}
		where := "API-built"
		for _, m := range []*diam.Message{built, decoded} {
			if f := checkQuery(m, cat, c.App, q, where); f != nil {
				hist := ""
				for _, e := range q.Path {
					if e.Form == "name" {
						if e.NoSuchName {
							hist += fmt.Sprintf("; %q: nothing this application reaches for the query vendor;", e.Name)
						} else {
							hist += fmt.Sprintf("; %q stands for code %d (most recent definition at the first level of %v that has one):", e.Name, e.Code, refdict.Chain(c.App))
						}
					} else {
						hist += fmt.Sprintf("; the number %d stands for itself:", e.Code)
					}
					hist += reloadHistory(cat.Ref, c.App, e)
				}
				return ev.Failf("reloaded:"+f.Sig, "dictionary built by %d successive loads; %s%s", len(c.Docs), f.Detail, hist)
			}
			where = "decoded"
		}
	}
	return nil
}

// ---------------------------------------------------------------------------
// generator

func genReloadElem(t *rapid.T, group bool) HElem {
	names, codes := hierLeafNames, hierLeafCodes
	if group {
		names, codes = hierGroupNames, hierGroupCodes
	}
	// numbers as often as names: the number is what the history must not change
	switch k := rapid.IntRange(0, 9).Draw(t, "form"); {
	case k < 4:
		return HElem{Form: "name", Name: rapid.SampledFrom(names).Draw(t, "name")}
	case k < 7:
		return HElem{Form: "int", Code: rapid.SampledFrom(codes).Draw(t, "code")}
	default:
		return HElem{Form: "u32", Code: rapid.SampledFrom(codes).Draw(t, "code")}
	}
}

func genReloadCase(t *rapid.T) RCase {
	var c RCase
	n := rapid.SampledFrom([]int{2, 2, 2, 3}).Draw(t, "documents")
	for i := 0; i < n; i++ {
		d := genHierDict(t)
		if i > 0 {
			// a command is defined once (the library refuses a second definition)
			for k := range d.Apps {
				d.Apps[k].Cmds = nil
			}
			// a later document is usually a partial one
			if rapid.Bool().Draw(t, "partial") {
				var keep []gen.DictApp
				for _, a := range d.Apps {
					if rapid.IntRange(0, 2).Draw(t, "keep-app") > 0 {
						keep = append(keep, a)
					}
				}
				if len(keep) > 0 {
					d.Apps = keep
				}
			}
		}
		c.Docs = append(c.Docs, d)
	}
	c.App = rapid.SampledFrom(hierMsgApps).Draw(t, "app")
	var seq uint64
	c.AVPs = genHierTree(t, 1, &seq)
	nq := rapid.IntRange(3, 8).Draw(t, "queries")
	for i := 0; i < nq; i++ {
		q := HQuery{Op: rapid.SampledFrom([]string{"first", "all", "path", "path"}).Draw(t, "op"), Vendor: dict.UndefinedVendorID}
		switch rapid.IntRange(0, 7).Draw(t, "vendor") {
		case 0:
			q.Vendor = 0
		case 1:
			q.Vendor = hierVendor
		}
		if q.Op == "path" {
			for j, n := 0, rapid.IntRange(0, 2).Draw(t, "groups-on-path"); j < n; j++ {
				q.Path = append(q.Path, genReloadElem(t, true))
			}
		}
		q.Path = append(q.Path, genReloadElem(t, rapid.IntRange(0, 3).Draw(t, "last-is-group") == 0))
		c.Queries = append(c.Queries, q)
	}
	return c
}

// reloadRenamed: in an application of the chain the code was bound to a name that a LATER document
// binds (same application, same vendor) to another code; returns that other code.
func reloadRenamed(ref *refdict.Model, app, code uint32) (uint32, bool) {
	for _, level := range refdict.Chain(app) {
		for _, d := range ref.AVPs {
			if d.App != level || d.Code != code {
				continue
			}
			for _, o := range ref.AVPs {
				if o.App == level && o.Name == d.Name && o.Vendor == d.Vendor && o.Code != code && o.File > d.File {
					return o.Code, true
				}
			}
		}
	}
	return 0, false
}

func classifyReload(c RCase) (bool, []string) {
	_, cat, err := reloadLoad(c.Docs)
	if err != nil {
		return false, []string{"invalid-case"}
	}
	ref := cat.Ref
	set := map[string]bool{fmt.Sprintf("documents:%d", len(c.Docs)): true, fmt.Sprintf("app:%d", c.App): true}
	inTree := map[uint32]bool{}
	gen.Walk(c.AVPs, 1, func(a *gen.AVP, d int) { inTree[a.Code] = true })
	nontrivial := false
	for _, hq := range c.Queries {
		q, _, skip := hierResolve(ref, c.App, hq)
		if skip {
			set["q:skipped"] = true
			continue
		}
		set["q:"+q.Op] = true
		for i, e := range q.Path {
			pos := "last"
			if i < len(q.Path)-1 {
				pos = "path-element"
			}
			if e.Form == "name" {
				r := ref.FindAVPByName(c.App, e.Name, hq.Vendor)
				if !r.Found {
					set["name:not-reachable"] = true
					continue
				}
				// the winning level defined the name before, with another code
				for _, d := range ref.AVPs {
					if d.App == r.Level && d.Name == e.Name && d.Code != r.Def.Code && d.File < r.Def.File {
						set["name:redefined-with-another-code"] = true
						if inTree[d.Code] && inTree[r.Def.Code] {
							set["name:redefined-with-another-code+both-codes-in-tree"] = true
							nontrivial = true
						}
					}
				}
				continue
			}
			if e.Undef {
				set["number:undefined"] = true
				continue
			}
			if other, ok := reloadRenamed(ref, c.App, e.Code); ok {
				set["number:old-code-of-a-renamed-name:"+e.Form+":"+pos] = true
				switch {
				case inTree[e.Code] && inTree[other]:
					set["number:old-code-of-a-renamed-name+both-codes-in-tree"] = true
					nontrivial = true
				case inTree[other]:
					set["number:old-code-of-a-renamed-name+only-the-new-code-in-tree"] = true
					nontrivial = true
				}
			}
			// the code has had two names at the level that answers
			if r := ref.FindAVPByCode(c.App, e.Code, refdict.AnyVendor); r.Found {
				for _, d := range ref.AVPs {
					if d.App == r.Level && d.Code == e.Code && d.Name != r.Def.Name {
						set["number:code-has-had-two-names"] = true
					}
				}
			}
		}
	}
	cl := make([]string, 0, len(set))
	for k := range set {
		cl = append(cl, k)
	}
	sort.Strings(cl)
	return nontrivial, cl
}

var reloadProp = ev.Register(&ev.Prop[RCase]{
	ID: "C20", Name: "reloaded-dictionary",
	Rule: "a dictionary built by 2 (3 in 4) or 3 SUCCESSIVE loads into one parser: every document is one of the layered-dictionary scenario (applications 0, 1, 4, 16777238, 16777251, 7, 1000; each binds a random half of four non-grouped and two grouped names to codes of its own drawn per document), later documents carry no command and half of them only two thirds of the applications - so a later document gives existing names other codes and existing codes other names, same application and vendor; the message (application 16777238 / 16777251 / 4 / 1 / 7 / 0) holds a tree over all nine codes plus an undefined one; 3..8 searches FindAVP / FindAVPs / FindAVPsWithPath (0..2 group elements, then any), elements by name (4 in 10), int (3) or uint32 (3), vendor wildcard (6 in 8), 0 or 10415; " +
		"demanded, on the API-built and on the decoded message: a number stands for itself (reference walk for exactly that code, whatever names it has had), a name for the code of the most recent definition at the first level of the message's lookup chain (internal/refdict), first in document order / all / strict path; an unresolvable name or an absent code gives an error or nothing, never another AVP. non-trivial = a number queried is the old code of a name that a later document rebinds (and the tree holds the new code), or a name queried was rebound and the tree holds both codes",
	Gen: genReloadCase, Run: runReload, Classify: classifyReload,
})

func TestC20ReloadedDictionary(t *testing.T) { reloadProp.Check(t, 1500, 100000) }

// The shape of the round-15 change that was missed: a name of one application defined again by a
// second load with another code, searches by the old number.
func TestC20ReloadedCanonical(t *testing.T) {
	u32 := func(code uint32, v uint64) *gen.AVP {
		return &gen.AVP{Code: code, V: gen.Val{T: gen.TUnsigned32, U: v}}
	}
	grp := func(code uint32, ch ...*gen.AVP) *gen.AVP {
		return &gen.AVP{Code: code, V: gen.Val{T: gen.TGrouped}, Children: ch}
	}
	cmd := []gen.DictCmd{{Code: hierCmd, Short: "HQ", Name: "Hier-Query", Req: []string{hierRuleAVP.Name}, Ans: []string{hierRuleAVP.Name}}}
	first := gen.DictFile{Apps: []gen.DictApp{
		{ID: 0, Name: "Base", Cmds: cmd, AVPs: []gen.DictAVP{hierRuleAVP, {Name: "H-Leaf-0", Code: 6001, Type: gen.TUnsigned32}, {Name: "H-Group-0", Code: 6101, Type: gen.TGrouped}}},
		{ID: 4, Type: "auth", Name: "H4", AVPs: []gen.DictAVP{{Name: "H-Leaf-1", Code: 6004, Type: gen.TUnsigned32}, {Name: "H-Group-1", Code: 6102, Type: gen.TGrouped}}},
	}}
	// the names get other codes
	second := gen.DictFile{Apps: []gen.DictApp{
		{ID: 0, Name: "Base", AVPs: []gen.DictAVP{{Name: "H-Leaf-0", Code: 6002, Type: gen.TUnsigned32}, {Name: "H-Group-0", Code: 6102, Type: gen.TGrouped}}},
		{ID: 4, Type: "auth", Name: "H4", AVPs: []gen.DictAVP{{Name: "H-Leaf-1", Code: 6005, Type: gen.TUnsigned32}}},
	}}
	// the old codes get other names, and one name goes back
	third := gen.DictFile{Apps: []gen.DictApp{
		{ID: 0, Name: "Base", AVPs: []gen.DictAVP{{Name: "H-Leaf-2", Code: 6001, Type: gen.TUnsigned32}, {Name: "H-Group-0", Code: 6101, Type: gen.TGrouped}}},
		{ID: 4, Type: "auth", Name: "H4", AVPs: []gen.DictAVP{{Name: "H-Leaf-3", Code: 6004, Type: gen.TUnsigned32}}},
	}}
	any := uint32(dict.UndefinedVendorID)
	name := func(n string) HElem { return HElem{Form: "name", Name: n} }
	num := func(form string, code uint32) HElem { return HElem{Form: form, Code: code} }
	var queries []HQuery
	for _, code := range []uint32{6001, 6002, 6004, 6005} {
		for _, form := range []string{"int", "u32"} {
			queries = append(queries,
				HQuery{Op: "first", Path: []HElem{num(form, code)}, Vendor: any},
				HQuery{Op: "all", Path: []HElem{num(form, code)}, Vendor: any},
				HQuery{Op: "all", Path: []HElem{num(form, code)}, Vendor: 0},
				HQuery{Op: "path", Path: []HElem{num(form, code)}, Vendor: any},
				HQuery{Op: "path", Path: []HElem{num(form, 6101), num(form, code)}, Vendor: any},
				HQuery{Op: "path", Path: []HElem{num(form, 6102), num(form, code)}, Vendor: any},
				HQuery{Op: "path", Path: []HElem{name("H-Group-0"), num(form, code)}, Vendor: any},
			)
		}
	}
	for _, n := range []string{"H-Leaf-0", "H-Leaf-1", "H-Leaf-2", "H-Leaf-3"} {
		queries = append(queries,
			HQuery{Op: "first", Path: []HElem{name(n)}, Vendor: any},
			HQuery{Op: "all", Path: []HElem{name(n)}, Vendor: any},
			HQuery{Op: "path", Path: []HElem{num("u32", 6101), name(n)}, Vendor: any},
			HQuery{Op: "path", Path: []HElem{name("H-Group-0"), name(n)}, Vendor: any},
			HQuery{Op: "path", Path: []HElem{name("H-Group-1"), name(n)}, Vendor: any},
		)
	}
	for _, g := range []uint32{6101, 6102} {
		queries = append(queries,
			HQuery{Op: "first", Path: []HElem{num("int", g)}, Vendor: any},
			HQuery{Op: "all", Path: []HElem{num("u32", g)}, Vendor: any},
			HQuery{Op: "path", Path: []HElem{num("int", g), num("u32", g)}, Vendor: any})
	}
	trees := map[string][]*gen.AVP{
		"both-codes": {grp(6101, u32(6001, 1), u32(6002, 2), grp(6102, u32(6004, 3), u32(6005, 4))), u32(6002, 5), u32(6001, 6), grp(6102, u32(6002, 7), u32(6001, 8), u32(6005, 9)), u32(6005, 10), u32(6004, 11)},
		"only-new":   {u32(6002, 1), grp(6102, u32(6002, 2), u32(6005, 3)), grp(6101, u32(6005, 4)), u32(6005, 5)},
		"only-old":   {u32(6001, 1), grp(6101, u32(6001, 2), u32(6004, 3)), grp(6102, u32(6004, 4)), u32(6004, 5)},
	}
	for dn, docs := range map[string][]gen.DictFile{"two-loads": {first, second}, "three-loads": {first, second, third}, "one-load": {first}} {
		for _, app := range []uint32{0, 4, 16777238, 7} {
			for tn, tree := range trees {
				c := RCase{Docs: docs, App: app, AVPs: tree, Queries: queries}
				t.Run(fmt.Sprintf("%s/app-%d/%s", dn, app, tn), func(t *testing.T) { reloadProp.One(t, c) })
			}
		}
	}
}
