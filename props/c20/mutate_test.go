package c20

import (
	"fmt"
	"testing"

	"github.com/fiorix/go-diameter/v4/diam"
	"github.com/fiorix/go-diameter/v4/diam/datatype"
	"github.com/fiorix/go-diameter/v4/diam/dict"
	"pgregory.net/rapid"

	"verif/internal/ev"
)

// Searches interleaved with changes to the message: a search must describe
// the message as it is NOW (whatever an earlier search found), after members
// were added to a group that is already in the message, AVPs appended or
// inserted, or the AVP list replaced by Marshal.

type MOp struct {
	Kind  string `json:"kind"`  // find | grow | add | insert | marshal
	Code  uint32 `json:"code"`  // find / grow / add / insert: the AVP code (268, 264, 278, or 279 for an empty group)
	Group int    `json:"group"` // grow: which group (index among the groups of the message in document order)
}

type MCase struct {
	Ops []MOp `json:"ops"`
}

type marshalTarget struct {
	Host  datatype.DiameterIdentity `avp:"Origin-Host"`
	State uint32                    `avp:"Origin-State-Id"`
}

func mLeaf(code uint32, n *uint32) *diam.AVP {
	*n++
	switch code {
	case 264:
		return diam.NewAVP(264, 0x40, 0, datatype.DiameterIdentity(fmt.Sprintf("h%d", *n)))
	case 279:
		return diam.NewAVP(279, 0x40, 0, &diam.GroupedAVP{})
	}
	return diam.NewAVP(code, 0x40, 0, datatype.Unsigned32(*n))
}

func mGroups(avps []*diam.AVP, out *[]*diam.GroupedAVP) {
	for _, a := range avps {
		if g, ok := a.Data.(*diam.GroupedAVP); ok {
			*out = append(*out, g)
			mGroups(g.AVP, out)
		}
	}
}

func runMutate(c MCase) *ev.Failure {
	m := diam.NewMessage(257, 0x80, 0, 1, 2, dict.Default)
	var n uint32
	for i, op := range c.Ops {
		switch op.Kind {
		case "grow":
			var gs []*diam.GroupedAVP
			mGroups(m.AVP, &gs)
			if len(gs) > 0 {
				gs[op.Group%len(gs)].AddAVP(mLeaf(op.Code, &n))
			}
		case "add":
			m.AddAVP(mLeaf(op.Code, &n))
		case "insert":
			m.InsertAVP(mLeaf(op.Code, &n))
		case "marshal":
			n++
			if err := m.Marshal(&marshalTarget{Host: datatype.DiameterIdentity(fmt.Sprintf("m%d", n)), State: n}); err != nil {
				return ev.Failf("harness-marshal", "%v", err)
			}
		case "find":
			var want []*diam.AVP
			tdWalk(m.AVP, op.Code, &want)
			first, err := m.FindAVP(op.Code, dict.UndefinedVendorID)
			all, errAll := m.FindAVPs(op.Code, dict.UndefinedVendorID)
			desc := fmt.Sprintf("step %d: search for code %d after %v", i, op.Code, kinds(c.Ops[:i]))
			if len(want) == 0 {
				if err == nil && first != nil {
					return ev.Failf("mutate:absent-but-returned", "%s: FindAVP returned an AVP (code %d, %v) although the message holds none", desc, first.Code, first.Data)
				}
				if errAll == nil && len(all) > 0 {
					return ev.Failf("mutate:absent-but-returned", "%s: FindAVPs returned %d AVPs although the message holds none", desc, len(all))
				}
				continue
			}
			if err != nil || first != want[0] {
				return ev.Failf("mutate:first-is-stale", "%s: FindAVP returned %v (err %v); the first AVP with that code in document order is now %v", desc, first, err, want[0])
			}
			if errAll != nil || len(all) != len(want) {
				return ev.Failf("mutate:all-differs", "%s: FindAVPs returned %d AVPs (err %v), the message holds %d", desc, len(all), errAll, len(want))
			}
			for k := range want {
				if all[k] != want[k] {
					return ev.Failf("mutate:all-differs", "%s: FindAVPs result %d is not the %d-th match in document order", desc, k, k)
				}
			}
		}
	}
	return nil
}

func kinds(ops []MOp) []string {
	var out []string
	for _, o := range ops {
		out = append(out, fmt.Sprintf("%s(%d)", o.Kind, o.Code))
	}
	return out
}

var mutate = ev.Register(&ev.Prop[MCase]{
	ID: "C20", Name: "search-after-change",
	Rule: "histories on one message of {search a code with FindAVP and FindAVPs, add a member to a group that is already in the message, AddAVP, InsertAVP, Marshal (replaces the AVP list)} over codes 268 / 264 / 278 and group 279; every search is compared with a reference walk of the message as it is at that moment; non-trivial = a search, then a change, then a search of the same code",
	Gen: func(t *rapid.T) MCase {
		var c MCase
		n := rapid.IntRange(3, 16).Draw(t, "ops")
		for i := 0; i < n; i++ {
			op := MOp{Kind: rapid.SampledFrom([]string{"find", "find", "find", "grow", "grow", "add", "insert", "marshal"}).Draw(t, "kind"),
				Code: rapid.SampledFrom([]uint32{268, 264, 278, 279}).Draw(t, "code"), Group: rapid.IntRange(0, 5).Draw(t, "group")}
			if op.Kind == "find" && op.Code == 279 && rapid.Bool().Draw(t, "leaf-query") {
				op.Code = 268
			}
			c.Ops = append(c.Ops, op)
		}
		return c
	},
	Run: runMutate,
	Classify: func(c MCase) (bool, []string) {
		// find(code) ... change ... find(code)
		state := map[uint32]int{}
		nt := false
		for _, o := range c.Ops {
			if o.Kind == "find" {
				if state[o.Code] == 2 {
					nt = true
				}
				if state[o.Code] == 0 {
					state[o.Code] = 1
				}
			} else {
				for k, v := range state {
					if v == 1 {
						state[k] = 2
					}
				}
			}
		}
		return nt, nil
	},
})

func TestC20SearchAfterChange(t *testing.T) { mutate.Check(t, 3000, 100000) }
