// C19 - the io.Reader / io.Writer adaptors of an association, on their own.
//
// The property's state includes SCTPConn.currStream / writerStream, "stream
// affinity of the io.Reader / io.Writer adaptors". This scenario drives the
// adaptors directly with generated call sequences over generated chunk
// arrivals and compares with a model written from their doc comments:
//
//   - Read: "every read into a single buffer is sourced from a single stream and ... consecutive reads
//     will continue from the same stream between calls to ResetCurrentStream or SetCurrentStream";
//   - ResetCurrentStream: "the next Read adaptor call will read from any stream";
//   - SetCurrentStream: "the next Read adaptor call will be forced to read from it";
//   - CurrentStream: "the last stream read by Read adaptor";
//   - ReadStream: "reads data from the specified association's stream";
//   - Write: the writer stream if set, else the current read stream if set, else stream 0;
//   - SetWriterStream / ResetWriterStream / CurrentWriterStream accordingly.
//
// and from the property statement: every stream's bytes come out in that stream's order, none lost,
// duplicated or mixed with another stream's bytes - whatever was set aside while another stream was
// being read included.
package c19

import (
	"bytes"
	"fmt"
	"io"
	"sort"
	"strings"
	"testing"
	"time"

	"github.com/fiorix/go-diameter/v4/diam"
	"pgregory.net/rapid"

	"verif/internal/ev"
	"verif/internal/memnet"
)

// AdChunk is one arriving chunk: Len bytes of stream Stream (the next Len bytes of that stream's sequence).
type AdChunk struct {
	Stream uint16 `json:"stream"`
	Len    int    `json:"len"`
}

// AdOp is one call of the application.
//
//	reset            ResetCurrentStream()
//	set        S     SetCurrentStream(S)
//	read         N   Read into a buffer of N bytes
//	readfull     N   io.ReadFull through Read of min(N, what is certainly there) bytes: of the current stream, or, when
//	                 none is current, of whichever stream the first Read picks (N is then cut to the shortest remainder)
//	readstream S N   ReadStream(buffer of N bytes, S)
//	write        N   Write of an N-byte labelled payload
//	setw       S     SetWriterStream(S)
//	resetw           ResetWriterStream()
type AdOp struct {
	Op     string `json:"op"`
	Stream uint16 `json:"stream,omitempty"`
	N      int    `json:"n,omitempty"`
}

// AdaptorCase is a whole scenario: all chunks are queued, then the end of the association, then the calls are made
// one after the other by one goroutine; finally every stream is drained.
type AdaptorCase struct {
	Chunks  []AdChunk `json:"chunks"`
	Ops     []AdOp    `json:"ops"`
	Wrapped bool      `json:"wrapped,omitempty"` // through an application's wrapper type that forwards everything
}

// adByte is byte off of the sequence of a stream: differs from stream to stream and from offset to offset.
func adByte(stream uint16, off int) byte {
	x := uint32(stream)*0x9e3779b1 ^ uint32(off)*0x85ebca6b ^ 0x5bd1e995
	x ^= x >> 15
	x *= 0x2c1b3c6d
	x ^= x >> 12
	return byte(x>>8) ^ byte(off)
}

func adData(stream uint16, from, n int) []byte {
	b := make([]byte, n)
	for i := range b {
		b[i] = adByte(stream, from+i)
	}
	return b
}

func (c *AdaptorCase) validate() error {
	if len(c.Chunks) > 4096 || len(c.Ops) > 4096 {
		return fmt.Errorf("case too large")
	}
	for _, ch := range c.Chunks {
		if ch.Len <= 0 || ch.Len > 1<<20 {
			return fmt.Errorf("chunk of %d bytes", ch.Len)
		}
	}
	for _, o := range c.Ops {
		switch o.Op {
		case "reset", "resetw", "set", "setw":
		case "read", "readfull", "readstream", "write":
			if o.N <= 0 || o.N > 1<<20 {
				return fmt.Errorf("%s with n = %d", o.Op, o.N)
			}
		default:
			return fmt.Errorf("unknown op %q", o.Op)
		}
	}
	return nil
}

func (c *AdaptorCase) describe() string {
	var sb strings.Builder
	sb.WriteString("arrival:")
	for i, ch := range c.Chunks {
		if i == 40 {
			fmt.Fprintf(&sb, " ...(%d chunks)", len(c.Chunks))
			break
		}
		fmt.Fprintf(&sb, " s%d:%d", ch.Stream, ch.Len)
	}
	sb.WriteString("; calls:")
	for i, o := range c.Ops {
		if i == 40 {
			fmt.Fprintf(&sb, " ...(%d calls)", len(c.Ops))
			break
		}
		switch o.Op {
		case "reset", "resetw":
			fmt.Fprintf(&sb, " %s", o.Op)
		case "set", "setw":
			fmt.Fprintf(&sb, " %s(%d)", o.Op, o.Stream)
		case "readstream":
			fmt.Fprintf(&sb, " readstream(%d,%d)", o.Stream, o.N)
		default:
			fmt.Fprintf(&sb, " %s(%d)", o.Op, o.N)
		}
	}
	return sb.String()
}

const invalid = diam.InvalidStreamID

func streamName(s uint) string {
	if s == invalid {
		return "none"
	}
	return fmt.Sprint(s)
}

func runAdaptor(c AdaptorCase) *ev.Failure {
	if err := c.validate(); err != nil {
		return ev.Failf("harness-case", "inconsistent case: %v", err)
	}
	be := memnet.NewSCTP()
	sh := newShell(be)
	defer sh.release()
	total := map[uint]int{}
	var chunks []memnet.Chunk
	for _, ch := range c.Chunks {
		chunks = append(chunks, memnet.Chunk{Stream: ch.Stream, Data: adData(ch.Stream, total[uint(ch.Stream)], ch.Len)})
		total[uint(ch.Stream)] += ch.Len
	}
	be.Feed(chunks...)
	be.FeedEOF()
	msc := diam.NewVerifSCTPConn(sh)
	if c.Wrapped {
		msc = &countingAssoc{MultistreamConn: msc}
	}
	res := make(chan *ev.Failure, 1)
	go func() { res <- adaptorCalls(&c, msc, be, total) }()
	timer := time.NewTimer(deadline)
	defer timer.Stop()
	select {
	case f := <-res:
		return f
	case <-timer.C:
		be.Close()
		return ev.Failf("adaptor-stuck", "the calls did not return within %v although everything, and the end of the association, was queued before the first of them; %s", deadline, c.describe())
	}
}

// adaptorCalls makes the calls and compares with the model.
func adaptorCalls(c *AdaptorCase, msc diam.MultistreamConn, be *memnet.SCTP, total map[uint]int) *ev.Failure {
	consumed := map[uint]int{}
	cur, wcur := invalid, invalid
	rem := func(s uint) int { return total[s] - consumed[s] }
	anyLeft := func() (n, least int) {
		for s := range total {
			if r := rem(s); r > 0 {
				n++
				if least == 0 || r < least {
					least = r
				}
			}
		}
		return
	}
	var streams []uint
	for s := range total {
		streams = append(streams, s)
	}
	sort.Slice(streams, func(i, j int) bool { return streams[i] < streams[j] })
	type wrote struct {
		stream uint
		data   []byte
		why    string
	}
	var writes []wrote
	where := func(i int) string {
		if i >= len(c.Ops) {
			return "in the final drain; " + c.describe()
		}
		return fmt.Sprintf("at call %d (%s); %s", i, c.Ops[i].Op, c.describe())
	}
	// got checks n bytes handed out for stream s
	got := func(i int, what string, s uint, b []byte) *ev.Failure {
		if len(b) > rem(s) {
			return ev.Failf("adaptor-stream-mixed", "%s returned %d bytes for stream %s, which has only %d undelivered bytes (of %d); %s", what, len(b), streamName(s), rem(s), total[s], where(i))
		}
		want := adData(uint16(s), consumed[s], len(b))
		if !bytes.Equal(b, want) {
			return ev.Failf("adaptor-stream-mixed", "%s returned %d bytes for stream %s that are not the next bytes of that stream (offset %d): first difference at %d, got % x..., want % x...; %s",
				what, len(b), streamName(s), consumed[s], firstDiff(b, want), head(b, 12), head(want, 12), where(i))
		}
		consumed[s] += len(b)
		return nil
	}
	// after a Read that returned data, the stream it came from is the current one
	pinned := func(i int, what string) (uint, *ev.Failure) {
		s := msc.CurrentStream()
		if s == invalid {
			return s, ev.Failf("adaptor-not-pinned", "%s returned data but CurrentStream() reports no stream afterwards; %s", what, where(i))
		}
		if _, ok := total[s]; !ok {
			return s, ev.Failf("adaptor-stream-mixed", "%s returned data and CurrentStream() reports stream %d, on which nothing was ever sent; %s", what, s, where(i))
		}
		return s, nil
	}
	for i, o := range c.Ops {
		switch o.Op {
		case "reset":
			msc.ResetCurrentStream()
			cur = invalid
		case "set":
			msc.SetCurrentStream(uint(o.Stream))
			cur = uint(o.Stream)
		case "setw":
			msc.SetWriterStream(uint(o.Stream))
			wcur = uint(o.Stream)
			if s := msc.CurrentWriterStream(); s != wcur {
				return ev.Failf("adaptor-writer-stream", "after SetWriterStream(%d), CurrentWriterStream() reports %s; %s", wcur, streamName(s), where(i))
			}
		case "resetw":
			msc.ResetWriterStream()
			wcur = invalid
		case "read":
			b := make([]byte, o.N)
			n, err := msc.Read(b)
			if n < 0 || n > len(b) {
				return ev.Failf("adaptor-read-count", "Read into %d bytes returned n = %d; %s", len(b), n, where(i))
			}
			if cur != invalid {
				what := fmt.Sprintf("Read (current stream %d)", cur)
				if rem(cur) == 0 {
					if n != 0 {
						return ev.Failf("adaptor-stream-mixed", "%s returned %d bytes (% x...) although every byte of that stream had been delivered; %s", what, n, head(b[:n], 12), where(i))
					}
					continue // the end of the association
				}
				if err != nil {
					return ev.Failf("adaptor-bytes-lost", "%s failed with %q (n = %d) while %d bytes of that stream were undelivered; %s", what, err, n, rem(cur), where(i))
				}
				if f := got(i, what, cur, b[:n]); f != nil {
					return f
				}
				if s := msc.CurrentStream(); s != cur {
					return ev.Failf("adaptor-not-pinned", "%s: CurrentStream() reports %s afterwards; %s", what, streamName(s), where(i))
				}
				continue
			}
			what := "Read (no current stream)"
			if left, _ := anyLeft(); left == 0 {
				if n != 0 {
					return ev.Failf("adaptor-stream-mixed", "%s returned %d bytes (% x...) although every byte of every stream had been delivered; %s", what, n, head(b[:n], 12), where(i))
				}
				continue
			}
			if err != nil {
				return ev.Failf("adaptor-bytes-lost", "%s failed with %q (n = %d) while bytes were undelivered; %s", what, err, n, where(i))
			}
			if n == 0 {
				continue
			}
			s, f := pinned(i, what)
			if f != nil {
				return f
			}
			if f := got(i, what, s, b[:n]); f != nil {
				return f
			}
			cur = s
		case "readfull":
			k := o.N
			what := "io.ReadFull through Read (no current stream)"
			if cur != invalid {
				what = fmt.Sprintf("io.ReadFull through Read (current stream %d)", cur)
				if k > rem(cur) {
					k = rem(cur)
				}
			} else if _, least := anyLeft(); k > least {
				k = least
			}
			if k == 0 {
				continue
			}
			b := make([]byte, k)
			n, err := io.ReadFull(msc, b)
			if err != nil {
				return ev.Failf("adaptor-bytes-lost", "%s of %d bytes failed with %q after %d bytes although the stream had that many undelivered; %s", what, k, err, n, where(i))
			}
			s := cur
			if s == invalid {
				var f *ev.Failure
				if s, f = pinned(i, what); f != nil {
					return f
				}
			}
			if f := got(i, what, s, b); f != nil {
				return f
			}
			if now := msc.CurrentStream(); now != s {
				return ev.Failf("adaptor-not-pinned", "%s: CurrentStream() reports %s afterwards, the bytes were those of stream %d; %s", what, streamName(now), s, where(i))
			}
			cur = s
		case "readstream":
			s := uint(o.Stream)
			b := make([]byte, o.N)
			n, err := msc.ReadStream(b, s)
			what := fmt.Sprintf("ReadStream(%d)", s)
			if n < 0 || n > len(b) {
				return ev.Failf("adaptor-read-count", "%s into %d bytes returned n = %d; %s", what, len(b), n, where(i))
			}
			if rem(s) == 0 {
				if n != 0 {
					return ev.Failf("adaptor-stream-mixed", "%s returned %d bytes (% x...) although that stream has nothing undelivered; %s", what, n, head(b[:n], 12), where(i))
				}
				continue
			}
			if err != nil {
				return ev.Failf("adaptor-bytes-lost", "%s failed with %q (n = %d) while %d bytes of that stream were undelivered; %s", what, err, n, rem(s), where(i))
			}
			if f := got(i, what, s, b[:n]); f != nil {
				return f
			}
		case "write":
			p := adData(uint16(0x8000|i), 0, o.N)
			want, why := uint(0), "neither a writer stream nor a current read stream is set: the default stream"
			if wcur != invalid {
				want, why = wcur, "the writer stream is set"
			} else if cur != invalid {
				want, why = cur, "no writer stream is set, the current read stream is"
			}
			n, err := msc.Write(p)
			if err != nil || n != len(p) {
				return ev.Failf("adaptor-write-error", "Write of %d bytes returned (%d, %v) on an open association; %s", len(p), n, err, where(i))
			}
			writes = append(writes, wrote{want, p, why})
		}
	}
	// the final drain: whatever was not asked for yet is still there, stream by stream
	end := len(c.Ops)
	for k, s := range streams {
		r := rem(s)
		if r == 0 {
			continue
		}
		if k%2 == 0 {
			msc.SetCurrentStream(s)
			b := make([]byte, r)
			n, err := io.ReadFull(msc, b)
			what := fmt.Sprintf("io.ReadFull through Read after SetCurrentStream(%d)", s)
			if err != nil {
				return ev.Failf("adaptor-bytes-lost", "%s: %d bytes of that stream were undelivered, %d came, then %q; %s", what, r, n, err, where(end))
			}
			if f := got(end, what, s, b); f != nil {
				return f
			}
			continue
		}
		for rem(s) > 0 {
			b := make([]byte, 1+rem(s)/2)
			n, err := msc.ReadStream(b, s)
			what := fmt.Sprintf("ReadStream(%d)", s)
			if err != nil || n <= 0 || n > len(b) {
				return ev.Failf("adaptor-bytes-lost", "%s returned (%d, %v) while %d bytes of that stream were undelivered; %s", what, n, err, rem(s), where(end))
			}
			if f := got(end, what, s, b[:n]); f != nil {
				return f
			}
		}
	}
	msc.ResetCurrentStream()
	b := make([]byte, 64)
	if n, _ := msc.Read(b); n != 0 {
		return ev.Failf("adaptor-stream-mixed", "every byte of every stream was delivered, yet Read returns %d more (% x...); %s", n, head(b[:n], 12), where(end))
	}
	// what was written, where
	rec := be.Writes()
	if len(rec) != len(writes) {
		return ev.Failf("adaptor-write-count", "%d Write calls succeeded, the backend recorded %d; %s", len(writes), len(rec), where(end))
	}
	for k, w := range writes {
		if !bytes.Equal(rec[k].Data, w.data) {
			return ev.Failf("adaptor-write-bytes", "Write no. %d: the backend recorded other bytes than were written (%d bytes, first difference at %d); %s", k, len(rec[k].Data), firstDiff(rec[k].Data, w.data), where(end))
		}
		if uint(rec[k].Stream) != w.stream {
			return ev.Failf("adaptor-write-stream", "Write no. %d went to stream %d; %s, so stream %d was the one; %s", k, rec[k].Stream, w.why, w.stream, where(end))
		}
	}
	return nil
}

func classifyAdaptor(c AdaptorCase) (bool, []string) {
	if c.validate() != nil {
		return false, []string{"invalid"}
	}
	cl := map[string]bool{}
	ids := map[uint16]bool{}
	switches := 0
	for i, ch := range c.Chunks {
		ids[ch.Stream] = true
		if i > 0 && c.Chunks[i-1].Stream != ch.Stream {
			switches++
		}
		if ch.Stream >= 16 {
			cl["stream>=16"] = true
		}
	}
	switch n := len(ids); {
	case n <= 1:
		cl[fmt.Sprintf("streams:%d", n)] = true
	case n <= 3:
		cl["streams:2-3"] = true
	default:
		cl["streams:4+"] = true
	}
	if !ids[0] && len(ids) > 0 {
		cl["no-data-on-stream-0"] = true
	}
	pinnedReads, writesPinned := 0, 0
	cur, wcur := false, false
	var curS uint16
	for _, o := range c.Ops {
		cl["op:"+o.Op] = true
		switch o.Op {
		case "reset":
			cur = false
		case "set":
			cur, curS = true, o.Stream
			if !ids[o.Stream] {
				cl["set-to-a-stream-without-data"] = true
			}
		case "setw":
			wcur = true
		case "resetw":
			wcur = false
		case "read", "readfull":
			if cur && curS != 0 {
				pinnedReads++
			}
			if !cur {
				cl["read-picks-the-stream"] = true
				cur, curS = true, 1 // some stream: unknown here
			}
		case "write":
			switch {
			case wcur:
				cl["write:writer-stream"] = true
			case cur:
				cl["write:current-read-stream"] = true
				writesPinned++
			default:
				cl["write:default-stream"] = true
			}
		}
	}
	if pinnedReads > 0 {
		cl["read-while-a-stream-is-current"] = true
	}
	if c.Wrapped {
		cl["association-behind-an-application-wrapper"] = true
	}
	if switches > 0 {
		cl["chunks-of-different-streams-interleaved"] = true
	}
	return len(ids) >= 2 && switches > 0 && (pinnedReads > 0 || writesPinned > 0), keys(cl)
}

func keys(m map[string]bool) []string {
	var out []string
	for k := range m {
		out = append(out, k)
	}
	sort.Strings(out)
	return out
}

func genAdaptor(t *rapid.T) AdaptorCase {
	var c AdaptorCase
	c.Wrapped = rapid.IntRange(0, 3).Draw(t, "wrapped") == 0
	n := rapid.IntRange(1, 5).Draw(t, "streams")
	pool := rapid.Permutation([]uint16{0, 1, 2, 3, 5, 9, 15, 16, 100, 65535}).Draw(t, "ids")[:n]
	if rapid.Bool().Draw(t, "with-stream-0") && n > 1 {
		pool[0] = 0
		for i := 1; i < n; i++ {
			if pool[i] == 0 {
				pool[i] = 7
			}
		}
	}
	nch := rapid.IntRange(0, 24).Draw(t, "chunks")
	for i := 0; i < nch; i++ {
		ch := AdChunk{Stream: rapid.SampledFrom(pool).Draw(t, "chunk-stream")}
		switch k := rapid.IntRange(0, 9).Draw(t, "chunk-size-class"); {
		case k < 3:
			ch.Len = rapid.IntRange(1, 4).Draw(t, "len")
		case k < 8:
			ch.Len = rapid.IntRange(5, 80).Draw(t, "len")
		default:
			ch.Len = rapid.IntRange(200, 3000).Draw(t, "len")
		}
		c.Chunks = append(c.Chunks, ch)
	}
	// streams named by calls: mostly those with data, sometimes another one
	named := append(append([]uint16{}, pool...), 4, 0)
	nops := rapid.IntRange(1, 30).Draw(t, "calls")
	for i := 0; i < nops; i++ {
		var o AdOp
		switch k := rapid.IntRange(0, 19).Draw(t, "call"); {
		case k < 2:
			o.Op = "reset"
		case k < 5:
			o = AdOp{Op: "set", Stream: rapid.SampledFrom(named).Draw(t, "set")}
		case k < 10:
			o = AdOp{Op: "read", N: rapid.SampledFrom([]int{1, 2, 3, 7, 20, 21, 64, 100, 4096}).Draw(t, "read-n")}
		case k < 13:
			o = AdOp{Op: "readfull", N: rapid.SampledFrom([]int{1, 4, 20, 36, 100, 1000}).Draw(t, "readfull-n")}
		case k < 15:
			o = AdOp{Op: "readstream", Stream: rapid.SampledFrom(named).Draw(t, "readstream"), N: rapid.SampledFrom([]int{1, 5, 20, 64, 4096}).Draw(t, "readstream-n")}
		case k < 18:
			o = AdOp{Op: "write", N: rapid.IntRange(1, 120).Draw(t, "write-n")}
		case k < 19:
			o = AdOp{Op: "setw", Stream: rapid.SampledFrom(named).Draw(t, "setw")}
		default:
			o.Op = "resetw"
		}
		c.Ops = append(c.Ops, o)
	}
	return c
}

var adaptorProp = ev.Register(&ev.Prop[AdaptorCase]{
	ID: "C19", Name: "adaptors",
	Rule: "the io.Reader / io.Writer adaptors of an association driven directly: 0..24 chunks (1..3000 bytes, position- and stream-dependent content) of 1..5 streams (ids 0..16, 100, 65535; half of the cases with data on stream 0) queued in a generated order, " +
		"then the end of the association; then 1..30 calls made by one goroutine: ResetCurrentStream, SetCurrentStream(s), Read(buffer of 1..4096), io.ReadFull through Read (1..1000 bytes, cut to what is certainly there), ReadStream(s, n), " +
		"Write(1..120 labelled bytes), SetWriterStream(s), ResetWriterStream; finally every stream is drained (SetCurrentStream + io.ReadFull, or ReadStream). Model from the doc comments and the statement: while a stream is current, Read returns only the next bytes of that stream " +
		"and CurrentStream() keeps reporting it; with no current stream, Read returns the next bytes of one stream, which CurrentStream() then reports and which stays current; ReadStream(s) returns the next bytes of s; nothing is returned for a stream whose bytes were all delivered; " +
		"bytes that arrived while another stream was being read are not lost: the drain finds every stream's remainder, in order, and nothing more; Write goes, whole and in call order, to the writer stream if set, else to the current read stream if set, else to stream 0; after SetWriterStream(s), CurrentWriterStream() = s. " +
		"1 in 4 cases through an application's wrapper type. non-trivial = >= 2 streams with data whose chunks interleave and >= 1 Read / io.ReadFull while a stream other than 0 is current, or a Write that goes to the current read stream",
	Gen: genAdaptor, Run: runAdaptor, Classify: classifyAdaptor,
	Sample: func(c AdaptorCase) interface{} { return c.describe() },
})

func TestC19Adaptors(t *testing.T) { adaptorProp.Check(t, 5000, 150000) }
