// C19 - "Replies built from a message are written to that same stream", with
// everything else an application does with an association going on at the
// same time.
//
// One or two associations are served by one handler: a ServeMux whose handler
// answers every request, or a state machine (sm.New) that answers the CER and
// the DWRs itself and hands the other requests to such a handler. Requests
// arrive on several streams; meanwhile other goroutines of the application
// write messages of their own with WriteToStream to streams of the same
// association, and some replies are written by goroutines of their own. The
// in-memory backend can look at the ancillary data of a write the way a socket
// does: some time after the call was made.
package c19

import (
	"encoding/binary"
	"fmt"
	"strings"
	"sync"
	"sync/atomic"
	"testing"
	"time"

	"github.com/fiorix/go-diameter/v4/diam"
	"github.com/fiorix/go-diameter/v4/diam/datatype"
	"github.com/fiorix/go-diameter/v4/diam/dict"
	"github.com/fiorix/go-diameter/v4/diam/sm"
	"pgregory.net/rapid"

	"verif/internal/ev"
	"verif/internal/gen"
	"verif/internal/memnet"
	"verif/internal/refcodec"
)

// ReqPlan is one request of the peer.
type ReqPlan struct {
	Stream uint16 `json:"stream"`
	DWR    bool   `json:"dwr,omitempty"` // a Device-Watchdog-Request: answered by the state machine (state machine cases only)
	// Via: how the application answers (requests other than DWR):
	// 0 Answer(2001).WriteTo(conn) in the handler, 1 the same to conn.Connection(), 2 Answer(2001).WriteTo(conn)
	// from a goroutine of its own, 3 Answer(0) + AVPs, WriteTo(conn) in the handler, 4 Answer(2001), Serialize and
	// conn.Write in the handler (the Write adaptor: the current read stream, which is the request's while the reader
	// loop is in its handler), 5 ResetWriterStream() on the Conn (as a diam.MultistreamWriter), then as 4: no writer
	// stream is set, so the Write adaptor uses the current read stream, 6 SetWriterStream(Pin) on the Conn, then as 4 (the
	// Write adaptor uses the writer stream that is set: the answer goes to Pin), and the previous value is set again,
	// 7 ResetWriterStream() and SetWriterStream(Pin) on the Conn, then Answer(2001).WriteTo(conn) - which names the
	// request's stream whatever the Write adaptor would use - and the previous value is set again.
	Via   int    `json:"via,omitempty"`
	Pin   uint16 `json:"pin,omitempty"`   // Via 6 and 7: the writer stream that is set
	Split int    `json:"split,omitempty"` // > 0: arrives in two chunks, the first of Split bytes (if the message is longer)
}

// WriterPlan is a goroutine of the application that sends its own requests with WriteToStream.
type WriterPlan struct {
	Stream uint16 `json:"stream"`
	Max    int    `json:"max"`            // it stops after Max messages, or after its first when every request of the peer has been answered
	Bare   bool   `json:"bare,omitempty"` // writes to the association (conn.Connection()), not to the Conn
}

// AssocPlan is one association.
type AssocPlan struct {
	CERStream uint16       `json:"cer_stream"` // state machine cases: the stream of the CER
	CERSplit  int          `json:"cer_split,omitempty"`
	Reqs      []ReqPlan    `json:"reqs"`
	Writers   []WriterPlan `json:"writers,omitempty"`
	Wrapped   bool         `json:"wrapped,omitempty"`
}

// ReplyCase is a whole scenario.
type ReplyCase struct {
	SM       bool        `json:"sm"` // served by a state machine
	StateID  uint32      `json:"origin_state_id,omitempty"`
	Assocs   []AssocPlan `json:"assocs"`
	Parallel bool        `json:"parallel,omitempty"`  // two associations at the same time, not one after the other
	LateInfo bool        `json:"late_info,omitempty"` // the backend reads the ancillary data of a write when another writer has come in (2 ms later at most)
	Cmd      int         `json:"cmd"`                 // command of the application's requests
}

const (
	hbhCER    = 0x10000000 // | assoc
	hbhReq    = 0x20000000 // | assoc<<16 | index
	hbhWriter = 0x70000000 // | assoc<<24 | writer<<16 | seq
)

var (
	appCmdOnce sync.Once
	appCmds    []gen.Cmd
)

// appRequestCmds: request commands of dict.Default that a state machine leaves to the application.
func appRequestCmds() []gen.Cmd {
	appCmdOnce.Do(func() {
		for _, c := range requestCmds() {
			if c.Code != 257 && c.Code != 280 && c.HasAns {
				appCmds = append(appCmds, c)
			}
		}
	})
	return appCmds
}

func (c *ReplyCase) cmd() gen.Cmd { return appRequestCmds()[c.Cmd%len(appRequestCmds())] }

func (c *ReplyCase) validate() error {
	if len(c.Assocs) < 1 || len(c.Assocs) > 2 {
		return fmt.Errorf("%d associations", len(c.Assocs))
	}
	if c.Cmd < 0 {
		return fmt.Errorf("cmd %d", c.Cmd)
	}
	for _, a := range c.Assocs {
		if len(a.Reqs) > 4000 || len(a.Writers) > 16 {
			return fmt.Errorf("association too large")
		}
		for _, r := range a.Reqs {
			if r.DWR && !c.SM {
				return fmt.Errorf("a DWR without a state machine")
			}
			if r.Via < 0 || r.Via > 7 || r.Split < 0 {
				return fmt.Errorf("request %+v", r)
			}
		}
		for _, w := range a.Writers {
			if w.Max < 1 || w.Max > 60000 {
				return fmt.Errorf("writer %+v", w)
			}
		}
	}
	return nil
}

func replyLabel(ai, i int) []byte {
	b := make([]byte, tagPrefix)
	binary.BigEndian.PutUint16(b[0:], uint16(ai))
	binary.BigEndian.PutUint16(b[2:], uint16(i))
	binary.BigEndian.PutUint32(b[4:], 0xc19c19)
	return b
}

func rstr(code uint32, s string) *refcodec.Node {
	return &refcodec.Node{Code: code, Flags: 0x40, Payload: []byte(s)}
}

func cerImage(ai int) []byte {
	return refcodec.EncodeMessage(refcodec.Header{Version: 1, Flags: 0x80, Code: 257, HopByHop: hbhCER | uint32(ai), EndToEnd: 0xce000000 | uint32(ai)},
		[]*refcodec.Node{rstr(264, fmt.Sprintf("peer%d.example.org", ai)), rstr(296, "example.org"),
			{Code: 257, Flags: 0x40, Payload: refcodec.Address(1, []byte{10, 9, 8, 7})},
			{Code: 266, Flags: 0x40, Payload: refcodec.U32(99)}, {Code: 269, Payload: []byte("verif-peer")},
			{Code: 258, Flags: 0x40, Payload: refcodec.U32(4)}}, false)
}

func (c *ReplyCase) reqImage(ai, i int) []byte {
	r := c.Assocs[ai].Reqs[i]
	hbh := uint32(hbhReq | ai<<16 | i)
	if r.DWR {
		return refcodec.EncodeMessage(refcodec.Header{Version: 1, Flags: 0x80, Code: 280, HopByHop: hbh, EndToEnd: 0xd0000000 | uint32(i)},
			[]*refcodec.Node{rstr(264, fmt.Sprintf("peer%d.example.org", ai)), rstr(296, "example.org")}, false)
	}
	cmd := c.cmd()
	return refcodec.EncodeMessage(refcodec.Header{Version: 1, Flags: 0x80, Code: cmd.Code, App: cmd.App, HopByHop: hbh, EndToEnd: 0xa0000000 | uint32(i)},
		[]*refcodec.Node{{Code: tagCode, Flags: tagFlags, Payload: replyLabel(ai, i)}}, false)
}

func cut(img []byte, split int, stream uint16) []memnet.Chunk {
	if split > 0 && split < len(img) {
		return []memnet.Chunk{{Stream: stream, Data: img[:split]}, {Stream: stream, Data: img[split:]}}
	}
	return []memnet.Chunk{{Stream: stream, Data: img}}
}

// arrival of the requests of an association: each in one or two chunks; when two requests that follow each other are
// both cut and come on different streams, their chunks alternate.
func (c *ReplyCase) arrival(ai int) []memnet.Chunk {
	a := &c.Assocs[ai]
	var out []memnet.Chunk
	for i := 0; i < len(a.Reqs); i++ {
		ch := cut(c.reqImage(ai, i), a.Reqs[i].Split, a.Reqs[i].Stream)
		if len(ch) == 2 && i+1 < len(a.Reqs) && a.Reqs[i+1].Stream != a.Reqs[i].Stream {
			if nx := cut(c.reqImage(ai, i+1), a.Reqs[i+1].Split, a.Reqs[i+1].Stream); len(nx) == 2 {
				out = append(out, ch[0], nx[0], ch[1], nx[1])
				i++
				continue
			}
		}
		out = append(out, ch...)
	}
	return out
}

func (c *ReplyCase) describe() string {
	var sb strings.Builder
	if c.SM {
		sb.WriteString("state machine; ")
	} else {
		sb.WriteString("mux handler; ")
	}
	if c.LateInfo {
		sb.WriteString("ancillary data read late; ")
	}
	if c.Parallel {
		sb.WriteString("associations in parallel; ")
	}
	for ai, a := range c.Assocs {
		fmt.Fprintf(&sb, "assoc %d:", ai)
		if c.SM {
			fmt.Fprintf(&sb, " CER@s%d", a.CERStream)
		}
		for i, r := range a.Reqs {
			if i == 30 {
				fmt.Fprintf(&sb, " ...(%d requests)", len(a.Reqs))
				break
			}
			if r.DWR {
				fmt.Fprintf(&sb, " DWR@s%d", r.Stream)
			} else {
				fmt.Fprintf(&sb, " req@s%d/via%d", r.Stream, r.Via)
				if r.Via >= 6 {
					fmt.Fprintf(&sb, "(pin s%d)", r.Pin)
				}
			}
		}
		for _, w := range a.Writers {
			fmt.Fprintf(&sb, " writer->s%d(max %d)", w.Stream, w.Max)
		}
		sb.WriteString("; ")
	}
	return sb.String()
}

// replyRun is what the handler shares with the runner.
type replyRun struct {
	c  *ReplyCase
	mu sync.Mutex
	// per association, per request: streams reported by MessageStream() at each delivery to the handler
	seen   [][][]uint
	werr   []string
	pinErr string
	wgs    []sync.WaitGroup // per association: replies written by goroutines of their own
}

func (r *replyRun) fail(format string, args ...interface{}) {
	r.mu.Lock()
	r.werr = append(r.werr, fmt.Sprintf(format, args...))
	r.mu.Unlock()
}

// pinfail: CurrentWriterStream() did not report the stream that SetWriterStream had just set (in the handler, which is
// the only place where the writer stream is touched: the reader loop is in it).
func (r *replyRun) pinfail(ai, i int, cur uint) {
	r.mu.Lock()
	if r.pinErr == "" {
		r.pinErr = fmt.Sprintf("association %d, request %d: after SetWriterStream(%d) on the Conn CurrentWriterStream() reports %d", ai, i, r.c.Assocs[ai].Reqs[i].Pin, cur)
	}
	r.mu.Unlock()
}

func (r *replyRun) handler(conn diam.Conn, m *diam.Message) {
	h := m.Header.HopByHopID
	ai, i := int(h>>16&0xff), int(h&0xffff)
	if h&0xff000000 != hbhReq || ai >= len(r.c.Assocs) || i >= len(r.c.Assocs[ai].Reqs) {
		r.fail("the handler was given a message that was never sent: %+v", *m.Header)
		return
	}
	r.mu.Lock()
	r.seen[ai][i] = append(r.seen[ai][i], m.MessageStream())
	r.mu.Unlock()
	plan := r.c.Assocs[ai].Reqs[i]
	answer := func() {
		a := m.Answer(diam.Success)
		if plan.Via == 3 {
			a = m.Answer(0)
			a.NewAVP(298, 0x40, 0, datatype.Unsigned32(2001)) // Experimental-Result-Code
		}
		var tag []byte
		if len(m.AVP) > 0 && m.AVP[0].Data != nil {
			tag = m.AVP[0].Data.Serialize()
		}
		a.NewAVP(tagCode, tagFlags, 0, datatype.OctetString(tag))
		var err error
		var mw diam.MultistreamWriter
		if plan.Via >= 5 {
			var ok bool
			if mw, ok = conn.(diam.MultistreamWriter); !ok {
				r.fail("the Conn of a multi-stream association (%T) is not a diam.MultistreamWriter", conn)
				return
			}
		}
		// pin sets the writer stream and says what CurrentWriterStream() reports then
		pin := func() (prev uint) {
			prev = mw.SetWriterStream(uint(plan.Pin))
			if cur := mw.CurrentWriterStream(); cur != uint(plan.Pin) {
				r.pinfail(ai, i, cur)
			}
			return prev
		}
		switch plan.Via {
		case 1:
			_, err = a.WriteTo(conn.Connection())
		case 4, 5, 6:
			var b []byte
			if b, err = a.Serialize(); err == nil {
				switch plan.Via {
				case 5:
					mw.ResetWriterStream()
					_, err = conn.Write(b)
				case 6:
					prev := pin()
					_, err = conn.Write(b)
					mw.SetWriterStream(prev)
				default:
					_, err = conn.Write(b)
				}
			}
		case 7:
			mw.ResetWriterStream()
			prev := pin()
			_, err = a.WriteTo(conn)
			mw.SetWriterStream(prev)
		default:
			_, err = a.WriteTo(conn)
		}
		if err != nil {
			r.fail("reply to request %d of association %d: %v", i, ai, err)
		}
	}
	if plan.Via == 2 {
		r.wgs[ai].Add(1)
		go func() { defer r.wgs[ai].Done(); answer() }()
		return
	}
	answer()
}

type assocResult struct {
	writes   []memnet.SCTPWriteRec
	sent     []int // per writer: WriteToStream calls that succeeded
	fail     *ev.Failure
	answered int64
}

// runAssoc plays one association against the handler.
func (r *replyRun) runAssoc(ai int, h diam.Handler) (res assocResult) {
	c := r.c
	a := &c.Assocs[ai]
	be := memnet.NewSCTP()
	sh := newShell(be)
	sh.lateInfo = c.LateInfo
	sh.poke = make(chan struct{}, 1)
	defer sh.release()
	res.sent = make([]int, len(a.Writers))
	var assoc diam.MultistreamConn = diam.NewVerifSCTPConn(sh)
	if a.Wrapped {
		assoc = &countingAssoc{MultistreamConn: assoc}
	}
	conn, err := diam.NewConn(assoc, "", h, dict.Default)
	if err != nil {
		be.Close()
		res.fail = ev.Failf("harness-conn", "NewConn: %v", err)
		return
	}
	end := time.Now().Add(deadline)
	// waitAnswers waits until the backend has recorded n writes without the R bit
	waitAnswers := func(n int64) bool {
		for atomic.LoadInt64(&sh.answers) < n {
			left := time.Until(end)
			if left <= 0 {
				return false
			}
			t := time.NewTimer(left)
			select {
			case <-sh.poke:
			case <-t.C:
			}
			t.Stop()
		}
		return true
	}
	finish := func() {
		be.FeedEOF()
		if !be.WaitClosed(deadline) {
			be.Close()
			if res.fail == nil {
				res.fail = ev.Failf("loop-not-ended", "association %d: everything and EOF were fed, but the connection loop did not close the transport within %v; %s", ai, deadline, c.describe())
			}
		}
		r.wgs[ai].Wait() // the loop has ended: nothing is added any more
		res.writes = be.Writes()
		res.answered = atomic.LoadInt64(&sh.answers)
	}
	if !be.WaitParked(deadline) {
		be.Close()
		res.fail = ev.Failf("harness-conn", "the connection loop did not start reading within %v", deadline)
		return
	}
	want := int64(len(a.Reqs))
	if c.SM {
		want++
		be.Feed(cut(cerImage(ai), a.CERSplit, a.CERStream)...)
		if !waitAnswers(1) {
			res.fail = ev.Failf("reply-count", "association %d: the CER (stream %d) was not answered within %v; %s", ai, a.CERStream, deadline, c.describe())
			finish()
			return
		}
	}
	// the application's own traffic
	var stop int32
	var wwg, started sync.WaitGroup
	cmd := c.cmd()
	for wi := range a.Writers {
		wwg.Add(1)
		started.Add(1)
		go func(wi int) {
			defer wwg.Done()
			w := a.Writers[wi]
			for n := 0; n < w.Max; n++ {
				if n == 0 {
					started.Done()
				} else if atomic.LoadInt32(&stop) != 0 {
					return
				}
				code, app := cmd.Code, cmd.App
				if wi == 0 {
					code, app = 280, 0 // a watchdog of the application's own
				}
				m := diam.NewMessage(code, diam.RequestFlag, app, uint32(hbhWriter|ai<<24|wi<<16|n), uint32(0xee000000|n), dict.Default)
				m.NewAVP(tagCode, tagFlags, 0, datatype.OctetString(replyLabel(0x100|wi, n)))
				var err error
				if w.Bare {
					_, err = m.WriteToStream(conn.Connection(), uint(w.Stream))
				} else {
					_, err = m.WriteToStream(conn, uint(w.Stream))
				}
				if err != nil {
					r.fail("association %d: message %d of the writer to stream %d: %v", ai, n, w.Stream, err)
					return
				}
				res.sent[wi]++
			}
		}(wi)
	}
	started.Wait()
	be.Feed(c.arrival(ai)...)
	ok := waitAnswers(want)
	atomic.StoreInt32(&stop, 1)
	wwg.Wait()
	if !ok {
		res.fail = ev.Failf("reply-count", "association %d: %d requests were sent%s, %d answers%s were recorded within %v%s; %s", ai, len(a.Reqs),
			map[bool]string{true: " after the CER", false: ""}[c.SM], atomic.LoadInt64(&sh.answers), map[bool]string{true: " (the CEA among them)", false: ""}[c.SM], deadline, r.errors(), c.describe())
	}
	finish()
	return
}

func (r *replyRun) errors() string {
	r.mu.Lock()
	defer r.mu.Unlock()
	if len(r.werr) == 0 {
		return ""
	}
	return "; errors: " + strings.Join(r.werr, " | ")
}

func runReplies(c ReplyCase) *ev.Failure {
	if err := c.validate(); err != nil {
		return ev.Failf("harness-case", "inconsistent case: %v", err)
	}
	r := &replyRun{c: &c, wgs: make([]sync.WaitGroup, len(c.Assocs))}
	for _, a := range c.Assocs {
		r.seen = append(r.seen, make([][]uint, len(a.Reqs)))
	}
	var (
		h       diam.Handler
		reports <-chan *diam.ErrorReport
	)
	if c.SM {
		machine := sm.New(&sm.Settings{OriginHost: "srv.verif", OriginRealm: "verif", VendorID: 13, ProductName: "verif-sm", OriginStateID: datatype.Unsigned32(c.StateID)})
		machine.HandleFunc("ALL", r.handler)
		h, reports = machine, machine.ErrorReports()
	} else {
		mux := diam.NewServeMux()
		mux.HandleFunc("ALL", r.handler)
		h, reports = mux, mux.ErrorReports()
	}
	// error reports: drained continuously, kept for the diagnosis
	var rep []string
	stop := make(chan struct{})
	var dwg sync.WaitGroup
	dwg.Add(1)
	go func() {
		defer dwg.Done()
		for {
			select {
			case e := <-reports:
				r.mu.Lock()
				rep = append(rep, fmt.Sprint(e.Error))
				r.mu.Unlock()
			case <-stop:
				return
			}
		}
	}()
	results := make([]assocResult, len(c.Assocs))
	if c.Parallel {
		var wg sync.WaitGroup
		for ai := range c.Assocs {
			wg.Add(1)
			go func(ai int) { defer wg.Done(); results[ai] = r.runAssoc(ai, h) }(ai)
		}
		wg.Wait()
	} else {
		for ai := range c.Assocs {
			results[ai] = r.runAssoc(ai, h)
		}
	}
	close(stop)
	dwg.Wait()
	diag := func() string {
		s := r.errors()
		r.mu.Lock()
		if len(rep) > 0 {
			s += "; error reports: " + strings.Join(rep, " | ")
		}
		r.mu.Unlock()
		return s + "; " + c.describe()
	}
	for ai := range c.Assocs {
		if f := results[ai].fail; f != nil {
			if !strings.HasPrefix(f.Sig, "harness") {
				// what was recorded may tell more than the missing answer: look at it first
				if g := r.verify(ai, &results[ai], diag, true); g != nil {
					return g
				}
			}
			return f
		}
	}
	for ai := range c.Assocs {
		if f := r.verify(ai, &results[ai], diag, false); f != nil {
			return f
		}
	}
	r.mu.Lock()
	defer r.mu.Unlock()
	if r.pinErr != "" {
		return ev.Failf("writer-stream-not-reported", "%s; %s", r.pinErr, c.describe())
	}
	if len(r.werr) > 0 {
		return ev.Failf("reply-write-error", "writing failed while the transport was open: %s; %s", strings.Join(r.werr, " | "), c.describe())
	}
	return nil
}

// verify compares what the backend of association ai recorded with the plan. partial: the run was cut short, counts are
// not looked at.
func (r *replyRun) verify(ai int, res *assocResult, diag func() string, partial bool) *ev.Failure {
	c := r.c
	a := &c.Assocs[ai]
	answers := make([]int, len(a.Reqs))
	ceas := 0
	written := make([]int, len(a.Writers))
	for n, w := range res.writes {
		h, err := refcodec.DecodeHeader(w.Data)
		if err == nil && int(h.Length) != len(w.Data) {
			err = fmt.Errorf("declared length %d, %d bytes written", h.Length, len(w.Data))
		}
		var recs []*refcodec.Record
		if err == nil {
			recs, err = refcodec.Frame(w.Data[20:])
		}
		if err != nil {
			return ev.Failf("reply-malformed", "association %d: write %d on stream %d is not one whole message (%v): % x%s", ai, n, w.Stream, err, head(w.Data, 48), diag())
		}
		var tag []byte
		for _, rc := range recs {
			if rc.Code == tagCode {
				tag = rc.Payload
			}
		}
		if h.Flags&0x80 != 0 {
			// a message of the application's own
			wi, seq := int(h.HopByHop>>16&0xff), int(h.HopByHop&0xffff)
			if h.HopByHop&0xfe000000 != hbhWriter || int(h.HopByHop>>24&1) != ai || wi >= len(a.Writers) || seq >= a.Writers[wi].Max {
				return ev.Failf("reply-malformed", "association %d: write %d on stream %d is a request nobody wrote here (hop-by-hop id %#x, command %d)%s", ai, n, w.Stream, h.HopByHop, h.Code, diag())
			}
			if w.Stream != a.Writers[wi].Stream {
				return ev.Failf("written-to-another-stream", "association %d: message %d that a goroutine of the application wrote with WriteToStream(c, %d) was sent on stream %d%s", ai, seq, a.Writers[wi].Stream, w.Stream, diag())
			}
			written[wi]++
			continue
		}
		switch {
		case c.SM && h.HopByHop == hbhCER|uint32(ai):
			ceas++
			if h.Code != 257 {
				return ev.Failf("reply-malformed", "association %d: the answer to the CER has command %d%s", ai, h.Code, diag())
			}
			if w.Stream != a.CERStream {
				return ev.Failf("sm-reply-on-another-stream", "association %d: the CER arrived on stream %d, the state machine's CEA was written to stream %d%s", ai, a.CERStream, w.Stream, diag())
			}
		case h.HopByHop&0xff000000 == hbhReq && int(h.HopByHop>>16&0xff) == ai && int(h.HopByHop&0xffff) < len(a.Reqs):
			i := int(h.HopByHop & 0xffff)
			q := a.Reqs[i]
			answers[i]++
			if q.DWR {
				if h.Code != 280 {
					return ev.Failf("reply-malformed", "association %d: the answer to DWR %d has command %d%s", ai, i, h.Code, diag())
				}
				if w.Stream != q.Stream {
					return ev.Failf("sm-reply-on-another-stream", "association %d: request %d, a DWR, arrived on stream %d, the state machine's DWA was written to stream %d%s", ai, i, q.Stream, w.Stream, diag())
				}
				break
			}
			if h.Code != c.cmd().Code || string(tag) != string(replyLabel(ai, i)) {
				return ev.Failf("reply-malformed", "association %d: the answer to request %d has command %d and label %x%s", ai, i, h.Code, tag, diag())
			}
			if q.Via == 6 {
				if w.Stream != q.Pin {
					return ev.Failf("pinned-write-on-another-stream", "association %d: request %d arrived on stream %d; its handler called SetWriterStream(%d) on the Conn and wrote the answer with conn.Write, the Write adaptor, which wrote it to stream %d%s", ai, i, q.Stream, q.Pin, w.Stream, diag())
				}
				break
			}
			if w.Stream != q.Stream {
				return ev.Failf("reply-on-wrong-stream", "association %d: request %d arrived on stream %d, its answer (built and written the way no. %d) was written to stream %d%s", ai, i, q.Stream, q.Via, w.Stream, diag())
			}
		default:
			return ev.Failf("reply-malformed", "association %d: write %d on stream %d answers a request that was never sent here (hop-by-hop id %#x, command %d)%s", ai, n, w.Stream, h.HopByHop, h.Code, diag())
		}
		if w.PPID != diam.DiameterPPID {
			return ev.Failf("reply-ppid", "association %d: an answer was written with PPID %#x, not the Diameter PPID %#x%s", ai, w.PPID, diam.DiameterPPID, diag())
		}
	}
	// what the handler was told
	r.mu.Lock()
	seen := r.seen[ai]
	r.mu.Unlock()
	for i, q := range a.Reqs {
		for _, s := range seen[i] {
			if s != uint(q.Stream) {
				return ev.Failf("wrong-stream-reported", "association %d: request %d arrived on stream %d but MessageStream() reports %d%s", ai, i, q.Stream, s, diag())
			}
		}
		if len(seen[i]) > 1 {
			return ev.Failf("message-duplicated", "association %d: request %d (stream %d) was handed to the handler %d times%s", ai, i, q.Stream, len(seen[i]), diag())
		}
		if answers[i] > 1 {
			return ev.Failf("reply-count", "association %d: request %d (stream %d) was answered %d times%s", ai, i, q.Stream, answers[i], diag())
		}
	}
	if ceas > 1 {
		return ev.Failf("reply-count", "association %d: %d CEAs%s", ai, ceas, diag())
	}
	if partial {
		return nil
	}
	for i, q := range a.Reqs {
		if !q.DWR && len(seen[i]) == 0 {
			return ev.Failf("message-lost", "association %d: request %d (stream %d) never reached the handler%s", ai, i, q.Stream, diag())
		}
		if answers[i] != 1 {
			return ev.Failf("reply-count", "association %d: request %d (stream %d) was delivered but the backend recorded no answer to it%s", ai, i, q.Stream, diag())
		}
	}
	for wi, w := range a.Writers {
		if written[wi] != res.sent[wi] {
			return ev.Failf("written-message-missing", "association %d: %d WriteToStream(c, %d) calls of one goroutine succeeded, the backend recorded %d of its messages%s", ai, res.sent[wi], w.Stream, written[wi], diag())
		}
	}
	return nil
}

func classifyReplies(c ReplyCase) (bool, []string) {
	if c.validate() != nil {
		return false, []string{"invalid"}
	}
	cl := map[string]bool{}
	if c.SM {
		cl["state-machine"] = true
	} else {
		cl["mux-handler"] = true
	}
	if c.LateInfo {
		cl["ancillary-data-read-late"] = true
	}
	if len(c.Assocs) == 2 {
		cl["two-associations"] = true
		if c.Parallel {
			cl["two-associations-in-parallel"] = true
		}
	}
	nontrivial := false
	var firstDWR *uint16
	for ai := range c.Assocs {
		a := &c.Assocs[ai]
		ids := map[uint16]bool{}
		concurrent := len(a.Writers) > 0
		dwrStreams := map[uint16]bool{}
		for _, q := range a.Reqs {
			ids[q.Stream] = true
			if q.Stream >= 16 {
				cl["stream>=16"] = true
			}
			if q.DWR {
				cl["dwr"] = true
				dwrStreams[q.Stream] = true
				if firstDWR == nil {
					s := q.Stream
					firstDWR = &s
				} else if *firstDWR != q.Stream {
					cl["dwr-on-another-stream-than-the-first"] = true
					nontrivial = true
				}
			} else {
				cl[fmt.Sprintf("reply-via-%d", q.Via)] = true
				if q.Via == 2 {
					concurrent = true
				}
			}
			if q.Split > 0 {
				cl["request-in-two-chunks"] = true
			}
		}
		if c.SM && !ids[a.CERStream] {
			cl["cer-on-a-stream-of-its-own"] = true
		}
		if c.SM && a.CERStream != 0 {
			cl["cer-stream>0"] = true
		}
		switch n := len(a.Writers); {
		case n == 0:
			cl["writers:0"] = true
		case n == 1:
			cl["writers:1"] = true
		default:
			cl["writers:2+"] = true
		}
		for _, w := range a.Writers {
			if !ids[w.Stream] {
				cl["writer-on-a-stream-without-requests"] = true
			} else {
				cl["writer-on-a-stream-with-requests"] = true
			}
		}
		if a.Wrapped {
			cl["association-behind-an-application-wrapper"] = true
		}
		if len(ids) >= 2 {
			cl["requests-on->=2-streams"] = true
		}
		if concurrent && len(ids)+len(a.Writers) >= 2 && len(a.Reqs) > 0 {
			cl["concurrent-writers"] = true
			nontrivial = true
		}
	}
	return nontrivial, keys(cl)
}

func genReplies(t *rapid.T) ReplyCase {
	c := ReplyCase{SM: rapid.Bool().Draw(t, "state-machine"), Cmd: rapid.IntRange(0, len(appRequestCmds())-1).Draw(t, "cmd")}
	if c.SM && rapid.Bool().Draw(t, "origin-state-id") {
		c.StateID = uint32(rapid.IntRange(1, 1<<30).Draw(t, "state-id"))
	}
	na := 1
	if rapid.IntRange(0, 2).Draw(t, "second-association") == 0 {
		na = 2
		c.Parallel = rapid.Bool().Draw(t, "parallel")
	}
	concurrent := false
	for ai := 0; ai < na; ai++ {
		var a AssocPlan
		a.Wrapped = rapid.IntRange(0, 3).Draw(t, "wrapped") == 0
		np := rapid.IntRange(2, 5).Draw(t, "stream-pool")
		pool := rapid.Permutation([]uint16{0, 1, 2, 3, 4, 5, 7, 9, 15, 16, 20, 100, 65535}).Draw(t, "ids")[:np]
		a.CERStream = rapid.SampledFrom([]uint16{0, 0, 0, 1, 3, pool[0], pool[1]}).Draw(t, "cer-stream")
		if rapid.IntRange(0, 3).Draw(t, "cer-split") == 0 {
			a.CERSplit = rapid.IntRange(1, 60).Draw(t, "cer-split-at")
		}
		nr := rapid.IntRange(1, ev.Pick(12, 40)).Draw(t, "requests")
		for i := 0; i < nr; i++ {
			q := ReqPlan{Stream: rapid.SampledFrom(pool).Draw(t, "stream")}
			if c.SM && rapid.Bool().Draw(t, "dwr") {
				q.DWR = true
			} else {
				q.Via = rapid.SampledFrom([]int{0, 0, 1, 2, 2, 3, 4, 5, 5, 6, 7}).Draw(t, "via")
				if q.Via >= 6 {
					q.Pin = rapid.SampledFrom(append([]uint16{6, 8, 11}, pool...)).Draw(t, "pin")
				}
				concurrent = concurrent || q.Via == 2
			}
			if rapid.IntRange(0, 3).Draw(t, "split") == 0 {
				q.Split = rapid.SampledFrom([]int{1, 19, 20, 21, 28, 35}).Draw(t, "split-at")
			}
			a.Reqs = append(a.Reqs, q)
		}
		if rapid.IntRange(0, 2).Draw(t, "writers") > 0 {
			nw := rapid.IntRange(1, 3).Draw(t, "writer-count")
			other := []uint16{6, 8, 11, 17}
			for wi := 0; wi < nw; wi++ {
				w := WriterPlan{Max: rapid.IntRange(1, ev.Pick(60, 400)).Draw(t, "writer-max"), Bare: rapid.IntRange(0, 3).Draw(t, "bare") == 0}
				if rapid.Bool().Draw(t, "writer-on-a-request-stream") {
					w.Stream = rapid.SampledFrom(pool).Draw(t, "writer-stream")
				} else {
					w.Stream = rapid.SampledFrom(other).Draw(t, "writer-stream")
				}
				a.Writers = append(a.Writers, w)
			}
			concurrent = true
		}
		c.Assocs = append(c.Assocs, a)
	}
	if concurrent {
		c.LateInfo = rapid.IntRange(0, 3).Draw(t, "late-info") > 0
	}
	return c
}

var repliesProp = ev.Register(&ev.Prop[ReplyCase]{
	ID: "C19", Name: "replies",
	Rule: "replies while the application does other things with the association: 1 or 2 associations (one after the other or in parallel; 1 in 4 behind an application's wrapper type) served by one handler - a ServeMux handler, or a state machine (sm.New, with or without Origin-State-Id) " +
		"that gets a CER first (stream 0, 1, 3 or one of the request streams) and answers it and the DWRs itself; per association 1..12 requests (thorough: ..40) on 2..5 streams (ids 0..20, 100, 65535), whole or in two chunks (alternating with the next request's when both are cut), " +
		"fed once the reader is parked (and the CER answered); application requests are answered with Answer(2001) + label via WriteTo(conn), via WriteTo(conn.Connection()), from a goroutine of their own, with Answer(0) + AVPs, or serialised and written with conn.Write in the handler - plainly, after ResetWriterStream() on the Conn, or after SetWriterStream(p) on it (p a request stream or 6, 8, 11; the previous value is set again after the write) - " +
		"or via WriteTo(conn) after ResetWriterStream() and SetWriterStream(p); state machine cases mix DWRs in. " +
		"Meanwhile 0..3 goroutines of the application send labelled requests of their own with WriteToStream(conn or conn.Connection(), s), s a request stream or another one, from before the requests are fed until all of them are answered (at most 60 each; thorough: 400). " +
		"In 3 of 4 cases with concurrent writers the in-memory backend reads the ancillary data of a write (which the caller owns until the call returns) when another write has been entered, 2 ms later at most. " +
		"Demanded: every answer the backend records - the handler's, the state machine's CEA and DWAs - is on the stream its request arrived on (the one written with conn.Write while writer stream p was set: on p, and CurrentWriterStream() reports p then), with the Diameter PPID, one per request; the handler is given every request once, with MessageStream() = its stream; " +
		"every message written with WriteToStream(c, s) is recorded whole on stream s, as many as calls succeeded; no write fails while the association is open; the loop closes the transport after EOF. " +
		"non-trivial = concurrent writers (a WriteToStream goroutine or replies from goroutines of their own) on an association with requests, or a DWR on another stream than the first DWR the state machine saw",
	Gen: genReplies, Run: runReplies, Classify: classifyReplies, Attempts: 5,
	Sample: func(c ReplyCase) interface{} { return c.describe() },
})

func TestC19Replies(t *testing.T) { repliesProp.Check(t, 400, 12000) }
