// C19 - SCTP multistream: every message is assembled from one stream, in order.
//
// A scenario is a set of streams, each carrying a sequence of messages whose
// concatenated bytes are cut into chunks, and a merge of all chunks that keeps
// every stream's own chunk order. The merged chunk list is fed to the
// in-memory SCTP backend behind diam.NewVerifSCTPConn and consumed by the
// library's own connection loop (diam.NewConn). The handler records what the
// loop delivers and answers every message through the message API.
package c19

import (
	"bytes"
	"encoding/binary"
	"errors"
	"fmt"
	"io"
	"log"
	"net"
	"sort"
	"strings"
	"sync"
	"sync/atomic"
	"testing"
	"time"

	"github.com/fiorix/go-diameter/v4/diam"
	"github.com/fiorix/go-diameter/v4/diam/datatype"
	"github.com/fiorix/go-diameter/v4/diam/dict"
	"github.com/ishidawataru/sctp"
	"pgregory.net/rapid"

	"verif/internal/ev"
	"verif/internal/gen"
	"verif/internal/memnet"
	"verif/internal/refcodec"
)

func init() { log.SetOutput(io.Discard) }

// ---------------------------------------------------------------------------
// the case

// StreamPlan is one stream of the association.
type StreamPlan struct {
	ID     uint16 `json:"id"`
	Sizes  []int  `json:"sizes"`  // payload length of the tag AVP of each message (>= 8); 0 = a message without any AVP (header only)
	Chunks []int  `json:"chunks"` // chunk lengths; they sum to the stream's byte count
}

// Case is a whole scenario. Merge lists, per arriving chunk, the index (into
// Streams) of the stream whose next chunk it is.
type Case struct {
	Streams []StreamPlan `json:"streams"`
	Merge   []int        `json:"merge"`
	Cmd     int          `json:"cmd"`  // index into the request commands of dict.Default
	Late    bool         `json:"late"` // feed after the reader has parked instead of before the loop starts
	// Aborted > 0: before this association another one, in the same process, dies of a read error in
	// the middle of a message while that many of this case's streams hold complete, undelivered
	// messages in their buffers. Nothing of it may show in the association under test.
	Aborted int `json:"aborted,omitempty"`
	// AnswersToo: every third message is an ANSWER (no R bit), as a client or a relay receives them
	// interleaved with requests; it reports its stream, and what is built from it goes there, all the same.
	AnswersToo bool `json:"answers_too,omitempty"`
	// Wrapped: the association reaches NewConn behind a wrapper type of the application (a
	// byte-counting MultistreamConn), not as the library's own *SCTPConn.
	Wrapped bool `json:"wrapped,omitempty"`
	// Deferred: the reply to a message is written while the NEXT message is being handled (the
	// last one's at the end of its own handler) - when another stream may be the current one.
	Deferred bool `json:"deferred,omitempty"`
	// Adaptor: the association is not consumed by diam.NewConn's loop but by a stream-unaware
	// application through the io.Reader / io.Writer adaptors of the association, used as documented:
	// ResetCurrentStream before each message, diam.ReadMessage over the bare io.Reader (io.ReadFull of
	// the header, then of the body: the first Read pins the stream), CurrentStream() for the stream the
	// message came from; the reply goes through Write - to the current read stream, or to the writer
	// stream set with SetWriterStream when the reply is deferred (and for some messages anyway).
	Adaptor bool `json:"adaptor,omitempty"`
}

// countingAssoc is an application's wrapper around an association: everything is forwarded.
type countingAssoc struct {
	diam.MultistreamConn
	written int64
}

func (w *countingAssoc) WriteStream(b []byte, stream uint) (int, error) {
	n, err := w.MultistreamConn.WriteStream(b, stream)
	atomic.AddInt64(&w.written, int64(n))
	return n, err
}

const (
	tagCode   = 3000033 // a code no dictionary defines: decoded as datatype.Unknown, a view of the bytes that were read
	tagFlags  = 0x40
	tagPrefix = 8 // stream(2) seq(2) payload length(4)
	deadline  = 10 * time.Second
)

var (
	cmdOnce sync.Once
	reqCmds []gen.Cmd
)

// requestCmds lists the commands of dict.Default that have a request form,
// in a fixed order.
func requestCmds() []gen.Cmd {
	cmdOnce.Do(func() {
		for _, c := range gen.NewCatalog(dict.Default).Cmds {
			if c.HasReq {
				reqCmds = append(reqCmds, c)
			}
		}
		sort.SliceStable(reqCmds, func(i, j int) bool {
			if reqCmds[i].App != reqCmds[j].App {
				return reqCmds[i].App < reqCmds[j].App
			}
			return reqCmds[i].Code < reqCmds[j].Code
		})
	})
	return reqCmds
}

// tagPayload is the content of message seq of stream id: an 8-byte label
// followed by filler that differs from message to message and from offset to
// offset, so that any byte taken from another stream or another position
// shows.
func tagPayload(id uint16, seq, size int) []byte {
	b := make([]byte, size)
	binary.BigEndian.PutUint16(b[0:], id)
	binary.BigEndian.PutUint16(b[2:], uint16(seq))
	binary.BigEndian.PutUint32(b[4:], uint32(size))
	x := uint32(id)<<16 | uint32(seq)<<4 | 0x9e3779b1
	for i := tagPrefix; i < size; i++ {
		x ^= x << 13
		x ^= x >> 17
		x ^= x << 5
		b[i] = byte(x >> 11)
	}
	return b
}

func msgHeader(c *Case, id uint16, seq int) refcodec.Header {
	cmd := requestCmds()[c.Cmd%len(requestCmds())]
	flags := uint8(0x80)
	if c.AnswersToo && cmd.HasAns && (int(id)+seq)%3 == 1 {
		flags = 0
	}
	return refcodec.Header{Version: 1, Flags: flags, Code: cmd.Code, App: cmd.App,
		HopByHop: 0x01000000 | uint32(id)<<8 | uint32(seq), EndToEnd: 0x5a000000 | uint32(seq)<<16 | uint32(id)}
}

func msgBytes(c *Case, id uint16, seq, size int) []byte {
	if size == 0 { // header only: identified by its identifiers
		return refcodec.EncodeMessage(msgHeader(c, id, seq), nil, false)
	}
	return refcodec.EncodeMessage(msgHeader(c, id, seq),
		[]*refcodec.Node{{Code: tagCode, Flags: tagFlags, Payload: tagPayload(id, seq, size)}}, false)
}

func msgLen(size int) int {
	if size == 0 {
		return 20
	}
	return 20 + 8 + refcodec.Pad4(size)
}

// bareLabel is the label of a header-only message, recovered from its End-to-End identifier.
func bareLabel(e2e uint32) []byte {
	b := make([]byte, tagPrefix)
	binary.BigEndian.PutUint16(b[0:], uint16(e2e))
	binary.BigEndian.PutUint16(b[2:], uint16(e2e>>16)&0xff)
	return b
}

func (s *StreamPlan) total() int {
	n := 0
	for _, z := range s.Sizes {
		n += msgLen(z)
	}
	return n
}

// validate checks the internal consistency of a case (replay files can be
// edited by hand).
func (c *Case) validate() error {
	if len(c.Streams) == 0 {
		return fmt.Errorf("no stream")
	}
	seen := map[uint16]bool{}
	counts := make([]int, len(c.Streams))
	for i := range c.Streams {
		s := &c.Streams[i]
		if seen[s.ID] {
			return fmt.Errorf("stream id %d twice", s.ID)
		}
		seen[s.ID] = true
		for _, z := range s.Sizes {
			if z != 0 && (z < tagPrefix || z > 1<<20) {
				return fmt.Errorf("stream %d: payload size %d", s.ID, z)
			}
		}
		sum := 0
		for _, l := range s.Chunks {
			if l <= 0 {
				return fmt.Errorf("stream %d: chunk length %d", s.ID, l)
			}
			sum += l
		}
		if sum != s.total() {
			return fmt.Errorf("stream %d: chunks sum to %d, messages to %d", s.ID, sum, s.total())
		}
	}
	for _, k := range c.Merge {
		if k < 0 || k >= len(c.Streams) {
			return fmt.Errorf("merge names stream index %d", k)
		}
		counts[k]++
	}
	for i := range c.Streams {
		if counts[i] != len(c.Streams[i].Chunks) {
			return fmt.Errorf("merge has %d slots for stream index %d, which has %d chunks", counts[i], i, len(c.Streams[i].Chunks))
		}
	}
	return nil
}

// chunks builds the arrival sequence.
func (c *Case) chunks() []memnet.Chunk {
	data := make([][]byte, len(c.Streams))
	next := make([]int, len(c.Streams))
	for i := range c.Streams {
		s := &c.Streams[i]
		for seq, z := range s.Sizes {
			data[i] = append(data[i], msgBytes(c, s.ID, seq, z)...)
		}
	}
	out := make([]memnet.Chunk, 0, len(c.Merge))
	for _, k := range c.Merge {
		l := c.Streams[k].Chunks[next[k]]
		next[k]++
		out = append(out, memnet.Chunk{Stream: c.Streams[k].ID, Data: data[k][:l]})
		data[k] = data[k][l:]
	}
	return out
}

// ---------------------------------------------------------------------------
// running a case

// shell stands between the hook and the in-memory backend. The hook keeps
// every backend it was ever given reachable (package-level registry), so the
// shell lets go of the backend - and with it of all chunk and write records -
// when the case is over; what stays behind is a few words per case.
type shell struct {
	p atomic.Pointer[memnet.SCTP]
	// lateInfo: SCTPWrite looks at the ancillary data the way a socket does - some time after the call
	// was made: when another writer has come in, 2 ms later at most. The caller owns *info until the
	// call returns, so this must not matter.
	lateInfo bool
	entered  int64
	answers  int64         // writes without the R bit that the backend has recorded
	poke     chan struct{} // poked after every write (capacity 1), when set
}

func newShell(be *memnet.SCTP) *shell { s := &shell{}; s.p.Store(be); return s }
func (s *shell) release()             { s.p.Store(nil) }

func (s *shell) SCTPRead(b []byte) (int, *sctp.SndRcvInfo, error) {
	if be := s.p.Load(); be != nil {
		return be.SCTPRead(b)
	}
	return 0, nil, memnet.ErrClosed
}

func (s *shell) SCTPWrite(b []byte, info *sctp.SndRcvInfo) (int, error) {
	be := s.p.Load()
	if be == nil {
		return 0, memnet.ErrClosed
	}
	if s.lateInfo {
		me := atomic.AddInt64(&s.entered, 1)
		for t0 := time.Now(); atomic.LoadInt64(&s.entered) == me && time.Since(t0) < 2*time.Millisecond; {
			time.Sleep(20 * time.Microsecond)
		}
	}
	n, err := be.SCTPWrite(b, info)
	if err == nil && len(b) >= 20 && b[4]&0x80 == 0 {
		atomic.AddInt64(&s.answers, 1)
	}
	if s.poke != nil {
		select {
		case s.poke <- struct{}{}:
		default:
		}
	}
	return n, err
}

func (s *shell) Close() error {
	if be := s.p.Load(); be != nil {
		return be.Close()
	}
	return nil
}

func (s *shell) LocalAddr() net.Addr  { return memnet.Addr{Net: "sctp", Str: "10.1.2.3:3868"} }
func (s *shell) RemoteAddr() net.Addr { return memnet.Addr{Net: "sctp", Str: "10.9.8.7:40000"} }

type delivery struct {
	stream uint
	hdr    diam.Header
	navp   int
	code   uint32
	flags  uint8
	tag    []byte
}

func label(tag []byte) string {
	if len(tag) < tagPrefix {
		return fmt.Sprintf("(%d-byte tag %x)", len(tag), tag)
	}
	return fmt.Sprintf("(stream %d, seq %d)", binary.BigEndian.Uint16(tag), binary.BigEndian.Uint16(tag[2:]))
}

// runAborted plays the association that dies before the one under test starts.
func runAborted(c *Case) {
	be := memnet.NewSCTP()
	sh := newShell(be)
	defer sh.release()
	dead := func(id uint16, seq int) []byte {
		return refcodec.EncodeMessage(refcodec.Header{Version: 1, Flags: 0x80, Code: 280, HopByHop: 0xdd000000 | uint32(id), EndToEnd: 0xdd000000 | uint32(seq)},
			[]*refcodec.Node{{Code: tagCode, Flags: tagFlags, Payload: bytes.Repeat([]byte{0xdd}, 36)}}, false)
	}
	first := dead(40, 0)
	chunks := []memnet.Chunk{{Stream: 40, Data: first[:28]}}
	for i := 0; i < c.Aborted && i < len(c.Streams); i++ {
		chunks = append(chunks, memnet.Chunk{Stream: c.Streams[i].ID, Data: append(dead(c.Streams[i].ID, 1), dead(c.Streams[i].ID, 2)...)})
	}
	be.Feed(chunks...)
	be.FeedErr(errors.New("connection reset by peer"))
	mux := diam.NewServeMux()
	mux.HandleFunc("ALL", func(diam.Conn, *diam.Message) {})
	if _, err := diam.NewConn(diam.NewVerifSCTPConn(sh), "", mux, dict.Default); err != nil {
		be.Close()
		return
	}
	if !be.WaitClosed(deadline) {
		be.Close()
	}
	select {
	case <-mux.ErrorReports():
	default:
	}
}

func runCase(c Case) *ev.Failure {
	if err := c.validate(); err != nil {
		return ev.Failf("harness-case", "inconsistent case: %v", err)
	}
	if c.Aborted > 0 {
		runAborted(&c)
	}
	be := memnet.NewSCTP()
	sh := newShell(be)
	defer sh.release()
	var (
		mu   sync.Mutex
		got  []delivery
		kept []*diam.Message // every delivered message, looked at again when the association is over
		werr []string
		// the reply that waits for the next message (Deferred)
		pending func() error
	)
	mux := diam.NewServeMux()
	// handle is what the application does with a message it was handed: stream tells the stream the
	// message is reported to have arrived on, writeReply writes an answer built from it.
	handle := func(m *diam.Message, stream func() uint, writeReply func(a *diam.Message) error) {
		if m.Header.EndToEndID&2 != 0 {
			// a relay: the request is first forwarded to another peer, on a stream of that
			// association; where it came from, and where its answer goes, is not affected
			m.WriteToStream(io.Discard, uint(m.MessageStream()+5))
		}
		d := delivery{stream: stream(), hdr: *m.Header, navp: len(m.AVP)}
		if len(m.AVP) > 0 {
			d.code, d.flags = m.AVP[0].Code, m.AVP[0].Flags
			if m.AVP[0].Data != nil {
				d.tag = append([]byte{}, m.AVP[0].Data.Serialize()...)
			}
		}
		// replies are built both ways an application does: Answer(rc), and Answer(0) followed by
		// AVPs of its own (e.g. an Experimental-Result instead of a Result-Code)
		a := m.Answer(diam.Success)
		if m.Header.EndToEndID&1 == 1 {
			a = m.Answer(0)
		}
		short := d.tag
		if len(short) > tagPrefix {
			short = short[:tagPrefix]
		}
		if len(m.AVP) == 0 && m.Header.EndToEndID>>24 == 0x5a {
			short = bareLabel(m.Header.EndToEndID)
		}
		a.NewAVP(tagCode, tagFlags, 0, datatype.OctetString(short))
		var err error
		write := func() error { return writeReply(a) }
		if c.Deferred {
			mu.Lock()
			prev := pending
			pending = write
			last := len(got)+1 == c.nmsgs()
			mu.Unlock()
			if prev != nil {
				err = prev()
			}
			if last {
				if e := write(); err == nil {
					err = e
				}
			}
		} else {
			err = write()
		}
		mu.Lock()
		got = append(got, d)
		kept = append(kept, m)
		if err != nil {
			werr = append(werr, fmt.Sprintf("reply to %s: %v", label(d.tag), err))
		}
		mu.Unlock()
	}
	mux.HandleFunc("ALL", func(conn diam.Conn, m *diam.Message) {
		handle(m, m.MessageStream, func(a *diam.Message) error {
			if m.Header.EndToEndID&4 != 0 {
				// written to the association itself (a MultistreamWriter that is not the handler's
				// Conn), as an application that runs its own read loop on the association does
				_, e := a.WriteTo(conn.Connection())
				return e
			}
			_, e := a.WriteTo(conn)
			return e
		})
	})
	// error reports: drained continuously, kept for the diagnosis
	var reports []string
	stop := make(chan struct{})
	var wg sync.WaitGroup
	wg.Add(1)
	go func() {
		defer wg.Done()
		for {
			select {
			case r := <-mux.ErrorReports():
				mu.Lock()
				reports = append(reports, fmt.Sprint(r.Error))
				mu.Unlock()
			case <-stop:
				return
			}
		}
	}()
	defer func() { close(stop); wg.Wait() }()

	all := c.chunks()
	if !c.Late {
		be.Feed(all...)
		be.FeedEOF()
	}
	var assoc net.Conn = diam.NewVerifSCTPConn(sh)
	if c.Wrapped {
		assoc = &countingAssoc{MultistreamConn: assoc.(diam.MultistreamConn)}
	}
	if c.Adaptor {
		msc := assoc.(diam.MultistreamConn)
		go func() {
			defer assoc.Close()
			r, w := struct{ io.Reader }{msc}, struct{ io.Writer }{msc} // nothing but Read and Write
			for {
				msc.ResetCurrentStream()
				m, err := diam.ReadMessage(r, dict.Default)
				if err != nil {
					if err != io.EOF {
						mu.Lock()
						reports = append(reports, fmt.Sprintf("ReadMessage through the Read adaptor: %v", err))
						mu.Unlock()
					}
					return
				}
				stream := msc.CurrentStream()
				handle(m, func() uint { return stream }, func(a *diam.Message) error {
					if c.Deferred || m.Header.EndToEndID&4 != 0 {
						// another stream may be the current one by now: the writer stream goes first
						msc.SetWriterStream(stream)
						defer msc.ResetWriterStream()
					}
					_, e := a.WriteTo(w)
					return e
				})
			}
		}()
	} else if _, err := diam.NewConn(assoc, "", mux, dict.Default); err != nil {
		be.Close()
		return ev.Failf("harness-conn", "NewConn: %v", err)
	}
	if c.Late {
		if !be.WaitParked(deadline) {
			be.Close()
			return ev.Failf("harness-conn", "the connection loop did not start reading within %v", deadline)
		}
		be.Feed(all...)
		be.FeedEOF()
	}
	closed := be.WaitClosed(deadline)
	if !closed {
		be.Close() // releases the loop whatever it is doing
	}
	mu.Lock()
	defer mu.Unlock()
	diag := func() string {
		// an error report, if any, is sent right after the close: give it a moment (diagnosis only)
		mu.Unlock()
		select {
		case r := <-mux.ErrorReports():
			mu.Lock()
			reports = append(reports, fmt.Sprint(r.Error))
		case <-time.After(50 * time.Millisecond):
			mu.Lock()
		}
		s := ""
		if len(reports) > 0 {
			s += "; error reports: " + strings.Join(reports, " | ")
		}
		if len(werr) > 0 {
			s += "; write errors: " + strings.Join(werr, " | ")
		}
		return s + "; arrival: " + c.describe()
	}
	if !closed {
		return ev.Failf("loop-not-ended", "all %d chunks and EOF were fed, but the connection loop did not close the transport within %v (%d messages delivered so far)%s",
			len(all), deadline, len(got), diag())
	}

	// --- deliveries -------------------------------------------------------
	idx := map[uint16]int{}
	for i := range c.Streams {
		idx[c.Streams[i].ID] = i
	}
	perStream := make([][]delivery, len(c.Streams))
	for n, d := range got {
		if d.navp == 0 && d.hdr.EndToEndID>>24 == 0x5a { // a header-only message
			lb := bareLabel(d.hdr.EndToEndID)
			id := binary.BigEndian.Uint16(lb)
			seq := int(binary.BigEndian.Uint16(lb[2:]))
			i, ok := idx[id]
			if !ok || seq >= len(c.Streams[i].Sizes) || c.Streams[i].Sizes[seq] != 0 {
				return ev.Failf("stream-bytes-mixed", "delivery %d is a header-only message with End-to-End id %#x, which was never sent%s", n, d.hdr.EndToEndID, diag())
			}
			wh := msgHeader(&c, id, seq)
			if d.hdr.CommandCode != wh.Code || d.hdr.ApplicationID != wh.App || d.hdr.CommandFlags != wh.Flags || d.hdr.HopByHopID != wh.HopByHop || d.hdr.MessageLength != 20 {
				return ev.Failf("stream-bytes-mixed", "delivery %d, the header-only message %s, does not have the header that was sent: %+v%s", n, label(lb), d.hdr, diag())
			}
			if d.stream != uint(id) {
				return ev.Failf("wrong-stream-reported", "header-only message %s arrived on stream %d but MessageStream() reports %d%s", label(lb), id, d.stream, diag())
			}
			d.tag = lb
			perStream[i] = append(perStream[i], d)
			continue
		}
		if len(d.tag) < tagPrefix || d.navp != 1 || d.code != tagCode {
			return ev.Failf("stream-bytes-mixed", "delivery %d (reported stream %d) is not one of the messages sent: %d AVPs, first code %d, tag %x...%s",
				n, d.stream, d.navp, d.code, head(d.tag, 16), diag())
		}
		id := binary.BigEndian.Uint16(d.tag)
		seq := int(binary.BigEndian.Uint16(d.tag[2:]))
		i, ok := idx[id]
		if !ok || seq >= len(c.Streams[i].Sizes) {
			return ev.Failf("stream-bytes-mixed", "delivery %d carries the label %s, which was never sent%s", n, label(d.tag), diag())
		}
		want := tagPayload(id, seq, c.Streams[i].Sizes[seq])
		wh := msgHeader(&c, id, seq)
		if !bytes.Equal(d.tag, want) || d.hdr.CommandCode != wh.Code || d.hdr.ApplicationID != wh.App || d.hdr.CommandFlags != wh.Flags ||
			d.hdr.HopByHopID != wh.HopByHop || d.hdr.EndToEndID != wh.EndToEnd || int(d.hdr.MessageLength) != msgLen(len(want)) || d.flags != tagFlags {
			return ev.Failf("stream-bytes-mixed", "delivery %d, labelled %s, does not have the bytes that were sent on that stream: header %+v, %d payload bytes, first difference at payload offset %d%s",
				n, label(d.tag), d.hdr, len(d.tag), firstDiff(d.tag, want), diag())
		}
		if d.stream != uint(id) {
			return ev.Failf("wrong-stream-reported", "message %s arrived on stream %d but MessageStream() reports %d%s", label(d.tag), id, d.stream, diag())
		}
		perStream[i] = append(perStream[i], d)
	}
	for i := range c.Streams {
		s := &c.Streams[i]
		var seqs []int
		for _, d := range perStream[i] {
			seqs = append(seqs, int(binary.BigEndian.Uint16(d.tag[2:])))
		}
		count := map[int]int{}
		for _, q := range seqs {
			count[q]++
		}
		for q := range s.Sizes {
			if count[q] > 1 {
				return ev.Failf("message-duplicated", "stream %d: message seq %d was delivered %d times (delivered seqs %v)%s", s.ID, q, count[q], seqs, diag())
			}
		}
		for q := range s.Sizes {
			if count[q] == 0 {
				return ev.Failf("message-lost", "stream %d: message seq %d of %d was never delivered (delivered seqs %v; %d of %d messages delivered in all)%s",
					s.ID, q, len(s.Sizes), seqs, len(got), c.nmsgs(), diag())
			}
		}
		for k, q := range seqs {
			if q != k {
				return ev.Failf("stream-order", "stream %d: messages delivered in the order %v, sent in the order 0..%d%s", s.ID, seqs, len(s.Sizes)-1, diag())
			}
		}
	}

	// --- replies ------------------------------------------------------------
	writes := be.Writes()
	replies := map[[2]int]int{}
	for n, w := range writes {
		h, err := refcodec.DecodeHeader(w.Data)
		var recs []*refcodec.Record
		if err == nil && int(h.Length) == len(w.Data) {
			recs, err = refcodec.Frame(w.Data[20:])
		} else if err == nil {
			err = fmt.Errorf("declared length %d, %d bytes written", h.Length, len(w.Data))
		}
		var tag []byte
		for _, r := range recs {
			if r.Code == tagCode {
				tag = r.Payload
			}
		}
		if err != nil || len(tag) != tagPrefix {
			return ev.Failf("reply-malformed", "write %d on stream %d is not one whole reply carrying a label (%v): % x%s", n, w.Stream, err, head(w.Data, 48), diag())
		}
		id := binary.BigEndian.Uint16(tag)
		seq := int(binary.BigEndian.Uint16(tag[2:]))
		i, ok := idx[id]
		if !ok || seq >= len(c.Streams[i].Sizes) {
			return ev.Failf("reply-malformed", "write %d carries the label %s, which was never sent%s", n, label(tag), diag())
		}
		if h.Flags&0x80 != 0 || h.Code != msgHeader(&c, id, seq).Code {
			return ev.Failf("reply-malformed", "write %d, the reply to %s, has flags %#x and command %d%s", n, label(tag), h.Flags, h.Code, diag())
		}
		if w.Stream != id {
			return ev.Failf("reply-on-wrong-stream", "the reply to message %s was written to stream %d%s", label(tag), w.Stream, diag())
		}
		if w.PPID != diam.DiameterPPID {
			return ev.Failf("reply-ppid", "the reply to message %s was written with PPID %#x, not the Diameter PPID %#x%s", label(tag), w.PPID, diam.DiameterPPID, diag())
		}
		replies[[2]int{i, seq}]++
	}
	for i := range c.Streams {
		for q := range c.Streams[i].Sizes {
			if n := replies[[2]int{i, q}]; n != 1 {
				return ev.Failf("reply-count", "message (stream %d, seq %d) was delivered once but the backend recorded %d replies to it (%d writes in all)%s",
					c.Streams[i].ID, q, n, len(writes), diag())
			}
		}
	}
	// a delivered message stays what it was while the association goes on receiving
	for n, m := range kept {
		if len(m.AVP) == 0 || len(got[n].tag) == 0 || got[n].navp != 1 {
			continue
		}
		if now := m.AVP[0].Data.Serialize(); !bytes.Equal(now, got[n].tag) {
			return ev.Failf("delivered-message-changed-later", "delivery %d, labelled %s when it was handed to the handler, holds other bytes now that the association is over (first difference at payload offset %d, now labelled %s): the message shares memory with the transport's buffers%s",
				n, label(got[n].tag), firstDiff(now, got[n].tag), label(now), diag())
		}
	}
	if len(werr) > 0 {
		return ev.Failf("reply-write-error", "WriteTo failed while the transport was open: %s", strings.Join(werr, " | "))
	}
	return nil
}

func head(b []byte, n int) []byte {
	if len(b) > n {
		return b[:n]
	}
	return b
}

func firstDiff(a, b []byte) int {
	for i := 0; i < len(a) && i < len(b); i++ {
		if a[i] != b[i] {
			return i
		}
	}
	if len(a) != len(b) {
		if len(a) < len(b) {
			return len(a)
		}
		return len(b)
	}
	return -1
}

func (c *Case) nmsgs() int {
	n := 0
	for i := range c.Streams {
		n += len(c.Streams[i].Sizes)
	}
	return n
}

// describe renders the arrival sequence compactly: s<stream>:<length>.
func (c *Case) describe() string {
	var sb strings.Builder
	next := make([]int, len(c.Streams))
	for n, k := range c.Merge {
		if n == 40 {
			fmt.Fprintf(&sb, " ...(%d chunks)", len(c.Merge))
			break
		}
		fmt.Fprintf(&sb, " s%d:%d", c.Streams[k].ID, c.Streams[k].Chunks[next[k]])
		next[k]++
	}
	sb.WriteString("; messages:")
	for i := range c.Streams {
		fmt.Fprintf(&sb, " s%d=", c.Streams[i].ID)
		var l []string
		for _, z := range c.Streams[i].Sizes {
			l = append(l, fmt.Sprint(msgLen(z)))
		}
		sb.WriteString("[" + strings.Join(l, ",") + "]")
	}
	return sb.String()
}

// ---------------------------------------------------------------------------
// classification (computed from the case alone)

type span struct{ from, to int } // merged positions of the first and last chunk holding bytes of a message

func classify(c Case) (bool, []string) {
	if c.validate() != nil {
		return false, []string{"invalid"}
	}
	cl := map[string]bool{}
	if c.Aborted > 0 {
		cl["after-an-association-that-died-mid-message"] = true
	}
	if c.AnswersToo {
		cl["answers-among-the-requests"] = true
	}
	if c.Wrapped {
		cl["association-behind-an-application-wrapper"] = true
	}
	if c.Deferred {
		cl["reply-written-while-the-next-message-is-handled"] = true
	}
	if c.Adaptor {
		cl["consumed-through-the-read-write-adaptors"] = true
	}
	// merged position of every chunk of every stream
	pos := make([][]int, len(c.Streams))
	for n, k := range c.Merge {
		pos[k] = append(pos[k], n)
	}
	owner := c.Merge
	active := 0
	nontrivial := false
	interleavedMsgs := 0
	for i := range c.Streams {
		s := &c.Streams[i]
		if s.ID >= 16 && len(s.Sizes) > 0 {
			cl["stream>=16"] = true
		}
		for _, z := range s.Sizes {
			if z == 0 {
				cl["header-only-message"] = true
				if s.ID != 0 {
					cl["header-only-message-on-stream>0"] = true
				}
			}
		}
		if len(s.Sizes) == 0 {
			cl["stream-without-messages"] = true
			continue
		}
		active++
		// chunk boundaries as byte offsets
		var ends []int
		off := 0
		for _, l := range s.Chunks {
			off += l
			ends = append(ends, off)
			if l == 1 {
				cl["1-byte-chunk"] = true
			}
		}
		chunkOf := func(b int) int { return sort.SearchInts(ends, b+1) } // chunk holding byte b
		start := 0
		for _, z := range s.Sizes {
			ml := msgLen(z)
			body := ml - 20
			switch {
			case body > 65536:
				cl["body>64KiB"] = true
			case body > 1024:
				cl["body>1KiB"] = true
			case body >= 1000:
				cl["body-1000..1024"] = true
			default:
				cl["body<1000"] = true
			}
			a, b := chunkOf(start), chunkOf(start+ml-1)
			hb := chunkOf(start + 19)
			if a != hb {
				cl["split-in-header"] = true
			}
			if a != b {
				cl["message-in-several-chunks"] = true
			}
			foreign := func(from, to int) bool {
				for p := pos[i][from] + 1; p < pos[i][to]; p++ {
					if owner[p] != i {
						return true
					}
				}
				return false
			}
			if a != b && foreign(a, b) {
				nontrivial = true
				interleavedMsgs++
				if a != hb && foreign(a, hb) {
					cl["foreign-chunk-inside-header"] = true
				}
				if hb != b && foreign(hb, b) {
					cl["foreign-chunk-inside-body"] = true
				}
			}
			start += ml
		}
		// chunks that hold bytes of several messages
		startOff := 0
		for _, e := range ends {
			n := 0
			o := 0
			for _, z := range s.Sizes {
				if o < e && o+msgLen(z) > startOff {
					n++
				}
				o += msgLen(z)
			}
			if n >= 2 {
				cl["chunk-spans-messages"] = true
			}
			if n >= 3 {
				cl["chunk-spans>=3-messages"] = true
			}
			startOff = e
		}
	}
	switch {
	case active <= 1:
		cl[fmt.Sprintf("active-streams:%d", active)] = true
	case active == 2:
		cl["active-streams:2"] = true
	case active <= 4:
		cl["active-streams:3-4"] = true
	case active <= 8:
		cl["active-streams:5-8"] = true
	default:
		cl["active-streams:9-16"] = true
	}
	if active < 2 {
		nontrivial = false
	}
	switch {
	case interleavedMsgs == 0:
		cl["interleaved-messages:0"] = true
	case interleavedMsgs == 1:
		cl["interleaved-messages:1"] = true
	case interleavedMsgs <= 4:
		cl["interleaved-messages:2-4"] = true
	default:
		cl["interleaved-messages:>=5"] = true
	}
	for i := range c.Streams {
		if c.Streams[i].ID != 0 && len(c.Streams[i].Sizes) > 0 {
			cl["stream-id>0"] = true
		}
	}
	if c.Late {
		cl["fed-to-parked-reader"] = true
	} else {
		cl["fed-before-start"] = true
	}
	var out []string
	for k := range cl {
		out = append(out, k)
	}
	sort.Strings(out)
	return nontrivial, out
}

// ---------------------------------------------------------------------------
// generator

func genSize(t *rapid.T) int {
	// The > 64 KiB class (the body is then read in two pieces) is kept rare: the hook's registry keeps every
	// diam.SCTPConn of the process reachable, and with it the capacity of its per-stream buffers.
	switch k := rapid.IntRange(0, 63).Draw(t, "size-class"); {
	case k >= 60:
		return 0 // header only
	case k < 24:
		return rapid.IntRange(8, 60).Draw(t, "tiny")
	case k < 42:
		// bodies of 1000..1032 bytes: body = 8 + padded payload
		return rapid.IntRange(989, 1024).Draw(t, "around-1KiB")
	case k < 59:
		return rapid.IntRange(1500, 6000).Draw(t, "few-KiB")
	default:
		return rapid.IntRange(65500, 70000).Draw(t, "over-64KiB")
	}
}

// genCuts cuts total bytes (messages of the given lengths) into chunks.
func genCuts(t *rapid.T, lens []int) []int {
	total := 0
	var starts []int
	for _, l := range lens {
		starts = append(starts, total)
		total += l
	}
	if total == 0 {
		return nil
	}
	cut := map[int]bool{}
	add := func(p int) {
		if p > 0 && p < total {
			cut[p] = true
		}
	}
	style := rapid.IntRange(0, 5).Draw(t, "chunk-style")
	for i, st := range starts {
		end := st + lens[i]
		switch style {
		case 0: // one chunk per message
			add(end)
		case 1: // cuts around the header and the message end, boundaries often missing
			for _, p := range []int{st + 1, st + 4, st + 19, st + 20, st + 21, st + 28, end - 1, end} {
				if rapid.IntRange(0, 2).Draw(t, "near") == 0 {
					add(p)
				}
			}
		case 2: // random cuts, boundaries mostly missing
			n := rapid.IntRange(0, 3).Draw(t, "random-cuts")
			for j := 0; j < n; j++ {
				add(st + rapid.IntRange(1, lens[i]).Draw(t, "cut"))
			}
		case 3: // a few big chunks spanning several messages
			if rapid.IntRange(0, 3).Draw(t, "big") == 0 {
				add(st + rapid.IntRange(1, lens[i]).Draw(t, "cut"))
			}
		case 4: // a run of 1-byte chunks somewhere in the message, often across its header or its end
			from := st + rapid.SampledFrom([]int{0, 1, 15, 18, 19, 20, lens[i] - 3, lens[i] - 1}).Draw(t, "run-at")
			n := rapid.IntRange(1, 12).Draw(t, "run-length")
			for p := from; p <= from+n; p++ {
				add(p)
			}
			if rapid.Bool().Draw(t, "boundary") {
				add(end)
			}
		case 5: // mixed
			if rapid.Bool().Draw(t, "boundary") {
				add(end)
			}
			for _, p := range []int{st + 19, st + 20, st + 21} {
				if rapid.IntRange(0, 3).Draw(t, "near") == 0 {
					add(p)
				}
			}
			if rapid.Bool().Draw(t, "mid") {
				add(st + rapid.IntRange(1, lens[i]).Draw(t, "cut"))
			}
		}
	}
	var ps []int
	for p := range cut {
		ps = append(ps, p)
	}
	sort.Ints(ps)
	var out []int
	prev := 0
	for _, p := range ps {
		out = append(out, p-prev)
		prev = p
	}
	return append(out, total-prev)
}

func genCase(t *rapid.T) Case {
	c := Case{Cmd: rapid.IntRange(0, len(requestCmds())-1).Draw(t, "cmd"), Late: rapid.IntRange(0, 3).Draw(t, "late") == 0}
	if rapid.IntRange(0, 5).Draw(t, "after-an-aborted-association") == 0 {
		c.Aborted = rapid.IntRange(1, 6).Draw(t, "aborted-streams")
	}
	c.AnswersToo = rapid.Bool().Draw(t, "answers-too")
	c.Wrapped = rapid.IntRange(0, 2).Draw(t, "wrapped") == 0
	c.Deferred = rapid.IntRange(0, 2).Draw(t, "deferred") == 0
	c.Adaptor = rapid.IntRange(0, 4).Draw(t, "adaptor") == 0
	var n int
	switch k := rapid.IntRange(0, 9).Draw(t, "streams-class"); {
	case k < 1:
		n = 1
	case k < 5:
		n = rapid.IntRange(2, 3).Draw(t, "streams")
	case k < 8:
		n = rapid.IntRange(4, 8).Draw(t, "streams")
	default:
		n = rapid.IntRange(9, 16).Draw(t, "streams")
	}
	// stream numbers: mostly small, some at and beyond what a default association negotiates
	ids := rapid.Permutation([]uint16{0, 1, 2, 3, 4, 5, 6, 7, 8, 9, 10, 11, 12, 13, 14, 15, 16, 17, 20, 21, 100, 65535}).Draw(t, "ids")[:n]
	maxMsgs := 6
	if n > 8 {
		maxMsgs = 3
	}
	for _, id := range ids {
		s := StreamPlan{ID: id}
		nm := rapid.IntRange(0, maxMsgs).Draw(t, "messages")
		var lens []int
		for j := 0; j < nm; j++ {
			z := genSize(t)
			s.Sizes = append(s.Sizes, z)
			lens = append(lens, msgLen(z))
		}
		s.Chunks = genCuts(t, lens)
		c.Streams = append(c.Streams, s)
	}
	// merge: keeps every stream's own order
	left := make([]int, n)
	var live []int
	for i := range c.Streams {
		left[i] = len(c.Streams[i].Chunks)
		if left[i] > 0 {
			live = append(live, i)
		}
	}
	mode := rapid.IntRange(0, 3).Draw(t, "merge-mode")
	cur := 0
	for len(live) > 0 {
		switch mode {
		case 0: // uniformly random
			cur = rapid.IntRange(0, len(live)-1).Draw(t, "next")
		case 1: // round robin
			cur = (cur + 1) % len(live)
		case 2: // sticky: bursts of one stream
			if cur >= len(live) || rapid.IntRange(0, 2).Draw(t, "switch") == 0 {
				cur = rapid.IntRange(0, len(live)-1).Draw(t, "next")
			}
		case 3: // mostly alternating between two streams, sometimes a third
			if rapid.IntRange(0, 4).Draw(t, "third") == 0 {
				cur = rapid.IntRange(0, len(live)-1).Draw(t, "next")
			} else {
				cur = (cur + 1) % 2 % len(live)
			}
		}
		if cur >= len(live) {
			cur = 0
		}
		k := live[cur]
		c.Merge = append(c.Merge, k)
		left[k]--
		if left[k] == 0 {
			live = append(live[:cur], live[cur+1:]...)
		}
	}
	return c
}

// ---------------------------------------------------------------------------
// exhaustive small space

// interestingCuts are the positions at which the small space cuts a stream
// made of messages of the given lengths.
func interestingCuts(lens []int, rel []int) []int {
	var out []int
	st := 0
	total := 0
	for _, l := range lens {
		total += l
	}
	for _, l := range lens {
		for _, r := range rel {
			p := st + r
			if r < 0 {
				p = st + l + r + 1 // -1 = message end, -2 = one before the end
			}
			if p > 0 && p < total {
				out = append(out, p)
			}
		}
		st += l
	}
	sort.Ints(out)
	var u []int
	for i, p := range out {
		if i == 0 || p != out[i-1] {
			u = append(u, p)
		}
	}
	return u
}

// chunkings lists every split at <= maxChunks-1 of the given cut positions.
func chunkings(total int, cuts []int, maxChunks int) [][]int {
	if total == 0 {
		return [][]int{nil}
	}
	var out [][]int
	var rec func(from int, chosen []int)
	rec = func(from int, chosen []int) {
		var ch []int
		prev := 0
		for _, p := range chosen {
			ch = append(ch, p-prev)
			prev = p
		}
		out = append(out, append(ch, total-prev))
		if len(chosen) == maxChunks-1 {
			return
		}
		for i := from; i < len(cuts); i++ {
			rec(i+1, append(append([]int{}, chosen...), cuts[i]))
		}
	}
	rec(0, nil)
	return out
}

// merges lists every interleaving of a chunks of stream 0 and b of stream 1.
func merges(a, b int) [][]int {
	if a == 0 && b == 0 {
		return [][]int{nil}
	}
	var out [][]int
	if a > 0 {
		for _, m := range merges(a-1, b) {
			out = append(out, append([]int{0}, m...))
		}
	}
	if b > 0 {
		for _, m := range merges(a, b-1) {
			out = append(out, append([]int{1}, m...))
		}
	}
	return out
}

type smallStream struct {
	sizes  []int
	chunks [][]int
}

func smallStreams(rel []int, sizeSets [][]int) []smallStream {
	var out []smallStream
	for _, sizes := range sizeSets {
		var lens []int
		total := 0
		for _, z := range sizes {
			lens = append(lens, msgLen(z))
			total += msgLen(z)
		}
		out = append(out, smallStream{sizes: sizes, chunks: chunkings(total, interestingCuts(lens, rel), 3)})
	}
	return out
}

func enumerateSmall(yield func(Case) bool) {
	// cut positions relative to a message start (negative: relative to its end)
	rel := []int{1, 19, 20, 21, -2, -1}
	sets := [][]int{{}, {8}, {8, 8}}
	idPairs := [][2]uint16{{0, 1}, {5, 3}}
	if ev.Thorough() {
		rel = []int{1, 4, 19, 20, 21, 24, 28, -2, -1}
		sets = [][]int{{}, {8}, {8, 8}, {8, 12}}
		idPairs = [][2]uint16{{0, 1}, {5, 3}, {15, 0}}
	}
	ss := smallStreams(rel, sets)
	// one stream
	for _, a := range ss {
		for _, ca := range a.chunks {
			m := make([]int, len(ca))
			if !yield(Case{Streams: []StreamPlan{{ID: 2, Sizes: a.sizes, Chunks: ca}}, Merge: m}) {
				return
			}
		}
	}
	// two streams
	n := 0
	for _, a := range ss {
		for _, b := range ss {
			for _, ca := range a.chunks {
				for _, cb := range b.chunks {
					for _, m := range merges(len(ca), len(cb)) {
						ids := idPairs[n%len(idPairs)]
						n++
						c := Case{Streams: []StreamPlan{{ID: ids[0], Sizes: a.sizes, Chunks: ca}, {ID: ids[1], Sizes: b.sizes, Chunks: cb}},
							Merge: m, Cmd: n % 7, Late: n%16 == 0, AnswersToo: n%3 == 0, Wrapped: n%5 == 0, Deferred: n%4 == 1, Adaptor: n%11 == 4}
						if !yield(c) {
							return
						}
					}
				}
			}
		}
	}
}

// ---------------------------------------------------------------------------

const rule = "scenario = 1..16 streams (ids 0..15), per stream 0..6 request messages labelled (stream, seq) whose whole body is label-dependent filler " +
	"(bodies < 1000, 1000..1032, 1.5-6 KiB, rarely > 64 KiB), per stream a chunking of its concatenated bytes (whole messages; cuts at header offsets 1/4/19/20/21 and around the end; " +
	"random cuts; chunks spanning several messages; runs of 1-byte chunks) and a merge of all chunks keeping each stream's order (random, round robin, bursts, two alternating streams); " +
	"all chunks then EOF are fed to the in-memory SCTP backend (before the loop starts, or once its reader is parked) and consumed by diam.NewConn's own loop; the handler records " +
	"(MessageStream, header, payload) and replies with Answer(2001)+label via WriteTo; half of the messages are first forwarded with WriteToStream to another writer and stream, as a relay does, and half of the replies are written to the association itself (conn.Connection()) instead of the handler's Conn. Demanded: every delivery is byte-for-byte a sent message, reported on its origin stream; per stream all messages, " +
	"once, in order; exactly one reply per message recorded by the backend on the origin stream with the Diameter PPID; the loop closes the transport after EOF. " +
	"1 in 6 cases another association of the same process has died of a read error in mid-message just before, with complete messages still buffered for 1..6 of the case's stream numbers: nothing of it may show. " +
	"In half of the cases every third message is an answer (no R bit); in a third the association reaches NewConn behind an application's wrapper type (a counting MultistreamConn); in a third each reply is written while the NEXT message is being handled. " +
	"In a fifth of the cases the association is consumed not by diam.NewConn but by a stream-unaware application through the association's io.Reader / io.Writer adaptors as documented " +
	"(ResetCurrentStream, diam.ReadMessage over the bare io.Reader, CurrentStream() as the message's stream; the reply through Write: to the current read stream, or to the writer stream set with SetWriterStream when deferred); same demands. " +
	"non-trivial = >= 2 streams carrying messages and >= 1 message between whose first and last chunk a chunk of another stream arrives"

var prop = ev.Register(&ev.Prop[Case]{
	ID: "C19", Name: "multistream", Rule: rule,
	Gen: genCase, Run: runCase, Classify: classify, Attempts: 5,
	Sample: func(c Case) interface{} {
		return map[string]interface{}{"arrival": c.describe(), "late": c.Late}
	},
})

var small = ev.Register(&ev.Prop[Case]{
	ID: "C19", Name: "small-exhaustive",
	Rule: "EXHAUSTIVE: 1 stream, and 2 streams x {0, 1, 2} messages of 36 bytes x every split of each stream's bytes into <= 3 chunks at the cut positions " +
		"{1, 19, 20, 21, len-1, len} of each message (thorough: more positions, a second message length, a third id pair) x every merge of the two chunk sequences; same consumers (1 in 11 through the Read / Write adaptors) and oracle as the random test; " +
		"non-trivial = >= 2 streams carrying messages and >= 1 message between whose first and last chunk a chunk of the other stream arrives",
	Gen: genCase, Run: runCase, Classify: classify, Attempts: 5,
	Sample: func(c Case) interface{} {
		return map[string]interface{}{"arrival": c.describe(), "late": c.Late}
	},
})

func TestC19SmallExhaustive(t *testing.T) { small.Enumerate(t, true, enumerateSmall) }
func TestC19Random(t *testing.T)          { prop.Check(t, 2000, 200000) }
func TestC19Keep(t *testing.T)            { ev.RunKeep(t, "C19") }
func TestReplay(t *testing.T)             { ev.Replay(t) }
