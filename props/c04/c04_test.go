// C04 - AVP boundaries are taken from the Length fields only.
//
// Oracle: the reference framer (internal/refcodec) walks the body by each
// AVP's declared length rounded up to four; the tree the library decodes
// must be the same tree, and framing errors must be errors.
package c04

import (
	"bytes"
	"fmt"
	"testing"

	"github.com/fiorix/go-diameter/v4/diam"
	"pgregory.net/rapid"

	"verif/internal/ev"
	"verif/internal/gen"
	"verif/internal/refcodec"
)

type Case struct {
	Dict  gen.DictChoice   `json:"dict"`
	Flags uint8            `json:"flags"`
	Cmd   uint32           `json:"cmd"`
	App   uint32           `json:"app"`
	Nodes []*refcodec.Node `json:"nodes"`
}

func (c Case) wire() []byte {
	return refcodec.EncodeMessage(refcodec.Header{Version: 1, Flags: c.Flags, Code: c.Cmd, App: c.App, HopByHop: 1, EndToEnd: 2}, c.Nodes, false)
}

var prop = ev.Register(&ev.Prop[Case]{
	ID:   "C04",
	Name: "framing",
	Rule: "bodies assembled by the reference encoder from (code, flags, vendor, declared length, payload) records: fixed-width codes with payloads of every length 0..40, Address payloads of every family and length, payloads that are themselves encoded AVPs, nested to depth 4, declared lengths overridden with boundary values, about 1 in 300 (quick, up to 3 MiB) / 4000 (thorough, up to 16 MiB) AVPs at depth <= 2 with a payload of 64 KiB and more (sizes around powers of two); non-trivial = some container holds an AVP whose payload length differs from its type's natural width (or an Address / smuggling payload) followed by a further AVP; distinct by hash of the wire image + dictionary",
	Gen:  genCase,
	Run:  runCase,
	Classify: func(c Case) (bool, []string) {
		_, cat, err := c.Dict.Load()
		if err != nil {
			return false, []string{"dict-load-error"}
		}
		st := &stats{}
		classifyNodes(cat, c.App, c.Nodes, 1, st)
		cl := []string{"dict:" + c.Dict.Name}
		if st.oddFollowed {
			cl = append(cl, "odd-width-followed")
		}
		if st.override {
			cl = append(cl, "declared-override")
		}
		if st.maxDepth >= 3 {
			cl = append(cl, "depth>=3")
		}
		if st.smuggle {
			cl = append(cl, "smuggle-shape")
		}
		if st.addr {
			cl = append(cl, "address-any-family")
		}
		if st.vflag {
			cl = append(cl, "v-flag")
		}
		if st.huge {
			cl = append(cl, "avp>=64KiB")
		}
		if st.huge1M {
			cl = append(cl, "avp>=1MiB")
		}
		return st.oddFollowed, cl
	},
	Hash: func(c Case) uint64 { return ev.HashBytes(append(c.wire(), c.Dict.Name...)) },
})

type stats struct {
	oddFollowed, override, smuggle, addr, vflag bool
	huge, huge1M                                bool
	maxDepth                                    int
}

func classifyNodes(cat *gen.Catalog, app uint32, nodes []*refcodec.Node, depth int, st *stats) {
	if depth > st.maxDepth {
		st.maxDepth = depth
	}
	for i, n := range nodes {
		v := uint32(0)
		if n.Flags&0x80 != 0 {
			v = n.Vendor
			st.vflag = true
		}
		typ := cat.Resolve(app, n.Code, v)
		if n.Fill > 0 {
			st.huge = true
			if n.HeaderSize()+len(n.Payload)+n.Fill >= 1<<20 {
				st.huge1M = true
			}
		}
		if n.Declared != nil {
			st.override = true
		}
		if typ == gen.TAddress {
			st.addr = true
		}
		odd := false
		if w := gen.FixedWidth(typ); w != 0 && !n.Group && len(n.Payload) != w {
			odd = true
		}
		if typ == gen.TAddress || (gen.IsStringLike(typ) && len(n.Payload) >= 8) {
			odd = true
		}
		if gen.IsStringLike(typ) && len(n.Payload) >= 8 {
			st.smuggle = true
		}
		if odd && i+1 < len(nodes) {
			st.oddFollowed = true
		}
		if n.Group {
			classifyNodes(cat, app, n.Children, depth+1, st)
		}
	}
}

func genCase(t *rapid.T) Case {
	c := Case{Dict: gen.PickDict(t)}
	_, cat, err := c.Dict.Load()
	if err != nil {
		t.Fatalf("harness: %v", err)
	}
	c.Flags, c.Cmd, c.App, _, _ = cat.Header(t)
	n := rapid.IntRange(1, 6).Draw(t, "n")
	for i := 0; i < n; i++ {
		c.Nodes = append(c.Nodes, genNode(t, cat, c.App, 1))
	}
	return c
}

var fixedTypes = []string{gen.TUnsigned32, gen.TUnsigned64, gen.TInteger32, gen.TInteger64, gen.TFloat32, gen.TFloat64,
	gen.TEnumerated, gen.TTime, gen.TIPv4, gen.TIPv6}
var stringTypes = []string{gen.TOctetString, gen.TUTF8String, gen.TDiameterIdentity, gen.TDiameterURI, gen.TIPFilterRule, gen.TQoSFilterRule}

func pickEntry(t *rapid.T, cat *gen.Catalog, app uint32, types []string) (gen.Entry, bool) {
	var avail []string
	for _, ty := range types {
		if len(cat.EntriesFor(app, ty)) > 0 {
			avail = append(avail, ty)
		}
	}
	if len(avail) == 0 {
		return gen.Entry{}, false
	}
	es := cat.EntriesFor(app, rapid.SampledFrom(avail).Draw(t, "type"))
	return es[rapid.IntRange(0, len(es)-1).Draw(t, "entry")], true
}

func nodeFor(t *rapid.T, e gen.Entry) *refcodec.Node {
	n := &refcodec.Node{Code: e.Code, Flags: rapid.Byte().Draw(t, "flags") &^ 0x80, Vendor: e.Vendor}
	if e.Vendor != 0 {
		n.Flags |= 0x80
	}
	return n
}

func smallAVPBytes(t *rapid.T) []byte {
	// a payload that is itself a complete, well-formed AVP (or two)
	var b []byte
	k := rapid.IntRange(1, 2).Draw(t, "smuggled-n")
	for i := 0; i < k; i++ {
		code := rapid.SampledFrom([]uint32{264, 296, 268, 258, 260, 1, 999999}).Draw(t, "smuggled-code")
		b = append(b, refcodec.EncodeAVP(&refcodec.Node{Code: code, Flags: 0x40,
			Payload: rapid.SliceOfN(rapid.Byte(), 0, 9).Draw(t, "smuggled-payload")})...)
	}
	return b
}

// hugeSizes: payload sizes around the powers of two above 64 KiB up to what the 24-bit length
// fields of the AVP and of the message can still express.
var hugeSizes = []int{1<<16 - 8, 1 << 16, 1<<17 + 1, 1<<20 - 12, 1<<20 - 8, 1<<20 - 7, 1 << 20, 1<<20 + 5, 1<<21 - 8, 3 << 20, 1<<22 + 2, 1<<23 - 8, 1<<23 + 64, 1<<24 - 200}

func genNode(t *rapid.T, cat *gen.Catalog, app uint32, depth int) *refcodec.Node {
	var n *refcodec.Node
	k := rapid.IntRange(0, 99).Draw(t, "kind")
	// a payload of 64 KiB .. 16 MiB, rarely: rapid favours the ends of an integer range, so the
	// decision is taken from the residue of a wide draw, which it does not favour
	if hugeMod := uint64(ev.Pick(300, 4000)); depth <= 2 && rapid.Uint64().Draw(t, "huge")%hugeMod == hugeMod/2 {
		if rapid.Bool().Draw(t, "huge-undefined") {
			n = &refcodec.Node{Code: 3000000 + rapid.Uint32Range(0, 50).Draw(t, "ucode"), Flags: 0x40}
		} else if e, ok := pickEntry(t, cat, app, []string{gen.TOctetString, gen.TUTF8String}); ok {
			n = nodeFor(t, e)
		}
		if n != nil {
			n.Payload = rapid.SliceOfN(rapid.Byte(), 0, 12).Draw(t, "huge-head")
			n.Fill = rapid.SampledFrom(hugeSizes[:ev.Pick(10, len(hugeSizes))]).Draw(t, "huge-size")
			return n
		}
	}
	switch {
	case k < 40: // fixed-width type with a payload of any length
		if e, ok := pickEntry(t, cat, app, fixedTypes); ok {
			n = nodeFor(t, e)
			switch rapid.IntRange(0, 4).Draw(t, "payload-shape") {
			case 0:
				n.Payload = smallAVPBytes(t)
			case 4:
				// exactly the width the type expects, filled with a boundary pattern (all zero,
				// all ones, sign bit only, ...): the values a decoder is tempted to special-case
				w := gen.FixedWidth(cat.Resolve(app, e.Code, e.Vendor))
				if w == 0 {
					w = 4
				}
				n.Payload = make([]byte, w)
				switch rapid.IntRange(0, 5).Draw(t, "boundary-pattern") {
				case 1:
					for i := range n.Payload {
						n.Payload[i] = 0xFF
					}
				case 2:
					n.Payload[0] = 0x80
				case 3:
					n.Payload[w-1] = 1
				case 4:
					n.Payload[0] = 0x7F
					for i := 1; i < w; i++ {
						n.Payload[i] = 0xFF
					}
				case 5:
					n.Payload[0] = 0x83 // Time: the last second before the 2036 era change is 0xFFFFFFFF, 0x83aa7e80 is 1970
					copy(n.Payload[1:], []byte{0xaa, 0x7e, 0x80})
				}
			default:
				n.Payload = rapid.SliceOfN(rapid.Byte(), 0, 40).Draw(t, "payload")
			}
		}
	case k < 55: // Address of any family and length
		if e, ok := pickEntry(t, cat, app, []string{gen.TAddress}); ok {
			n = nodeFor(t, e)
			fam := rapid.SampledFrom([]uint16{0, 1, 2, 3, 8, 65534, 65535}).Draw(t, "family")
			ln := rapid.SampledFrom([]int{0, 1, 2, 3, 4, 5, 6, 8, 12, 14, 15, 16, 17, 18, 20}).Draw(t, "addr-len")
			n.Payload = refcodec.Address(fam, rapid.SliceOfN(rapid.Byte(), ln, ln).Draw(t, "addr"))
			if rapid.IntRange(0, 9).Draw(t, "short-addr") == 0 {
				n.Payload = n.Payload[:rapid.IntRange(0, 2).Draw(t, "addr-cut")]
			}
		}
	case k < 67: // string-like or undefined code whose payload looks like AVPs
		if rapid.Bool().Draw(t, "undefined") {
			n = &refcodec.Node{Code: 3000000 + rapid.Uint32Range(0, 50).Draw(t, "ucode"), Flags: rapid.Byte().Draw(t, "flags")}
			if n.Flags&0x80 != 0 {
				n.Vendor = gen.U32(t, "uvendor")
			}
		} else if e, ok := pickEntry(t, cat, app, stringTypes); ok {
			n = nodeFor(t, e)
		}
		if n != nil {
			if rapid.Bool().Draw(t, "smuggle") {
				n.Payload = smallAVPBytes(t)
			} else {
				n.Payload = rapid.SliceOfN(rapid.Byte(), 0, 40).Draw(t, "payload")
			}
		}
	case k < 87 && depth < 4: // grouped
		if e, ok := pickEntry(t, cat, app, []string{gen.TGrouped}); ok {
			n = nodeFor(t, e)
			n.Group = true
			m := rapid.IntRange(0, 4).Draw(t, "children")
			for i := 0; i < m; i++ {
				n.Children = append(n.Children, genNode(t, cat, app, depth+1))
			}
		}
	}
	if n == nil { // any code, any flags, any payload
		n = &refcodec.Node{Code: rapid.SampledFrom([]uint32{264, 296, 266, 257, 258, 260, 263, 55, 1, 8, 443, 456, 873, 999999}).Draw(t, "code"),
			Flags: rapid.Byte().Draw(t, "flags")}
		if n.Flags&0x80 != 0 {
			n.Vendor = rapid.SampledFrom([]uint32{0, 10415, 13, 99}).Draw(t, "vendor")
		}
		v := uint32(0)
		if n.Flags&0x80 != 0 {
			v = n.Vendor
		}
		if cat.Resolve(app, n.Code, v) == gen.TGrouped {
			n.Group = true // empty group, keeps the well-formed default
		} else {
			n.Payload = rapid.SliceOfN(rapid.Byte(), 0, 24).Draw(t, "payload")
		}
	}
	// rarely: override the declared length with a boundary value
	if rapid.IntRange(0, 11).Draw(t, "override") == 0 {
		natural := n.HeaderSize() + len(n.Body())
		d := rapid.SampledFrom([]int{0, 1, 7, 8, 9, 11, 12, 13, natural - 1, natural + 1, natural - 4, natural + 4,
			refcodec.Pad4(natural), natural + 8, 0xFFFFFF}).Draw(t, "declared")
		if d < 0 {
			d = 0
		}
		n.Declared = &d
	}
	return n
}

func mayFailTyped(cat *gen.Catalog, app uint32, recs []*refcodec.Record) bool {
	for _, r := range recs {
		v := uint32(0)
		if r.Flags&0x80 != 0 {
			v = r.Vendor
		}
		typ := cat.Resolve(app, r.Code, v)
		if typ == gen.TAddress {
			p := r.Payload
			if len(p) < 3 {
				return true
			}
			fam := uint16(p[0])<<8 | uint16(p[1])
			if fam == 0 || fam == 65535 || (fam == 1 && len(p) != 6) || (fam == 2 && len(p) != 18) {
				return true
			}
		}
		if r.IsGroup && mayFailTyped(cat, app, r.Children) {
			return true
		}
	}
	return false
}

func compare(cat *gen.Catalog, app uint32, want []*refcodec.Record, got []*diam.AVP, path string) string {
	if len(want) != len(got) {
		return fmt.Sprintf("%s: the reference framer finds %d AVPs, the library reports %d", path, len(want), len(got))
	}
	for i, w := range want {
		g := got[i]
		p := fmt.Sprintf("%s/%d(code %d)", path, i, w.Code)
		if g == nil {
			return p + ": nil AVP"
		}
		if g.Code != w.Code || g.Flags != w.Flags || g.VendorID != w.Vendor || g.Length != w.Declared {
			return fmt.Sprintf("%s: reference code=%d flags=%#x vendor=%d length=%d, library code=%d flags=%#x vendor=%d length=%d",
				p, w.Code, w.Flags, w.Vendor, w.Declared, g.Code, g.Flags, g.VendorID, g.Length)
		}
		if g.Data == nil {
			return p + ": decoded AVP has no data"
		}
		if w.IsGroup {
			gg, ok := g.Data.(*diam.GroupedAVP)
			if !ok {
				return fmt.Sprintf("%s: grouped in the dictionary but decoded as %T", p, g.Data)
			}
			if d := compare(cat, app, w.Children, gg.AVP, p); d != "" {
				return d
			}
			continue
		}
		v := uint32(0)
		if w.Flags&0x80 != 0 {
			v = w.Vendor
		}
		typ := cat.Resolve(app, w.Code, v)
		carries := gen.IsStringLike(typ) || (gen.FixedWidth(typ) != 0 && gen.FixedWidth(typ) == len(w.Payload))
		if typ == gen.TAddress && len(w.Payload) >= 3 {
			a := gen.Val{T: gen.TAddress, Fam: uint16(w.Payload[0])<<8 | uint16(w.Payload[1]), B: w.Payload[2:]}
			carries = !a.AddrAmbiguous()
		}
		if typ == gen.TTime && carries {
			// seconds since 1900 with the top bit clear denote 2036..2104: still a bijection on 32 bits
		}
		if carries {
			if s := g.Data.Serialize(); !bytes.Equal(s, w.Payload) {
				return fmt.Sprintf("%s: payload bytes differ: wire % x, decoded value carries % x", p, w.Payload, s)
			}
		}
	}
	return ""
}

func runCase(c Case) *ev.Failure {
	p, cat, err := c.Dict.Load()
	if err != nil {
		return ev.Failf("harness-dict", "%v", err)
	}
	wire := c.wire()
	if len(wire) >= 1<<24 {
		return nil
	}
	body := wire[refcodec.HeaderLen:]
	isGroup := func(code uint32, flags uint8, vendor uint32) bool {
		v := uint32(0)
		if flags&0x80 != 0 {
			v = vendor
		}
		return cat.Resolve(c.App, code, v) == gen.TGrouped
	}
	want, ferr := refcodec.FrameTree(body, isGroup)
	m, err := diam.ReadMessage(bytes.NewReader(wire), p)
	if ferr != nil {
		if isLenient(ferr) {
			return nil // the property text does not decide a last AVP without its padding
		}
		if err == nil {
			return ev.Failf("framing-error-accepted", "the reference framer rejects the body (%v) but ReadMessage returned a message with %d AVPs; wire % x", ferr, len(m.AVP), clip(wire))
		}
		return nil
	}
	if err != nil {
		if mayFailTyped(cat, c.App, want) {
			return nil
		}
		return ev.Failf("wellframed-rejected", "well-framed body rejected: %v; wire % x", err, clip(wire))
	}
	if d := compare(cat, c.App, want, m.AVP, ""); d != "" {
		return ev.Failf("tree-differs", "%s; wire % x", d, clip(wire))
	}
	return nil
}

func isLenient(err error) bool {
	for e := err; e != nil; {
		if e == refcodec.ErrLenientTail {
			return true
		}
		u, ok := e.(interface{ Unwrap() error })
		if !ok {
			return false
		}
		e = u.Unwrap()
	}
	return false
}

func clip(b []byte) []byte {
	if len(b) > 400 {
		return b[:400]
	}
	return b
}

func TestC04Framing(t *testing.T) { prop.Check(t, 10000, 500000) }

// Regression cases kept from shrunk failures and hand-written canonical inputs.
func TestC04Keep(t *testing.T) { ev.RunKeep(t, "C04") }

// The canonical smuggling input of the design probe: Vendor-Id (Unsigned32)
// declared with 16 payload bytes whose tail is a complete Origin-Host AVP.
func TestC04Canonical(t *testing.T) {
	evil := refcodec.EncodeAVP(&refcodec.Node{Code: 264, Flags: 0x40, Payload: []byte("evil")})
	c := Case{Dict: gen.DictChoice{Name: "default"}, Flags: 0x80, Cmd: 257, App: 0, Nodes: []*refcodec.Node{
		{Code: 266, Flags: 0x40, Payload: append([]byte{0, 0, 0, 0}, evil...)},
		{Code: 296, Flags: 0x40, Payload: []byte("realm")},
	}}
	prop.One(t, c)
}

func TestReplay(t *testing.T) { ev.Replay(t) }

// FuzzFraming (thorough tier): arbitrary bytes as the body of a CER under
// dict.Default, differential against the reference framer.
func FuzzFraming(f *testing.F) {
	seed := func(nodes ...*refcodec.Node) { f.Add(refcodec.EncodeAVPs(nodes), uint32(0)) }
	evil := refcodec.EncodeAVP(&refcodec.Node{Code: 264, Flags: 0x40, Payload: []byte("evil")})
	seed(&refcodec.Node{Code: 266, Flags: 0x40, Payload: append([]byte{0, 0, 0, 0}, evil...)}, &refcodec.Node{Code: 296, Flags: 0x40, Payload: []byte("realm")})
	seed(&refcodec.Node{Code: 260, Flags: 0x40, Group: true, Children: []*refcodec.Node{{Code: 266, Flags: 0x40, Payload: refcodec.U32(10415)}, {Code: 258, Flags: 0x40, Payload: refcodec.U32(4)}}})
	seed(&refcodec.Node{Code: 257, Flags: 0x40, Payload: refcodec.Address(8, []byte("123"))}, &refcodec.Node{Code: 55, Flags: 0x40, Payload: []byte{1, 2}})
	seed(&refcodec.Node{Code: 264, Flags: 0xc0, Vendor: 10415, Payload: []byte("x")}, &refcodec.Node{Code: 279, Flags: 0x40, Group: true, Children: []*refcodec.Node{{Code: 279, Group: true}}})
	f.Fuzz(func(t *testing.T, body []byte, app uint32) {
		if len(body) > 1<<14 {
			return
		}
		if app != 0 && app != 4 && app != 16777251 {
			app = 0
		}
		c := Case{Dict: gen.DictChoice{Name: "default"}, Flags: 0x80, Cmd: 257, App: app}
		p, cat, err := c.Dict.Load()
		if err != nil {
			t.Skip()
		}
		wire := append(refcodec.EncodeHeader(refcodec.Header{Version: 1, Flags: 0x80, Code: 257, App: app, Length: uint32(20 + len(body)), HopByHop: 1, EndToEnd: 2}), body...)
		isGroup := func(code uint32, flags uint8, vendor uint32) bool {
			v := uint32(0)
			if flags&0x80 != 0 {
				v = vendor
			}
			return cat.Resolve(app, code, v) == gen.TGrouped
		}
		want, ferr := refcodec.FrameTree(body, isGroup)
		m, err := diam.ReadMessage(bytes.NewReader(wire), p)
		if ferr != nil {
			if !isLenient(ferr) && err == nil {
				t.Fatalf("framing error accepted: %v\nwire % x", ferr, wire)
			}
			return
		}
		if err != nil {
			if mayFailTyped(cat, app, want) {
				return
			}
			t.Fatalf("well-framed body rejected: %v\nwire % x", err, wire)
		}
		if d := compare(cat, app, want, m.AVP, ""); d != "" {
			t.Fatalf("%s\nwire % x", d, wire)
		}
	})
}
