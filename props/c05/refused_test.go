package c05

import (
	"bytes"
	"fmt"
	"io"
	"testing"
	"time"

	"github.com/fiorix/go-diameter/v4/diam"
	"github.com/fiorix/go-diameter/v4/diam/dict"

	"verif/internal/ev"
	"verif/internal/memnet"
	"verif/internal/refcodec"
)

// A message the reader refuses, in the MIDDLE of a stream, for every way of being refused:
//
//   tiny-body:        a known command whose header declares 21..27 bytes (a body too short for an AVP header)
//   bad-avp:          a known command whose body is not a sequence of AVPs
//   unknown-command:  a command the dictionary does not define, whose body is the byte image of a
//                     complete, valid message (what an attacker or a newer peer would send)
//
// Read directly (ReadMessage in a loop): "consumes exactly the declared length of each message" -
// only a declared length below 20 is rejected without reading further - so after the refusal the
// stream stands at the next message. (For an unknown command the library stops after the header,
// and so does this check: nothing is demanded of the position there.) Read by a served connection:
// "bytes of one message are never attributed to another" - whatever the connection loop does after
// the refusal, no handler may be given a message that was not sent as a message.

type RefusedCase struct {
	Kind     string `json:"kind"`     // tiny-body | bad-avp | unknown-command
	Declared int    `json:"declared"` // tiny-body: the declared length (21..27)
	Consumer string `json:"consumer"` // direct | conn
	One      bool   `json:"one"`      // one byte per Read
	After    int    `json:"after"`    // ordinary messages behind the refused one
}

const smuggledHopByHop = 0xBAD0BAD0

func (c RefusedCase) refused() []byte {
	switch c.Kind {
	case "tiny-body":
		h := refcodec.EncodeHeader(refcodec.Header{Version: 1, Flags: 0x80, Code: 280, Length: uint32(c.Declared), HopByHop: 70, EndToEnd: 71})
		// the filler bytes are the start of a header (version 1, ...): what follows them would read as one
		return append(h, []byte{1, 0, 0, 20, 0x80, 0, 1}[:c.Declared-20]...)
	case "bad-avp":
		h := refcodec.EncodeHeader(refcodec.Header{Version: 1, Flags: 0x80, Code: 280, Length: 20 + 12, HopByHop: 70, EndToEnd: 71})
		return append(h, 0, 0, 1, 8, 0x40, 0, 0, 3, 1, 0, 0, 20) // an AVP declaring 3 bytes
	default:
		inner := refcodec.EncodeMessage(refcodec.Header{Version: 1, Flags: 0x80, Code: 280, HopByHop: smuggledHopByHop, EndToEnd: 1},
			[]*refcodec.Node{{Code: 264, Flags: 0x40, Payload: []byte("evil.example")}, {Code: 296, Flags: 0x40, Payload: []byte("example")}}, false)
		h := refcodec.EncodeHeader(refcodec.Header{Version: 1, Flags: 0x80, Code: 7654321, Length: uint32(20 + len(inner)), HopByHop: 70, EndToEnd: 71})
		return append(h, inner...)
	}
}

func runRefused(c RefusedCase) *ev.Failure {
	first := message(0, 8)
	odd := c.refused()
	all := append(append([]byte{}, first...), odd...)
	sent := [][]byte{first}
	for i := 0; i < c.After; i++ {
		m := message(10+i, 12)
		sent = append(sent, m)
		all = append(all, m...)
	}
	frags := [][]byte{all}
	if c.One {
		frags = nil
		for i := range all {
			frags = append(frags, all[i:i+1])
		}
	}
	desc := fmt.Sprintf("a %d-byte message that is refused (%s)", len(odd), c.Kind)
	if c.Consumer == "direct" {
		r := &fragReader{frags: frags}
		if _, err := diam.ReadMessage(r, dict.Default); err != nil {
			return ev.Failf("message-lost", "the first (ordinary) message was not returned: %v", err)
		}
		m, oddErr := diam.ReadMessage(r, dict.Default)
		if oddErr == nil && m != nil && c.Kind != "bad-avp" {
			// (how strict AVP decoding is belongs to other properties)
			return ev.Failf("refused-message-accepted", "%s was returned as a message", desc)
		}
		if c.Kind == "unknown-command" {
			return nil
		}
		if want := len(first) + len(odd); r.consumed != want {
			return ev.Failf("consumed-bytes", "%s, declared length %d (ReadMessage: %v): after it %d bytes of the stream were consumed, the declared lengths add up to %d", desc, len(odd), oddErr, r.consumed, want)
		}
		for i, orig := range sent[1:] {
			m, err := diam.ReadMessage(r, dict.Default)
			if err != nil {
				return ev.Failf("message-lost", "message %d behind %s was not returned: %v", i, desc, err)
			}
			if d := sameMessage(m, 10+i, 12, false, orig); d != "" {
				return ev.Failf("message-differs", "message %d behind %s %s", i, desc, d)
			}
		}
		return nil
	}
	mc := memnet.NewConn()
	got := make(chan *diam.Message, 64)
	mux := diam.NewServeMux()
	mux.HandleFunc("ALL", func(cn diam.Conn, m *diam.Message) {
		select {
		case got <- m:
		default:
		}
	})
	stop := make(chan struct{})
	defer close(stop)
	go func() {
		for {
			select {
			case <-mux.ErrorReports():
			case <-stop:
				return
			}
		}
	}()
	if _, err := diam.NewConn(mc, "", mux, dict.Default); err != nil {
		return ev.Failf("harness-conn", "%v", err)
	}
	mc.FeedWithErr(io.EOF, frags...)
	if !mc.WaitClosed(10 * time.Second) {
		mc.Close()
		return ev.Failf("not-closed", "the connection loop did not close the transport within 10 s of the end of the stream")
	}
	time.Sleep(5 * time.Millisecond)
	close(got)
	// what the handler saw must be messages that were sent, in the order sent, the first among them
	next := 0
	n := 0
	for m := range got {
		n++
		b, err := m.Serialize()
		found := false
		for ; next < len(sent) && !found; next++ {
			found = err == nil && bytes.Equal(b, sent[next])
		}
		if !found {
			what := "a message that was never sent"
			if m.Header.HopByHopID == smuggledHopByHop {
				what = "the BODY of the refused message, served as a message of its own"
			}
			return ev.Failf("conn-foreign-message", "connection loop, %s in the middle of the stream: the handler was given %s (command %d, hop-by-hop %#x, declared length %d): % x", desc, what, m.Header.CommandCode, m.Header.HopByHopID, m.Header.MessageLength, clip(b))
		}
	}
	if n == 0 {
		return ev.Failf("message-lost", "connection loop: the ordinary message in front of %s did not reach the handler", desc)
	}
	return nil
}

var refusedProp = ev.Register(&ev.Prop[RefusedCase]{
	ID: "C05", Name: "refused-message-in-mid-stream",
	Rule: "stream = an ordinary message, a refused one (a known command declaring 21..27 bytes; a known command with a body that is no AVP sequence; an undefined command whose body is the image of a complete valid message), 0..2 ordinary messages; whole or one byte per Read. " +
		"ReadMessage in a loop: the refused message is not returned as a message, exactly its declared length is consumed (not checked for the undefined command, where the library stops after the header) and the messages behind it are returned unchanged. Served connection (NewConn over the in-memory transport, then EOF): every message given to the handler is one that was sent, in order, starting with the first. Every case is non-trivial",
	Run: runRefused,
	Classify: func(c RefusedCase) (bool, []string) {
		return true, []string{"refused:" + c.Kind, "consumer:" + c.Consumer}
	},
})

func TestC05RefusedInMidStream(t *testing.T) {
	refusedProp.Enumerate(t, true, func(yield func(RefusedCase) bool) {
		var cases []RefusedCase
		for d := 21; d <= 27; d++ {
			cases = append(cases, RefusedCase{Kind: "tiny-body", Declared: d})
		}
		cases = append(cases, RefusedCase{Kind: "bad-avp"}, RefusedCase{Kind: "unknown-command"})
		for _, k := range cases {
			for _, consumer := range []string{"direct", "conn"} {
				for _, one := range []bool{false, true} {
					for after := 0; after <= 2; after++ {
						k.Consumer, k.One, k.After = consumer, one, after
						if !yield(k) {
							return
						}
					}
				}
			}
		}
	})
}
