package c05

import (
	"bytes"
	"fmt"
	"testing"
	"time"

	"github.com/fiorix/go-diameter/v4/diam"
	"github.com/fiorix/go-diameter/v4/diam/dict"
	"pgregory.net/rapid"

	"verif/internal/ev"
	"verif/internal/memnet"
)

// Several connections read concurrently by the library's connection loops,
// their fragments interleaved by the harness: after every fragment the
// harness waits until that connection's reader has consumed it and is parked
// again, so a reader can be left in the middle of a header (or body) while
// another connection reads whole messages. Bytes of one connection's message
// must never be attributed to another's.

type IStep struct {
	Conn int `json:"conn"`
	N    int `json:"n"` // bytes of that connection's stream delivered in this step
}

type ICase struct {
	Conns [][]int `json:"conns"` // per connection: filler sizes of its messages
	Order []IStep `json:"order"`
}

func (c ICase) streams() (msgs [][][]byte, all [][]byte) {
	seq := 0
	for _, fs := range c.Conns {
		var ms [][]byte
		var a []byte
		for _, f := range fs {
			m := message(seq, f)
			seq++
			ms = append(ms, m)
			a = append(a, m...)
		}
		msgs = append(msgs, ms)
		all = append(all, a)
	}
	return
}

func runInterleaved(c ICase) *ev.Failure {
	msgs, all := c.streams()
	n := len(c.Conns)
	conns := make([]*memnet.Conn, n)
	got := make([]chan *diam.Message, n)
	stop := make(chan struct{})
	defer close(stop)
	for i := 0; i < n; i++ {
		i := i
		conns[i] = memnet.NewConn()
		got[i] = make(chan *diam.Message, len(msgs[i])+8)
		mux := diam.NewServeMux()
		mux.HandleFunc("ALL", func(_ diam.Conn, m *diam.Message) { got[i] <- m })
		go func() {
			for {
				select {
				case <-mux.ErrorReports():
				case <-stop:
					return
				}
			}
		}()
		if _, err := diam.NewConn(conns[i], "", mux, dict.Default); err != nil {
			return ev.Failf("harness-conn", "%v", err)
		}
	}
	defer func() {
		for _, mc := range conns {
			mc.Close()
		}
	}()
	off := make([]int, n)
	for si, st := range c.Order {
		if st.Conn >= n || off[st.Conn] >= len(all[st.Conn]) {
			continue
		}
		k := st.N
		if off[st.Conn]+k > len(all[st.Conn]) {
			k = len(all[st.Conn]) - off[st.Conn]
		}
		conns[st.Conn].Feed(all[st.Conn][off[st.Conn] : off[st.Conn]+k])
		off[st.Conn] += k
		if !conns[st.Conn].WaitParked(5 * time.Second) {
			return ev.Failf("reader-stuck", "step %d: the reader of connection %d did not consume a %d-byte fragment and park again within 5 s", si, st.Conn, k)
		}
		if closed, _ := conns[st.Conn].Closed(); closed {
			return ev.Failf("valid-stream-rejected", "step %d: connection %d was closed while it was receiving a stream of valid messages (offset %d of %d)", si, st.Conn, off[st.Conn], len(all[st.Conn]))
		}
	}
	for i := 0; i < n; i++ {
		if off[i] < len(all[i]) {
			conns[i].Feed(all[i][off[i]:])
		}
		conns[i].FeedEOF()
	}
	for i := 0; i < n; i++ {
		if !conns[i].WaitClosed(10 * time.Second) {
			return ev.Failf("not-closed", "connection %d was not closed within 10 s of the end of its stream", i)
		}
		close(got[i])
		var recv [][]byte
		for m := range got[i] {
			b, _ := m.Serialize()
			recv = append(recv, b)
		}
		if len(recv) != len(msgs[i]) {
			return ev.Failf("interleaved-message-count", "connection %d was sent %d messages, its handler received %d", i, len(msgs[i]), len(recv))
		}
		for j := range recv {
			if !bytes.Equal(recv[j], msgs[i][j]) {
				return ev.Failf("interleaved-message-differs", "connection %d, message %d differs from what was sent on that connection: got % x..., sent % x...", i, j, clip(recv[j]), clip(msgs[i][j]))
			}
		}
	}
	return nil
}

var interleaved = ev.Register(&ev.Prop[ICase]{
	ID: "C05", Name: "interleaved",
	Rule: "2..4 connections served by the library's connection loops, each sent 1..4 messages (bodies tiny / around 1 KiB); the fragments of all streams are delivered in a generated global order, the harness waiting after each fragment until that connection's reader is parked again, so that readers sit in the middle of a header or body while other connections read whole messages; every connection must receive exactly its own messages; non-trivial = a fragment boundary strictly inside a message header or body while another connection still has data to come",
	Gen: func(t *rapid.T) ICase {
		var c ICase
		n := rapid.IntRange(2, 4).Draw(t, "conns")
		for i := 0; i < n; i++ {
			k := rapid.IntRange(1, 4).Draw(t, "messages")
			var fs []int
			for j := 0; j < k; j++ {
				if rapid.IntRange(0, 3).Draw(t, "big") == 0 {
					fs = append(fs, rapid.IntRange(976, 1020).Draw(t, "filler"))
				} else {
					fs = append(fs, rapid.IntRange(0, 40).Draw(t, "filler"))
				}
			}
			c.Conns = append(c.Conns, fs)
		}
		steps := rapid.IntRange(2, 24).Draw(t, "steps")
		for i := 0; i < steps; i++ {
			c.Order = append(c.Order, IStep{Conn: rapid.IntRange(0, n-1).Draw(t, "conn"),
				N: rapid.SampledFrom([]int{1, 5, 10, 19, 20, 21, 30, 44, 52, 60, 100, 1000, 1100}).Draw(t, "n")})
		}
		return c
	},
	Run: runInterleaved,
	Classify: func(c ICase) (bool, []string) {
		msgs, all := c.streams()
		off := make([]int, len(all))
		nt := false
		var cl []string
		inHeader := false
		for _, st := range c.Order {
			if st.Conn >= len(all) || off[st.Conn] >= len(all[st.Conn]) {
				continue
			}
			off[st.Conn] += st.N
			if off[st.Conn] >= len(all[st.Conn]) {
				continue
			}
			// position inside the current message?
			pos := off[st.Conn]
			for _, m := range msgs[st.Conn] {
				if pos < len(m) {
					break
				}
				pos -= len(m)
			}
			if pos > 0 {
				nt = true
				if pos < 20 {
					inHeader = true
				}
			}
		}
		if inHeader {
			cl = append(cl, "reader-left-inside-a-header")
		}
		cl = append(cl, fmt.Sprintf("conns:%d", len(c.Conns)))
		return nt, cl
	},
})

func TestC05Interleaved(t *testing.T) { interleaved.Check(t, 1500, 60000) }
