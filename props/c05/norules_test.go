package c05

import (
	"fmt"
	"testing"

	"github.com/fiorix/go-diameter/v4/diam"
	"github.com/fiorix/go-diameter/v4/diam/dict"

	"verif/internal/dicts"
	"verif/internal/ev"
	"verif/internal/refcodec"
)

// "Consumes exactly the declared length of each message ... bytes of one message are never
// attributed to another", for a message the reader REFUSES after its header was accepted: a
// command whose dictionary entry lists no AVP rules for that direction. Whether such a message is
// an error is not the point; how many bytes are gone afterwards is: the next ReadMessage must
// start at the next message.

const noRulesXML = `<?xml version="1.0" encoding="UTF-8"?>
<diameter>
 <application id="16779950" name="NoRules">
  <command code="8388701" short="NR" name="No-Rules">
   <request></request>
   <answer><rule avp="Result-Code" required="true" max="1"/></answer>
  </command>
 </application>
</diameter>`

type NoRulesCase struct {
	Body  int  `json:"body"`  // payload bytes of the refused message's only AVP
	One   bool `json:"one"`   // the reader hands out one byte per Read
	After int  `json:"after"` // ordinary messages behind it
}

var (
	noRulesParser *dict.Parser
	noRulesErr    error
)

func noRulesDict() (*dict.Parser, error) {
	if noRulesParser != nil || noRulesErr != nil {
		return noRulesParser, noRulesErr
	}
	emb, err := dicts.EmbeddedXML()
	if err != nil {
		noRulesErr = err
		return nil, err
	}
	base := ""
	for _, e := range emb {
		if e.Var == "baseXML" {
			base = e.XML
		}
	}
	noRulesParser, noRulesErr = dicts.Load(base, noRulesXML)
	return noRulesParser, noRulesErr
}

func runNoRules(c NoRulesCase) *ev.Failure {
	p, err := noRulesDict()
	if err != nil {
		return ev.Failf("harness-dict", "%v", err)
	}
	first := message(0, 8)
	odd := refcodec.EncodeMessage(refcodec.Header{Version: 1, Flags: 0x80, Code: 8388701, App: 16779950, HopByHop: 77, EndToEnd: 78},
		[]*refcodec.Node{{Code: 268, Flags: 0x40, Payload: refcodec.U32(2001)}, {Code: 3000001, Payload: fillerPayload(9, c.Body)}}, false)
	all := append(append([]byte{}, first...), odd...)
	var rest [][]byte
	for i := 0; i < c.After; i++ {
		m := message(10+i, 12)
		rest = append(rest, m)
		all = append(all, m...)
	}
	frags := [][]byte{all}
	if c.One {
		frags = nil
		for i := range all {
			frags = append(frags, all[i:i+1])
		}
	}
	r := &fragReader{frags: frags}
	if _, err := diam.ReadMessage(r, p); err != nil {
		return ev.Failf("message-lost", "the first (ordinary) message was not returned: %v", err)
	}
	_, oddErr := diam.ReadMessage(r, p)
	if want := len(first) + len(odd); r.consumed != want {
		return ev.Failf("consumed-bytes", "a %d-byte message of a command without request rules (ReadMessage: %v): after it %d bytes of the stream were consumed, the declared lengths add up to %d", len(odd), oddErr, r.consumed, want)
	}
	for i, orig := range rest {
		m, err := diam.ReadMessage(r, p)
		if err != nil {
			return ev.Failf("message-lost", "message %d behind the refused one was not returned: %v", i, err)
		}
		if d := sameMessage(m, 10+i, 12, false, orig); d != "" {
			return ev.Failf("message-differs", "message %d behind the refused one %s", i, d)
		}
	}
	return nil
}

var noRulesProp = ev.Register(&ev.Prop[NoRulesCase]{
	ID: "C05", Name: "refused-message-is-consumed-whole",
	Rule: "a private dictionary with a command whose request lists no AVP rules; stream = an ordinary message, a request of that command with a body of 0..2000 bytes, 0..2 ordinary messages, read with ReadMessage in a loop from a scripted reader (whole, or one byte per Read); demanded: after the second ReadMessage (whatever it returned) exactly the two declared lengths are consumed and the following messages are returned unchanged. Every case is non-trivial",
	Run:  runNoRules,
	Classify: func(c NoRulesCase) (bool, []string) {
		return true, []string{fmt.Sprintf("one-byte-reads:%v", c.One)}
	},
})

func TestC05RefusedMessageIsConsumedWhole(t *testing.T) {
	noRulesProp.Enumerate(t, true, func(yield func(NoRulesCase) bool) {
		for _, body := range []int{0, 1, 40, 1000, 2000} {
			for _, one := range []bool{false, true} {
				for after := 0; after <= 2; after++ {
					if !yield(NoRulesCase{Body: body, One: one, After: after}) {
						return
					}
				}
			}
		}
	})
}
