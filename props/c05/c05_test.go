// C05 - Message boundaries in a byte stream follow the declared message length.
package c05

import (
	"bufio"
	"bytes"
	"fmt"
	"io"
	"log"
	"net"
	"strings"
	"testing"
	"time"

	"github.com/fiorix/go-diameter/v4/diam"
	"github.com/fiorix/go-diameter/v4/diam/dict"
	"pgregory.net/rapid"

	"verif/internal/ev"
	"verif/internal/memnet"
	"verif/internal/refcodec"
)

func init() { log.SetOutput(io.Discard) }

// Tail describes how the stream ends after the complete messages.
type Tail struct {
	Kind     string `json:"kind"`               // clean | truncated | short-length
	Keep     int    `json:"keep,omitempty"`     // truncated: bytes of one more message that still arrive (1..len-1)
	Declared int    `json:"declared,omitempty"` // short-length: the declared message length 0..19
	Trailing int    `json:"trailing,omitempty"` // short-length: bytes following that header
	// UnknownCmd (truncated): the message that is cut short carries a command code no dictionary
	// knows - it would be refused anyway, but a stream that ends inside it has still not ended cleanly
	UnknownCmd bool `json:"unknown_cmd,omitempty"`
}

type Case struct {
	Fillers []int `json:"fillers"` // per message: payload size of the filler AVP
	Tail    Tail  `json:"tail"`
	Cuts    []int `json:"cuts"` // fragment sizes; the remainder forms the last fragment
	// ZeroEvery > 0 (scripted readers only): every n-th Read returns (0, nil) before data.
	ZeroEvery int    `json:"zero_every,omitempty"`
	Consumer  string `json:"consumer"` // direct (scripted reader) | conn | bytes.Reader | bytes.Buffer | strings.Reader (ReadMessage in a loop on an in-memory reader that knows its length)
	// EOFWithData: the read that delivers the last fragment also reports io.EOF (as io.Reader
	// allows; iotest.DataErrReader, TLS with a pending close_notify and in-memory transports do it).
	EOFWithData bool `json:"eof_with_data,omitempty"`
	// NoPad: every message ends with its last AVP unpadded and declares exactly that many bytes
	// (a peer that neither sends nor counts the final padding): the declared length is then not
	// a multiple of four, and it - not its rounding - is what delimits the message.
	NoPad bool `json:"no_pad,omitempty"`
	// conn consumer: the handler answers every message; the WriteFaultAt-th transport Write
	// (1-based, 0 = none) is refused with a temporary error. What happens to writes must not
	// change what is read.
	Answer       bool `json:"answer,omitempty"`
	WriteFaultAt int  `json:"write_fault_at,omitempty"`
}

// message i: a CER-shaped request whose Origin-State-Id carries i and whose
// filler (undefined code) sets the size.
func fillerPayload(i, filler int) []byte {
	pay := make([]byte, filler)
	for j := range pay {
		pay[j] = byte(i*31 + j)
	}
	return pay
}

func message(i, filler int) []byte { return messageP(i, filler, false) }

func messageP(i, filler int, noPad bool) []byte {
	return refcodec.EncodeMessage(refcodec.Header{Version: 1, Flags: 0x80, Code: 257, App: 0, HopByHop: uint32(i), EndToEnd: uint32(1000 + i)},
		[]*refcodec.Node{{Code: 278, Flags: 0x40, Payload: refcodec.U32(uint32(i))}, {Code: 3000001, Payload: fillerPayload(i, filler), NoPad: noPad}}, false)
}

// sameMessage compares a decoded message with the i-th message sent. Padded messages must
// re-serialise to the bytes sent; an unpadded one is compared field by field (the library pads
// when it serialises).
func sameMessage(m *diam.Message, i, filler int, noPad bool, orig []byte) string {
	if !noPad || filler%4 == 0 {
		b, err := m.Serialize()
		if err != nil || !bytes.Equal(b, orig) {
			return fmt.Sprintf("differs from what was sent (err %v): got % x..., sent % x...", err, clip(b), clip(orig))
		}
		return ""
	}
	if int(m.Header.MessageLength) != len(orig) || m.Header.HopByHopID != uint32(i) || m.Header.EndToEndID != uint32(1000+i) || m.Header.CommandCode != 257 {
		return fmt.Sprintf("header %+v, sent length %d hop-by-hop %d", m.Header, len(orig), i)
	}
	if len(m.AVP) != 2 || m.AVP[0].Code != 278 || m.AVP[1].Code != 3000001 {
		return fmt.Sprintf("%d AVPs, sent Origin-State-Id and a %d-byte filler", len(m.AVP), filler)
	}
	if !bytes.Equal(m.AVP[0].Data.Serialize(), refcodec.U32(uint32(i))) || !bytes.Equal(m.AVP[1].Data.Serialize(), fillerPayload(i, filler)) {
		return fmt.Sprintf("AVP values differ from what was sent (filler of %d bytes: got % x...)", filler, clip(m.AVP[1].Data.Serialize()))
	}
	return ""
}

func (c Case) stream() (msgs [][]byte, all []byte, extra int) {
	for i, f := range c.Fillers {
		m := messageP(i, f, c.NoPad)
		msgs = append(msgs, m)
		all = append(all, m...)
	}
	switch c.Tail.Kind {
	case "truncated":
		m := message(len(c.Fillers), 40)
		if c.Tail.UnknownCmd {
			m[5], m[6], m[7] = 0xff, 0xff, 0xfe
		}
		k := c.Tail.Keep
		if k < 1 {
			k = 1
		}
		if k > len(m)-1 {
			k = len(m) - 1
		}
		all = append(all, m[:k]...)
		extra = k
	case "short-length":
		h := refcodec.EncodeHeader(refcodec.Header{Version: 1, Flags: 0x80, Code: 257, Length: uint32(c.Tail.Declared), HopByHop: 7, EndToEnd: 8})
		all = append(all, h...)
		// what follows looks like one more complete message: it must not be delivered as one
		tail := message(99, 16)
		for len(tail) < c.Tail.Trailing {
			tail = append(tail, message(98, 16)...)
		}
		all = append(all, tail[:c.Tail.Trailing]...)
		extra = 20 + c.Tail.Trailing
	}
	return
}

func (c Case) fragments(all []byte) [][]byte {
	var out [][]byte
	off := 0
	for _, n := range c.Cuts {
		if n <= 0 || off >= len(all) {
			continue
		}
		if off+n > len(all) {
			n = len(all) - off
		}
		out = append(out, all[off:off+n])
		off += n
	}
	if off < len(all) {
		out = append(out, all[off:])
	}
	return out
}

// fragReader hands out the scripted fragments, never more than asked.
type fragReader struct {
	frags       [][]byte
	consumed    int
	eofWithData bool
	// zeroEvery > 0: every zeroEvery-th call returns (0, nil) before it hands out data - an
	// empty read, which the io.Reader contract tells callers to treat as "nothing happened"
	// (net.Pipe delivers one for an empty Write of the peer)
	zeroEvery int
	calls     int
}

func (r *fragReader) Read(p []byte) (int, error) {
	for len(r.frags) > 0 && len(r.frags[0]) == 0 {
		r.frags = r.frags[1:]
	}
	if len(r.frags) == 0 {
		return 0, io.EOF
	}
	if len(p) == 0 {
		return 0, nil
	}
	r.calls++
	if r.zeroEvery > 0 && r.calls%r.zeroEvery == 0 {
		return 0, nil
	}
	n := copy(p, r.frags[0])
	r.frags[0] = r.frags[0][n:]
	r.consumed += n
	if r.eofWithData && len(r.frags) == 1 && len(r.frags[0]) == 0 {
		return n, io.EOF
	}
	return n, nil
}

// connReader: the scripted fragments behind the net.Conn interface, for applications that call
// ReadMessage on a connection of their own (as examples/bare does).
type connReader struct{ *fragReader }

func (connReader) Write(b []byte) (int, error)      { return len(b), nil }
func (connReader) Close() error                     { return nil }
func (connReader) LocalAddr() net.Addr              { return memnet.Addr{Net: "tcp", Str: "10.0.0.1:3868"} }
func (connReader) RemoteAddr() net.Addr             { return memnet.Addr{Net: "tcp", Str: "10.0.0.2:40000"} }
func (connReader) SetDeadline(time.Time) error      { return nil }
func (connReader) SetReadDeadline(time.Time) error  { return nil }
func (connReader) SetWriteDeadline(time.Time) error { return nil }

// sizedReader wraps an in-memory reader that reports how much it still holds (Len), counting
// what has been consumed from that.
type sizedReader interface {
	io.Reader
	Len() int
}

func runDirect(c Case) *ev.Failure {
	msgs, all, _ := c.stream()
	r := &fragReader{frags: c.fragments(all), eofWithData: c.EOFWithData, zeroEvery: c.ZeroEvery}
	var rd io.Reader = r
	var sized sizedReader
	switch c.Consumer {
	case "bytes.Reader":
		sized = bytes.NewReader(all)
	case "bytes.Buffer":
		sized = bytes.NewBuffer(append([]byte{}, all...))
	case "strings.Reader":
		sized = strings.NewReader(string(all))
	}
	if sized != nil {
		rd = sized
	}
	buffered := false
	switch c.Consumer {
	case "net.Conn": // ReadMessage called by the application on a bare connection
		rd = connReader{r}
	case "bufio.Reader": // what every TCP / TLS connection of the library hands to ReadMessage
		rd, buffered = bufio.NewReader(r), true
	case "bufio.Reader16": // the smallest buffer bufio allows: smaller than a header
		rd, buffered = bufio.NewReaderSize(r, 16), true
	case "sctp": // ReadMessage called on a multi-stream association: every fragment is a chunk of stream 2
		be := memnet.NewSCTP()
		for _, f := range c.fragments(all) {
			if len(f) > 0 {
				be.Feed(memnet.Chunk{Stream: 2, Data: f})
			}
		}
		be.FeedEOF()
		sc := diam.NewVerifSCTPConn(be)
		defer diam.ReleaseVerifSCTPConn(sc)
		rd, buffered = sc, true
	}
	want := 0
	for i, orig := range msgs {
		m, err := diam.ReadMessage(rd, dict.Default)
		if sized != nil {
			r.consumed = len(all) - sized.Len()
		}
		if err != nil {
			return ev.Failf("message-lost", "message %d of %d (length %d) was not returned: %v (reader consumed %d of %d bytes)", i, len(msgs), len(orig), err, r.consumed, len(all))
		}
		want += len(orig)
		if d := sameMessage(m, i, c.Fillers[i], c.NoPad, orig); d != "" {
			return ev.Failf("message-differs", "message %d (declared length %d) %s", i, len(orig), d)
		}
		if !buffered && r.consumed != want { // a buffered reader reads ahead by design
			return ev.Failf("consumed-bytes", "after message %d the reader had been asked for %d bytes, the declared lengths add up to %d", i, r.consumed, want)
		}
	}
	m, err := diam.ReadMessage(rd, dict.Default)
	if sized != nil {
		r.consumed = len(all) - sized.Len()
	}
	switch c.Tail.Kind {
	case "clean":
		if err != io.EOF || m != nil {
			return ev.Failf("clean-end-not-eof", "stream ended between messages: ReadMessage returned (%v, %v), want (nil, io.EOF)", m, err)
		}
	case "truncated":
		if err == nil || m != nil {
			return ev.Failf("truncated-accepted", "stream ended %d bytes into a message: ReadMessage returned a message / no error (%v)", c.Tail.Keep, err)
		}
		if err == io.EOF {
			// a bare io.EOF reads as a clean end between two messages
			return ev.Failf("truncated-as-eof", "stream ended %d bytes into a message but ReadMessage reported a clean io.EOF (reader: %s)", c.Tail.Keep, c.Consumer)
		}
	case "short-length":
		if err == nil || m != nil {
			return ev.Failf("short-length-accepted", "declared message length %d (< 20): ReadMessage returned a message / no error", c.Tail.Declared)
		}
		if !buffered && r.consumed != want+20 {
			return ev.Failf("short-length-read-on", "declared message length %d (< 20) must be rejected without reading further: %d bytes were consumed after the header (error: %v)", c.Tail.Declared, r.consumed-want-20, err)
		}
	}
	return nil
}

func runConn(c Case) *ev.Failure {
	msgs, all, _ := c.stream()
	mc := memnet.NewConn()
	// the handler keeps the messages; they are serialised only after the connection has ended
	// (a message must not depend on what the transport delivers after it)
	got := make(chan *diam.Message, len(msgs)+8)
	mux := diam.NewServeMux()
	mux.HandleFunc("ALL", func(cn diam.Conn, m *diam.Message) {
		got <- m
		if c.Answer {
			m.Answer(2001).WriteTo(cn) // the outcome of the write is not the subject here
		}
	})
	if c.WriteFaultAt > 0 {
		calls := 0
		mc.WriteHook = func(b []byte, accept func([]byte)) (int, error) {
			calls++
			if calls == c.WriteFaultAt {
				return 0, &memnet.TempError{Msg: "scripted temporary write error"}
			}
			accept(b)
			return len(b), nil
		}
	}
	stop := make(chan struct{})
	defer close(stop)
	go func() {
		for {
			select {
			case <-mux.ErrorReports():
			case <-stop:
				return
			}
		}
	}()
	if _, err := diam.NewConn(mc, "", mux, dict.Default); err != nil {
		return ev.Failf("harness-conn", "%v", err)
	}
	mc.ErrWithData = c.EOFWithData
	mc.FeedWithErr(io.EOF, c.fragments(all)...)
	if !mc.WaitClosed(10 * time.Second) {
		mc.Close()
		return ev.Failf("not-closed", "the connection loop did not close the transport within 10 s of the end of the stream")
	}
	close(got)
	var recv []*diam.Message
	for m := range got {
		recv = append(recv, m)
	}
	if len(recv) != len(msgs) {
		return ev.Failf("conn-message-count", "%d complete messages were sent (tail: %s; answers: %v, write refused: #%d), the handler received %d", len(msgs), c.Tail.Kind, c.Answer, c.WriteFaultAt, len(recv))
	}
	for i := range msgs {
		if d := sameMessage(recv[i], i, c.Fillers[i], c.NoPad, msgs[i]); d != "" {
			return ev.Failf("message-differs", "connection loop: message %d (declared length %d) %s", i, len(msgs[i]), d)
		}
	}
	return nil
}

func clip(b []byte) []byte {
	if len(b) > 48 {
		return b[:48]
	}
	return b
}

func runCase(c Case) *ev.Failure {
	if c.Consumer == "conn" {
		return runConn(c)
	}
	return runDirect(c)
}

func classify(c Case) (bool, []string) {
	msgs, all, _ := c.stream()
	cl := []string{"consumer:" + c.Consumer, "tail:" + c.Tail.Kind}
	if c.ZeroEvery > 0 {
		cl = append(cl, "empty-reads-in-between")
	}
	if c.EOFWithData {
		cl = append(cl, "eof-with-last-fragment")
	}
	if c.NoPad {
		for _, f := range c.Fillers {
			if f%4 != 0 {
				cl = append(cl, "declared-length-not-multiple-of-4")
			}
		}
	}
	if c.Consumer == "conn" && c.Answer {
		cl = append(cl, "handler-answers")
		if c.WriteFaultAt > 0 && c.WriteFaultAt <= len(c.Fillers) {
			cl = append(cl, "write-refused-while-reading")
		}
	}
	// is there a read boundary strictly inside a message?
	bounds := map[int]bool{}
	off := 0
	for _, m := range msgs {
		off += len(m)
		bounds[off] = true
	}
	inside := false
	off = 0
	for _, f := range c.fragments(all) {
		off += len(f)
		if off < len(all) && !bounds[off] {
			inside = true
		}
		if len(f) == 1 {
			cl = append(cl, "1-byte-read")
		}
	}
	if inside {
		cl = append(cl, "split-inside-message")
	}
	for _, m := range msgs {
		switch b := len(m) - 20; {
		case b > 1024 && b < 1100:
			cl = append(cl, "body-just-above-1KiB")
		case b <= 1024 && b > 950:
			cl = append(cl, "body-just-below-1KiB")
		case b >= 1<<20:
			cl = append(cl, "message>=1MiB")
		case b > 60000:
			cl = append(cl, "body>60KB")
		}
	}
	cl = dedup(cl)
	return len(msgs) >= 2 && inside, cl
}

func dedup(s []string) []string {
	seen := map[string]bool{}
	var out []string
	for _, x := range s {
		if !seen[x] {
			seen[x] = true
			out = append(out, x)
		}
	}
	return out
}

func genCase(t *rapid.T) Case {
	var c Case
	n := rapid.IntRange(1, 6).Draw(t, "messages")
	for i := 0; i < n; i++ {
		var f int
		switch rapid.IntRange(0, 9).Draw(t, "size-class") {
		case 0, 1, 2, 3:
			f = rapid.IntRange(0, 40).Draw(t, "filler")
		case 4, 5, 6, 7: // body = 12 + pad4(8 + f): bodies 996..1040 around the 1 KiB buffer
			f = rapid.IntRange(976, 1020).Draw(t, "filler")
		case 8:
			f = rapid.IntRange(4000, 4200).Draw(t, "filler")
			if rapid.IntRange(0, 5).Draw(t, "megabytes") == 0 { // declared lengths with bits 20..23 set
				f = rapid.SampledFrom([]int{1<<20 - 60, 1<<20 - 40, 1 << 20, 1<<20 + 4096, 3<<20 + 8, 1<<23 + 24}).Draw(t, "filler-MiB")
			}
		default:
			f = rapid.IntRange(65000, 72000).Draw(t, "filler")
		}
		c.Fillers = append(c.Fillers, f)
	}
	switch rapid.IntRange(0, 3).Draw(t, "tail") {
	case 0, 1:
		c.Tail.Kind = "clean"
	case 2:
		c.Tail = Tail{Kind: "truncated", Keep: rapid.IntRange(1, 79).Draw(t, "keep"), UnknownCmd: rapid.IntRange(0, 3).Draw(t, "unknown-command") == 0}
		if rapid.Bool().Draw(t, "keep-on-avp-boundary") {
			c.Tail.Keep = rapid.SampledFrom([]int{20, 32}).Draw(t, "keep-boundary") // right after the header / after the first AVP
		}
	default:
		c.Tail = Tail{Kind: "short-length", Declared: rapid.IntRange(0, 19).Draw(t, "declared"), Trailing: rapid.IntRange(0, 120).Draw(t, "trailing")}
	}
	c.Consumer = rapid.SampledFrom([]string{"direct", "direct", "conn", "conn", "bytes.Reader", "bytes.Buffer", "strings.Reader", "bufio.Reader", "bufio.Reader16", "net.Conn", "sctp"}).Draw(t, "consumer")
	c.EOFWithData = rapid.IntRange(0, 2).Draw(t, "eof-with-data") == 0
	c.NoPad = rapid.IntRange(0, 3).Draw(t, "no-pad") == 0
	if c.Consumer != "conn" && rapid.IntRange(0, 5).Draw(t, "empty-reads") == 0 {
		c.ZeroEvery = rapid.IntRange(2, 5).Draw(t, "zero-every")
	}
	if c.Consumer == "conn" && rapid.Bool().Draw(t, "answer") {
		c.Answer = true
		if rapid.Bool().Draw(t, "write-fault") {
			c.WriteFaultAt = rapid.IntRange(1, n).Draw(t, "write-fault-at")
		}
	}
	_, all, _ := c.stream()
	switch rapid.IntRange(0, 3).Draw(t, "fragmentation") {
	case 0: // everything in one segment
	case 1: // runs of 1-byte reads and a few larger fragments
		k := rapid.IntRange(1, 60).Draw(t, "n-cuts")
		for i := 0; i < k; i++ {
			if rapid.Bool().Draw(t, "one") {
				c.Cuts = append(c.Cuts, 1)
			} else {
				c.Cuts = append(c.Cuts, rapid.IntRange(1, 1+len(all)/2).Draw(t, "cut"))
			}
		}
	default:
		k := rapid.IntRange(1, 12).Draw(t, "n-cuts")
		for i := 0; i < k; i++ {
			c.Cuts = append(c.Cuts, rapid.SampledFrom([]int{1, 3, 19, 20, 21, 32, 1000, 1023, 1024, 1025, 1044, 4096, 7, 500}).Draw(t, "cut"))
		}
	}
	return c
}

var prop = ev.Register(&ev.Prop[Case]{
	ID: "C05", Name: "stream",
	Rule: "1..6 messages with bodies around the 1 KiB pooled buffer (996..1040), tiny, ~4 KiB, ~70 KB and (rarely) 1..8 MiB, concatenated; tail = clean end / truncation 1..79 bytes into a further message (1 in 4: one with an unknown command code) / a header declaring length 0..19 followed by 0..120 bytes that look like further messages; fragmentation = one segment / runs of 1-byte reads / boundary-sized fragments, 1 in 6 scripted readers also return an empty read (0, nil) every 2nd..5th call; 1 in 4 cases with every message's last AVP unpadded and the declared length exact (not a multiple of 4); consumed by ReadMessage in a loop on a scripted reader (which counts the bytes asked for), on bytes.Reader / bytes.Buffer / strings.Reader (which know how much they hold), through a bufio.Reader of the default and of the smallest size, on a bare net.Conn (scripted; counts the bytes asked for), and by the library's connection loop, whose handler optionally answers every message while one transport write is refused with a temporary error; non-trivial = >=2 messages and a read boundary strictly inside a message ReadMessage is also called directly on a multi-stream association (in-memory SCTP backend, every fragment a chunk of one stream, then EOF): same messages, same end-of-stream outcomes.",
	Gen:  genCase, Run: runCase, Classify: classify,
})

func TestC05Stream(t *testing.T) { prop.Check(t, 3000, 100000) }

// Every single split point, and every pair of split points, of short streams.
func TestC05ExhaustiveSplits(t *testing.T) {
	bases := []Case{
		{Fillers: []int{0, 3}, Tail: Tail{Kind: "clean"}},
		{Fillers: []int{1, 0, 2}, Tail: Tail{Kind: "truncated", Keep: 21}},
		{Fillers: []int{2}, Tail: Tail{Kind: "truncated", Keep: 33, UnknownCmd: true}},
		{Fillers: []int{2, 1}, Tail: Tail{Kind: "short-length", Declared: 19, Trailing: 44}},
		{Fillers: []int{5}, Tail: Tail{Kind: "short-length", Declared: 0, Trailing: 8}},
	}
	prop.Enumerate(t, true, func(yield func(Case) bool) {
		for _, consumer := range []string{"direct", "conn", "net.Conn", "sctp"} {
			for _, b := range bases {
				_, all, _ := b.stream()
				for i := 1; i < len(all); i++ {
					for _, ewd := range []bool{false, true} {
						c := b
						c.Consumer = consumer
						c.Cuts = []int{i}
						c.EOFWithData = ewd
						if !yield(c) {
							return
						}
					}
				}
				if consumer == "conn" && !ev.Thorough() {
					continue // pairs through the connection loop only in the thorough tier
				}
				for i := 1; i < len(all); i++ {
					for j := 1; i+j < len(all); j++ {
						c := b
						c.Consumer = consumer
						c.Cuts = []int{i, j}
						if !yield(c) {
							return
						}
					}
				}
			}
		}
	})
}

func TestC05Keep(t *testing.T) { ev.RunKeep(t, "C05") }
func TestReplay(t *testing.T)  { ev.Replay(t) }

var _ = fmt.Sprint
