package c05

import (
	"bytes"
	"testing"
	"time"

	"github.com/fiorix/go-diameter/v4/diam"
	"github.com/fiorix/go-diameter/v4/diam/dict"
	"pgregory.net/rapid"

	"verif/internal/ev"
	"verif/internal/memnet"
	"verif/internal/refcodec"
)

// A server with a ReadTimeout: the transport delivers part of a message,
// then nothing until the read deadline has passed, then the rest. Whatever
// the library does with the timeout, the handler may only ever see messages
// that were sent, in order - never bytes of one message taken for another.
// The first message is crafted so that its bytes from offset 12 on are a
// complete valid message of their own (a reader that drops the 12 header
// bytes it had consumed and starts over would deliver that phantom).

type TCase struct {
	Split   int   `json:"split"`   // bytes of the first message delivered before the pause (1..len-1)
	Fillers []int `json:"fillers"` // further messages after the first
	Crafted bool  `json:"crafted"` // first message = the crafted one
}

func craftedMessage() []byte {
	tail := refcodec.EncodeAVPs([]*refcodec.Node{{Code: 264, Flags: 0x40, Payload: []byte("peer.example")}, {Code: 296, Flags: 0x40, Payload: []byte("example")}})
	total := 20 + 12 + len(tail)
	phantomLen := uint32(total - 12)
	// hop-by-hop = version 1 + 24-bit length of the phantom; end-to-end = flags 0x80 + command 280
	h := refcodec.Header{Version: 1, Flags: 0x80, Code: 280, App: 0, HopByHop: 0x01000000 | phantomLen, EndToEnd: 0x80000118}
	first := &refcodec.Node{Code: 0, Flags: 0, Payload: []byte{0xca, 0xfe, 0xba, 0xbe}} // phantom: application 0, hop-by-hop 0x0000000c, end-to-end cafebabe
	return refcodec.EncodeMessage(h, []*refcodec.Node{first, {Code: 264, Flags: 0x40, Payload: []byte("peer.example")}, {Code: 296, Flags: 0x40, Payload: []byte("example")}}, false)
}

func runTimeout(c TCase) *ev.Failure {
	var sent [][]byte
	if c.Crafted {
		sent = append(sent, craftedMessage())
	} else {
		sent = append(sent, message(0, 24))
	}
	for i, f := range c.Fillers {
		sent = append(sent, message(i+1, f))
	}
	mc := memnet.NewConn()
	lis := memnet.NewListener(2)
	got := make(chan *diam.Message, len(sent)+8)
	mux := diam.NewServeMux()
	mux.HandleFunc("ALL", func(_ diam.Conn, m *diam.Message) { got <- m })
	stop := make(chan struct{})
	defer close(stop)
	go func() {
		for {
			select {
			case <-mux.ErrorReports():
			case <-stop:
				return
			}
		}
	}()
	srv := &diam.Server{Handler: mux, Dict: dict.Default, ReadTimeout: 15 * time.Millisecond}
	go srv.Serve(lis)
	defer lis.Close()
	lis.Push(mc)
	split := c.Split
	if split < 1 {
		split = 1
	}
	if split > len(sent[0])-1 {
		split = len(sent[0]) - 1
	}
	mc.Feed(sent[0][:split])
	// nothing more until a read has ended with a deadline error (or the connection was closed)
	if !mc.WaitTimeouts(1, 5*time.Second) {
		mc.Close()
		return ev.Failf("harness-timeout", "no read deadline expired within 5 s although ReadTimeout is 15 ms")
	}
	rest := append([]byte{}, sent[0][split:]...)
	for _, m := range sent[1:] {
		rest = append(rest, m...)
	}
	mc.Feed(rest)
	mc.FeedEOF()
	if !mc.WaitClosed(10 * time.Second) {
		mc.Close()
		return ev.Failf("not-closed", "the connection was not closed within 10 s of the end of the stream")
	}
	close(got)
	i := 0
	for m := range got {
		b, _ := m.Serialize()
		if i >= len(sent) || !bytes.Equal(b, sent[i]) {
			return ev.Failf("phantom-message-after-read-timeout", "after a read deadline expired %d bytes into message 0, the handler received as message %d something that was never sent: header %s, % x... (sent %d messages; message 0 starts % x...)",
				split, i, m.Header, clip(b), len(sent), clip(sent[0]))
		}
		i++
	}
	return nil
}

var timeoutProp = ev.Register(&ev.Prop[TCase]{
	ID: "C05", Name: "read-timeout",
	Rule: "a Server with ReadTimeout 15 ms receives the first k bytes of a message, then nothing until a read has ended with a deadline error, then the rest of the stream; the messages the handler receives must be a prefix of the messages sent, byte for byte (bytes of one message are never attributed to another); the first message is optionally crafted so that its bytes from offset 12 form a complete valid message; non-trivial = the pause falls inside the 20-byte header",
	Gen: func(t *rapid.T) TCase {
		c := TCase{Crafted: rapid.IntRange(0, 3).Draw(t, "crafted") != 0}
		c.Split = rapid.SampledFrom([]int{12, 12, 12, 1, 4, 8, 16, 19, 20, 21, 30, 40}).Draw(t, "split")
		n := rapid.IntRange(0, 3).Draw(t, "more")
		for i := 0; i < n; i++ {
			c.Fillers = append(c.Fillers, rapid.IntRange(0, 60).Draw(t, "filler"))
		}
		return c
	},
	Run:      runTimeout,
	Classify: func(c TCase) (bool, []string) { return c.Split < 20, nil },
})

func TestC05ReadTimeout(t *testing.T) {
	// the crafted message must itself be valid, and so must its tail from offset 12
	m := craftedMessage()
	if _, err := diam.ReadMessage(bytes.NewReader(m), dict.Default); err != nil {
		t.Fatalf("harness: crafted message invalid: %v", err)
	}
	if _, err := diam.ReadMessage(bytes.NewReader(m[12:]), dict.Default); err != nil {
		t.Fatalf("harness: crafted tail invalid: %v", err)
	}
	timeoutProp.Check(t, 60, 2000)
}

// ---------------------------------------------------------------------------
// An active peer under a read timeout: its segments never end on a message boundary, so the
// connection's read buffer is never empty between two messages; no single message takes
// anywhere near ReadTimeout to arrive, but the whole stream takes longer than ReadTimeout.
// Every message must reach the handler and the connection must stay open until the peer closes.

type ACase struct {
	Messages int `json:"messages"` // 6..10
	Shift    int `json:"shift"`    // how far (bytes) every segment boundary is moved into the next message
	GapMs    int `json:"gap_ms"`   // pause between segments
}

const activeReadTimeout = 300 * time.Millisecond

func runActiveOnce(c ACase) *ev.Failure {
	var all []byte
	var sent [][]byte
	var ends []int
	for i := 0; i < c.Messages; i++ {
		m := message(i, 24+i%3*4)
		sent = append(sent, m)
		all = append(all, m...)
		ends = append(ends, len(all))
	}
	mc := memnet.NewConn()
	lis := memnet.NewListener(2)
	got := make(chan *diam.Message, len(sent)+8)
	mux := diam.NewServeMux()
	mux.HandleFunc("ALL", func(_ diam.Conn, m *diam.Message) { got <- m })
	stop := make(chan struct{})
	defer close(stop)
	go func() {
		for {
			select {
			case <-mux.ErrorReports():
			case <-stop:
				return
			}
		}
	}()
	srv := &diam.Server{Handler: mux, Dict: dict.Default, ReadTimeout: activeReadTimeout}
	go srv.Serve(lis)
	defer lis.Close()
	lis.Push(mc)
	off := 0
	for i := range ends {
		cut := ends[i] + c.Shift // inside the next message
		if i == len(ends)-1 || cut >= len(all) {
			cut = len(all)
		}
		if closed, _ := mc.Closed(); closed {
			return ev.Failf("active-peer-closed", "the server closed the connection of a peer that had been sending a segment every %d ms (ReadTimeout %v): %d of %d segments sent, %d messages handled", c.GapMs, activeReadTimeout, i, len(ends), len(got))
		}
		mc.Feed(all[off:cut])
		off = cut
		if off >= len(all) {
			break
		}
		time.Sleep(time.Duration(c.GapMs) * time.Millisecond)
	}
	deadline := time.Now().Add(2 * time.Second)
	for len(got) < len(sent) && time.Now().Before(deadline) {
		if closed, _ := mc.Closed(); closed {
			break
		}
		time.Sleep(time.Millisecond)
	}
	n := len(got)
	closed, _ := mc.Closed()
	mc.FeedEOF()
	mc.WaitClosed(5 * time.Second)
	mc.Close()
	if n != len(sent) || closed {
		return ev.Failf("active-peer-closed", "a peer sent %d messages in segments that end %d bytes into the next message, one every %d ms (ReadTimeout %v, %d ms in all): %d reached the handler, connection closed by the server: %v", len(sent), c.Shift, c.GapMs, activeReadTimeout, c.GapMs*(len(sent)-1), n, closed)
	}
	close(got)
	i := 0
	for m := range got {
		if b, _ := m.Serialize(); !bytes.Equal(b, sent[i]) {
			return ev.Failf("message-differs", "active peer under a read timeout: message %d differs from what was sent", i)
		}
		i++
	}
	return nil
}

var activeProp = ev.Register(&ev.Prop[ACase]{
	ID: "C05", Name: "active-peer-under-read-timeout",
	Rule: "a Server with ReadTimeout 300 ms; a peer sends 6..10 messages in segments whose ends lie 1..30 bytes inside the next message, one segment every 50..70 ms (the stream takes longer than ReadTimeout, no message takes longer than 2 gaps); every message must reach the handler unchanged and the server must not close the connection; a failure must reproduce 3 times (wall-clock); every case non-trivial",
	Gen: func(t *rapid.T) ACase {
		return ACase{Messages: rapid.IntRange(6, 10).Draw(t, "messages"), Shift: rapid.SampledFrom([]int{1, 5, 19, 20, 21, 30}).Draw(t, "shift"), GapMs: rapid.IntRange(50, 70).Draw(t, "gap-ms")}
	},
	Run: func(c ACase) *ev.Failure {
		f := runActiveOnce(c)
		for i := 0; f != nil && i < 2; i++ {
			if runActiveOnce(c) == nil {
				return nil
			}
		}
		return f
	},
	Classify: func(c ACase) (bool, []string) { return true, nil },
	Attempts: 1,
})

func TestC05ActivePeerUnderReadTimeout(t *testing.T) { activeProp.Check(t, 5, 160) }
