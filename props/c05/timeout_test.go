package c05

import (
	"bytes"
	"testing"
	"time"

	"github.com/fiorix/go-diameter/v4/diam"
	"github.com/fiorix/go-diameter/v4/diam/dict"
	"pgregory.net/rapid"

	"verif/internal/ev"
	"verif/internal/memnet"
	"verif/internal/refcodec"
)

// A server with a ReadTimeout: the transport delivers part of a message,
// then nothing until the read deadline has passed, then the rest. Whatever
// the library does with the timeout, the handler may only ever see messages
// that were sent, in order - never bytes of one message taken for another.
// The first message is crafted so that its bytes from offset 12 on are a
// complete valid message of their own (a reader that drops the 12 header
// bytes it had consumed and starts over would deliver that phantom).

type TCase struct {
	Split   int   `json:"split"`   // bytes of the first message delivered before the pause (1..len-1)
	Fillers []int `json:"fillers"` // further messages after the first
	Crafted bool  `json:"crafted"` // first message = the crafted one
}

func craftedMessage() []byte {
	tail := refcodec.EncodeAVPs([]*refcodec.Node{{Code: 264, Flags: 0x40, Payload: []byte("peer.example")}, {Code: 296, Flags: 0x40, Payload: []byte("example")}})
	total := 20 + 12 + len(tail)
	phantomLen := uint32(total - 12)
	// hop-by-hop = version 1 + 24-bit length of the phantom; end-to-end = flags 0x80 + command 280
	h := refcodec.Header{Version: 1, Flags: 0x80, Code: 280, App: 0, HopByHop: 0x01000000 | phantomLen, EndToEnd: 0x80000118}
	first := &refcodec.Node{Code: 0, Flags: 0, Payload: []byte{0xca, 0xfe, 0xba, 0xbe}} // phantom: application 0, hop-by-hop 0x0000000c, end-to-end cafebabe
	return refcodec.EncodeMessage(h, []*refcodec.Node{first, {Code: 264, Flags: 0x40, Payload: []byte("peer.example")}, {Code: 296, Flags: 0x40, Payload: []byte("example")}}, false)
}

func runTimeout(c TCase) *ev.Failure {
	var sent [][]byte
	if c.Crafted {
		sent = append(sent, craftedMessage())
	} else {
		sent = append(sent, message(0, 24))
	}
	for i, f := range c.Fillers {
		sent = append(sent, message(i+1, f))
	}
	mc := memnet.NewConn()
	lis := memnet.NewListener(2)
	got := make(chan *diam.Message, len(sent)+8)
	mux := diam.NewServeMux()
	mux.HandleFunc("ALL", func(_ diam.Conn, m *diam.Message) { got <- m })
	stop := make(chan struct{})
	defer close(stop)
	go func() {
		for {
			select {
			case <-mux.ErrorReports():
			case <-stop:
				return
			}
		}
	}()
	srv := &diam.Server{Handler: mux, Dict: dict.Default, ReadTimeout: 15 * time.Millisecond}
	go srv.Serve(lis)
	defer lis.Close()
	lis.Push(mc)
	split := c.Split
	if split < 1 {
		split = 1
	}
	if split > len(sent[0])-1 {
		split = len(sent[0]) - 1
	}
	mc.Feed(sent[0][:split])
	// nothing more until a read has ended with a deadline error (or the connection was closed)
	if !mc.WaitTimeouts(1, 5*time.Second) {
		mc.Close()
		return ev.Failf("harness-timeout", "no read deadline expired within 5 s although ReadTimeout is 15 ms")
	}
	rest := append([]byte{}, sent[0][split:]...)
	for _, m := range sent[1:] {
		rest = append(rest, m...)
	}
	mc.Feed(rest)
	mc.FeedEOF()
	if !mc.WaitClosed(10 * time.Second) {
		mc.Close()
		return ev.Failf("not-closed", "the connection was not closed within 10 s of the end of the stream")
	}
	close(got)
	i := 0
	for m := range got {
		b, _ := m.Serialize()
		if i >= len(sent) || !bytes.Equal(b, sent[i]) {
			return ev.Failf("phantom-message-after-read-timeout", "after a read deadline expired %d bytes into message 0, the handler received as message %d something that was never sent: header %s, % x... (sent %d messages; message 0 starts % x...)",
				split, i, m.Header, clip(b), len(sent), clip(sent[0]))
		}
		i++
	}
	return nil
}

var timeoutProp = ev.Register(&ev.Prop[TCase]{
	ID: "C05", Name: "read-timeout",
	Rule: "a Server with ReadTimeout 15 ms receives the first k bytes of a message, then nothing until a read has ended with a deadline error, then the rest of the stream; the messages the handler receives must be a prefix of the messages sent, byte for byte (bytes of one message are never attributed to another); the first message is optionally crafted so that its bytes from offset 12 form a complete valid message; non-trivial = the pause falls inside the 20-byte header",
	Gen: func(t *rapid.T) TCase {
		c := TCase{Crafted: rapid.IntRange(0, 3).Draw(t, "crafted") != 0}
		c.Split = rapid.SampledFrom([]int{12, 12, 12, 1, 4, 8, 16, 19, 20, 21, 30, 40}).Draw(t, "split")
		n := rapid.IntRange(0, 3).Draw(t, "more")
		for i := 0; i < n; i++ {
			c.Fillers = append(c.Fillers, rapid.IntRange(0, 60).Draw(t, "filler"))
		}
		return c
	},
	Run:      runTimeout,
	Classify: func(c TCase) (bool, []string) { return c.Split < 20, nil },
})

func TestC05ReadTimeout(t *testing.T) {
	// the crafted message must itself be valid, and so must its tail from offset 12
	m := craftedMessage()
	if _, err := diam.ReadMessage(bytes.NewReader(m), dict.Default); err != nil {
		t.Fatalf("harness: crafted message invalid: %v", err)
	}
	if _, err := diam.ReadMessage(bytes.NewReader(m[12:]), dict.Default); err != nil {
		t.Fatalf("harness: crafted tail invalid: %v", err)
	}
	timeoutProp.Check(t, 60, 2000)
}
