package c02

// (c) once more, with TWO dictionaries in one process. A process may hold several dict.Parser
// objects (a client and a server with their own Dict, two releases of a vendor application, a test
// dictionary next to dict.Default); every message carries its own. Two generated dictionaries
// define the SAME names for the SAME application id with another code, vendor id, M bit and data
// type (and at another level: in the application or only in the base application). One history
// of NewAVP / AddAVP / InsertAVP / Marshal steps is performed on two messages, one per
// dictionary, interleaved step by step; the reference image of each message is computed from the
// definitions of THAT message's dictionary (resolved here from the generated document: own
// application, then base). Reference-encoded images are also read and unmarshalled under either
// dictionary.

import (
	"bytes"
	"fmt"
	"strings"
	"sync"
	"testing"

	"github.com/fiorix/go-diameter/v4/diam"
	"github.com/fiorix/go-diameter/v4/diam/dict"
	"pgregory.net/rapid"

	"verif/internal/ev"
	"verif/internal/gen"
	"verif/internal/refcodec"
	"verif/internal/refdict"
)

const tdCmd = 300

// the names the struct tags use, by the Go type of the field that carries them
var (
	tdStringNames = []string{"TD-Host", "TD-Inner-Note"}
	tdUintNames   = []string{"TD-State", "TD-Inner-Count", "TD-Ids"}
	tdGroupName   = "TD-Box"
	// data types a string / uint32 field converts to without loss
	tdStringTypes = []string{gen.TUTF8String, gen.TOctetString, gen.TDiameterIdentity, gen.TDiameterURI, gen.TIPFilterRule}
	tdUintTypes   = []string{gen.TUnsigned32, gen.TUnsigned32, gen.TUnsigned64, gen.TInteger64}
	tdApps        = []uint32{4, 16777238, 1000, 7}
	tdRuleAVP     = gen.DictAVP{Name: "TD-Rule", Code: 8900, Type: gen.TUnsigned32}
)

type tdInner struct {
	Count uint32 `avp:"TD-Inner-Count"`
	Note  string `avp:"TD-Inner-Note"`
}

type tdMarshalled struct {
	Host  string   `avp:"TD-Host"`
	State uint32   `avp:"TD-State"`
	Box   *tdInner `avp:"TD-Box"`
	IDs   []uint32 `avp:"TD-Ids"`
}

// TDVal is the value of the struct handed to Marshal / expected from Unmarshal.
type TDVal struct {
	Host   string   `json:"host"`
	State  uint32   `json:"state"`
	HasBox bool     `json:"has_box"`
	Count  uint32   `json:"count"`
	Note   string   `json:"note"`
	IDs    []uint32 `json:"ids"`
}

// TDStep is one step of the common history.
type TDStep struct {
	// Kind: new-u32 | new-int | new-name | add | insert | marshal (on the two running messages),
	// unmarshal (a reference-encoded image of the value is read and unmarshalled)
	Kind  string   `json:"kind"`
	First int      `json:"first"`          // which dictionary's message takes the step first
	Only  bool     `json:"only,omitempty"` // ... and the other one does not take it at all
	AVP   *gen.AVP `json:"avp,omitempty"`
	Name  string   `json:"name,omitempty"`  // new-name
	Text  string   `json:"text,omitempty"`  // new-name: value of a string name
	Num   uint32   `json:"num,omitempty"`   // new-name: value of a number name
	Flags uint8    `json:"flags,omitempty"` // new-name: flags argument (without V)
	S     *TDVal   `json:"s,omitempty"`
}

type TDCase struct {
	Dicts [2]gen.DictFile `json:"dicts"`
	Flags uint8           `json:"flags"`
	App   uint32          `json:"app"`
	Steps []TDStep        `json:"steps"`
}

// tdResolve: the definition a name has for a message of application app under the generated
// document f - own application, parent applications, base; one definition per (application, name).
func tdResolve(f *gen.DictFile, app uint32, name string) (gen.DictAVP, bool) {
	for _, level := range refdict.Chain(app) {
		for _, a := range f.Apps {
			if a.ID != level {
				continue
			}
			for _, d := range a.AVPs {
				if d.Name == name {
					return d, true
				}
			}
		}
	}
	return gen.DictAVP{}, false
}

func tdFlags(d gen.DictAVP) uint8 {
	var f uint8
	if strings.Contains(d.Must, "M") {
		f |= 0x40
	}
	if d.Vendor != 0 {
		f |= 0x80
	}
	return f
}

func tdStringAVP(d gen.DictAVP, flags uint8, s string) *gen.AVP {
	return &gen.AVP{Code: d.Code, Flags: flags, Vendor: d.Vendor, V: gen.Val{T: d.Type, B: []byte(s)}}
}

func tdUintAVP(d gen.DictAVP, flags uint8, v uint32) *gen.AVP {
	return &gen.AVP{Code: d.Code, Flags: flags, Vendor: d.Vendor, V: gen.Val{T: d.Type, U: uint64(v)}}
}

// tdModel: the AVPs a caller builds by hand for the value, from the definitions of dictionary f.
func tdModel(f *gen.DictFile, app uint32, s *TDVal) ([]*gen.AVP, error) {
	def := func(name string) (gen.DictAVP, error) {
		d, ok := tdResolve(f, app, name)
		if !ok {
			return d, fmt.Errorf("the generated dictionary does not define %q for application %d", name, app)
		}
		return d, nil
	}
	var out []*gen.AVP
	d, err := def("TD-Host")
	if err != nil {
		return nil, err
	}
	out = append(out, tdStringAVP(d, tdFlags(d), s.Host))
	if d, err = def("TD-State"); err != nil {
		return nil, err
	}
	out = append(out, tdUintAVP(d, tdFlags(d), s.State))
	if s.HasBox {
		dc, err := def("TD-Inner-Count")
		if err != nil {
			return nil, err
		}
		dn, err := def("TD-Inner-Note")
		if err != nil {
			return nil, err
		}
		if d, err = def(tdGroupName); err != nil {
			return nil, err
		}
		out = append(out, &gen.AVP{Code: d.Code, Flags: tdFlags(d), Vendor: d.Vendor, V: gen.Val{T: gen.TGrouped},
			Children: []*gen.AVP{tdUintAVP(dc, tdFlags(dc), s.Count), tdStringAVP(dn, tdFlags(dn), s.Note)}})
	}
	if d, err = def("TD-Ids"); err != nil {
		return nil, err
	}
	for _, id := range s.IDs {
		out = append(out, tdUintAVP(d, tdFlags(d), id))
	}
	return out, nil
}

func tdStruct(s *TDVal) *tdMarshalled {
	v := &tdMarshalled{Host: s.Host, State: s.State, IDs: s.IDs}
	if s.HasBox {
		v.Box = &tdInner{Count: s.Count, Note: s.Note}
	}
	return v
}

func tdShow(v *tdMarshalled) string {
	s := fmt.Sprintf("{Host:%q State:%d IDs:%v Box:", v.Host, v.State, v.IDs)
	if v.Box == nil {
		return s + "nil}"
	}
	return s + fmt.Sprintf("{Count:%d Note:%q}}", v.Box.Count, v.Box.Note)
}

// the parsers of the last case (classification, run and the shrinker's re-runs use the same pair;
// a parser is never modified after it was loaded)
var tdLast struct {
	sync.Mutex
	xml [2]string
	p   [2]*dict.Parser
}

func tdLoad(c *TDCase) ([2]*dict.Parser, error) {
	x := [2]string{c.Dicts[0].XML(), c.Dicts[1].XML()}
	tdLast.Lock()
	defer tdLast.Unlock()
	if tdLast.xml == x && tdLast.p[0] != nil {
		return tdLast.p, nil
	}
	var ps [2]*dict.Parser
	for k := range x {
		p, _, err := gen.DictChoice{Name: "generated", Gen: &c.Dicts[k]}.Load()
		if err != nil {
			return ps, err
		}
		ps[k] = p
	}
	tdLast.xml, tdLast.p = x, ps
	return ps, nil
}

func runTwoDict(c TDCase) *ev.Failure {
	ps, err := tdLoad(&c)
	if err != nil {
		return ev.Failf("harness-dict", "%v", err)
	}
	hdr := refcodec.Header{Version: 1, Flags: c.Flags, Code: tdCmd, App: c.App, HopByHop: 7, EndToEnd: 9}
	var msgs [2]*diam.Message
	var models [2][]*gen.AVP
	for k := range msgs {
		msgs[k] = diam.NewMessage(tdCmd, c.Flags, c.App, 7, 9, ps[k])
	}
	for i, st := range c.Steps {
		if st.First != 0 && st.First != 1 {
			return ev.Failf("harness-op", "step %d: first=%d", i, st.First)
		}
		order := []int{st.First, 1 - st.First}
		if st.Only {
			order = order[:1]
		}
		for _, k := range order {
			f, m, p := &c.Dicts[k], msgs[k], ps[k]
			who := fmt.Sprintf("step %d (%s) on the message of dictionary #%d (application %d)", i, st.Kind, k+1, c.App)
			switch st.Kind {
			case "new-u32", "new-int", "add", "insert":
				if st.AVP == nil {
					return ev.Failf("harness-op", "%s: no AVP", who)
				}
				switch st.Kind {
				case "new-u32":
					if _, err := m.NewAVP(st.AVP.Code, st.AVP.Flags, st.AVP.Vendor, st.AVP.V.ToDatatype()); err != nil {
						return ev.Failf("newavp-error", "%s NewAVP(uint32 %d): %v", who, st.AVP.Code, err)
					}
					models[k] = append(models[k], st.AVP)
				case "new-int":
					if _, err := m.NewAVP(int(st.AVP.Code), st.AVP.Flags, st.AVP.Vendor, st.AVP.V.ToDatatype()); err != nil {
						return ev.Failf("newavp-error", "%s NewAVP(int %d): %v", who, st.AVP.Code, err)
					}
					models[k] = append(models[k], st.AVP)
				case "add":
					m.AddAVP(st.AVP.Build(gen.BuildOpts{TopDown: i%2 == 1}))
					models[k] = append(models[k], st.AVP)
				case "insert":
					m.InsertAVP(st.AVP.Build(gen.BuildOpts{TopDown: i%2 == 0}))
					models[k] = append([]*gen.AVP{st.AVP}, models[k]...)
				}
			case "new-name":
				d, ok := tdResolve(f, c.App, st.Name)
				if !ok || d.Type == gen.TGrouped {
					return ev.Failf("harness-op", "%s: name %q", who, st.Name)
				}
				fl := st.Flags &^ 0x80
				var want *gen.AVP
				if gen.IsStringLike(d.Type) {
					want = tdStringAVP(d, fl, st.Text)
				} else {
					want = tdUintAVP(d, fl, st.Num)
				}
				if d.Vendor != 0 {
					want.Flags |= 0x80 // NewAVP sets the V bit for a vendor id
				}
				a, err := m.NewAVP(st.Name, fl, d.Vendor, want.V.ToDatatype())
				if err != nil {
					return ev.Failf("newavp-error", "%s NewAVP(%q, vendor %d): %v", who, st.Name, d.Vendor, err)
				}
				if a.Code != d.Code {
					return ev.Failf("newavp-name-code", "%s: NewAVP(%q) created code %d, the message's dictionary defines the name as code %d", who, st.Name, a.Code, d.Code)
				}
				models[k] = append(models[k], want)
			case "marshal":
				if st.S == nil {
					return ev.Failf("harness-op", "%s: no value", who)
				}
				if err := m.Marshal(tdStruct(st.S)); err != nil {
					return ev.Failf("marshal-error", "%s Marshal: %v", who, err)
				}
				if models[k], err = tdModel(f, c.App, st.S); err != nil { // Marshal replaces the list
					return ev.Failf("harness-dict", "%v", err)
				}
			case "unmarshal":
				if st.S == nil {
					return ev.Failf("harness-op", "%s: no value", who)
				}
				model, err := tdModel(f, c.App, st.S)
				if err != nil {
					return ev.Failf("harness-dict", "%v", err)
				}
				img := refcodec.EncodeMessage(hdr, gen.Nodes(model), false)
				rm, err := diam.ReadMessage(bytes.NewReader(img), p)
				if err != nil {
					return ev.Failf("reference-image-rejected", "%s: ReadMessage of the reference image: %v; % x", who, err, clip(img))
				}
				if d := gen.CompareTree(model, rm.AVP, ""); d != "" {
					return ev.Failf("decoded-values-differ", "%s: %s; % x", who, d, clip(img))
				}
				var got tdMarshalled
				if err := rm.Unmarshal(&got); err != nil {
					return ev.Failf("unmarshal-error", "%s: Unmarshal of the reference image: %v", who, err)
				}
				want := tdStruct(st.S)
				same := got.Host == want.Host && got.State == want.State && (got.Box == nil) == (want.Box == nil) && len(got.IDs) == len(want.IDs)
				if same && want.Box != nil {
					same = *got.Box == *want.Box
				}
				for j := 0; same && j < len(want.IDs); j++ {
					same = got.IDs[j] == want.IDs[j]
				}
				if !same {
					return ev.Failf("unmarshalled-values-differ", "%s: the reference image of %s, encoded with the definitions of the message's dictionary, unmarshals to %s; image % x",
						who, tdShow(want), tdShow(&got), clip(img))
				}
				continue // the running message did not change
			default:
				return ev.Failf("harness-op", "unknown step kind %q", st.Kind)
			}
			ref := refcodec.EncodeMessage(hdr, gen.Nodes(models[k]), false)
			if len(ref) >= 1<<24 {
				return nil
			}
			b, err := m.Serialize()
			if err != nil {
				return ev.Failf("serialize-error", "%s Serialize: %v", who, err)
			}
			if int(m.Header.MessageLength) != len(b) || len(b) != len(ref) {
				return ev.Failf(sigFor(models[k], "message-length-after-op"), "after %s: Header.MessageLength=%d, len(Serialize())=%d, reference length=%d (definitions of the message's own dictionary)",
					who, m.Header.MessageLength, len(b), len(ref))
			}
			if !bytes.Equal(b, ref) {
				return ev.Failf(sigFor(models[k], "history-image-differs"), "after %s the image differs from the reference encoding (definitions of the message's own dictionary) at offset %d:\n lib % x\n ref % x",
					who, firstDiff(b, ref), clip(b), clip(ref))
			}
		}
	}
	return nil
}

// ---------------------------------------------------------------------------
// generator

// genTDDict: every name is defined in the base application and, 1 in 2, again in the application;
// codes are unique per document, vendor / M / type are drawn per definition.
func genTDDict(t *rapid.T, app uint32, label string) gen.DictFile {
	codes := rapid.Permutation([]uint32{8001, 8002, 8003, 8004, 8005, 8006, 8007, 8008, 8009, 8010, 8011, 8012}).Draw(t, label+"-codes")
	next := 0
	def := func(name string) gen.DictAVP {
		d := gen.DictAVP{Name: name, Code: codes[next], Vendor: rapid.SampledFrom([]uint32{0, 0, 10415, 13}).Draw(t, "vendor"),
			Must: rapid.SampledFrom([]string{"", "M", "M", "V", "M,V", "P"}).Draw(t, "must")}
		next++
		switch {
		case name == tdGroupName:
			d.Type = gen.TGrouped
		case strings.HasPrefix(name, "TD-Host") || strings.HasPrefix(name, "TD-Inner-Note"):
			d.Type = rapid.SampledFrom(tdStringTypes).Draw(t, "string-type")
		default:
			d.Type = rapid.SampledFrom(tdUintTypes).Draw(t, "uint-type")
		}
		return d
	}
	base := gen.DictApp{ID: 0, Name: "Base", AVPs: []gen.DictAVP{tdRuleAVP},
		Cmds: []gen.DictCmd{{Code: tdCmd, Short: "TD", Name: "Two-Dict", Req: []string{tdRuleAVP.Name}, Ans: []string{tdRuleAVP.Name}}}}
	own := gen.DictApp{ID: app, Type: "auth", Name: fmt.Sprintf("TD%d", app)}
	names := append(append(append([]string{}, tdStringNames...), tdUintNames...), tdGroupName)
	for _, n := range names {
		base.AVPs = append(base.AVPs, def(n))
		if rapid.Bool().Draw(t, "in-app") {
			own.AVPs = append(own.AVPs, def(n))
		}
	}
	return gen.DictFile{Apps: []gen.DictApp{base, own}}
}

func genTDVal(t *rapid.T) *TDVal {
	s := &TDVal{Host: string(gen.Bytes(t, "host", 200)), State: gen.U32(t, "state"), HasBox: rapid.Bool().Draw(t, "box"),
		Count: gen.U32(t, "count"), Note: string(gen.Bytes(t, "note", 60))}
	for j, k := 0, rapid.IntRange(0, 3).Draw(t, "ids"); j < k; j++ {
		s.IDs = append(s.IDs, gen.U32(t, "id"))
	}
	return s
}

func genTwoDict(t *rapid.T) TDCase {
	c := TDCase{App: rapid.SampledFrom(tdApps).Draw(t, "app"), Flags: rapid.Byte().Draw(t, "flags")}
	c.Dicts[0], c.Dicts[1] = genTDDict(t, c.App, "d1"), genTDDict(t, c.App, "d2")
	if rapid.IntRange(0, 5).Draw(t, "base-message") == 0 {
		c.App = 0 // a base message: only the base definitions count
	}
	_, cat, err := gen.DictChoice{Name: "generated", Gen: &c.Dicts[0]}.Load()
	if err != nil {
		t.Fatalf("harness: %v", err)
	}
	n := rapid.IntRange(1, 8).Draw(t, "steps")
	for i := 0; i < n; i++ {
		st := TDStep{Kind: rapid.SampledFrom([]string{"marshal", "marshal", "marshal", "unmarshal", "unmarshal", "new-name", "new-name", "add", "insert", "new-u32", "new-int"}).Draw(t, "kind"),
			First: rapid.IntRange(0, 1).Draw(t, "first"), Only: rapid.IntRange(0, 5).Draw(t, "only") == 0}
		switch st.Kind {
		case "marshal", "unmarshal":
			st.S = genTDVal(t)
		case "new-name":
			st.Name = rapid.SampledFrom(append(append([]string{}, tdStringNames...), tdUintNames...)).Draw(t, "name")
			st.Text, st.Num, st.Flags = string(gen.Bytes(t, "text", 100)), gen.U32(t, "num"), rapid.Byte().Draw(t, "avp-flags")&^0x80
		default:
			var l []*gen.AVP
			for len(l) == 0 {
				l = cat.Tree(t, c.App, gen.TreeOpts{MaxTop: 1, MaxDepth: 3, NoDeep: true, Val: gen.ValueOpts{MaxBytes: 1000}})
			}
			st.AVP = l[0]
			if (st.Kind == "new-u32" || st.Kind == "new-int") && st.AVP.V.T == gen.TGrouped {
				st.Kind = "add"
			}
			if st.Kind == "new-int" && st.AVP.Code > 0x7fffffff {
				st.Kind = "new-u32"
			}
		}
		c.Steps = append(c.Steps, st)
	}
	return c
}

var twoDict = ev.Register(&ev.Prop[TDCase]{
	ID: "C02", Name: "history-two-dictionaries",
	Rule: "two generated dictionaries in one process define the same six names (two for string fields, three for uint32 fields, one grouped) for the same application id (4 / 16777238 / 1000 / 7; 1 in 6 cases the message is a base message), each name in the base application and 1 in 2 again in the application, every definition with its own code, vendor id (0 / 10415 / 13), M bit and data type (string kinds; Unsigned32 / Unsigned64 / Integer64); one history of 1..8 steps {Marshal of a tagged struct (string, uint32, *struct for the group, []uint32) | NewAVP by name | AddAVP / InsertAVP / NewAVP by number of generated AVP trees | a reference-encoded image of a struct value is read and unmarshalled} is taken by two messages, one per dictionary, interleaved step by step in generated order (1 in 6 steps by one message only); " +
		"demanded after every step, per message: Header.MessageLength == len(Serialize()) == reference length and the image equals the reference encoding of the model built from the definitions of THAT message's dictionary (resolved from the generated document: application, then base); for a read step: ReadMessage of the reference image gives the encoded typed values and Unmarshal gives the struct value. non-trivial = a Marshal / Unmarshal / NewAVP-by-name step taken under both dictionaries for a name the two dictionaries define differently",
	Gen: genTwoDict, Run: runTwoDict,
	Classify: func(c TDCase) (bool, []string) {
		set := map[string]bool{fmt.Sprintf("app:%d", c.App): true}
		differs := func(name string) bool {
			a, ok1 := tdResolve(&c.Dicts[0], c.App, name)
			b, ok2 := tdResolve(&c.Dicts[1], c.App, name)
			if !ok1 || !ok2 {
				return false
			}
			if a.Code != b.Code {
				set["differs:code"] = true
			}
			if a.Vendor != b.Vendor {
				set["differs:vendor"] = true
			}
			if a.Type != b.Type {
				set["differs:type"] = true
			}
			if strings.Contains(a.Must, "M") != strings.Contains(b.Must, "M") {
				set["differs:m-bit"] = true
			}
			return a.Code != b.Code || a.Vendor != b.Vendor || a.Type != b.Type || strings.Contains(a.Must, "M") != strings.Contains(b.Must, "M")
		}
		nt := false
		for _, st := range c.Steps {
			set["step:"+st.Kind] = true
			if st.Only {
				set["step-by-one-message-only"] = true
				continue
			}
			switch st.Kind {
			case "marshal", "unmarshal":
				for _, n := range []string{"TD-Host", "TD-State", "TD-Ids", tdGroupName, "TD-Inner-Count", "TD-Inner-Note"} {
					if differs(n) {
						nt = true
					}
				}
			case "new-name":
				if differs(st.Name) {
					nt = true
				}
			}
		}
		if len(c.Steps) >= 5 {
			set["steps>=5"] = true
		}
		var cl []string
		for k := range set {
			cl = append(cl, k)
		}
		return nt, cl
	},
})

func TestC02HistoryTwoDictionaries(t *testing.T) { twoDict.Check(t, 1500, 50000) }
