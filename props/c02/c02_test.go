// C02 - Wire images match the RFC 6733 layout of an independent reference codec.
package c02

import (
	"bytes"
	"fmt"
	"math"
	"strings"
	"sync/atomic"
	"testing"
	"time"

	"github.com/fiorix/go-diameter/v4/diam"
	"github.com/fiorix/go-diameter/v4/diam/datatype"
	"pgregory.net/rapid"

	"verif/internal/ev"
	"verif/internal/gen"
	"verif/internal/refcodec"
)

const sigAmb = "addr-family-ambiguous"

// ---------------------------------------------------------------------------
// (a)+(b) differential against the reference encoder / decoder

type Case struct {
	Dict    gen.DictChoice `json:"dict"`
	Msg     gen.Msg        `json:"msg"`
	TopDown bool           `json:"top_down,omitempty"` // groups created empty, attached, filled afterwards
	Literal bool           `json:"literal,omitempty"`  // AVP struct literals instead of the constructors
}

func hasAmb(avps []*gen.AVP) bool {
	amb := false
	gen.Walk(avps, 1, func(a *gen.AVP, _ int) { amb = amb || a.V.AddrAmbiguous() })
	return amb
}

func sigFor(avps []*gen.AVP, dflt string) string {
	if hasAmb(avps) {
		return sigAmb
	}
	return dflt
}

var diff = ev.Register(&ev.Prop[Case]{
	ID: "C02", Name: "differential",
	Rule: "abstract header + AVP tree (all data types, nesting, vendor-specific and undefined codes, any flag byte) converted (1) to datatype values and assembled through the API, (2) to bytes by the independent reference encoder: Serialize, SerializeTo into a 0xFF-filled buffer and WriteTo (pooled buffer) must all equal the reference image, and ReadMessage of the reference image must yield the abstract values; non-trivial as C01 (>=1 AVP and a padded payload / nesting / vendor-specific / undefined / NaN / non-IP address / 2036+ time / body>1KiB)",
	Gen: func(t *rapid.T) Case {
		c := Case{Dict: gen.PickDict(t)}
		_, cat, err := c.Dict.Load()
		if err != nil {
			t.Fatalf("harness: %v", err)
		}
		c.Msg = cat.Message(t, gen.TreeOpts{MaxTop: 12, MaxDepth: rapid.IntRange(1, ev.Pick(4, 10)).Draw(t, "max-depth"), Val: gen.ValueOpts{SubSecond: true}})
		c.TopDown = rapid.Bool().Draw(t, "top-down")
		c.Literal = rapid.IntRange(0, 3).Draw(t, "literal") == 0
		return c
	},
	Run: runDiff,
	Classify: func(c Case) (bool, []string) {
		nt, cl := gen.MsgClasses(&c.Msg)
		return nt, append(cl, "dict:"+c.Dict.Name)
	},
})

func buildMsg(c Case) (*diam.Message, error) {
	p, _, err := c.Dict.Load()
	if err != nil {
		return nil, err
	}
	m := diam.NewMessage(c.Msg.Code, c.Msg.Flags, c.Msg.App, c.Msg.HbH, c.Msg.E2E, p)
	m.Header.HopByHopID, m.Header.EndToEndID = c.Msg.HbH, c.Msg.E2E
	for _, a := range c.Msg.AVPs {
		m.AddAVP(a.Build(gen.BuildOpts{TopDown: c.TopDown, Literal: c.Literal}))
	}
	return m, nil
}

func runDiff(c Case) *ev.Failure {
	p, _, err := c.Dict.Load()
	if err != nil {
		return ev.Failf("harness-dict", "%v", err)
	}
	ref := c.Msg.RefBytes()
	if len(ref) >= 1<<24 {
		return nil
	}
	m, err := buildMsg(c)
	if err != nil {
		return ev.Failf("build-error", "%v", err)
	}
	if int(m.Header.MessageLength) != len(ref) {
		return ev.Failf(sigFor(c.Msg.AVPs, "message-length"), "Header.MessageLength is %d, the reference image has %d bytes", m.Header.MessageLength, len(ref))
	}
	if m.Len() != len(ref) {
		return ev.Failf(sigFor(c.Msg.AVPs, "message-length"), "Len() is %d, the reference image has %d bytes", m.Len(), len(ref))
	}
	b1, err := m.Serialize()
	if err != nil {
		return ev.Failf("serialize-error", "Serialize: %v", err)
	}
	if !bytes.Equal(b1, ref) {
		return ev.Failf(sigFor(c.Msg.AVPs, "serialize-differs"), "Serialize differs from the reference encoder at offset %d:\n lib % x\n ref % x", firstDiff(b1, ref), clip(b1), clip(ref))
	}
	b2 := bytes.Repeat([]byte{0xFF}, len(ref))
	if err := m.SerializeTo(b2); err != nil {
		return ev.Failf("serialize-error", "SerializeTo: %v", err)
	}
	if !bytes.Equal(b2, ref) {
		return ev.Failf(sigFor(c.Msg.AVPs, "serializeto-differs"), "SerializeTo into a 0xFF-filled buffer differs from the reference at offset %d:\n lib % x\n ref % x", firstDiff(b2, ref), clip(b2), clip(ref))
	}
	var w bytes.Buffer
	n, err := m.WriteTo(&w)
	if err != nil || int(n) != len(ref) {
		return ev.Failf("writeto-error", "WriteTo returned (%d, %v), want (%d, nil)", n, err, len(ref))
	}
	if !bytes.Equal(w.Bytes(), ref) {
		return ev.Failf(sigFor(c.Msg.AVPs, "writeto-differs"), "WriteTo differs from the reference at offset %d:\n lib % x\n ref % x", firstDiff(w.Bytes(), ref), clip(w.Bytes()), clip(ref))
	}
	// the same message object written again after its exported header fields were edited (the T
	// flag of a retransmission, a new hop-by-hop id on fail-over): the bytes are those of the
	// values it holds NOW
	m.Header.CommandFlags ^= 0x10
	m.Header.HopByHopID ^= 0x01010101
	want2 := append([]byte{}, ref...)
	want2[4] ^= 0x10
	for k := 12; k < 16; k++ {
		want2[k] ^= 0x01
	}
	var w2 bytes.Buffer
	if n, err := m.WriteTo(&w2); err != nil || int(n) != len(ref) || !bytes.Equal(w2.Bytes(), want2) {
		return ev.Failf("second-write-differs", "the message was written, its T flag and hop-by-hop id were changed, and it was written again: WriteTo returned (%d, %v) and the image differs from the reference at offset %d:\n lib % x\n ref % x", n, err, firstDiff(w2.Bytes(), want2), clip(w2.Bytes()), clip(want2))
	}
	if b3, err := m.Serialize(); err != nil || !bytes.Equal(b3, want2) {
		return ev.Failf("second-write-differs", "Serialize after the header edit differs from the reference at offset %d (err %v)", firstDiff(b3, want2), err)
	}
	m.Header.CommandFlags ^= 0x10
	m.Header.HopByHopID ^= 0x01010101
	// the bytes Serialize returned belong to the caller: serialising and writing ANOTHER message
	// afterwards must not change them
	other := diam.NewMessage(280, 0x80, 0, 0x0badf00d, 0x0badcafe, p)
	other.NewAVP(264, 0x40, 0, datatype.DiameterIdentity("another.message.example"))
	other.NewAVP(296, 0x40, 0, datatype.DiameterIdentity("example"))
	if ob, err := other.Serialize(); err == nil {
		var sink bytes.Buffer
		other.WriteTo(&sink)
		if !bytes.Equal(b1, ref) {
			return ev.Failf("serialized-bytes-changed-later", "the slice returned by Serialize changed when another message (%d bytes) was serialised and written afterwards; first difference at offset %d:\n now % x\n ref % x", len(ob), firstDiff(b1, ref), clip(b1), clip(ref))
		}
	}
	// (b) reading the reference image yields the encoded values
	m2, err := diam.ReadMessage(bytes.NewReader(ref), p)
	if err != nil {
		return ev.Failf(sigFor(c.Msg.AVPs, "reference-image-rejected"), "ReadMessage of the reference image: %v; % x", err, clip(ref))
	}
	h := m2.Header
	if h.Version != 1 || int(h.MessageLength) != len(ref) || h.CommandFlags != c.Msg.Flags || h.CommandCode != c.Msg.Code ||
		h.ApplicationID != c.Msg.App || h.HopByHopID != c.Msg.HbH || h.EndToEndID != c.Msg.E2E {
		return ev.Failf("header-differs", "decoded header %+v does not match the encoded one %+v", *h, c.Msg.RefHeader())
	}
	if d := gen.CompareTree(c.Msg.AVPs, m2.AVP, ""); d != "" {
		return ev.Failf(sigFor(c.Msg.AVPs, "decoded-values-differ"), "%s; % x", d, clip(ref))
	}
	return nil
}

func firstDiff(a, b []byte) int {
	for i := 0; i < len(a) && i < len(b); i++ {
		if a[i] != b[i] {
			return i
		}
	}
	if len(a) < len(b) {
		return len(a)
	}
	return len(b)
}

func clip(b []byte) []byte {
	if len(b) > 300 {
		return b[:300]
	}
	return b
}

func TestC02Differential(t *testing.T) {
	rec := diff.Rec(t)
	t.Cleanup(func() {
		rec.Count("excluded-by-construction:"+sigAmb, atomic.SwapInt64(&gen.AmbAddrAvoided, 0))
	})
	diff.Check(t, 4000, 150000)
}

func TestC02KnownProbes(t *testing.T) {
	c := Case{Dict: gen.DictChoice{Name: "default"}, Msg: gen.Msg{Flags: 0x80, Code: 257, App: 0, HbH: 1, E2E: 2,
		AVPs: []*gen.AVP{{Code: 257, Flags: 0x40, V: gen.Val{T: gen.TAddress, Fam: 8, B: []byte("12")}}}}}
	diff.Probe(t, sigAmb, c, "Address value of family 8 with two address bytes (family-prefixed image 00 08 31 32): the library emits 00 01 00 08 31 32, the reference encoder 00 08 31 32; same root cause as C01")
}

// ---------------------------------------------------------------------------
// (c) histories of NewAVP / AddAVP / InsertAVP / Marshal

type Op struct {
	// DropV (new-*): the V bit is left out of the flags argument although a vendor id is given -
	// NewAVP documents that it sets the bit itself then.
	DropV bool     `json:"drop_v,omitempty"`
	Kind  string   `json:"kind"` // new-u32 | new-int | new-name | add | insert | marshal
	AVP   *gen.AVP `json:"avp,omitempty"`
	Name  string   `json:"name,omitempty"`
	S     *SVal    `json:"s,omitempty"`
}

// SVal is the value of the struct handed to Marshal.
type SVal struct {
	Host   string   `json:"host"`
	State  uint32   `json:"state"`
	HasVSA bool     `json:"has_vsa"`
	Vendor uint32   `json:"vendor"`
	Auth   uint32   `json:"auth"`
	IDs    []uint32 `json:"ids"`
}

type vsa struct {
	Vendor uint32 `avp:"Vendor-Id"`
	Auth   uint32 `avp:"Auth-Application-Id"`
}

type marshalled struct {
	Host  datatype.DiameterIdentity `avp:"Origin-Host"`
	State uint32                    `avp:"Origin-State-Id"`
	VSA   *vsa                      `avp:"Vendor-Specific-Application-Id"`
	IDs   []uint32                  `avp:"Supported-Vendor-Id"`
}

type HCase struct {
	Flags uint8  `json:"flags"`
	Code  uint32 `json:"code"`
	App   uint32 `json:"app"`
	Ops   []Op   `json:"ops"`
	// FailTail: at the end a Marshal that FAILS (its struct names an AVP the dictionary does not
	// have, after a field that is fine) and one more AddAVP: whatever the failed call left in the
	// message, the header length still equals the serialised size.
	FailTail bool `json:"fail_tail,omitempty"`
}

// failing is a struct Marshal cannot complete: the second tag names no AVP.
type failing struct {
	Host  datatype.DiameterIdentity `avp:"Origin-Host"`
	Wrong uint32                    `avp:"No-Such-AVP-Name"`
}

var hist = ev.Register(&ev.Prop[HCase]{
	ID: "C02", Name: "history",
	Rule: "histories of NewAVP(uint32|int|name) / AddAVP / InsertAVP / Marshal(struct) on one message under dict.Default with a model list of abstract AVPs; after EVERY step Header.MessageLength == len(Serialize()) == reference length, and the final image equals the reference encoding of the model; 1 in 3 histories end with a Marshal that fails and one more AddAVP (header length == serialised size still); non-trivial = an InsertAVP or Marshal after at least one earlier operation",
	Gen:  genHist, Run: runHist,
	Classify: func(c HCase) (bool, []string) {
		nt := false
		var cl []string
		seen := map[string]bool{}
		for i, o := range c.Ops {
			if !seen[o.Kind] {
				seen[o.Kind] = true
				cl = append(cl, "op:"+o.Kind)
			}
			if i > 0 && (o.Kind == "insert" || o.Kind == "marshal") {
				nt = true
			}
			if o.DropV && !seen["v-bit-left-to-NewAVP"] {
				seen["v-bit-left-to-NewAVP"] = true
				cl = append(cl, "v-bit-left-to-NewAVP")
			}
		}
		if len(c.Ops) >= 6 {
			cl = append(cl, "steps>=6")
		}
		return nt, cl
	},
})

func genHist(t *rapid.T) HCase {
	_, cat, err := gen.DictChoice{Name: "default"}.Load()
	if err != nil {
		t.Fatalf("harness: %v", err)
	}
	var c HCase
	c.Flags, c.Code, c.App, _, _ = cat.Header(t)
	n := rapid.IntRange(1, 12).Draw(t, "steps")
	for i := 0; i < n; i++ {
		kind := rapid.SampledFrom([]string{"new-u32", "new-int", "new-name", "add", "add", "insert", "insert", "marshal"}).Draw(t, "op")
		op := Op{Kind: kind}
		switch kind {
		case "marshal":
			s := &SVal{Host: string(gen.Bytes(t, "host", 300)), State: gen.U32(t, "state"), HasVSA: rapid.Bool().Draw(t, "vsa"),
				Vendor: gen.U32(t, "vendor"), Auth: gen.U32(t, "auth")}
			k := rapid.IntRange(0, 3).Draw(t, "ids")
			for j := 0; j < k; j++ {
				s.IDs = append(s.IDs, gen.U32(t, "id"))
			}
			op.S = s
		case "new-name":
			ts := cat.TypesFor(c.App)
			var es []gen.Entry
			for len(es) == 0 {
				typ := rapid.SampledFrom(ts).Draw(t, "type")
				if typ != gen.TGrouped {
					es = cat.EntriesFor(c.App, typ)
				}
			}
			e := es[rapid.IntRange(0, len(es)-1).Draw(t, "entry")]
			// the entry was found reachable BY CODE; a name is only usable if it resolves too
			// (two dictionaries may spell the name of one code differently)
			if d, err := cat.P.FindAVPWithVendor(c.App, e.Name, e.Vendor); err != nil || d.Code != e.Code || d.Data.TypeName != e.Type {
				op.Kind = "new-u32"
			}
			op.Name = e.Name
			fl := rapid.Byte().Draw(t, "flags") &^ 0x80
			if e.Vendor != 0 {
				fl |= 0x80
			}
			op.AVP = &gen.AVP{Code: e.Code, Flags: fl, Vendor: e.Vendor, V: gen.Value(t, e.Type, gen.ValueOpts{MaxBytes: 3000, SubSecond: true})}
		default:
			var l []*gen.AVP
			for len(l) == 0 {
				l = cat.Tree(t, c.App, gen.TreeOpts{MaxTop: 1, MaxDepth: 3, Val: gen.ValueOpts{MaxBytes: 3000, SubSecond: true}})
			}
			op.AVP = l[0]
			if (kind == "new-u32" || kind == "new-int") && op.AVP.V.T == gen.TGrouped {
				op.Kind = "add"
			}
			if kind == "new-int" && op.AVP.Code > 0x7fffffff {
				op.Kind = "new-u32"
			}
		}
		if strings.HasPrefix(op.Kind, "new-") && op.AVP != nil && op.AVP.Flags&0x80 != 0 && op.AVP.Vendor != 0 {
			op.DropV = rapid.Bool().Draw(t, "drop-v")
		}
		c.Ops = append(c.Ops, op)
	}
	c.FailTail = rapid.IntRange(0, 2).Draw(t, "fail-tail") == 0
	return c
}

func runHist(c HCase) *ev.Failure {
	p, _, err := gen.DictChoice{Name: "default"}.Load()
	if err != nil {
		return ev.Failf("harness-dict", "%v", err)
	}
	m := diam.NewMessage(c.Code, c.Flags, c.App, 7, 9, p)
	hdr := refcodec.Header{Version: 1, Flags: c.Flags, Code: c.Code, App: c.App, HopByHop: 7, EndToEnd: 9}
	var model []*gen.AVP
	flagsOf := func(name string) (uint8, uint32, uint32, error) {
		d, err := p.FindAVP(c.App, name)
		if err != nil {
			return 0, 0, 0, err
		}
		var f uint8
		if strings.Contains(d.Must, "M") {
			f |= 0x40
		}
		if d.VendorID != 0 {
			f |= 0x80
		}
		return f, d.Code, d.VendorID, nil
	}
	for i, o := range c.Ops {
		argFlags := uint8(0)
		if o.AVP != nil {
			argFlags = o.AVP.Flags
			if o.DropV {
				argFlags &^= 0x80
			}
		}
		switch o.Kind {
		case "new-u32":
			if _, err := m.NewAVP(o.AVP.Code, argFlags, o.AVP.Vendor, o.AVP.V.ToDatatype()); err != nil {
				return ev.Failf("newavp-error", "step %d NewAVP(uint32 %d): %v", i, o.AVP.Code, err)
			}
			model = append(model, o.AVP)
		case "new-int":
			if _, err := m.NewAVP(int(o.AVP.Code), argFlags, o.AVP.Vendor, o.AVP.V.ToDatatype()); err != nil {
				return ev.Failf("newavp-error", "step %d NewAVP(int %d): %v", i, o.AVP.Code, err)
			}
			model = append(model, o.AVP)
		case "new-name":
			a, err := m.NewAVP(o.Name, argFlags, o.AVP.Vendor, o.AVP.V.ToDatatype())
			if err != nil {
				return ev.Failf("newavp-error", "step %d NewAVP(%q, vendor %d): %v", i, o.Name, o.AVP.Vendor, err)
			}
			if a.Code != o.AVP.Code {
				return ev.Failf("newavp-name-code", "step %d NewAVP(%q) created code %d, the dictionary entry has %d", i, o.Name, a.Code, o.AVP.Code)
			}
			model = append(model, o.AVP)
		case "add":
			m.AddAVP(o.AVP.Build(gen.BuildOpts{TopDown: i%2 == 1}))
			model = append(model, o.AVP)
		case "insert":
			m.InsertAVP(o.AVP.Build(gen.BuildOpts{TopDown: i%2 == 0}))
			model = append([]*gen.AVP{o.AVP}, model...)
		case "marshal":
			s := &marshalled{Host: datatype.DiameterIdentity(o.S.Host), State: o.S.State, IDs: o.S.IDs}
			if o.S.HasVSA {
				s.VSA = &vsa{Vendor: o.S.Vendor, Auth: o.S.Auth}
			}
			if err := m.Marshal(s); err != nil {
				return ev.Failf("marshal-error", "step %d Marshal: %v", i, err)
			}
			// the AVPs a caller would build by hand; Marshal replaces the list
			model = nil
			mk := func(name string, v gen.Val, children []*gen.AVP) (*gen.AVP, error) {
				f, code, vendor, err := flagsOf(name)
				if err != nil {
					return nil, err
				}
				return &gen.AVP{Code: code, Flags: f, Vendor: vendor, V: v, Children: children}, nil
			}
			a, err := mk("Origin-Host", gen.Val{T: gen.TDiameterIdentity, B: []byte(o.S.Host)}, nil)
			if err != nil {
				return ev.Failf("harness-dict", "%v", err)
			}
			model = append(model, a)
			a, _ = mk("Origin-State-Id", gen.Val{T: gen.TUnsigned32, U: uint64(o.S.State)}, nil)
			model = append(model, a)
			if o.S.HasVSA {
				v1, _ := mk("Vendor-Id", gen.Val{T: gen.TUnsigned32, U: uint64(o.S.Vendor)}, nil)
				v2, _ := mk("Auth-Application-Id", gen.Val{T: gen.TUnsigned32, U: uint64(o.S.Auth)}, nil)
				g, _ := mk("Vendor-Specific-Application-Id", gen.Val{T: gen.TGrouped}, []*gen.AVP{v1, v2})
				model = append(model, g)
			}
			for _, id := range o.S.IDs {
				a, _ = mk("Supported-Vendor-Id", gen.Val{T: gen.TUnsigned32, U: uint64(id)}, nil)
				model = append(model, a)
			}
		default:
			return ev.Failf("harness-op", "unknown op %q", o.Kind)
		}
		ref := refcodec.EncodeMessage(hdr, gen.Nodes(model), false)
		if len(ref) >= 1<<24 {
			return nil
		}
		b, err := m.Serialize()
		if err != nil {
			return ev.Failf("serialize-error", "step %d Serialize: %v", i, err)
		}
		if int(m.Header.MessageLength) != len(b) || len(b) != len(ref) {
			return ev.Failf(sigFor(model, "message-length-after-op"), "after step %d (%s): Header.MessageLength=%d, len(Serialize())=%d, reference length=%d",
				i, o.Kind, m.Header.MessageLength, len(b), len(ref))
		}
		if i == len(c.Ops)-1 && !bytes.Equal(b, ref) {
			return ev.Failf(sigFor(model, "history-image-differs"), "final image differs from the reference encoding of the model at offset %d:\n lib % x\n ref % x", firstDiff(b, ref), clip(b), clip(ref))
		}
	}
	if c.FailTail {
		if err := m.Marshal(&failing{Host: "after.the.history.example", Wrong: 7}); err == nil {
			return ev.Failf("marshal-error", "Marshal of a struct whose tag names no AVP of the dictionary returned no error")
		}
		for k, what := range []string{"a Marshal that failed", "a Marshal that failed and one more AddAVP"} {
			if k == 1 {
				m.AddAVP(diam.NewAVP(296, 0x40, 0, datatype.DiameterIdentity("example")))
			}
			b, err := m.Serialize()
			if err != nil {
				return ev.Failf("serialize-error", "after %s: %v", what, err)
			}
			if int(m.Header.MessageLength) != len(b) {
				return ev.Failf("message-length-after-op", "after %s: Header.MessageLength=%d, len(Serialize())=%d", what, m.Header.MessageLength, len(b))
			}
		}
	}
	return nil
}

func TestC02History(t *testing.T) { hist.Check(t, 1000, 30000) }

// ---------------------------------------------------------------------------
// exhaustive sub-domains

type VCase struct {
	Kind  string `json:"kind"`
	Value uint32 `json:"value"`
}

var sweep = ev.Register(&ev.Prop[VCase]{
	ID: "C02", Name: "exhaustive",
	Rule: "complete enumeration: every 24-bit value of the message-length and command-code header fields through Header.Serialize/DecodeHeader; the pad-to-4 function for every length below 2^24; (thorough) every 32-bit payload of Unsigned32, Integer32, Enumerated, Float32, Time and IPv4 through datatype.Decode* and Serialize against the reference codec (quick: a stride of them); every value is distinct and non-trivial by construction",
	Run:  runValue,
})

var bigString = strings.Repeat("x", 1<<24)

func runValue(c VCase) *ev.Failure {
	v := c.Value
	b := refcodec.U32(v)
	switch c.Kind {
	case "hdr24":
		h := diam.Header{Version: 1, MessageLength: v, CommandFlags: 0xa5, CommandCode: v ^ 0xffffff, ApplicationID: 3, HopByHopID: 4, EndToEndID: 5}
		got := h.Serialize()
		want := refcodec.EncodeHeader(refcodec.Header{Version: 1, Length: v, Flags: 0xa5, Code: v ^ 0xffffff, App: 3, HopByHop: 4, EndToEnd: 5})
		if !bytes.Equal(got, want) {
			return ev.Failf("header-layout", "Header.Serialize with length/code %#x: % x, reference % x", v, got, want)
		}
		d, err := diam.DecodeHeader(want)
		if err != nil || d.MessageLength != v || d.CommandCode != v^0xffffff || d.Version != 1 || d.CommandFlags != 0xa5 ||
			d.ApplicationID != 3 || d.HopByHopID != 4 || d.EndToEndID != 5 {
			return ev.Failf("header-layout", "DecodeHeader(% x) = %+v, %v", want, d, err)
		}
	case "pad":
		n := int(v)
		s := datatype.OctetString(bigString[:n])
		if s.Len() != n || s.Len()+s.Padding() != refcodec.Pad4(n) {
			return ev.Failf("pad4", "OctetString of %d bytes: Len %d Padding %d, want padded size %d", n, s.Len(), s.Padding(), refcodec.Pad4(n))
		}
	case "Unsigned32":
		d, err := datatype.DecodeUnsigned32(b)
		if x, ok := d.(datatype.Unsigned32); err != nil || !ok || uint32(x) != v || !bytes.Equal(d.Serialize(), b) {
			return ev.Failf("u32-encoding", "Unsigned32 payload % x decodes to %v (%v), serialises to % x", b, d, err, d.Serialize())
		}
	case "Integer32":
		d, err := datatype.DecodeInteger32(b)
		if x, ok := d.(datatype.Integer32); err != nil || !ok || int32(x) != int32(v) || !bytes.Equal(d.Serialize(), b) {
			return ev.Failf("i32-encoding", "Integer32 payload % x decodes to %v (%v), serialises to % x", b, d, err, d.Serialize())
		}
	case "Enumerated":
		d, err := datatype.DecodeEnumerated(b)
		if x, ok := d.(datatype.Enumerated); err != nil || !ok || int32(x) != int32(v) || !bytes.Equal(d.Serialize(), b) {
			return ev.Failf("enum-encoding", "Enumerated payload % x decodes to %v (%v), serialises to % x", b, d, err, d.Serialize())
		}
	case "Float32":
		d, err := datatype.DecodeFloat32(b)
		if x, ok := d.(datatype.Float32); err != nil || !ok || math.Float32bits(float32(x)) != v || !bytes.Equal(d.Serialize(), b) {
			return ev.Failf("f32-encoding", "Float32 payload % x decodes to %v (%v), serialises to % x", b, d, err, d.Serialize())
		}
	case "Time":
		d, err := datatype.DecodeTime(b)
		x, ok := d.(datatype.Time)
		if err != nil || !ok || time.Time(x).Unix() != refcodec.DecodeTime(b) || !bytes.Equal(d.Serialize(), b) {
			return ev.Failf("time-encoding", "Time payload % x decodes to %v (%v) = unix %d, reference unix %d, serialises to % x", b, d, err, time.Time(x).Unix(), refcodec.DecodeTime(b), d.Serialize())
		}
		// and the value-to-wire direction from an independently built time.Time
		if s := datatype.Time(time.Unix(refcodec.DecodeTime(b), 0)).Serialize(); !bytes.Equal(s, b) {
			return ev.Failf("time-encoding", "Time(unix %d) serialises to % x, reference % x", refcodec.DecodeTime(b), s, b)
		}
	case "IPv4":
		d, err := datatype.DecodeIPv4(b)
		if x, ok := d.(datatype.IPv4); err != nil || !ok || !bytes.Equal(x, b) || !bytes.Equal(d.Serialize(), b) {
			return ev.Failf("ipv4-encoding", "IPv4 payload % x decodes to %v (%v), serialises to % x", b, d, err, d.Serialize())
		}
	default:
		return ev.Failf("harness-kind", "unknown kind %q", c.Kind)
	}
	return nil
}

func sweepRange(t *testing.T, kind string, lo, hi uint64, stride uint64, exhaustive bool) {
	e := ev.GetEnv()
	rec := sweep.Rec(t)
	rec.Exhaustive = exhaustive
	var n int64
	// contiguous block per shard
	span := (hi - lo + uint64(e.NShards) - 1) / uint64(e.NShards)
	a, b := lo+span*uint64(e.Shard), lo+span*uint64(e.Shard+1)
	if b > hi {
		b = hi
	}
	for v := a; v < b; v += stride {
		n++
		if f := runValue(VCase{kind, uint32(v)}); f != nil {
			rec.Bulk(n, n, "sweep:"+kind)
			sweep.One(t, VCase{kind, uint32(v)})
			return
		}
	}
	rec.Bulk(n, n, "sweep:"+kind)
}

func TestC02Exhaustive24(t *testing.T) {
	sweepRange(t, "hdr24", 0, 1<<24, 1, true)
	sweepRange(t, "pad", 0, 1<<24, 1, true)
}

func TestC02Payload32(t *testing.T) {
	stride := uint64(65537)
	exhaustive := false
	if ev.Thorough() {
		stride, exhaustive = 1, true
	}
	for _, k := range []string{"Unsigned32", "Integer32", "Enumerated", "Float32", "Time", "IPv4"} {
		sweepRange(t, k, 0, 1<<32, stride, exhaustive)
		for _, v := range []uint32{0, 1, 0x7fffffff, 0x80000000, 0x80000001, 0xfffffffe, 0xffffffff, 0x7f800001, 0x7fc00000, 0xffc00001, 0x00000001, 0x83aa7e80, 0x83aa7e7f} {
			if f := runValue(VCase{k, v}); f != nil {
				sweep.One(t, VCase{k, v})
				return
			}
		}
	}
}

func TestC02Keep(t *testing.T) { ev.RunKeep(t, "C02") }
func TestReplay(t *testing.T)  { ev.Replay(t) }

var _ = fmt.Sprint
