package c10

import (
	"fmt"
	"sync"
	"testing"
	"time"

	"github.com/fiorix/go-diameter/v4/diam"
	"github.com/fiorix/go-diameter/v4/diam/avp"
	"github.com/fiorix/go-diameter/v4/diam/datatype"
	"github.com/fiorix/go-diameter/v4/diam/sm"

	"verif/internal/ev"
	"verif/internal/memnet"
	"verif/internal/refcodec"
)

// Client side, two connections of ONE state machine (a client with a primary and a secondary
// peer): "... never invoked for a message from a peer that has not completed a successful CER/CEA
// exchange ON THAT CONNECTION". The first peer completes the exchange. While the second
// connection waits for its CEA - the second peer never sends one - a success CEA arrives on the
// FIRST connection (a duplicate). Whatever that does to the pending dial, application requests
// that the second peer sends must not reach the application's handlers.

type Client2Case struct {
	Extra  string `json:"extra"` // what arrives on the first connection while the second waits: dup-cea | none
	CatchA bool   `json:"catch_all"`
	Reqs   int    `json:"reqs"` // application requests the second peer sends without having sent a CEA
}

func c2CEA(h refcodec.Header) []byte {
	return refcodec.EncodeMessage(refcodec.Header{Version: 1, Code: 257, HopByHop: h.HopByHop, EndToEnd: h.EndToEnd},
		[]*refcodec.Node{{Code: 268, Flags: 0x40, Payload: refcodec.U32(2001)}, {Code: 264, Flags: 0x40, Payload: []byte("srv.example")},
			{Code: 296, Flags: 0x40, Payload: []byte("example")}, {Code: 257, Flags: 0x40, Payload: refcodec.Address(1, []byte{10, 0, 0, 1})},
			{Code: 266, Flags: 0x40, Payload: refcodec.U32(13)}, {Code: 269, Payload: []byte("peer")},
			{Code: 258, Flags: 0x40, Payload: refcodec.U32(4)}}, false)
}

func c2RAR(i int) []byte {
	return refcodec.EncodeMessage(refcodec.Header{Version: 1, Flags: 0x80, Code: 258, HopByHop: uint32(0x6000 + i), EndToEnd: uint32(0x6100 + i)},
		[]*refcodec.Node{{Code: 263, Flags: 0x40, Payload: []byte(fmt.Sprintf("s;%d", i))}, {Code: 264, Flags: 0x40, Payload: []byte("srv.example")}, {Code: 296, Flags: 0x40, Payload: []byte("example")}}, false)
}

func runClient2(c Client2Case) *ev.Failure {
	machine := sm.New(&sm.Settings{OriginHost: datatype.DiameterIdentity(ownHost), OriginRealm: datatype.DiameterIdentity(ownRealm), VendorID: 13, ProductName: "verif-c10"})
	stop := make(chan struct{})
	defer close(stop)
	go func() {
		for {
			select {
			case <-machine.ErrorReports():
			case <-machine.HandshakeNotify():
			case <-stop:
				return
			}
		}
	}()
	type inv struct {
		remote string
		hbh    uint32
		label  string
	}
	var mu sync.Mutex
	var invs []inv
	rec := func(label string) diam.HandlerFunc {
		return func(cn diam.Conn, m *diam.Message) {
			mu.Lock()
			invs = append(invs, inv{cn.RemoteAddr().String(), m.Header.HopByHopID, label})
			mu.Unlock()
		}
	}
	machine.HandleFunc("RAR", rec("name:RAR"))
	if c.CatchA {
		machine.HandleFunc("ALL", rec("ALL"))
	}
	cli := &sm.Client{Handler: machine, MaxRetransmits: 0, RetransmitInterval: 400 * time.Millisecond,
		AuthApplicationID: []*diam.AVP{diam.NewAVP(avp.AuthApplicationID, avp.Mbit, 0, datatype.Unsigned32(4))}}
	first, second := memnet.NewConn(), memnet.NewConn()
	first.Remote = memnet.Addr{Net: "tcp", Str: "10.1.1.1:3868"}
	second.Remote = memnet.Addr{Net: "tcp", Str: "10.2.2.2:3868"}
	defer func() {
		for _, mc := range []*memnet.Conn{first, second} {
			mc.FeedEOF()
			mc.WaitClosed(2 * time.Second)
			mc.Close()
		}
	}()
	first.WriteHook = func(b []byte, accept func([]byte)) (int, error) {
		accept(b)
		if h, err := refcodec.DecodeHeader(b); err == nil && h.Code == 257 && h.Flags&0x80 != 0 {
			first.Feed(c2CEA(h))
			first.WaitParked(2 * time.Second)
		}
		return len(b), nil
	}
	if _, err := cli.NewConn(first, "first"); err != nil {
		return ev.Failf("harness-handshake", "the first connection's handshake failed: %v", err)
	}
	cerSeen := make(chan refcodec.Header, 4)
	second.WriteHook = func(b []byte, accept func([]byte)) (int, error) {
		accept(b)
		if h, err := refcodec.DecodeHeader(b); err == nil && h.Code == 257 && h.Flags&0x80 != 0 {
			select {
			case cerSeen <- h:
			default:
			}
		}
		return len(b), nil
	}
	dialed := make(chan error, 1)
	go func() { _, err := cli.NewConn(second, "second"); dialed <- err }()
	var h2 refcodec.Header
	select {
	case h2 = <-cerSeen:
	case <-time.After(3 * time.Second):
		return ev.Failf("harness-no-cer", "the second connection sent no CER within 3 s")
	}
	if c.Extra == "dup-cea" {
		// the FIRST peer repeats its CEA (with the identifiers of the CER now under way, the worst case)
		first.Feed(c2CEA(h2))
		first.WaitParked(2 * time.Second)
	}
	// the second peer has not answered the CER; it sends application requests
	for i := 0; i < c.Reqs; i++ {
		second.Feed(c2RAR(i))
		second.WaitParked(2 * time.Second)
	}
	// sanity: the first connection, which did shake hands, is served
	first.Feed(c2RAR(100))
	first.WaitParked(2 * time.Second)
	select {
	case <-dialed:
	case <-time.After(1500 * time.Millisecond):
	}
	time.Sleep(50 * time.Millisecond)
	mu.Lock()
	defer mu.Unlock()
	servedFirst := false
	for _, v := range invs {
		if v.remote == "10.2.2.2:3868" {
			return ev.Failf("handler-before-handshake:second-connection", "the application handler %s ran for request %#x of the second peer, which never answered the CER sent on its connection (the first connection of the same state machine received %q meanwhile)", v.label, v.hbh, c.Extra)
		}
		if v.remote == "10.1.1.1:3868" && v.hbh == 0x6000+100 {
			servedFirst = true
		}
	}
	if !servedFirst {
		return ev.Failf("handler-not-invoked-after-handshake:first-connection", "the first connection completed its exchange, yet its request did not reach the application handler")
	}
	return nil
}

var client2Prop = ev.Register(&ev.Prop[Client2Case]{
	ID: "C10", Name: "client-two-connections",
	Rule: "one client state machine, two in-memory connections made with Client.NewConn: the first peer completes the exchange; the second never answers its CER but sends 1..3 application requests; meanwhile the first connection receives nothing or a duplicate success CEA carrying the identifiers of the second connection's CER. " +
		"Demanded: no application handler (by name, catch-all) runs for a request of the second peer; the first connection's request is handled. non-trivial = the duplicate CEA arrives",
	Run: runClient2,
	Classify: func(c Client2Case) (bool, []string) {
		return c.Extra == "dup-cea", []string{"extra:" + c.Extra, fmt.Sprintf("catch-all:%v", c.CatchA)}
	},
})

func TestC10ClientTwoConnections(t *testing.T) {
	client2Prop.Enumerate(t, true, func(yield func(Client2Case) bool) {
		for _, extra := range []string{"none", "dup-cea"} {
			for _, ca := range []bool{false, true} {
				for _, n := range []int{1, 3} {
					if !yield(Client2Case{Extra: extra, CatchA: ca, Reqs: n}) {
						return
					}
				}
			}
		}
	})
}
