package c10

import (
	"fmt"
	"sort"
	"strconv"
	"strings"
	"sync"
	"testing"
	"time"

	"github.com/fiorix/go-diameter/v4/diam"
	"github.com/fiorix/go-diameter/v4/diam/avp"
	"github.com/fiorix/go-diameter/v4/diam/datatype"
	"github.com/fiorix/go-diameter/v4/diam/sm"
	"pgregory.net/rapid"

	"verif/internal/ev"
	"verif/internal/memnet"
	"verif/internal/refcodec"
)

// Registrations interleaved WITH traffic, on ONE state machine that serves several connections.
//
// "... a handler the application registered - by short name, by index or as catch-all - is never
// invoked for a message from a peer that has not completed a successful CER/CEA exchange on that
// connection, and is invoked for every matching message once it has. Application registrations
// cannot replace the built-in CER, CEA and DWR processing."
//
// An application is free to register a handler at any time: before the first connection, after a
// handshake (on a client: after the Dial), after messages of that very command have already been
// served by a less specific handler. A script of steps - register / message on connection k /
// (client) dial connection k - is executed one step at a time (the harness waits until the reader
// of the connection is parked in Read again), so the order of dispatches is the order of the steps.
//
// Oracle: a model of the registration table, kept step by step. Which registration "matches" a
// message is what the sibling property C09 states: the registration for the message's exact
// (application id, command code, request bit); failing that the one under the command's short
// name; failing that the catch-all; registering a key again replaces the earlier handler. The model
// is consulted at the moment the message arrives. Registrations under the built-in keys are refused
// and never run; names that differ from CER / CEA / DWR only in letter case name no command: a
// handler registered under one of them must not run for a CER, CEA or DWR, and the built-in
// processing must go on (first CER of a connection answered by a CEA with the right result, DWR of
// a handshaken peer answered by a DWA, the CEA completes the client's dial).

type LStep struct {
	Op   string `json:"op"`             // reg | msg | dial
	Conn int    `json:"conn,omitempty"` // msg, dial
	Sym  string `json:"sym,omitempty"`  // msg: what the peer sends
	Kind string `json:"kind,omitempty"` // reg: name | idx
	Key  string `json:"key,omitempty"`  // reg: the name ("RAR", "ALL", "cea", ...) or the key of liveIdxKeys
	Via  string `json:"via,omitempty"`  // reg by name: Handle | HandleFunc
}

type LCase struct {
	Role   string  `json:"role"` // server | client
	Conns  int     `json:"conns"`
	OddApp bool    `json:"odd_app,omitempty"` // RAR / STR carry application id 7777 (resolved through base)
	Steps  []LStep `json:"steps"`
}

func (c LCase) baseApp() uint32 { return Case{OddApp: c.OddApp}.baseApp() }

// index registrations the application may make; "X@n" and "RAA" are neighbours of the keys the
// traffic uses (another application id, the other request bit): they must never be invoked.
func (c LCase) idxKey(key string) (diam.CommandIndex, bool) {
	b := c.baseApp()
	switch key {
	case "RAR":
		return diam.CommandIndex{AppID: b, Code: cmdRA, Request: true}, true
	case "RAA":
		return diam.CommandIndex{AppID: b, Code: cmdRA, Request: false}, true
	case "RAR@4":
		return diam.CommandIndex{AppID: 4, Code: cmdRA, Request: true}, true
	case "STR":
		return diam.CommandIndex{AppID: b, Code: cmdST, Request: true}, true
	case "STR@4":
		return diam.CommandIndex{AppID: 4, Code: cmdST, Request: true}, true
	case "ASA":
		return diam.CommandIndex{AppID: 0, Code: cmdAS, Request: false}, true
	case "ASR":
		return diam.CommandIndex{AppID: 0, Code: cmdAS, Request: true}, true
	case "DWA":
		return diam.CommandIndex{AppID: 0, Code: cmdDW, Request: false}, true
	case "CCR":
		return diam.CommandIndex{AppID: 4, Code: cmdCC, Request: true}, true
	case "CCA":
		return diam.CommandIndex{AppID: 4, Code: cmdCC, Request: false}, true
	case "CCR@0":
		return diam.CommandIndex{AppID: 0, Code: cmdCC, Request: true}, true
	case "CER": // the three built-in index keys
		return diam.CommandIndex{AppID: 0, Code: cmdCE, Request: true}, true
	case "CEA":
		return diam.CommandIndex{AppID: 0, Code: cmdCE, Request: false}, true
	case "DWR":
		return diam.CommandIndex{AppID: 0, Code: cmdDW, Request: true}, true
	}
	return diam.CommandIndex{}, false
}

var (
	liveIdxKeys   = []string{"RAR", "RAA", "RAR@4", "STR", "STR@4", "ASA", "ASR", "DWA", "CCR", "CCA", "CCR@0", "CER", "CEA", "DWR"}
	liveNameKeys  = append([]string{"RAR", "RAA", "STR", "ASA", "DWA", "CCR", "CCA", "ALL", "CER", "CEA", "DWR"}, caseVariants...)
	liveAppSyms   = []string{"RAR", "CCR", "STR", "CCA", "ASA", "DWA"}
	liveServerSym = []string{"CER", "CER-app4", "CER-noapp", "DWR", "DWR-app4", "RAR", "CCR", "STR", "CCA", "ASA", "DWA"}
	liveClientSym = []string{"CEA", "CEA-5010", "CER", "CER-app4", "DWR", "DWR-app4", "RAR", "CCR", "STR", "CCA", "ASA", "DWA"}
)

func isBuiltinKey(k string) bool { return k == "CER" || k == "CEA" || k == "DWR" }
func isCaseVariant(k string) bool {
	return !isBuiltinKey(k) && isBuiltinKey(strings.ToUpper(k))
}

// msgIdx is the command index of an application message of the traffic.
func (c LCase) msgIdx(sym string) diam.CommandIndex {
	i, _ := c.idxKey(sym) // the application symbols are index keys under their own name
	return i
}

// ---------------------------------------------------------------------------
// the model: what every step must do

type livePlan struct {
	Skip bool // a guard of the generator: the step is not executed (see plan)
	// reg
	Label   string
	Refused bool // a built-in key: the state machine refuses it
	// msg
	Gated    bool   // the connection had not completed its exchange when the message arrived
	Want     string // label of the registration that must serve the message; "" = none
	Builtin  string // CER | CEA | DWR when the message is one of those
	ByName   bool   // built-in message that the mux dispatches through its by-name registration
	CEA      string // server: the CER must be answered: success | failure
	DWA      bool   // the DWR must be answered
	Closes   bool   // the library closes the connection
	DialEnds string // client: the CEA ends the pending dial: ok | error
	Late     bool   // Want was registered after a message of this command had been served
	AfterVar bool   // built-in by-name message after a case-variant registration of its key
}

const (
	lcNone = iota // client: not dialed
	lcFresh
	lcPending // client: CER sent, no CEA yet
	lcOK
	lcClosed
)

type liveModel struct {
	idx    map[diam.CommandIndex]string
	name   map[string]string
	all    string
	regAt  map[string]int // label -> step
	served map[diam.CommandIndex]int
}

func (m *liveModel) resolve(i diam.CommandIndex, name string) string {
	if l, ok := m.idx[i]; ok {
		return l
	}
	if l, ok := m.name[name]; ok {
		return l
	}
	return m.all
}

func liveLabel(i int, st LStep) string { return fmt.Sprintf("s%d:%s:%s", i, st.Kind, st.Key) }

func labelKind(l string) string {
	f := strings.SplitN(l, ":", 3)
	if len(f) < 3 {
		return "none"
	}
	if f[1] == "name" && f[2] == "ALL" {
		return "ALL"
	}
	return f[1]
}

// plan computes, from the case alone, what each step must do. Guards (steps that are skipped):
// messages on a connection that is closed or (client) not dialed; a dial of a connection that was
// dialed before; a dial while another dial waits for its CEA, and a repeated CEA on a handshaken
// connection while a dial is pending (the CEA handler belongs to the latest dial of the state
// machine: what a stray CEA does to a pending dial is the subject of client-two-connections, not of
// this scenario); a CEA on a server; anything the role's alphabet does not contain.
func (c LCase) plan() []livePlan {
	m := &liveModel{idx: map[diam.CommandIndex]string{}, name: map[string]string{}, regAt: map[string]int{}, served: map[diam.CommandIndex]int{}}
	state := make([]int, c.Conns)
	if c.Role == "server" {
		for i := range state {
			state[i] = lcFresh
		}
	}
	pending := func() bool {
		for _, s := range state {
			if s == lcPending {
				return true
			}
		}
		return false
	}
	variantSeen := map[string]bool{}
	out := make([]livePlan, len(c.Steps))
	for i, st := range c.Steps {
		p := &out[i]
		switch st.Op {
		case "reg":
			p.Label = liveLabel(i, st)
			switch st.Kind {
			case "name":
				switch {
				case isBuiltinKey(st.Key):
					p.Refused = true
				case st.Key == "ALL":
					m.all = p.Label
				default:
					m.name[st.Key] = p.Label // a case variant of a built-in key names no command: it never matches
					if isCaseVariant(st.Key) {
						variantSeen[strings.ToUpper(st.Key)] = true
					}
				}
			case "idx":
				ci, ok := c.idxKey(st.Key)
				switch {
				case !ok:
					p.Skip = true
				case isBuiltinKey(st.Key):
					p.Refused = true
				default:
					m.idx[ci] = p.Label
				}
			default:
				p.Skip = true
			}
			m.regAt[p.Label] = i
		case "dial":
			if c.Role != "client" || st.Conn < 0 || st.Conn >= c.Conns || state[st.Conn] != lcNone || pending() {
				p.Skip = true
				break
			}
			state[st.Conn] = lcPending
		case "msg":
			if st.Conn < 0 || st.Conn >= c.Conns || state[st.Conn] == lcNone || state[st.Conn] == lcClosed {
				p.Skip = true
				break
			}
			alphabet := liveServerSym
			if c.Role == "client" {
				alphabet = liveClientSym
			}
			known := false
			for _, x := range alphabet {
				known = known || x == st.Sym
			}
			if !known {
				p.Skip = true
				break
			}
			s := state[st.Conn]
			p.Gated = s != lcOK
			switch {
			case isCER(st.Sym):
				p.Builtin, p.ByName = "CER", st.Sym == "CER-app4"
				if c.Role == "server" && s == lcFresh {
					if st.Sym == "CER-noapp" {
						p.CEA, p.Closes = "failure", true
						state[st.Conn] = lcClosed
					} else {
						p.CEA = "success"
						state[st.Conn] = lcOK
					}
				}
			case isCEA(st.Sym):
				p.Builtin, p.ByName = "CEA", true
				switch {
				case s == lcOK && pending():
					p.Skip = true
				case s == lcPending && st.Sym == "CEA":
					p.DialEnds = "ok"
					state[st.Conn] = lcOK
				case s == lcPending:
					p.DialEnds, p.Closes = "error", true
					state[st.Conn] = lcClosed
				}
			case st.Sym == "DWR" || st.Sym == "DWR-app4":
				p.Builtin, p.ByName = "DWR", st.Sym == "DWR-app4"
				p.DWA = s == lcOK
			case isApp(st.Sym):
				ci := c.msgIdx(st.Sym)
				if s == lcOK {
					p.Want = m.resolve(ci, st.Sym)
					if first, ok := m.served[ci]; ok && p.Want != "" && m.regAt[p.Want] > first {
						p.Late = true
					}
					if _, ok := m.served[ci]; !ok {
						m.served[ci] = i
					}
				}
			default:
				p.Skip = true
			}
			if p.Skip {
				*p = livePlan{Skip: true}
			} else if p.ByName && variantSeen[p.Builtin] {
				p.AfterVar = true
			}
		default:
			p.Skip = true
		}
	}
	return out
}

// ---------------------------------------------------------------------------
// runner

type liveInv struct {
	Conn    string
	Label   string
	HbH     uint32
	Code    uint32
	Request bool
}

func liveMessage(c LCase, sym string, i int, cerH refcodec.Header) []byte {
	h := Case{Role: "server", OddApp: c.OddApp, Hist: make([]string, i+1)}
	for k := range h.Hist {
		h.Hist[k] = "DWR"
	}
	h.Hist[i] = sym
	msgs, _, _ := h.wire(cerH)
	return msgs[i]
}

func runLive(c LCase) *ev.Failure {
	if c.Role != "server" && c.Role != "client" || c.Conns < 1 || c.Conns > 64 {
		return ev.Failf("harness-generator", "role %q, %d connections", c.Role, c.Conns)
	}
	plan := c.plan()
	machine := sm.New(&sm.Settings{OriginHost: datatype.DiameterIdentity(ownHost), OriginRealm: datatype.DiameterIdentity(ownRealm), VendorID: 13, ProductName: "verif-c10"})
	stop := make(chan struct{})
	defer close(stop)
	go func() {
		for {
			select {
			case <-machine.ErrorReports():
			case <-stop:
				return
			}
		}
	}()
	var mu sync.Mutex
	var invs []liveInv
	rec := func(lbl string) diam.HandlerFunc {
		return func(cn diam.Conn, m *diam.Message) {
			mu.Lock()
			invs = append(invs, liveInv{cn.RemoteAddr().String(), lbl, m.Header.HopByHopID, m.Header.CommandCode, m.Header.CommandFlags&diam.RequestFlag != 0})
			mu.Unlock()
		}
	}
	conns := make([]*memnet.Conn, c.Conns)
	for i := range conns {
		conns[i] = memnet.NewConn()
		conns[i].Remote = memnet.Addr{Net: "tcp", Str: "10.8.8." + strconv.Itoa(i+1) + ":5000"}
	}
	addrOf := func(k int) string { return conns[k].Remote.String() }
	cli := &sm.Client{Handler: machine, MaxRetransmits: 0,
		RetransmitInterval: 30 * time.Second, // never awaited: the harness ends every dial itself
		AuthApplicationID:  []*diam.AVP{diam.NewAVP(avp.AuthApplicationID, avp.Mbit, 0, datatype.Unsigned32(4))}}
	cerH := make([]refcodec.Header, c.Conns)
	dialed := make([]chan error, c.Conns)
	dialOpen := make([]bool, c.Conns)
	attached := make([]bool, c.Conns) // the library runs a connection loop on it
	defer func() {
		for k, mc := range conns {
			if dialOpen[k] { // end a dial that the script left pending: the peer refuses
				mc.Feed(liveMessage(c, "CEA-5010", 0, cerH[k]))
				select {
				case <-dialed[k]:
				case <-time.After(longWait):
				}
			}
			mc.FeedEOF()
			if attached[k] {
				mc.WaitClosed(2 * time.Second)
			}
			mc.Close()
		}
	}()
	if c.Role == "server" {
		for k, mc := range conns {
			if _, err := diam.NewConn(mc, "", machine, nil); err != nil {
				return ev.Failf("harness-conn", "%v", err)
			}
			attached[k] = true
		}
	}
	describe := func(upto int) string {
		var b strings.Builder
		for i, st := range c.Steps {
			if i > upto {
				break
			}
			if plan[i].Skip {
				continue
			}
			switch st.Op {
			case "reg":
				fmt.Fprintf(&b, " %d:register(%s %q)", i, st.Kind, st.Key)
			case "dial":
				fmt.Fprintf(&b, " %d:dial(conn %d)", i, st.Conn)
			case "msg":
				fmt.Fprintf(&b, " %d:%s(conn %d)", i, st.Sym, st.Conn)
			}
		}
		return fmt.Sprintf("%s, %d connections, base application id %d; steps:%s", c.Role, c.Conns, c.baseApp(), b.String())
	}
	for i, st := range c.Steps {
		p := plan[i]
		if p.Skip {
			continue
		}
		switch st.Op {
		case "reg":
			switch {
			case st.Kind == "idx":
				ci, _ := c.idxKey(st.Key)
				machine.HandleIdx(ci, rec(p.Label))
			case st.Via == "Handle":
				machine.Handle(st.Key, rec(p.Label))
			default:
				machine.HandleFunc(st.Key, rec(p.Label))
			}
		case "dial":
			k, mc := st.Conn, conns[st.Conn]
			seen := make(chan refcodec.Header, 1)
			mc.WriteHook = func(b []byte, accept func([]byte)) (int, error) {
				accept(b)
				if h, err := refcodec.DecodeHeader(b); err == nil && h.Code == cmdCE && h.Flags&flagRequest != 0 {
					select {
					case seen <- h:
					default:
					}
				}
				return len(b), nil
			}
			dialed[k] = make(chan error, 1)
			dialOpen[k] = true
			attached[k] = true
			go func() { _, err := cli.NewConn(mc, addrOf(k)); dialed[k] <- err }()
			select {
			case cerH[k] = <-seen:
			case <-time.After(longWait):
				return ev.Failf("live:client-no-cer", "step %d: the dial of connection %d wrote no CER within %v; %s", i, k, longWait, describe(i))
			}
			if !mc.WaitParked(longWait) {
				return ev.Failf("live:connection-stalled", "step %d: the reader of the dialed connection %d is not waiting for input; %s", i, k, describe(i))
			}
		case "msg":
			k, mc := st.Conn, conns[st.Conn]
			mc.Feed(liveMessage(c, st.Sym, i, cerH[k]))
			if p.DialEnds != "" {
				select {
				case err := <-dialed[k]:
					dialOpen[k] = false
					if err == sm.ErrHandshakeTimeout {
						return nil // the process stalled for longer than the retransmit interval: no verdict
					}
					if p.DialEnds == "ok" && err != nil {
						return ev.Failf("live:cea-processing-changed:dial-failed", "step %d: a success CEA arrived on connection %d but the dial returned %v; %s", i, k, err, describe(i))
					}
					if p.DialEnds == "error" && err == nil {
						return ev.Failf("live:cea-processing-changed:dial-succeeded", "step %d: a CEA with Result-Code 5010 arrived on connection %d but the dial succeeded; %s", i, k, describe(i))
					}
				case <-time.After(longWait):
					why := "plain"
					if p.AfterVar {
						why = "after-case-variant-registration"
					}
					return ev.Failf("live:cea-not-processed:"+why, "step %d: a CEA (%s) was delivered on connection %d but the dial did not return within %v - the built-in CEA processing did not take place; %s", i, st.Sym, k, longWait, describe(i))
				}
			}
			if p.Closes {
				if !mc.WaitClosed(longWait) {
					return ev.Failf("live:connection-not-closed", "step %d: %s on connection %d ends the connection, but the library did not close it within %v; %s", i, st.Sym, k, longWait, describe(i))
				}
			} else if !mc.WaitParked(longWait) {
				return ev.Failf("live:connection-stalled", "step %d (%s on connection %d): the reader did not return to the transport within %v; %s", i, st.Sym, k, longWait, describe(i))
			}
		}
	}
	mu.Lock()
	got := append([]liveInv{}, invs...)
	mu.Unlock()

	// 1. handlers that may never run, and handlers that ran for a built-in message
	for _, g := range got {
		f := strings.SplitN(g.Label, ":", 3)
		kind, key := f[1], f[2]
		builtinMsg := g.Code == cmdCE || g.Code == cmdDW && g.Request
		switch {
		case isBuiltinKey(key):
			return ev.Failf("live:builtin-replaced:"+kind+":"+key, "the handler registered under the built-in key %s (%s, a registration the state machine refuses) ran for the message with hop-by-hop id %#x (code %d) on %s; invocations %v; %s", key, kind, g.HbH, g.Code, g.Conn, got, describe(len(c.Steps)))
		case builtinMsg:
			what := "other"
			if isCaseVariant(key) {
				what = "case-variant"
			}
			return ev.Failf("live:builtin-replaced:"+what+":"+strings.ToUpper(key), "the application handler registered under %s %q ran for a built-in message (code %d, request %v, hop-by-hop id %#x) on %s: the built-in CER / CEA / DWR processing was replaced; invocations %v; %s", kind, key, g.Code, g.Request, g.HbH, g.Conn, got, describe(len(c.Steps)))
		}
	}
	// 2. the built-in processing took place (checked first: a CER that was not answered explains missing invocations)
	written := make([][]*wmsg, c.Conns)
	for k, mc := range conns {
		w, f := parseAll(mc.Written())
		if f != nil {
			return f
		}
		written[k] = w
	}
	for i, st := range c.Steps {
		p := plan[i]
		if st.Op != "msg" || p.Skip {
			continue
		}
		why := "plain"
		if p.AfterVar {
			why = "after-case-variant-registration"
		}
		w := written[st.Conn]
		if p.CEA != "" {
			a := findAnswer(w, cmdCE, hbhOf(i), false)
			switch {
			case a == nil:
				return ev.Failf("live:cer-not-answered:"+st.Sym+":"+why, "step %d: %s, the first CER of connection %d, was not answered with a CEA; written on that connection: %s; %s", i, st.Sym, st.Conn, summary(w), describe(i))
			case p.CEA == "success" && !(len(a.RC) == 1 && a.RC[0] == 2001):
				return ev.Failf("live:cer-processing-changed:"+st.Sym, "step %d: %s (acceptable) on connection %d was answered with Result-Code %v; %s", i, st.Sym, st.Conn, a.RC, describe(i))
			case p.CEA == "failure" && len(a.RC) == 1 && a.RC[0] == 2001:
				return ev.Failf("live:cer-processing-changed:"+st.Sym, "step %d: %s (not acceptable) on connection %d was answered with Result-Code 2001; %s", i, st.Sym, st.Conn, describe(i))
			}
		}
		if p.DWA && findAnswer(w, cmdDW, hbhOf(i), true) == nil {
			return ev.Failf("live:dwr-not-answered-after-handshake:"+st.Sym+":"+why, "step %d: %s on connection %d follows the handshake of that connection, but no successful DWA with its hop-by-hop id was written; written on that connection: %s; %s", i, st.Sym, st.Conn, summary(w), describe(i))
		}
	}
	// 3. the application messages: who ran, for what, in which order
	stepOf := map[uint32]int{}
	for i, st := range c.Steps {
		if st.Op == "msg" && !plan[i].Skip && isApp(st.Sym) {
			stepOf[hbhOf(i)] = i
		}
	}
	byStep := map[int][]liveInv{}
	for _, g := range got {
		i, ok := stepOf[g.HbH]
		if !ok || g.Conn != addrOf(c.Steps[i].Conn) {
			return ev.Failf("live:handler-for-unknown-message", "handler %s ran for hop-by-hop id %#x on %s, which is no application message of the script; invocations %v; %s", g.Label, g.HbH, g.Conn, got, describe(len(c.Steps)))
		}
		byStep[i] = append(byStep[i], g)
	}
	gi := 0
	for i, st := range c.Steps {
		p := plan[i]
		if st.Op != "msg" || p.Skip || !isApp(st.Sym) {
			continue
		}
		ran := byStep[i]
		switch {
		case p.Gated && len(ran) > 0:
			return ev.Failf("live:handler-before-handshake:"+labelKind(ran[0].Label), "step %d: handler %s ran for %s on connection %d, which had not completed a CER/CEA exchange at that time; invocations %v; %s", i, ran[0].Label, st.Sym, st.Conn, got, describe(i))
		case p.Want == "" && len(ran) > 0:
			return ev.Failf("live:unexpected-invocation:"+labelKind(ran[0].Label), "step %d: handler %s ran for %s on connection %d although no registration in force at that time matches the message; invocations %v; %s", i, ran[0].Label, st.Sym, st.Conn, got, describe(i))
		case p.Want != "" && len(ran) == 0:
			when := "registered-before-traffic"
			if p.Late {
				when = "registered-after-the-command-had-been-served"
			}
			return ev.Failf("live:handler-not-invoked-after-handshake:"+labelKind(p.Want)+":"+when, "step %d: %s on connection %d (handshake complete) matches registration %s, but no handler ran for it; invocations %v; %s", i, st.Sym, st.Conn, p.Want, got, describe(i))
		case p.Want != "" && ran[0].Label != p.Want:
			when := "registered-before-traffic"
			if p.Late {
				when = "registered-after-the-command-had-been-served"
			}
			return ev.Failf("live:wrong-handler:"+labelKind(p.Want)+"-expected-"+labelKind(ran[0].Label)+"-ran:"+when, "step %d: %s on connection %d must be served by %s (the registration that matches it at that time: index, then name, then catch-all; a later registration of a key replaces the earlier one), but %s ran; invocations %v; %s", i, st.Sym, st.Conn, p.Want, ran[0].Label, got, describe(i))
		case len(ran) > 1:
			return ev.Failf("live:handler-invocation-count", "step %d: %d handlers ran for one %s on connection %d: %v; %s", i, len(ran), st.Sym, st.Conn, ran, describe(i))
		}
		if p.Want != "" {
			if gi >= len(got) || got[gi].HbH != hbhOf(i) {
				return ev.Failf("live:handler-invocation-order", "step %d: the invocation for %s on connection %d is out of order; invocations %v; %s", i, st.Sym, st.Conn, got, describe(len(c.Steps)))
			}
			gi++
		}
	}
	return nil
}

// ---------------------------------------------------------------------------
// measuring

func classifyLive(c LCase) (bool, []string) {
	seen := map[string]bool{"role:" + c.Role: true, fmt.Sprintf("conns:%d", c.Conns): true}
	if c.OddApp {
		seen["base-commands-under-an-undeclared-application-id"] = true
	}
	nt := false
	traffic := false
	for i, p := range c.plan() {
		st := c.Steps[i]
		if p.Skip {
			seen["skipped-step"] = true
			continue
		}
		switch st.Op {
		case "reg":
			when := "before-traffic"
			if traffic {
				when = "after-traffic"
			}
			switch {
			case p.Refused:
				seen["register-built-in-key:"+st.Kind] = true
			case isCaseVariant(st.Key):
				seen["register-case-variant-of-built-in-name:"+when] = true
			default:
				seen["register:"+labelKind(p.Label)+":"+when] = true
			}
		case "msg":
			traffic = true
			switch {
			case p.Builtin != "":
				k := "builtin:" + p.Builtin
				if p.ByName {
					k += ":dispatched-by-name"
				}
				if p.AfterVar {
					k += ":after-case-variant-registration"
					nt = true
				}
				seen[k] = true
			case p.Gated:
				seen["app-message-before-handshake"] = true
			case p.Late:
				seen["served-by-handler-registered-after-the-command-had-been-served:"+labelKind(p.Want)] = true
				nt = true
			case p.Want == "":
				seen["app-message-unregistered"] = true
			default:
				seen["served:"+labelKind(p.Want)] = true
			}
		}
	}
	var cl []string
	for k := range seen {
		cl = append(cl, k)
	}
	sort.Strings(cl)
	return nt, cl
}

var propLive = ev.Register(&ev.Prop[LCase]{
	ID: "C10", Name: "live-registrations",
	Rule: "ONE state machine serving 2..3 in-memory connections, as a server (diam.NewConn) or as a client (sm.Client.NewConn per connection; the scripted peer answers the CER when the script says so); a script of steps executed one at a time (the harness waits until the connection's reader is parked): register a handler by name (RAR, CCR, CCA, STR, ASA, DWA, ALL, a neighbour, the built-in keys CER / CEA / DWR, and spellings of those that differ only in letter case - through Handle or HandleFunc) or by index (the traffic's own keys, neighbours differing in application id or request bit, the three built-in keys), a message on connection k (acceptable CER, CER / DWR with application id 4 in the header - dispatched by name -, rejected CER, DWR, CEA success / 5010 / repeated, RAR, CCR, STR, CCA, ASA, DWA; RAR and STR optionally under an undeclared application id), a dial. Registrations happen before the first connection, after handshakes / dials and between messages of the command they concern. " +
		"Demanded: a handler runs for an application message iff the connection has completed its exchange and the handler is the registration that matches the message at that moment (index, then name, then catch-all; re-registering a key replaces the earlier handler), once and in script order; handlers under built-in keys and under their case variants never run for a CER, CEA or DWR; the first CER of a connection is answered by a CEA with the right result, a DWR of a handshaken connection by a DWA, a CEA ends the client's dial. non-trivial = a message served by a handler registered after a message of the same command had already been served, or a built-in message dispatched by name after a case-variant registration of its key",
	Run: runLive, Classify: classifyLive, Attempts: 2,
	Gen: genLive,
})

// ---------------------------------------------------------------------------
// generators

func regStep(kind, key string, n int) LStep {
	st := LStep{Op: "reg", Kind: kind, Key: key}
	if kind == "name" {
		st.Via = []string{"HandleFunc", "Handle"}[n%2]
	}
	return st
}

// handshakeSteps makes connection k complete its exchange.
func handshakeSteps(role string, k int, cer string) []LStep {
	if role == "client" {
		return []LStep{{Op: "dial", Conn: k}, {Op: "msg", Conn: k, Sym: "CEA"}}
	}
	return []LStep{{Op: "msg", Conn: k, Sym: cer}}
}

func genLive(t *rapid.T) LCase {
	c := LCase{Role: rapid.SampledFrom([]string{"server", "client"}).Draw(t, "role"), Conns: rapid.IntRange(2, 3).Draw(t, "conns"),
		OddApp: rapid.IntRange(0, 3).Draw(t, "odd-app") == 0}
	focus := rapid.SampledFrom([]string{"RAR", "CCR", "STR", "CCA", "ASA"}).Draw(t, "focus")
	syms := liveServerSym
	if c.Role == "client" {
		syms = liveClientSym
	}
	byName := rapid.IntRange(0, 2).Draw(t, "prefers-names") == 0
	nreg := 0
	genReg := func() LStep {
		nreg++
		switch rapid.IntRange(0, 9).Draw(t, "reg-kind") {
		case 0, 1, 2:
			if byName { // this application prefers names: late registrations by name and of the catch-all
				return regStep("name", rapid.SampledFrom([]string{focus, focus, "ALL"}).Draw(t, "name"), nreg)
			}
			return regStep("idx", focus, nreg)
		case 3, 4:
			return regStep("name", rapid.SampledFrom([]string{focus, focus, "ALL"}).Draw(t, "name"), nreg)
		case 5:
			return regStep("idx", rapid.SampledFrom(liveIdxKeys).Draw(t, "idx-key"), nreg)
		case 6:
			return regStep("name", rapid.SampledFrom(caseVariants).Draw(t, "variant"), nreg)
		default:
			return regStep("name", rapid.SampledFrom(liveNameKeys).Draw(t, "name-key"), nreg)
		}
	}
	genMsg := func() LStep {
		st := LStep{Op: "msg", Conn: rapid.IntRange(0, c.Conns-1).Draw(t, "conn")}
		switch rapid.IntRange(0, 9).Draw(t, "msg-kind") {
		case 0, 1, 2, 3:
			st.Sym = focus
		case 4:
			st.Sym = rapid.SampledFrom([]string{"CER-app4", "DWR-app4", "DWR", "CER", "CEA"}).Draw(t, "builtin")
			if c.Role == "server" && st.Sym == "CEA" {
				st.Sym = "DWR-app4"
			}
		default:
			st.Sym = rapid.SampledFrom(syms).Draw(t, "sym")
		}
		return st
	}
	for i, n := 0, rapid.IntRange(0, 3).Draw(t, "initial-registrations"); i < n; i++ {
		c.Steps = append(c.Steps, genReg())
	}
	if rapid.IntRange(0, 4).Draw(t, "first-handshake") > 0 {
		c.Steps = append(c.Steps, handshakeSteps(c.Role, 0, rapid.SampledFrom([]string{"CER", "CER-app4"}).Draw(t, "cer"))...)
	}
	for i, n := 0, rapid.IntRange(4, 24).Draw(t, "steps"); i < n; i++ {
		switch x := rapid.IntRange(0, 19).Draw(t, "op"); {
		case x < 6:
			c.Steps = append(c.Steps, genReg())
		case x < 8:
			k := rapid.IntRange(0, c.Conns-1).Draw(t, "hs-conn")
			hs := handshakeSteps(c.Role, k, rapid.SampledFrom([]string{"CER", "CER-app4"}).Draw(t, "cer"))
			if len(hs) == 2 && rapid.IntRange(0, 2).Draw(t, "traffic-before-cea") == 0 {
				// the peer talks before it answers the CER
				hs = []LStep{hs[0], {Op: "msg", Conn: k, Sym: focus}, {Op: "msg", Conn: k, Sym: rapid.SampledFrom(syms).Draw(t, "early")}, hs[1]}
			}
			c.Steps = append(c.Steps, hs...)
		default:
			c.Steps = append(c.Steps, genMsg())
		}
	}
	return c
}

// lateRegistrationCases: a command X is served after the handshake by the handler `first`, then the
// application registers `second` (and later `third`) for X, and X is sent again: on the same
// connection, on another handshaken connection, on a connection without handshake, which completes
// its exchange at the end.
func lateRegistrationCases(yield func(LCase) bool) {
	type reg struct{ kind, key string } // key "" = the command itself
	firsts := []reg{{"name", "ALL"}, {"name", ""}, {"idx", ""}, {"", ""}}
	seconds := []reg{{"idx", ""}, {"name", ""}, {"name", "ALL"}, {"idx", "neighbour"}}
	thirds := []reg{{"", ""}, {"idx", ""}, {"name", ""}}
	neighbour := map[string]string{"RAR": "RAR@4", "CCR": "CCR@0", "STR": "STR@4", "CCA": "CCR", "ASA": "ASR"}
	odds := []bool{false, true}
	n := 0
	for _, role := range []string{"server", "client"} {
		for _, x := range []string{"RAR", "CCR", "STR", "CCA", "ASA"} {
			for _, first := range firsts {
				for _, second := range seconds {
					for _, third := range thirds {
						for _, early := range []bool{true, false} {
							for _, odd := range odds {
								if odd && x != "RAR" && x != "STR" {
									continue
								}
								n++
								if !ev.Thorough() && n%2 == 0 && third.kind != "" {
									continue // quick tier: half of the cases with a third registration
								}
								mk := func(r reg) []LStep {
									if r.kind == "" {
										return nil
									}
									key := r.key
									switch key {
									case "":
										key = x
									case "neighbour":
										key = neighbour[x]
									}
									return []LStep{regStep(r.kind, key, n)}
								}
								c := LCase{Role: role, Conns: 3, OddApp: odd}
								add := func(s ...LStep) { c.Steps = append(c.Steps, s...) }
								msg := func(k int) LStep { return LStep{Op: "msg", Conn: k, Sym: x} }
								if early {
									add(mk(first)...)
								}
								add(handshakeSteps(role, 0, "CER")...)
								add(handshakeSteps(role, 1, "CER-app4")...)
								if !early {
									add(mk(first)...)
								}
								if role == "client" {
									add(LStep{Op: "dial", Conn: 2})
								}
								add(msg(0))
								add(mk(second)...)
								add(msg(0), msg(1), msg(2), msg(0))
								add(mk(third)...)
								add(msg(1), msg(0), msg(2))
								if role == "client" {
									add(LStep{Op: "msg", Conn: 2, Sym: "CEA"})
								} else {
									add(LStep{Op: "msg", Conn: 2, Sym: "CER"})
								}
								add(msg(2), msg(0))
								if !yield(c) {
									return
								}
							}
						}
					}
				}
			}
		}
	}
}

// builtinNameCases: the application registers a spelling of a built-in key (or the key itself, by
// name or by index) before the first connection or after the first handshake / dial; the peers then
// send the built-in messages that are dispatched by name and the ones dispatched by index.
func builtinNameCases(yield func(LCase) bool) {
	type reg struct{ kind, key string }
	var regs []reg
	for _, k := range caseVariants {
		regs = append(regs, reg{"name", k})
	}
	for _, k := range []string{"CER", "CEA", "DWR"} {
		regs = append(regs, reg{"name", k}, reg{"idx", k})
	}
	n := 0
	for _, role := range []string{"server", "client"} {
		for _, r := range regs {
			for _, via := range []int{0, 1} {
				if r.kind == "idx" && via == 1 {
					continue
				}
				for _, when := range []string{"before-connections", "after-handshake", "both"} {
					for _, cer0 := range []string{"CER", "CER-app4"} {
						if role == "client" && cer0 == "CER-app4" {
							continue
						}
						n++
						c := LCase{Role: role, Conns: 2}
						add := func(s ...LStep) { c.Steps = append(c.Steps, s...) }
						msg := func(k int, sym string) LStep { return LStep{Op: "msg", Conn: k, Sym: sym} }
						add(regStep("name", "RAR", 0))
						if when != "after-handshake" {
							add(regStep(r.kind, r.key, via))
						}
						add(handshakeSteps(role, 0, cer0)...)
						if when != "before-connections" {
							add(regStep(r.kind, r.key, via))
						}
						add(msg(0, "DWR-app4"), msg(0, "DWR"), msg(0, "CER-app4"), msg(0, "CER"))
						if role == "client" {
							add(msg(0, "CEA"))
						}
						add(msg(0, "RAR"))
						// a second peer, after the registration
						add(msg(1, "DWR-app4"))
						if role == "client" {
							add(LStep{Op: "dial", Conn: 1}, msg(1, "CER-app4"), msg(1, "RAR"), msg(1, "CEA"))
						} else {
							add(msg(1, "RAR"), msg(1, "CER-app4"))
						}
						add(msg(1, "DWR-app4"), msg(1, "RAR"), msg(0, "DWR-app4"))
						if n%3 == 0 {
							// a third party: the rejected CER is answered and the connection closed
							c.Conns = 3
							if role == "server" {
								add(msg(2, "CER-noapp"))
							} else {
								add(LStep{Op: "dial", Conn: 2}, msg(2, "CEA-5010"))
							}
							add(msg(0, "RAR"))
						}
						if !yield(c) {
							return
						}
					}
				}
			}
		}
	}
}

func TestC10LiveLateRegistration(t *testing.T) {
	propLive.Enumerate(t, false, lateRegistrationCases)
}

func TestC10LiveBuiltinNames(t *testing.T) {
	propLive.Enumerate(t, false, builtinNameCases)
}

func TestC10LiveRandom(t *testing.T) { propLive.Check(t, 2500, 30000) }
