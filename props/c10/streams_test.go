package c10

import (
	"fmt"
	"testing"

	"github.com/fiorix/go-diameter/v4/diam"
	"pgregory.net/rapid"

	"verif/internal/ev"
	"verif/internal/memnet"
	"verif/internal/refcodec"
)

// The server histories once more, over a multi-stream association.
//
// "... is never invoked for a message from a peer that has not completed a successful CER/CEA
// exchange on that connection, and is invoked for every matching message once it has."
//
// The exchange is one of the connection: on an SCTP association the peer may send its CER on one
// stream and its application messages on the same and on other streams (RFC 6733 2.1.1 lets a
// peer use any stream; go-diameter reads all of them through one reader loop and tells the
// handler the stream of each message). The histories of the server alphabet are played over the
// in-memory SCTP backend (diam.NewVerifSCTPConn), every message on a stream of its own choosing,
// one message at a time (the next one is fed when the reader loop is parked in Read again, so the
// order of arrival is the order of the history whatever the streams are). The oracle is the one
// of the byte-stream histories: no application handler before the first acceptable CER was
// answered successfully, every matching message after it handed to its handler once and in order,
// no handler under a built-in key or a case variant of it, first CER answered, DWRs after the
// handshake answered.

type StreamCase struct {
	Case    Case     `json:"case"`
	Streams []uint16 `json:"streams"`          // the stream of every message of the history
	Splits  []int    `json:"splits,omitempty"` // > 0: the message arrives in two chunks, the first of that many bytes
}

func (c StreamCase) describe() string {
	s := ""
	for i, m := range c.Case.Hist {
		s += fmt.Sprintf(" %s@s%d", m, c.Streams[i])
	}
	return "on a multi-stream association:" + s
}

func runStreams(sc StreamCase) *ev.Failure {
	c := sc.Case
	if c.Role != "server" || len(sc.Streams) != len(c.Hist) || (len(sc.Splits) != 0 && len(sc.Splits) != len(c.Hist)) {
		return ev.Failf("harness-generator", "inconsistent case")
	}
	for _, s := range c.Hist {
		found := s == "DWA" || s == "DWR-app4"
		for _, x := range serverAlphabet {
			found = found || x == s
		}
		if !found {
			return ev.Failf("harness-generator", "symbol %q is not in the server alphabet", s)
		}
	}
	e := newEnv(c)
	defer e.close()
	msgs, hbh, cerOK := c.wire(refcodec.Header{})
	be := memnet.NewSCTP()
	assoc := diam.NewVerifSCTPConn(be)
	if c.Listener {
		l := memnet.NewListener(1)
		srv := &diam.Server{Handler: e.machine}
		done := make(chan struct{})
		go func() { srv.Serve(l); close(done) }()
		defer func() { l.Close(); <-done }()
		l.Push(assoc)
	} else if _, err := diam.NewConn(assoc, "", e.machine, nil); err != nil {
		return ev.Failf("harness-conn", "NewConn: %v", err)
	}
	stuck := func(what string) *ev.Failure {
		be.Close()
		return ev.Failf("conn-loop-stuck", "%s within %v; %s", what, longWait, sc.describe())
	}
	if !be.WaitParked(longWait) {
		return stuck("the connection loop did not start reading")
	}
	for i, b := range msgs {
		if len(sc.Splits) > 0 && sc.Splits[i] > 0 && sc.Splits[i] < len(b) {
			be.Feed(memnet.Chunk{Stream: sc.Streams[i], Data: b[:sc.Splits[i]]}, memnet.Chunk{Stream: sc.Streams[i], Data: b[sc.Splits[i]:]})
		} else {
			be.Feed(memnet.Chunk{Stream: sc.Streams[i], Data: b})
		}
		// parked again with nothing queued (the handlers run in the reader's goroutine), or closed by the library
		if !be.WaitParked(longWait) {
			return stuck(fmt.Sprintf("message %d (%s) was fed, the connection loop did not come back to Read", i, c.Hist[i]))
		}
	}
	be.FeedEOF()
	if !be.WaitClosed(longWait) {
		return stuck("the connection loop did not close the transport after EOF")
	}
	var out []byte
	for _, w := range be.Writes() {
		out = append(out, w.Data...)
	}
	written, f := parseAll(out)
	if f != nil {
		return f
	}
	h := -1
	for i, s := range c.Hist {
		if isCER(s) && cerOK[i] && findAnswer(written, cmdCE, hbh[i], true) != nil {
			h = i
			break
		}
	}
	where := func(f *ev.Failure) *ev.Failure {
		if f != nil {
			f.Sig = "streams:" + f.Sig
			f.Detail += "; " + sc.describe()
		}
		return f
	}
	if f := checkInvocations(c, e.app.invocations(), hbh, h); f != nil {
		return where(f)
	}
	for i, s := range c.Hist {
		if !isCER(s) {
			continue
		}
		a := findAnswer(written, cmdCE, hbh[i], false)
		switch {
		case a == nil:
			return where(ev.Failf("cer-not-answered:"+s, "message %d (%s, the first CER of the history) was not answered with a CEA; written: %s", i, s, summary(written)))
		case cerOK[i] && !(len(a.RC) == 1 && a.RC[0] == 2001):
			return where(ev.Failf("cer-processing-changed:"+s, "message %d (%s, acceptable) was answered with Result-Code %v", i, s, a.RC))
		case !cerOK[i] && len(a.RC) == 1 && a.RC[0] == 2001:
			return where(ev.Failf("cer-processing-changed:"+s, "message %d (%s, not acceptable) was answered with Result-Code 2001", i, s))
		}
		break
	}
	return where(checkWatchdog(c, written, hbh, h))
}

// streamPatterns: how the messages of a history are spread over streams.
var streamPatterns = []string{"all-on-0", "all-on-3", "cer-on-0-rest-on-1", "cer-on-2-rest-alternating", "round-robin", "cer-on-5-rest-on-0"}

func spread(hist []string, pattern string) []uint16 {
	out := make([]uint16, len(hist))
	k := 0
	for i, s := range hist {
		switch pattern {
		case "all-on-0":
		case "all-on-3":
			out[i] = 3
		case "cer-on-0-rest-on-1":
			if !isCER(s) {
				out[i] = 1
			}
		case "cer-on-2-rest-alternating":
			out[i] = 2
			if !isCER(s) {
				out[i] = []uint16{2, 7}[k%2]
				k++
			}
		case "round-robin":
			out[i] = uint16(i % 3)
		case "cer-on-5-rest-on-0":
			if isCER(s) {
				out[i] = 5
			}
		}
	}
	return out
}

func classifyStreams(sc StreamCase) (bool, []string) {
	nt, cl := classify(sc.Case)
	if len(sc.Streams) != len(sc.Case.Hist) {
		return false, []string{"invalid"}
	}
	// the first CER and the application messages around it
	cer := -1
	for i, s := range sc.Case.Hist {
		if isCER(s) {
			cer = i
			break
		}
	}
	other, same, before := false, false, false
	for i, s := range sc.Case.Hist {
		if cer < 0 || !isApp(s) {
			continue
		}
		if i < cer && sc.Streams[i] != sc.Streams[cer] {
			before = true
		}
		if i > cer {
			if sc.Streams[i] != sc.Streams[cer] {
				other = true
			} else {
				same = true
			}
		}
	}
	if other {
		cl = append(cl, "app-message-after-the-cer-on-another-stream")
	}
	if same {
		cl = append(cl, "app-message-after-the-cer-on-its-stream")
	}
	if before {
		cl = append(cl, "app-message-before-the-cer-on-another-stream")
	}
	for _, sp := range sc.Splits {
		if sp > 0 {
			cl = append(cl, "message-in-two-chunks")
			break
		}
	}
	return nt && (other || before), cl
}

func genStreams(t *rapid.T) StreamCase {
	sc := StreamCase{Case: genServer(t)}
	sc.Case.Frag, sc.Case.Cuts = "per-message", nil
	np := rapid.IntRange(1, 4).Draw(t, "stream-pool")
	pool := rapid.Permutation([]uint16{0, 1, 2, 3, 5, 15, 16, 100, 65535}).Draw(t, "ids")[:np]
	cerOwn := rapid.IntRange(0, 2).Draw(t, "cer-on-one-stream") == 0
	split := rapid.IntRange(0, 2).Draw(t, "splits") == 0
	for _, s := range sc.Case.Hist {
		st := rapid.SampledFrom(pool).Draw(t, "stream")
		if cerOwn && isCER(s) {
			st = pool[0]
		}
		sc.Streams = append(sc.Streams, st)
		if split {
			sp := 0
			if rapid.IntRange(0, 2).Draw(t, "split") == 0 {
				sp = rapid.SampledFrom([]int{1, 19, 20, 21, 28, 60}).Draw(t, "split-at")
			}
			sc.Splits = append(sc.Splits, sp)
		}
	}
	return sc
}

var propStreams = ev.Register(&ev.Prop[StreamCase]{ID: "C10", Name: "server-streams",
	Rule: "the server histories over a multi-stream association (in-memory SCTP backend behind diam.NewVerifSCTPConn, through NewConn or Server.Serve): every message of a history of the server alphabet (same symbols, catch-all or not, same options: context-wrapping handlers, relayed origin, odd application id, " +
		"Origin-State-Id in DWRs, T bit, case-variant registrations) arrives on a stream of its own - enumerated: all histories up to length 3 (thorough: 4) under one of six spreads (everything on stream 0 / on stream 3, CERs on 0 and the rest on 1, CERs on 2 and the rest alternating between 2 and 7, round robin over 0..2, CERs on 5 and the rest on 0); " +
		"random: histories up to length 12 over 1..4 streams out of {0,1,2,3,5,15,16,100,65535}, in a third of the cases all CERs on one stream, in a third some messages in two chunks - one message at a time, the next when the reader loop is parked in Read again, then EOF. " +
		"Demanded, as for the byte-stream histories: no application handler runs for a message that arrived before the first acceptable CER was answered with a successful CEA, on whatever stream; every message after it that matches a registration (by name, by index, catch-all) is handed to that handler, once and in order, on whatever stream; " +
		"no handler registered under CER / CEA / DWR or a case variant runs; the first CER is answered with the right result; a DWR after the handshake is answered with a successful DWA. " +
		"non-trivial = application messages before and after a CER, one of them on another stream than the first CER",
	Gen: genStreams, Run: runStreams, Classify: classifyStreams, Attempts: 3,
	Sample: func(c StreamCase) interface{} { return c.describe() }})

func TestC10ServerStreamsExhaustive(t *testing.T) {
	n := ev.Pick(3, 4)
	propStreams.Enumerate(t, true, func(yield func(StreamCase) bool) {
		k := 0
		enumerateServer(n, func(c Case) bool {
			c.Frag = "per-message"
			// quick: one spread per case, in turn (every history comes in six variants, so it meets all six); thorough: all six
			for j := 0; j < ev.Pick(1, len(streamPatterns)); j++ {
				p := streamPatterns[(k+j)%len(streamPatterns)]
				if !yield(StreamCase{Case: c, Streams: spread(c.Hist, p)}) {
					return false
				}
			}
			k++
			return true
		})
	})
}

func TestC10ServerStreamsRandom(t *testing.T) { propStreams.Check(t, 300, 12000) }
