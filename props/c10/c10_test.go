// C10 - No application handler runs before the capabilities exchange succeeds.
//
// A scripted peer sends a history of reference-encoded messages to a fresh
// state machine that sits behind the library's own connection loop on an
// in-memory transport: as a server (diam.NewConn / Server.Serve) or as a
// client (sm.Client.NewConn, the peer answers the client's CER). The
// application registered instrumented handlers by short name, by index and
// (optionally) as catch-all, and also tried to register the CER/CEA/DWR keys.
//
// Model, from the statement: the peer has completed the exchange at the first
// acceptable CER whose success CEA is on the transport (server) / at the
// success CEA (client). An application handler must have run for message i,
// exactly once and in order, iff i matches a registration and comes after
// that point. The handlers registered under the built-in keys never run, the
// first CER is still answered with a CEA, a DWR after the handshake with a
// DWA.
package c10

import (
	"context"
	"fmt"
	"io"
	"log"
	"sort"
	"strconv"
	"strings"
	"sync"
	"sync/atomic"
	"testing"
	"time"

	"github.com/fiorix/go-diameter/v4/diam"
	"github.com/fiorix/go-diameter/v4/diam/avp"
	"github.com/fiorix/go-diameter/v4/diam/datatype"
	"github.com/fiorix/go-diameter/v4/diam/sm"
	"github.com/fiorix/go-diameter/v4/diam/sm/smpeer"
	"pgregory.net/rapid"

	"verif/internal/ev"
	"verif/internal/memnet"
	"verif/internal/refcodec"
)

func init() { log.SetOutput(io.Discard) }

// ---------------------------------------------------------------------------
// case

type Case struct {
	Role     string   `json:"role"`      // server | client
	CatchAll bool     `json:"catch_all"` // the application also registers "ALL"
	Hist     []string `json:"hist"`      // what the peer sends, in order
	Frag     string   `json:"frag"`      // whole | per-message | every:<n> | cuts
	Cuts     []int    `json:"cuts,omitempty"`
	Listener bool     `json:"listener,omitempty"`        // server: through Server.Serve on a listener
	Retrans  int      `json:"max_retransmits,omitempty"` // client: MaxRetransmits
	// SettleMs: after the history has been processed the harness waits that long before it
	// reads the list of invocations - a message that was refused must stay refused, not be
	// handed to the handler a little later.
	SettleMs int `json:"settle_ms,omitempty"`
	// WrapCtx: every application handler that runs stores a value of its own in the connection's
	// context (SetContext with a context derived from Context()), as the API invites it to.
	WrapCtx bool `json:"wrap_ctx,omitempty"`
	// Relayed: the application messages of the peer carry the Origin-Host of an end host behind it
	// (the peer is a relay or proxy), not the Origin-Host of its CER / CEA.
	Relayed bool `json:"relayed,omitempty"`
	// OddApp: RAR and STR carry an application id that no dictionary declares (and that the
	// state machine therefore does not list as supported); the commands resolve through base.
	OddApp bool `json:"odd_app,omitempty"`
	// DWRState: the peer's watchdog requests carry an Origin-State-Id (RFC 6733 allows it), also
	// the ones it sends before any capabilities exchange.
	DWRState bool `json:"dwr_state,omitempty"`
	// TFlag: the peer's requests behind the first message of the history carry the T bit
	// (potentially retransmitted, as after a link failover) - application requests, watchdog
	// requests and repeated CERs alike.
	TFlag bool `json:"t_flag,omitempty"`
	// CaseNames: the application also registers handlers under names that differ from the built-in
	// keys CER, CEA and DWR only in letter case ("cer", "Cea", "dWR", ...). No command has such a
	// name; above all such a registration must not reach the built-in processing, which is partly
	// registered by name (a CER or DWR whose header carries an application id, every CEA).
	CaseNames bool `json:"case_names,omitempty"`
}

// caseVariants are spellings of the built-in keys an application may try.
var caseVariants = []string{"cer", "cea", "dwr", "Cer", "Cea", "Dwr", "cER", "cEA", "dWR"}

// baseApp is the header application id of the peer's base-protocol application requests (RAR, STR).
func (c Case) baseApp() uint32 {
	if c.OddApp {
		return 7777 // an application id no dictionary declares: its commands are the base ones
	}
	return 0
}

func (c Case) appIdentity() []*refcodec.Node {
	if c.Relayed {
		return []*refcodec.Node{str(cOriginHost, "end-host.behind.the.peer"), str(cOriginRealm, "elsewhere.example")}
	}
	return identity()
}

// Server side: CER = acceptable; CER-app4 = acceptable, but the header carries
// application id 4 (dispatched through the short-name registration instead of
// the index); CER-noapp / CER-nohost = rejected; CER-dup = byte-identical copy
// of the previous CER of the history (an acceptable one if there is none).
var serverAlphabet = []string{"CER", "CER-app4", "CER-noapp", "CER-nohost", "CER-dup", "DWR", "RAR", "CCR", "STR", "CCA", "ASA"}

// Client side: the peer answers the client's CER with exactly one CEA: success,
// Result-Code 5010, or "success" without Origin-Host; it may also send a CER
// of its own.
var clientAlphabet = []string{"CEA", "CEA-5010", "CEA-nohost", "CER", "DWR", "RAR", "CCR", "STR", "CCA", "ASA"}

func isCER(s string) bool { return strings.HasPrefix(s, "CER") }
func isCEA(s string) bool { return strings.HasPrefix(s, "CEA") }
func isApp(s string) bool {
	switch s {
	case "RAR", "CCR", "STR", "CCA", "ASA", "DWA":
		return true
	}
	return false
}

// label is the registration that must serve the message, "" if none.
func label(sym string, catchAll bool) string {
	switch sym {
	case "RAR":
		return "name:RAR"
	case "CCA":
		return "name:CCA"
	case "DWA": // an application may handle watchdog answers itself (the client's watchdog is off here)
		return "name:DWA"
	case "CCR":
		return "idx:CCR"
	case "STR", "ASA":
		if catchAll {
			return "ALL"
		}
	}
	return ""
}

const (
	peerHost  = "peer.c10.example"
	peerRealm = "c10.example"
	ownHost   = "own.verif.test"
	ownRealm  = "verif.test"
)

func hbhOf(i int) uint32 { return 0x1000 + uint32(i) }
func e2eOf(i int) uint32 { return 0x2000 + uint32(i) }

func identity() []*refcodec.Node {
	return []*refcodec.Node{str(cOriginHost, peerHost), str(cOriginRealm, peerRealm)}
}

func cerNodes(host bool, app uint32) []*refcodec.Node {
	var n []*refcodec.Node
	if host {
		n = append(n, str(cOriginHost, peerHost))
	}
	return append(n, str(cOriginRealm, peerRealm), addr4(cHostIPAddress, 10, 9, 8, 7), u32(cVendorID, 99),
		leaf(cProductName, 0, []byte("c10-peer")), u32(cAuthAppID, app))
}

// wire builds message i of the history. cerH is the header of the client's
// CER (client role). It also returns the hop-by-hop id answers will carry and,
// for CERs, whether the CER is acceptable.
func (c Case) wire(cerH refcodec.Header) (msgs [][]byte, hbh []uint32, cerOK []bool) {
	var lastCER []byte
	var lastHbH uint32
	var lastOK bool
	for i, s := range c.Hist {
		h, e := hbhOf(i), e2eOf(i)
		var b []byte
		ok := false
		session := str(cSessionID, "c10;"+strconv.Itoa(i))
		flagRequest := uint8(flagRequest)
		if c.TFlag && i > 0 {
			flagRequest |= 0x10
		}
		switch s {
		case "CER":
			b, ok = message(flagRequest, cmdCE, 0, h, e, cerNodes(true, 4)...), true
		case "CER-app4":
			b, ok = message(flagRequest, cmdCE, 4, h, e, cerNodes(true, 4)...), true
		case "CER-noapp":
			b = message(flagRequest, cmdCE, 0, h, e, cerNodes(true, 999)...)
		case "CER-nohost":
			b = message(flagRequest, cmdCE, 0, h, e, cerNodes(false, 4)...)
		case "CER-dup":
			if lastCER != nil {
				b, h, ok = lastCER, lastHbH, lastOK
			} else {
				b, ok = message(flagRequest, cmdCE, 0, h, e, cerNodes(true, 4)...), true
			}
		case "CEA":
			b = message(0, cmdCE, 0, cerH.HopByHop, cerH.EndToEnd, append([]*refcodec.Node{u32(cResultCode, 2001)}, cerNodes(true, 4)...)...)
		case "CEA-5010":
			b = message(0, cmdCE, 0, cerH.HopByHop, cerH.EndToEnd, append([]*refcodec.Node{u32(cResultCode, 5010)}, cerNodes(true, 4)...)...)
		case "CEA-nohost":
			b = message(0, cmdCE, 0, cerH.HopByHop, cerH.EndToEnd, append([]*refcodec.Node{u32(cResultCode, 2001)}, cerNodes(false, 4)...)...)
		case "DWR", "DWR-app4": // DWR-app4: the header carries application id 4 (dispatched by name, like CER-app4)
			nodes := identity()
			if c.DWRState {
				nodes = append(nodes, u32(cOriginStateID, 1234))
			}
			app := uint32(0)
			if s == "DWR-app4" {
				app = 4
			}
			b = message(flagRequest, cmdDW, app, h, e, nodes...)
		case "RAR":
			b = message(flagRequest, cmdRA, c.baseApp(), h, e, append([]*refcodec.Node{session}, append(c.appIdentity(),
				str(cDestRealm, ownRealm), str(cDestHost, ownHost), u32(cAuthAppID, 4), u32(cReAuthReqType, 0))...)...)
		case "CCR":
			b = message(flagRequest, cmdCC, 4, h, e, append([]*refcodec.Node{session}, append(c.appIdentity(),
				str(cDestRealm, ownRealm), u32(cAuthAppID, 4), u32(cCCRequestType, 1), u32(cCCRequestNum, 0))...)...)
		case "CCA":
			b = message(0, cmdCC, 4, h, e, append([]*refcodec.Node{session, u32(cResultCode, 2001)}, append(c.appIdentity(),
				u32(cAuthAppID, 4), u32(cCCRequestType, 1), u32(cCCRequestNum, 0))...)...)
		case "STR":
			b = message(flagRequest, cmdST, c.baseApp(), h, e, append([]*refcodec.Node{session}, append(c.appIdentity(),
				str(cDestRealm, ownRealm), u32(cAuthAppID, 4), u32(cTermCause, 1))...)...)
		case "DWA":
			b = message(0, cmdDW, 0, h, e, append([]*refcodec.Node{u32(cResultCode, 2001)}, identity()...)...)
		case "ASA":
			b = message(0, cmdAS, 0, h, e, append([]*refcodec.Node{session, u32(cResultCode, 2001)}, c.appIdentity()...)...)
		}
		if isCER(s) {
			lastCER, lastHbH, lastOK = b, h, ok
		}
		msgs = append(msgs, b)
		hbh = append(hbh, h)
		cerOK = append(cerOK, ok)
	}
	return
}

func (c Case) fragments(msgs [][]byte) ([][]byte, error) {
	var stream []byte
	for _, m := range msgs {
		stream = append(stream, m...)
	}
	cutAt := func(cuts []int) [][]byte {
		var out [][]byte
		prev := 0
		for _, x := range cuts {
			if x > prev && x < len(stream) {
				out = append(out, stream[prev:x])
				prev = x
			}
		}
		return append(out, stream[prev:])
	}
	switch {
	case c.Frag == "whole":
		return [][]byte{stream}, nil
	case c.Frag == "per-message":
		return msgs, nil
	case c.Frag == "cuts":
		cuts := append([]int{}, c.Cuts...)
		sort.Ints(cuts)
		return cutAt(cuts), nil
	case strings.HasPrefix(c.Frag, "every:"):
		n, err := strconv.Atoi(strings.TrimPrefix(c.Frag, "every:"))
		if err != nil || n < 1 {
			return nil, fmt.Errorf("bad fragment plan %q", c.Frag)
		}
		var cuts []int
		for x := n; x < len(stream); x += n {
			cuts = append(cuts, x)
		}
		return cutAt(cuts), nil
	}
	return nil, fmt.Errorf("bad fragment plan %q", c.Frag)
}

// ---------------------------------------------------------------------------
// instrumented application

type invocation struct {
	Label string
	HbH   uint32
	Meta  bool
}

type application struct {
	mu      sync.Mutex
	invs    []invocation
	wrapCtx bool
}

type appCtxKey struct{}

func (a *application) handler(lbl string) diam.HandlerFunc {
	return func(c diam.Conn, m *diam.Message) {
		_, ok := smpeer.FromContext(c.Context())
		a.mu.Lock()
		a.invs = append(a.invs, invocation{lbl, m.Header.HopByHopID, ok})
		n := len(a.invs)
		a.mu.Unlock()
		if a.wrapCtx {
			c.SetContext(context.WithValue(c.Context(), appCtxKey{}, n))
		}
	}
}

func (a *application) invocations() []invocation {
	a.mu.Lock()
	defer a.mu.Unlock()
	return append([]invocation{}, a.invs...)
}

// register is what the application does with a fresh state machine.
func (a *application) register(m *sm.StateMachine, catchAll bool, caseNames bool) {
	if caseNames {
		for i, n := range caseVariants {
			if i%2 == 0 {
				m.HandleFunc(n, a.handler("refused:case:"+n))
			} else {
				m.Handle(n, a.handler("refused:case:"+n))
			}
		}
	}
	m.HandleFunc("RAR", a.handler("name:RAR"))
	m.Handle("CCA", a.handler("name:CCA"))
	m.HandleFunc("DWA", a.handler("name:DWA"))
	m.HandleIdx(diam.CommandIndex{AppID: 4, Code: cmdCC, Request: true}, a.handler("idx:CCR"))
	if catchAll {
		m.HandleFunc("ALL", a.handler("ALL"))
	}
	// attempts on the built-in keys, through every registration entry point
	m.HandleFunc("CER", a.handler("refused:name:CER"))
	m.HandleFunc("CEA", a.handler("refused:name:CEA"))
	m.Handle("DWR", a.handler("refused:name:DWR"))
	m.HandleIdx(diam.CommandIndex{AppID: 0, Code: cmdCE, Request: true}, a.handler("refused:idx:CER"))
	m.HandleIdx(diam.CommandIndex{AppID: 0, Code: cmdCE, Request: false}, a.handler("refused:idx:CEA"))
	m.HandleIdx(diam.CommandIndex{AppID: 0, Code: cmdDW, Request: true}, a.handler("refused:idx:DWR"))
}

// ---------------------------------------------------------------------------
// running one case

const longWait = 5 * time.Second

var inconclusiveTiming int64

type env struct {
	machine *sm.StateMachine
	app     *application
	tc      *tconn
	stop    chan struct{}
	wg      sync.WaitGroup
}

func newEnv(c Case) *env {
	e := &env{app: &application{wrapCtx: c.WrapCtx}, tc: newTConn(), stop: make(chan struct{})}
	e.machine = sm.New(&sm.Settings{
		OriginHost:  datatype.DiameterIdentity(ownHost),
		OriginRealm: datatype.DiameterIdentity(ownRealm),
		VendorID:    13,
		ProductName: "verif-c10",
	})
	e.wg.Add(1)
	go func() { // the report channel holds one entry and drops the rest: keep it empty
		defer e.wg.Done()
		for {
			select {
			case <-e.machine.ErrorReports():
			case <-e.stop:
				return
			}
		}
	}()
	e.app.register(e.machine, c.CatchAll, c.CaseNames)
	return e
}

func (e *env) close() { close(e.stop); e.wg.Wait() }

func runCase(c Case) *ev.Failure {
	for _, s := range c.Hist {
		al := serverAlphabet
		if c.Role == "client" {
			al = clientAlphabet
		}
		found := false
		for _, x := range al {
			found = found || x == s
		}
		found = found || s == "DWA"      // random histories only: a watchdog answer for the application's own "DWA" handler
		found = found || s == "DWR-app4" // random histories only: a watchdog request with application id 4 in the header
		if !found {
			return ev.Failf("harness-generator", "symbol %q is not in the %s alphabet", s, c.Role)
		}
	}
	switch c.Role {
	case "server":
		return runServer(c)
	case "client":
		return runClient(c)
	}
	return ev.Failf("harness-generator", "role %q", c.Role)
}

func runServer(c Case) *ev.Failure {
	e := newEnv(c)
	defer e.close()
	msgs, hbh, cerOK := c.wire(refcodec.Header{})
	frags, err := c.fragments(msgs)
	if err != nil {
		return ev.Failf("harness-generator", "%v", err)
	}
	if c.Listener {
		l := memnet.NewListener(1)
		srv := &diam.Server{Handler: e.machine}
		done := make(chan struct{})
		go func() { srv.Serve(l); close(done) }()
		defer func() { l.Close(); <-done }()
		l.Push(e.tc)
	} else if _, err := diam.NewConn(e.tc, "", e.machine, nil); err != nil {
		return ev.Failf("harness-conn", "NewConn: %v", err)
	}
	e.tc.Feed(frags...)
	e.tc.FeedEOF()
	if !e.tc.waitReaderDone(longWait) || !e.tc.WaitClosed(longWait) {
		e.tc.Close()
		return ev.Failf("conn-loop-stuck", "the connection loop did not finish reading / close the transport within %v of EOF", longWait)
	}
	written, f := parseAll(e.tc.Written())
	if f != nil {
		return f
	}
	// the point at which the peer has completed the exchange
	h := -1
	for i, s := range c.Hist {
		if isCER(s) && cerOK[i] && findAnswer(written, cmdCE, hbh[i], true) != nil {
			h = i
			break
		}
	}
	if c.SettleMs > 0 {
		time.Sleep(time.Duration(c.SettleMs) * time.Millisecond)
	}
	if f := checkInvocations(c, e.app.invocations(), hbh, h); f != nil {
		return f
	}
	// built-in processing is intact: the first CER is answered with a CEA ...
	for i, s := range c.Hist {
		if !isCER(s) {
			continue
		}
		a := findAnswer(written, cmdCE, hbh[i], false)
		switch {
		case a == nil:
			return ev.Failf("cer-not-answered:"+s, "message %d (%s, the first CER of the history) was not answered with a CEA; written: %s", i, s, summary(written))
		case cerOK[i] && !(len(a.RC) == 1 && a.RC[0] == 2001):
			return ev.Failf("cer-processing-changed:"+s, "message %d (%s, acceptable) was answered with Result-Code %v", i, s, a.RC)
		case !cerOK[i] && len(a.RC) == 1 && a.RC[0] == 2001:
			return ev.Failf("cer-processing-changed:"+s, "message %d (%s, not acceptable) was answered with Result-Code 2001", i, s)
		}
		break
	}
	// ... and a DWR after the handshake with a DWA
	return checkWatchdog(c, written, hbh, h)
}

func runClient(c Case) *ev.Failure {
	nCEA, pos := 0, -1
	for i, s := range c.Hist {
		if isCEA(s) {
			nCEA++
			pos = i
		}
	}
	if nCEA != 1 {
		return ev.Failf("harness-generator", "client histories carry exactly one CEA, this one has %d", nCEA)
	}
	e := newEnv(c)
	defer e.close()
	cli := &sm.Client{
		Handler:            e.machine,
		MaxRetransmits:     uint(c.Retrans),
		RetransmitInterval: time.Second, // never awaited: the peer always answers at once
		AuthApplicationID:  []*diam.AVP{diam.NewAVP(avp.AuthApplicationID, avp.Mbit, 0, datatype.Unsigned32(4))},
	}
	type result struct {
		conn diam.Conn
		err  error
	}
	resc := make(chan result, 1)
	go func() {
		conn, err := cli.NewConn(e.tc, "10.9.8.7:3868")
		resc <- result{conn, err}
	}()
	join := func() (result, bool) {
		select {
		case r := <-resc:
			return r, true
		case <-time.After(longWait):
			return result{}, false
		}
	}
	first := e.tc.waitMessages(1, longWait)
	if len(first) == 0 {
		e.tc.FeedEOF()
		e.tc.waitReaderDone(longWait)
		r, _ := join()
		return ev.Failf("client-no-cer", "the client did not write a CER within %v (NewConn: %v)", longWait, r.err)
	}
	cerH, _ := refcodec.DecodeHeader(first[0])
	if cerH.Code != cmdCE || cerH.Flags&flagRequest == 0 {
		e.tc.FeedEOF()
		e.tc.waitReaderDone(longWait)
		join()
		return ev.Failf("client-no-cer", "the client's first message is not a CER: %+v", cerH)
	}
	msgs, hbh, _ := c.wire(cerH)
	frags, err := c.fragments(msgs)
	if err != nil {
		e.tc.FeedEOF()
		join()
		return ev.Failf("harness-generator", "%v", err)
	}
	e.tc.Feed(frags...)
	e.tc.FeedEOF()
	readerDone := e.tc.waitReaderDone(longWait)
	r, joined := join()
	if !joined {
		e.tc.Close()
		join() // a closed transport ends the handshake at the latest when its timer fires
		return ev.Failf("client-handshake-stuck", "sm.Client.NewConn did not return within %v although a CEA (%s) had been delivered", longWait, c.Hist[pos])
	}
	if !readerDone || !e.tc.WaitClosed(longWait) {
		e.tc.Close()
		return ev.Failf("conn-loop-stuck", "the connection loop did not finish reading / close the transport within %v of EOF", longWait)
	}
	if r.err == sm.ErrHandshakeTimeout {
		// the peer answered at once; only a stall of the whole process for
		// more than the retransmit interval gets here: no verdict
		atomic.AddInt64(&inconclusiveTiming, 1)
		return nil
	}
	written, f := parseAll(e.tc.Written())
	if f != nil {
		return f
	}
	h := -1
	if c.Hist[pos] == "CEA" {
		h = pos
	}
	if c.SettleMs > 0 {
		time.Sleep(time.Duration(c.SettleMs) * time.Millisecond)
	}
	if f := checkInvocations(c, e.app.invocations(), hbh, h); f != nil {
		return f
	}
	return checkWatchdog(c, written, hbh, h)
}

// ---------------------------------------------------------------------------
// oracle

func parseAll(w []byte) ([]*wmsg, *ev.Failure) {
	raw, tail, err := refcodec.SplitMessages(w)
	if err != nil || len(tail) != 0 {
		return nil, ev.Failf("output-malformed", "what the library wrote does not split into messages: %d trailing bytes, err %v", len(tail), err)
	}
	var out []*wmsg
	for _, b := range raw {
		m, err := parseWritten(b)
		if err != nil {
			return nil, ev.Failf("output-malformed", "a written message does not parse with the reference framer: %v", err)
		}
		out = append(out, m)
	}
	return out, nil
}

func findAnswer(written []*wmsg, code, hbh uint32, success bool) *wmsg {
	for _, m := range written {
		if m.H.Code == code && m.H.Flags&flagRequest == 0 && m.H.HopByHop == hbh {
			if !success || (len(m.RC) == 1 && m.RC[0] == 2001) {
				return m
			}
		}
	}
	return nil
}

func summary(written []*wmsg) string {
	var s []string
	for _, m := range written {
		s = append(s, fmt.Sprintf("{code %d flags %#x hbh %#x rc %v}", m.H.Code, m.H.Flags, m.H.HopByHop, m.RC))
	}
	return "[" + strings.Join(s, " ") + "]"
}

func indexOfHbH(c Case, hbh []uint32, v uint32) int {
	for i := range hbh {
		if hbh[i] == v && !isCER(c.Hist[i]) && !isCEA(c.Hist[i]) {
			return i
		}
	}
	return -1
}

func regKind(lbl string) string {
	if i := strings.IndexByte(lbl, ':'); i >= 0 {
		return lbl[:i]
	}
	return lbl
}

func checkInvocations(c Case, got []invocation, hbh []uint32, h int) *ev.Failure {
	var want []invocation
	if h >= 0 {
		for i := h + 1; i < len(c.Hist); i++ {
			if l := label(c.Hist[i], c.CatchAll); l != "" {
				want = append(want, invocation{Label: l, HbH: hbh[i]})
			}
		}
	}
	describe := func() string {
		return fmt.Sprintf("history %v (%s, catch-all %v, fragments %s), handshake completed at index %d; invoked %v, expected %v", c.Hist, c.Role, c.CatchAll, c.Frag, h, got, want)
	}
	for _, g := range got {
		if strings.HasPrefix(g.Label, "refused:") {
			return ev.Failf("builtin-replaced:"+strings.TrimPrefix(g.Label, "refused:"), "the handler the application tried to register for a built-in key was invoked; %s", describe())
		}
	}
	// anything that ran for a message outside the handshaken part
	for _, g := range got {
		i := indexOfHbH(c, hbh, g.HbH)
		if i < 0 {
			return ev.Failf("handler-for-unknown-message", "a handler ran for hop-by-hop id %#x which no application message of the history carries; %s", g.HbH, describe())
		}
		if h < 0 || i <= h {
			when := "before-any-cer"
			for j := 0; j < i; j++ {
				if isCER(c.Hist[j]) || isCEA(c.Hist[j]) {
					when = "after-failed-exchange"
				}
			}
			return ev.Failf("handler-before-handshake:"+regKind(g.Label)+":"+when, "handler %s ran for message %d (%s) although the peer had not completed a successful CER/CEA exchange; %s", g.Label, i, c.Hist[i], describe())
		}
	}
	// every matching message after the handshake, once, in order
	for k, w := range want {
		if k >= len(got) || got[k].Label != w.Label || got[k].HbH != w.HbH {
			i := indexOfHbH(c, hbh, w.HbH)
			n := 0
			for _, g := range got {
				if g.HbH == w.HbH {
					n++
				}
			}
			if n == 0 {
				why := "plain"
				for j := h + 1; j < i; j++ {
					if isCER(c.Hist[j]) {
						why = "after-further-cer"
					}
				}
				return ev.Failf("handler-not-invoked-after-handshake:"+regKind(w.Label)+":"+why, "message %d (%s) matches registration %s and follows the handshake, but no handler ran for it; %s", i, c.Hist[i], w.Label, describe())
			}
			return ev.Failf("handler-invocation-order", "message %d (%s): wrong handler, order or count; %s", i, c.Hist[i], describe())
		}
	}
	if len(got) > len(want) {
		return ev.Failf("handler-invocation-order", "more invocations than matching messages; %s", describe())
	}
	return nil
}

func checkWatchdog(c Case, written []*wmsg, hbh []uint32, h int) *ev.Failure {
	if h < 0 {
		return nil // before the handshake the statement promises nothing about DWRs
	}
	for i := h + 1; i < len(c.Hist); i++ {
		if (c.Hist[i] == "DWR" || c.Hist[i] == "DWR-app4") && findAnswer(written, cmdDW, hbh[i], true) == nil {
			why := "plain"
			for j := h + 1; j < i; j++ {
				if isCER(c.Hist[j]) {
					why = "after-further-cer"
				}
			}
			return ev.Failf("dwr-not-answered-after-handshake:"+why, "message %d (%s) follows the handshake (index %d) but no successful DWA with its hop-by-hop id was written; history %v, written %s", i, c.Hist[i], h, c.Hist, summary(written))
		}
	}
	return nil
}

// ---------------------------------------------------------------------------
// generators

func mix(i uint64) uint64 {
	i += 0x9e3779b97f4a7c15
	i = (i ^ (i >> 30)) * 0xbf58476d1ce4e5b9
	i = (i ^ (i >> 27)) * 0x94d049bb133111eb
	return i ^ (i >> 31)
}

var everyN = []int{1, 7, 20, 64}

// variants yields the history under both catch-all settings and three
// fragment plans (one segment, one segment per message, fixed-size pieces).
func variants(role string, hist []string, idx *uint64, yield func(Case) bool) bool {
	for _, ca := range []bool{true, false} {
		for _, fr := range []string{"whole", "per-message", "every"} {
			h := mix(*idx)
			*idx++
			c := Case{Role: role, CatchAll: ca, Hist: append([]string{}, hist...), Frag: fr}
			if fr == "every" {
				c.Frag = "every:" + strconv.Itoa(everyN[h%4])
			}
			c.WrapCtx = (h>>12)%3 == 0
			c.Relayed = (h>>16)%3 == 0
			c.OddApp = (h>>20)%3 == 0
			c.DWRState = (h>>24)%2 == 0
			c.TFlag = (h>>26)%3 == 0
			c.CaseNames = (h>>30)%2 == 0
			if role == "server" {
				c.Listener = (h>>8)%2 == 0
			} else {
				c.Retrans = int((h >> 8) % 2)
			}
			if !yield(c) {
				return false
			}
		}
	}
	return true
}

func enumerateServer(maxLen int, yield func(Case) bool) {
	var idx uint64
	var rec func(h []string) bool
	rec = func(h []string) bool {
		if !variants("server", h, &idx, yield) {
			return false
		}
		if len(h) == maxLen {
			return true
		}
		for _, s := range serverAlphabet {
			if !rec(append(h, s)) {
				return false
			}
		}
		return true
	}
	rec(nil)
}

// enumerateClient yields every history of at most maxLen messages that
// carries exactly one CEA (of any of the three kinds, at any position).
func enumerateClient(maxLen int, yield func(Case) bool) {
	var idx uint64
	var rec func(h []string, hasCEA bool) bool
	rec = func(h []string, hasCEA bool) bool {
		if hasCEA && !variants("client", h, &idx, yield) {
			return false
		}
		if len(h) == maxLen {
			return true
		}
		for _, s := range clientAlphabet {
			if isCEA(s) && hasCEA {
				continue
			}
			if !rec(append(h, s), hasCEA || isCEA(s)) {
				return false
			}
		}
		return true
	}
	rec(nil, false)
}

func genFrag(t *rapid.T, c *Case) {
	switch rapid.IntRange(0, 3).Draw(t, "frag") {
	case 0:
		c.Frag = "whole"
	case 1:
		c.Frag = "per-message"
	case 2:
		c.Frag = "every:" + strconv.Itoa(rapid.SampledFrom([]int{1, 3, 7, 20, 64, 300}).Draw(t, "every"))
	default:
		c.Frag = "cuts"
		n := rapid.IntRange(1, 8).Draw(t, "ncuts")
		for i := 0; i < n; i++ {
			c.Cuts = append(c.Cuts, rapid.IntRange(1, 2500).Draw(t, "cut"))
		}
		sort.Ints(c.Cuts)
	}
}

var (
	serverWeighted = []string{"CER", "CER", "CER-app4", "CER-noapp", "CER-noapp", "CER-nohost", "CER-dup", "CER-dup", "DWR", "DWR", "DWR-app4",
		"RAR", "RAR", "RAR", "CCR", "CCR", "CCR", "STR", "STR", "CCA", "CCA", "ASA", "ASA", "DWA"}
	clientOther = []string{"CER", "DWR", "DWR", "DWR-app4", "RAR", "RAR", "RAR", "CCR", "CCR", "CCR", "STR", "STR", "CCA", "CCA", "ASA", "ASA", "DWA", "DWA"}
)

func genServer(t *rapid.T) Case {
	c := Case{Role: "server", CatchAll: rapid.Bool().Draw(t, "catch-all"), Listener: rapid.Bool().Draw(t, "listener")}
	n := rapid.IntRange(1, 12).Draw(t, "len")
	for i := 0; i < n; i++ {
		c.Hist = append(c.Hist, rapid.SampledFrom(serverWeighted).Draw(t, "sym"))
	}
	genFrag(t, &c)
	c.WrapCtx = rapid.IntRange(0, 2).Draw(t, "wrap-ctx") == 0
	c.Relayed = rapid.IntRange(0, 2).Draw(t, "relayed") == 0
	c.OddApp = rapid.IntRange(0, 2).Draw(t, "odd-app") == 0
	c.DWRState = rapid.Bool().Draw(t, "dwr-state")
	c.TFlag = rapid.IntRange(0, 2).Draw(t, "t-flag") == 0
	c.CaseNames = rapid.Bool().Draw(t, "case-names")
	return c
}

func genClient(t *rapid.T) Case {
	c := Case{Role: "client", CatchAll: rapid.Bool().Draw(t, "catch-all"), Retrans: rapid.IntRange(0, 1).Draw(t, "retransmits")}
	n := rapid.IntRange(0, 11).Draw(t, "len")
	for i := 0; i < n; i++ {
		c.Hist = append(c.Hist, rapid.SampledFrom(clientOther).Draw(t, "sym"))
	}
	cea := rapid.SampledFrom([]string{"CEA", "CEA", "CEA", "CEA", "CEA-5010", "CEA-nohost"}).Draw(t, "cea")
	at := rapid.IntRange(0, n).Draw(t, "cea-at")
	c.Hist = append(c.Hist[:at], append([]string{cea}, c.Hist[at:]...)...)
	genFrag(t, &c)
	c.WrapCtx = rapid.IntRange(0, 2).Draw(t, "wrap-ctx") == 0
	c.Relayed = rapid.IntRange(0, 2).Draw(t, "relayed") == 0
	c.OddApp = rapid.IntRange(0, 2).Draw(t, "odd-app") == 0
	c.DWRState = rapid.Bool().Draw(t, "dwr-state")
	c.TFlag = rapid.IntRange(0, 2).Draw(t, "t-flag") == 0
	c.CaseNames = rapid.Bool().Draw(t, "case-names")
	return c
}

// ---------------------------------------------------------------------------
// measuring

func classify(c Case) (bool, []string) {
	cl := []string{"role:" + c.Role, "frag:" + strings.SplitN(c.Frag, ":", 2)[0]}
	if c.CatchAll {
		cl = append(cl, "catch-all")
	}
	if c.Listener {
		cl = append(cl, "via-listener")
	}
	if c.WrapCtx {
		cl = append(cl, "handlers-store-values-in-the-connection-context")
	}
	if c.Relayed {
		cl = append(cl, "application-messages-of-an-end-host-behind-the-peer")
	}
	if c.OddApp {
		cl = append(cl, "base-commands-under-an-undeclared-application-id")
	}
	if c.DWRState {
		cl = append(cl, "watchdog-requests-carry-origin-state-id")
	}
	if c.TFlag {
		cl = append(cl, "requests-carry-the-T-bit")
	}
	if c.CaseNames {
		cl = append(cl, "application-registers-case-variants-of-the-built-in-names")
	}
	if len(c.Hist) > 4 {
		cl = append(cl, "len>4")
	} else {
		cl = append(cl, fmt.Sprintf("len=%d", len(c.Hist)))
	}
	// static view of the history (what a correct library will do with it)
	state := "fresh" // fresh | ok | failed
	seen := map[string]bool{}
	appSeen, exchangeAfterApp, nontrivial := false, false, false
	var lastKind string
	for _, s := range c.Hist {
		switch {
		case isCER(s) && c.Role == "server":
			kind := s
			if s == "CER-dup" {
				kind = lastKind
				if kind == "" {
					kind = "CER"
				}
				seen["cer-retransmitted"] = true
			}
			lastKind = kind
			good := kind == "CER" || kind == "CER-app4"
			switch state {
			case "fresh":
				if good {
					state = "ok"
				} else {
					state = "failed"
				}
			case "ok":
				if good {
					seen["cer-again-after-handshake"] = true
				} else {
					seen["bad-cer-after-handshake"] = true
				}
			case "failed":
				if good {
					seen["good-cer-after-rejected-cer"] = true
				}
			}
			if s == "CER-app4" {
				seen["cer-served-by-name"] = true
			}
			exchangeAfterApp = appSeen
		case isCEA(s):
			if s == "CEA" {
				state = "ok"
			} else {
				state = "failed"
			}
			exchangeAfterApp = appSeen
		case isCER(s):
			seen["peer-cer-at-client"] = true
		case s == "DWR", s == "DWR-app4":
			seen["dwr-"+state] = true
			if s == "DWR-app4" {
				seen["dwr-served-by-name"] = true
			}
		case isApp(s):
			l := label(s, c.CatchAll)
			if l == "" {
				l = "unregistered"
			}
			seen["app-"+state+":"+regKind(l)] = true
			if exchangeAfterApp {
				nontrivial = true
			}
			appSeen = true
		}
	}
	seen["exchange:"+state] = true
	for k := range seen {
		cl = append(cl, k)
	}
	sort.Strings(cl)
	return nontrivial, cl
}

const ruleText = "histories a scripted peer sends to a fresh state machine behind the library's connection loop on an in-memory transport; server alphabet {acceptable CER, acceptable CER with application id 4 in the header, CER without common application, CER without Origin-Host, byte-identical retransmitted CER, DWR, RAR (registered by name), CCR app 4 (registered by index), STR and ASA (served only by the catch-all, unregistered when there is none), CCA (answer, registered by name)}, client alphabet = the same application messages, DWR, a CER of the peer, and exactly one CEA (success / 5010 / without Origin-Host) at any position; every history x catch-all registered or not x {one segment, one segment per message, fixed-size or random fragments}; the application also tries to register CER/CEA/DWR by name and by index, and in half of the cases under names that differ from those only in letter case (cer, Cea, dWR, ...; none of these handlers may ever run, the CER / DWR processing must be unchanged); random histories also carry DWRs with application id 4 in the header (dispatched by name); in half of the cases the watchdog requests carry an Origin-State-Id, in a third every request behind the first message carries the T bit; non-trivial = at least one application message before and one after a (successful or failed) CER (server) / CEA (client)"

var propServer = ev.Register(&ev.Prop[Case]{ID: "C10", Name: "server", Rule: ruleText, Gen: genServer, Run: runCase, Classify: classify, Attempts: 3})
var propClient = ev.Register(&ev.Prop[Case]{ID: "C10", Name: "client", Rule: ruleText, Gen: genClient, Run: runCase, Classify: classify, Attempts: 3})

func noteTiming(t *testing.T, rec *ev.Recorder) {
	before := atomic.LoadInt64(&inconclusiveTiming)
	t.Cleanup(func() {
		if n := atomic.LoadInt64(&inconclusiveTiming) - before; n > 0 {
			rec.Count("inconclusive-timing", n)
			rec.Note("%d client cases ended in ErrHandshakeTimeout although the peer answered at once (process stalled for more than the retransmit interval): no verdict", n)
		}
	})
}

func TestC10ServerExhaustive(t *testing.T) {
	n := ev.Pick(3, 4)
	propServer.Enumerate(t, true, func(yield func(Case) bool) { enumerateServer(n, yield) })
}

func TestC10ClientExhaustive(t *testing.T) {
	n := ev.Pick(3, 4)
	noteTiming(t, propClient.Rec(t))
	propClient.Enumerate(t, true, func(yield func(Case) bool) { enumerateClient(n, yield) })
}

func TestC10ServerRandom(t *testing.T) { propServer.Check(t, 300, 18000) }

func TestC10ClientRandom(t *testing.T) {
	noteTiming(t, propClient.Rec(t))
	propClient.Check(t, 200, 12000)
}

// The sizes of the enumerated spaces are what the bounds say.
// Messages sent ahead of the handshake are refused for good: nothing may reach a handler later
// on, e.g. once the handshake has completed after all.
func TestC10NoLateInvocation(t *testing.T) {
	propServer.Enumerate(t, false, func(yield func(Case) bool) {
		for _, hist := range [][]string{{"RAR", "CER", "RAR"}, {"CCR", "STR", "CER", "CCA", "RAR"}, {"RAR", "CER-app4", "CCR"}, {"STR", "CER-noapp", "CER"},
			{"RAR", "RAR", "CER", "STR"}, {"CCA", "CER", "DWR", "RAR"}} {
			for _, catchAll := range []bool{false, true} {
				for _, frag := range []string{"whole", "per-message"} {
					if !yield(Case{Role: "server", CatchAll: catchAll, Hist: hist, Frag: frag, SettleMs: 120}) {
						return
					}
				}
			}
		}
	})
}

func TestC10Space(t *testing.T) {
	n := 0
	enumerateServer(3, func(Case) bool { n++; return true })
	if want := (1 + 11 + 121 + 1331) * 6; n != want {
		t.Errorf("harness: server enumeration yields %d cases, expected %d", n, want)
	}
	n = 0
	enumerateClient(3, func(Case) bool { n++; return true })
	if want := (3 + 2*3*7 + 3*3*49) * 6; n != want {
		t.Errorf("harness: client enumeration yields %d cases, expected %d", n, want)
	}
}

func TestC10Keep(t *testing.T) { ev.RunKeep(t, "C10") }
func TestReplay(t *testing.T)  { ev.Replay(t) }
