package c10

import (
	"fmt"
	"strconv"
	"sync"
	"testing"
	"time"

	"github.com/fiorix/go-diameter/v4/diam"
	"github.com/fiorix/go-diameter/v4/diam/datatype"
	"github.com/fiorix/go-diameter/v4/diam/sm"
	"pgregory.net/rapid"

	"verif/internal/ev"
	"verif/internal/memnet"
	"verif/internal/refcodec"
)

// Several connections served by ONE state machine (the way a server uses it):
// the handshake of one peer must not open the gate for another. The harness
// feeds one message at a time and waits until the connection's reader is
// parked again, so the order of dispatches across connections is the order
// of the steps.

type SStep struct {
	Conn int    `json:"conn"`
	Sym  string `json:"sym"` // CER | CER-noapp | RAR | CCR | STR | CCA
}

type SCase struct {
	Conns    int     `json:"conns"`
	CatchAll bool    `json:"catch_all"`
	Steps    []SStep `json:"steps"`
}

var sharedAlphabet = []string{"CER", "CER-noapp", "RAR", "CCR", "STR", "CCA"}

type sharedInv struct {
	Conn  string
	Label string
	HbH   uint32
}

func sharedMessage(sym string, i int) []byte {
	c := Case{Role: "server", Hist: make([]string, i+1)}
	for k := range c.Hist {
		c.Hist[k] = "DWR"
	}
	c.Hist[i] = sym
	msgs, _, _ := c.wire(refcodec.Header{})
	return msgs[i]
}

func runShared(c SCase) *ev.Failure {
	machine := sm.New(&sm.Settings{OriginHost: datatype.DiameterIdentity(ownHost), OriginRealm: datatype.DiameterIdentity(ownRealm), VendorID: 13, ProductName: "verif-c10"})
	stop := make(chan struct{})
	defer close(stop)
	go func() {
		for {
			select {
			case <-machine.ErrorReports():
			case <-stop:
				return
			}
		}
	}()
	var mu sync.Mutex
	var invs []sharedInv
	h := func(lbl string) diam.HandlerFunc {
		return func(cn diam.Conn, m *diam.Message) {
			mu.Lock()
			invs = append(invs, sharedInv{cn.RemoteAddr().String(), lbl, m.Header.HopByHopID})
			mu.Unlock()
		}
	}
	machine.HandleFunc("RAR", h("name:RAR"))
	machine.Handle("CCA", h("name:CCA"))
	machine.HandleIdx(diam.CommandIndex{AppID: 4, Code: cmdCC, Request: true}, h("idx:CCR"))
	if c.CatchAll {
		machine.HandleFunc("ALL", h("ALL"))
	}
	conns := make([]*memnet.Conn, c.Conns)
	for i := range conns {
		conns[i] = memnet.NewConn()
		conns[i].Remote = memnet.Addr{Net: "tcp", Str: "10.7.7." + strconv.Itoa(i+1) + ":5000"}
		if _, err := diam.NewConn(conns[i], "", machine, nil); err != nil {
			return ev.Failf("harness-conn", "%v", err)
		}
	}
	defer func() {
		for _, mc := range conns {
			mc.FeedEOF()
			mc.WaitClosed(2 * time.Second)
			mc.Close()
		}
	}()
	handshaken := make([]bool, c.Conns)
	closed := make([]bool, c.Conns)
	type want struct {
		conn  string
		hbh   uint32
		label string
	}
	var wants []want
	for i, st := range c.Steps {
		if st.Conn >= c.Conns || closed[st.Conn] {
			continue
		}
		mc := conns[st.Conn]
		mc.Feed(sharedMessage(st.Sym, i))
		switch st.Sym {
		case "CER":
			if !handshaken[st.Conn] {
				handshaken[st.Conn] = true
			}
		case "CER-noapp":
			if !handshaken[st.Conn] {
				closed[st.Conn] = true // rejected: the library closes the connection
			}
		default:
			if handshaken[st.Conn] {
				lbl := map[string]string{"RAR": "name:RAR", "CCR": "idx:CCR", "CCA": "name:CCA", "STR": "ALL"}[st.Sym]
				if lbl != "ALL" || c.CatchAll {
					wants = append(wants, want{mc.Remote.String(), hbhOf(i), lbl})
				}
			}
		}
		if closed[st.Conn] {
			if !mc.WaitClosed(longWait) {
				return ev.Failf("harness-close", "step %d: connection %d was not closed after a rejected CER", i, st.Conn)
			}
			continue
		}
		if !mc.WaitParked(longWait) {
			return ev.Failf("shared:connection-stalled", "step %d (%s on connection %d, the %d-th step of the history): the connection's reader did not return to the transport within %v - the message is still being processed, later messages of this peer cannot be dispatched; steps so far %v", i, st.Sym, st.Conn, i+1, longWait, c.Steps[:i+1])
		}
	}
	mu.Lock()
	got := append([]sharedInv{}, invs...)
	mu.Unlock()
	// every invocation must be wanted (same connection!), in order, exactly once
	gi := 0
	for _, w := range wants {
		if gi >= len(got) {
			return ev.Failf("shared:handler-not-invoked-after-handshake", "handler %s was not invoked for the message with hop-by-hop %#x on connection %s, which had completed its handshake; invocations %v; steps %v", w.label, w.hbh, w.conn, got, c.Steps)
		}
		g := got[gi]
		if g.Conn != w.conn || g.HbH != w.hbh || g.Label != w.label {
			return ev.Failf(sigShared(c, g, handshakenAddrs(conns, handshaken)), "invocation %d is %+v, expected {%s %s %#x}; all invocations %v; steps %v", gi, g, w.conn, w.label, w.hbh, got, c.Steps)
		}
		gi++
	}
	if gi < len(got) {
		return ev.Failf(sigShared(c, got[gi], handshakenAddrs(conns, handshaken)), "unexpected invocation %+v (connections that completed a handshake: %v); all invocations %v; steps %v", got[gi], handshakenAddrs(conns, handshaken), got, c.Steps)
	}
	return nil
}

func handshakenAddrs(conns []*memnet.Conn, hs []bool) map[string]bool {
	m := map[string]bool{}
	for i, mc := range conns {
		m[mc.Remote.String()] = hs[i]
	}
	return m
}

func sigShared(c SCase, g sharedInv, hs map[string]bool) string {
	if !hs[g.Conn] {
		return "shared:handler-before-handshake-on-another-connection"
	}
	return "shared:wrong-invocation"
}

var propShared = ev.Register(&ev.Prop[SCase]{
	ID: "C10", Name: "shared-state-machine",
	Rule: "2..3 connections served by ONE state machine; steps (connection, message) over {acceptable CER, CER without common application, RAR by name, CCR by index, STR via catch-all, CCA answer by name} executed one at a time (the harness waits for the reader to park); a handler may run only for messages of a connection whose own handshake succeeded; non-trivial = an application message on a connection without handshake after another connection completed its handshake and had a handler invoked",
	Gen: func(t *rapid.T) SCase {
		c := SCase{Conns: rapid.IntRange(2, 3).Draw(t, "conns"), CatchAll: rapid.Bool().Draw(t, "catch-all")}
		n := rapid.IntRange(2, 12).Draw(t, "steps")
		for i := 0; i < n; i++ {
			c.Steps = append(c.Steps, SStep{Conn: rapid.IntRange(0, c.Conns-1).Draw(t, "conn"), Sym: rapid.SampledFrom(sharedAlphabet).Draw(t, "sym")})
		}
		return c
	},
	Run: runShared,
	Classify: func(c SCase) (bool, []string) {
		hs := make([]bool, c.Conns)
		closed := make([]bool, c.Conns)
		armed := false
		nt := false
		for _, st := range c.Steps {
			if st.Conn >= c.Conns || closed[st.Conn] {
				continue
			}
			switch st.Sym {
			case "CER":
				hs[st.Conn] = true
			case "CER-noapp":
				if !hs[st.Conn] {
					closed[st.Conn] = true
				}
			default:
				if hs[st.Conn] {
					armed = true
				} else if armed {
					nt = true
				}
			}
		}
		var cl []string
		if nt {
			cl = append(cl, "ungated-conn-after-armed-handler")
		}
		return nt, append(cl, fmt.Sprintf("conns:%d", c.Conns))
	},
	Attempts: 3,
})

func TestC10SharedStateMachine(t *testing.T) { propShared.Check(t, 1500, 60000) }

func TestC10SharedCanonical(t *testing.T) {
	propShared.One(t, SCase{Conns: 2, CatchAll: true, Steps: []SStep{{0, "CER"}, {0, "RAR"}, {0, "CCR"}, {0, "STR"}, {1, "RAR"}, {1, "CCR"}, {1, "STR"}, {1, "CER"}, {1, "RAR"}}})
}

// Many peers, one after the other, on ONE state machine whose application never reads
// HandshakeNotify() (it is optional): every peer's handshake completes and its request reaches
// the handler, however many came before.
func TestC10ManyPeers(t *testing.T) {
	propShared.Enumerate(t, false, func(yield func(SCase) bool) {
		for _, n := range []int{ev.Pick(40, 300), 20} {
			for _, catchAll := range []bool{false, true} {
				c := SCase{Conns: n, CatchAll: catchAll}
				for i := 0; i < n; i++ {
					c.Steps = append(c.Steps, SStep{Conn: i, Sym: "CER"}, SStep{Conn: i, Sym: []string{"RAR", "CCR", "STR"}[i%3]})
				}
				if !yield(c) {
					return
				}
			}
		}
	})
}
