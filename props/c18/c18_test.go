// C18 - Struct marshalling and unmarshalling are inverse and dictionary-faithful.
//
// A case is a serialisable spec of a struct TYPE (dictionary names, field
// shapes, tag forms, recursively for nested and embedded structs) plus a
// VALUE for it. The type is created with reflect.StructOf (or looked up in a
// small family of declared types, see decl_test.go), the value is marshalled
// and:
//
//	(i)   Message.AVP must be the list a caller would build by hand from the
//	      spec and the dictionary entry of every tag (code, vendor id, M iff
//	      Must contains "M", V iff vendor-specific, typed value; omitted iff
//	      omitempty and empty, or nil pointer; one AVP per slice element, in
//	      order; a grouped AVP per struct with its members in field order);
//	(ii)  Unmarshal into a fresh value of the same type - from the message
//	      itself and from Serialize + ReadMessage - must give the original
//	      (nil and empty slices equal, net.IP.Equal, times to the second);
//	(iii) Header.MessageLength must equal len(Serialize()).
//
// The ready-made AVPs of AVP-typed fields may have a history (created, used once, then changed
// through their exported fields: template_test.go); the oracle then works on the value as it is at
// Marshal time, and every such AVP must serialise to the reference image of the hand-built tree.
package c18

import (
	"bytes"
	"fmt"
	"reflect"
	"runtime/debug"
	"strings"
	"testing"

	"github.com/fiorix/go-diameter/v4/diam"
	"github.com/fiorix/go-diameter/v4/diam/datatype"
	"pgregory.net/rapid"

	"verif/internal/ev"
	"verif/internal/gen"
)

type Case struct {
	Dict  gen.DictChoice `json:"dict"`
	Flags uint8          `json:"flags"`
	Cmd   uint32         `json:"cmd"`
	App   uint32         `json:"app"`
	Decl  string         `json:"decl,omitempty"` // a declared struct type instead of reflect.StructOf
	// Prefill: the state of the message before the Marshal under test.
	// "" = fresh from NewMessage; "avps" = it already carries AVPs added with
	// AddAVP (what Answer(resultCode) leaves); "remarshal" = the same struct
	// was marshalled into it once before; "other" = another value of the type
	// (all fields zero / nil) was marshalled into it before.
	Prefill string `json:"prefill,omitempty"`
	// SpareCap: the slices of the value have unused capacity behind their elements.
	SpareCap bool `json:"spare_cap,omitempty"`
	// Second: afterwards a second value of the type - a shallow copy (it shares the slices and
	// pointers of the first, as application structs built from common parts do) whose other
	// top-level fields are zero - is marshalled into another message; the first message must
	// still be what it was.
	Second bool     `json:"second,omitempty"`
	Type   []FieldT `json:"type"`
	Val    []FieldV `json:"val"`
	// Val2: a second value of the type goes through the SAME message afterwards (Marshal, Unmarshal):
	// an application that reuses its message object.
	Val2 []FieldV `json:"val2,omitempty"`
	// Warm, Edits: the AVP objects held by AVP-typed fields have a history (template_test.go): after
	// their creation they were used once (Warm) and then changed through their exported fields
	// (Edits); Val is the value as created, the oracle works on the value as the edits leave it.
	Warm  string    `json:"warm,omitempty"`
	Edits []TplEdit `json:"edits,omitempty"`
}

const rule = "struct types generated with reflect.StructOf from a spec: 1..6 fields per level, each a dictionary name of the message's application (dict.Default, the per-file embedded dictionaries, generated dictionaries with all 18 type names) x shape {datatype type | another datatype type that converts losslessly (string kinds among themselves, wider integer / float) | lossless native Go type} x {T, *T, []T, []*T}, diam.AVP / *diam.AVP / []*diam.AVP / []diam.AVP, struct / *struct / []struct / []*struct for grouped AVPs to depth 3, embedded untagged struct, embedded tagged struct x tag form {avp:\"N\", avp:\"N,omitempty\", each alone / after / before a json key, and avp:\"N\" next to a json key that has an omitempty option of its own}; no code twice per struct level; slices optionally with spare capacity; optionally a second value sharing the slices of the first is marshalled into another message afterwards (the first message must not change); optionally (1 in 3) a second, independently generated value of the type goes through the SAME message afterwards (Marshal, then Unmarshal must reproduce it); the message marshalled into is fresh from NewMessage or (3 in 8) already used: carries AVPs added with AddAVP, or the same / a zero value of the struct was marshalled into it before; values incl. zero numbers, empty strings, nil pointers, nil and empty slices; non-trivial = at least 2 fields in total and at least one pointer / slice / nested / embedded shape; distinct by hash of the JSON form of the case"

var prop = ev.Register(&ev.Prop[Case]{
	ID: "C18", Name: "struct", Rule: rule,
	Gen: genCase, Run: runCase, Classify: classify, Sample: sample,
})

// ---------------------------------------------------------------------------
// the check

// verdict of the core check: which stage failed.
type verdict struct {
	stage  string
	detail string
	// presence: (stage avps-differ) Marshal produced another NUMBER of AVPs
	// than expected, i.e. something was omitted or emitted wrongly.
	presence bool
}

const (
	preAVPs      = "avps"
	preRemarshal = "remarshal"
	preOther     = "other"
)

const (
	stHarness       = "harness"
	stMarshalPanic  = "marshal-panic"
	stMarshalError  = "marshal-error"
	stAVPs          = "avps-differ"
	stSerialize     = "serialize-error"
	stLength        = "message-length-stale"
	stUnmarshalErr  = "unmarshal-error"
	stUnmarshalPan  = "unmarshal-panic"
	stDirect        = "roundtrip-direct-differs"
	stWireRead      = "wire-read-error"
	stWire          = "roundtrip-wire-differs"
	stLaterMarshal  = "message-changed-by-later-marshal"
	stSecondRound   = "second-round-through-the-same-message-differs"
	stAVPFieldImage = "avp-field-image-differs"
	sigAVPField     = "avp-field-marshal"
	sigOmitInverted = "omitempty-inverted"
	sigIPv6QoS      = "ipv6-qos-marshal"
	sigEmbedInGroup = "embedded-in-group-dropped"
)

func protect(f func() error) (err error, panicked string) {
	defer func() {
		if r := recover(); r != nil {
			st := string(debug.Stack())
			if i := strings.Index(st, "panic("); i >= 0 {
				st = st[i:]
			}
			if len(st) > 900 {
				st = st[:900] + "..."
			}
			panicked = fmt.Sprintf("%v\n%s", r, st)
		}
	}()
	return f(), ""
}

func structType(c Case) (reflect.Type, error) {
	if c.Decl == "" {
		return buildStruct(c.Type), nil
	}
	d, ok := declared[c.Decl]
	if !ok {
		return nil, fmt.Errorf("no declared type %q", c.Decl)
	}
	if err := sameLayout(d.typ, c.Type, c.Decl); err != nil {
		return nil, err
	}
	return d.typ, nil
}

func core(c Case) *verdict {
	p, _, err := c.Dict.Load()
	if err != nil {
		return &verdict{stage: stHarness, detail: err.Error()}
	}
	if err := validate(c.Type, c.Val, 0); err != nil {
		return &verdict{stage: stHarness, detail: "invalid case: " + err.Error()}
	}
	if !knownWarm(c.Warm) {
		return &verdict{stage: stHarness, detail: "unknown warm-up " + c.Warm}
	}
	if len(c.Edits) > 0 {
		c.Val = cloneVals(c.Val) // the edits are applied to a private copy
	}
	o := &oracle{p: p, app: c.App, fromField: map[*gen.AVP]bool{}}
	want, err := o.expect(c.Type, c.Val)
	if err != nil {
		return &verdict{stage: stHarness, detail: err.Error()}
	}
	var typ reflect.Type
	err, pan := protect(func() (e error) { typ, e = structType(c); return })
	if err != nil || pan != "" {
		return &verdict{stage: stHarness, detail: fmt.Sprintf("cannot build the struct type: %v %s", err, pan)}
	}
	orig := reflect.New(typ)
	if c.SpareCap {
		spareCap = 3
	}
	fillStruct(orig.Elem(), c.Type, c.Val)
	spareCap = 0
	var tpl []tplNode // the AVP objects of the AVP-typed fields, with their abstract counterparts
	tplRoots(orig.Elem(), c.Type, c.Val, &tpl)
	warmUp(c, p, typ, orig, tpl)
	show := func() string {
		s := fmt.Sprintf("struct type %s, application %d", clipS400(typ.String()), c.App)
		if c.Warm != "" || len(c.Edits) > 0 {
			s += fmt.Sprintf("; the AVPs of the AVP-typed fields were created with NewAVP, used once (%q) and then changed through their exported fields by %d edits", c.Warm, len(c.Edits))
		}
		return s
	}

	m := diam.NewMessage(c.Cmd, c.Flags, c.App, 1, 2, p)
	switch c.Prefill {
	case "":
	case preAVPs:
		m.AddAVP(diam.NewAVP(268, 0x40, 0, datatype.Unsigned32(2001)))
		m.AddAVP(diam.NewAVP(264, 0x40, 0, datatype.DiameterIdentity("prefill.example.org")))
	case preRemarshal:
		protect(func() error { return m.Marshal(orig.Interface()) })
	case preOther:
		protect(func() error { return m.Marshal(reflect.New(typ).Interface()) })
	default:
		return &verdict{stage: stHarness, detail: "unknown prefill " + c.Prefill}
	}
	if len(c.Edits) > 0 {
		// the value changes now: what is marshalled, and expected back, is the value as it is from here on
		applyEdits(tpl, c.Edits)
		o.fromField = map[*gen.AVP]bool{}
		if want, err = o.expect(c.Type, c.Val); err != nil {
			return &verdict{stage: stHarness, detail: err.Error()}
		}
	}
	err, pan = protect(func() error { return m.Marshal(orig.Interface()) })
	if pan != "" {
		return &verdict{stage: stMarshalPanic, detail: "Marshal panicked: " + pan + "\n" + show()}
	}
	if err != nil {
		return &verdict{stage: stMarshalError, detail: fmt.Sprintf("Marshal failed: %v; %s", err, show())}
	}
	// A message that was not empty: the property does not say whether Marshal
	// replaces or extends what is there; when it extends, only the header
	// length and the parse of the wire form are checked.
	if c.Prefill != "" && countGot(m.AVP) > countWant(want) {
		wire, err := m.Serialize()
		if err != nil {
			return &verdict{stage: stSerialize, detail: fmt.Sprintf("Serialize after Marshal into a used message failed: %v; %s", err, show())}
		}
		if int(m.Header.MessageLength) != len(wire) {
			return &verdict{stage: stLength, detail: fmt.Sprintf("Header.MessageLength is %d after Marshal into a used message (%s) but the message serialises to %d bytes; %s",
				m.Header.MessageLength, c.Prefill, len(wire), show())}
		}
		if _, err := diam.ReadMessage(bytes.NewReader(wire), p); err != nil {
			return &verdict{stage: stWireRead, detail: fmt.Sprintf("the message marshalled into (%s) does not survive Serialize + ReadMessage: %v; %s", c.Prefill, err, show())}
		}
		return nil
	}
	// (i) the AVPs a caller would build by hand
	if d := compareAVPs(want, m.AVP, ""); d != "" {
		return &verdict{stage: stAVPs, detail: fmt.Sprintf("Message.AVP is not what a caller builds by hand: %s; %s", d, show()),
			presence: countWant(want) != countGot(m.AVP)}
	}
	// (iii) the header length
	var wire []byte
	err, pan = protect(func() (e error) { wire, e = m.Serialize(); return })
	if pan != "" || err != nil {
		return &verdict{stage: stSerialize, detail: fmt.Sprintf("Serialize after Marshal failed: %v %s; %s", err, pan, show())}
	}
	if int(m.Header.MessageLength) != len(wire) {
		return &verdict{stage: stLength, detail: fmt.Sprintf("Header.MessageLength is %d after Marshal but the message serialises to %d bytes; %s",
			m.Header.MessageLength, len(wire), show())}
	}
	// (i) again, for the ready-made AVPs of AVP-typed fields: the hand-built AVP's wire image
	if d := avpFieldImages(want, m.AVP, o.fromField, ""); d != "" {
		return &verdict{stage: stAVPFieldImage, detail: fmt.Sprintf("%s; %s", d, show())}
	}
	// (ii) direct
	fresh := reflect.New(typ)
	err, pan = protect(func() error { return m.Unmarshal(fresh.Interface()) })
	if pan != "" {
		return &verdict{stage: stUnmarshalPan, detail: "Unmarshal of the marshalled message panicked: " + pan + "\n" + show()}
	}
	if err != nil {
		return &verdict{stage: stUnmarshalErr, detail: fmt.Sprintf("Unmarshal of the marshalled message failed: %v; %s", err, show())}
	}
	if d := cmpStruct(fresh.Elem(), c.Type, c.Val, ""); d != "" {
		return &verdict{stage: stDirect, detail: fmt.Sprintf("Unmarshal of the marshalled message does not reproduce the value: %s; %s", d, show())}
	}
	// (ii) after a wire round trip
	var m2 *diam.Message
	err, pan = protect(func() (e error) { m2, e = diam.ReadMessage(bytes.NewReader(wire), p); return })
	if pan != "" || err != nil {
		return &verdict{stage: stWireRead, detail: fmt.Sprintf("the marshalled message does not survive Serialize + ReadMessage: %v %s; %s", err, pan, show())}
	}
	fresh2 := reflect.New(typ)
	err, pan = protect(func() error { return m2.Unmarshal(fresh2.Interface()) })
	if pan != "" {
		return &verdict{stage: stUnmarshalPan, detail: "Unmarshal after the wire round trip panicked: " + pan + "\n" + show()}
	}
	if err != nil {
		return &verdict{stage: stUnmarshalErr, detail: fmt.Sprintf("Unmarshal after the wire round trip failed: %v; %s", err, show())}
	}
	if d := cmpStruct(fresh2.Elem(), c.Type, c.Val, ""); d != "" {
		return &verdict{stage: stWire, detail: fmt.Sprintf("Unmarshal after Serialize + ReadMessage does not reproduce the value: %s; %s", d, show())}
	}
	if c.Second {
		second := reflect.New(typ)
		second.Elem().Set(orig.Elem())
		for i := 0; i < typ.NumField(); i++ {
			if f := second.Elem().Field(i); f.Kind() != reflect.Slice && f.CanSet() {
				f.Set(reflect.Zero(f.Type()))
			}
		}
		m2 := diam.NewMessage(c.Cmd, c.Flags, c.App, 3, 4, p)
		protect(func() error { return m2.Marshal(second.Interface()) })
		if d := compareAVPs(want, m.AVP, ""); d != "" {
			return &verdict{stage: stLaterMarshal, detail: fmt.Sprintf("after ANOTHER value of the type (sharing the slices of the first) was marshalled into ANOTHER message, the first message no longer holds the AVPs of its value: %s; %s", d, show())}
		}
		if again, err := m.Serialize(); err != nil || !bytes.Equal(again, wire) {
			return &verdict{stage: stLaterMarshal, detail: fmt.Sprintf("after another value of the type was marshalled into another message, the first message serialises differently (err %v); %s", err, show())}
		}
	}
	if c.Val2 != nil && validate(c.Type, c.Val2, 0) == nil {
		want2, err := o.expect(c.Type, c.Val2)
		if err != nil {
			return &verdict{stage: stHarness, detail: err.Error()}
		}
		v2 := reflect.New(typ)
		fillStruct(v2.Elem(), c.Type, c.Val2)
		err, pan = protect(func() error { return m.Marshal(v2.Interface()) })
		// (whether Marshal replaces or extends what the message holds is not decided by the property:
		// the round is judged only when the message now holds exactly the AVPs of the second value)
		if err == nil && pan == "" && compareAVPs(want2, m.AVP, "") == "" {
			again := reflect.New(typ)
			err, pan = protect(func() error { return m.Unmarshal(again.Interface()) })
			if pan != "" || err != nil {
				return &verdict{stage: stSecondRound, detail: fmt.Sprintf("a second value went through the same message: Unmarshal failed: %v %s; %s", err, pan, show())}
			}
			if d := cmpStruct(again.Elem(), c.Type, c.Val2, ""); d != "" {
				return &verdict{stage: stSecondRound, detail: fmt.Sprintf("a second value was marshalled into the same message (which holds exactly its AVPs); Unmarshal does not reproduce it: %s; %s", d, show())}
			}
		}
	}
	return nil
}

// compareAVPs compares what Marshal produced with the hand-built list: code,
// vendor id, the M and V flag bits (the property names these two; the other
// bits are not compared), typed value, nesting and order. The Length field
// is not compared (the property does not name it). "" means equal.
func compareAVPs(want []*gen.AVP, got []*diam.AVP, path string) string {
	if len(want) != len(got) {
		return fmt.Sprintf("%s: %d AVPs expected, %d produced", path, len(want), len(got))
	}
	for i, w := range want {
		g := got[i]
		p := fmt.Sprintf("%s/%d(code %d)", path, i, w.Code)
		if g == nil {
			return p + ": nil AVP"
		}
		if g.Code != w.Code || g.Flags&0xC0 != w.Flags&0xC0 || g.VendorID != w.Vendor {
			return fmt.Sprintf("%s: want code=%d M=%v V=%v vendor=%d, got code=%d M=%v V=%v vendor=%d (flags %#x)",
				p, w.Code, w.Flags&0x40 != 0, w.Flags&0x80 != 0, w.Vendor, g.Code, g.Flags&0x40 != 0, g.Flags&0x80 != 0, g.VendorID, g.Flags)
		}
		if w.V.T == gen.TGrouped {
			gg, ok := g.Data.(*diam.GroupedAVP)
			if !ok {
				return fmt.Sprintf("%s: want a grouped AVP, got %T", p, g.Data)
			}
			if d := compareAVPs(w.Children, gg.AVP, p); d != "" {
				return d
			}
			continue
		}
		if g.Data == nil {
			return p + ": AVP without data"
		}
		if d := w.V.EqualDatatype(g.Data); d != "" {
			return p + ": " + d
		}
	}
	return ""
}

func countWant(as []*gen.AVP) int {
	n := 0
	for _, a := range as {
		n += 1 + countWant(a.Children)
	}
	return n
}

func countGot(as []*diam.AVP) int {
	n := 0
	for _, a := range as {
		n++
		if a != nil {
			if g, ok := a.Data.(*diam.GroupedAVP); ok {
				n += countGot(g.AVP)
			}
		}
	}
	return n
}

func clipS400(s string) string {
	if len(s) > 400 {
		return s[:400] + "..."
	}
	return s
}

// runCase runs the check and, on a failure, attributes it to the smallest
// single field (kept inside its chain of enclosing structs) that fails on
// its own; the root-cause signature is computed from that field's spec.
func runCase(c Case) *ev.Failure {
	v := core(c)
	if v == nil {
		return nil
	}
	if v.stage == stHarness {
		return ev.Failf("harness", "%s", v.detail)
	}
	{
		// (a declared type is attributed through its reflect.StructOf mirror)
		for _, path := range reductionPaths(c.Type) {
			rc := reduceTo(c, path)
			rc.Decl = ""
			if rv := core(rc); rv != nil && rv.stage != stHarness {
				ft, enclosing := fieldAt(rc.Type, nil)
				fv := valueAt(rc.Type, rc.Val)
				return ev.Failf(signature(rv, ft, fv, enclosing), "%s\n(field that fails on its own: %s; whole case failed with: %s)",
					rv.detail, describe(ft), clipS400(v.detail))
			}
		}
	}
	return ev.Failf(v.stage, "%s", v.detail)
}

// signature names the root cause from the failing stage and the spec of the
// isolated field (never from the library's messages).
func signature(rv *verdict, ft FieldT, fv *FieldV, enclosing []FieldT) string {
	stage := rv.stage
	marshalFails := stage == stMarshalError || stage == stMarshalPanic
	switch {
	case marshalFails && ft.Kind == KAVP && (ft.Wrap == WNone || ft.Wrap == WPtr):
		return sigAVPField
	case marshalFails && ft.Kind == KScalar && (ft.DT == gen.TIPv6 || ft.DT == gen.TQoSFilterRule):
		return sigIPv6QoS
	case stage == stAVPs && rv.presence && ft.Kind != KEmbed && ft.multiKey() && fv != nil && isEmpty(ft, *fv):
		return sigOmitInverted
	case stage == stAVPs && rv.presence && embeddedInGroup(enclosing, ft):
		return sigEmbedInGroup
	}
	return stage
}

// embeddedInGroup: the isolated field is (or lies inside) an untagged
// embedded struct that is itself a member of a struct for a grouped AVP.
func embeddedInGroup(enclosing []FieldT, ft FieldT) bool {
	chain := append(append([]FieldT{}, enclosing...), ft)
	inGroup := false
	for _, f := range chain {
		if f.Kind == KStruct {
			inGroup = true
		} else if f.Kind == KEmbed && inGroup {
			return true
		}
	}
	return false
}

func describe(ft FieldT) string {
	if ft.Kind == KEmbed {
		return "embedded struct"
	}
	e := ft.Go
	switch ft.Kind {
	case KAVP:
		e = "diam.AVP"
	case KStruct:
		e = "struct{...}"
	case KScalar:
		if ft.Go == "dt" {
			e = "datatype." + ft.DT
		} else if f, ok := foreign(ft.Go); ok {
			e = "datatype." + f
		}
	}
	w := map[string]string{WNone: "", WPtr: "*", WSlice: "[]", WSlicePtr: "[]*"}[ft.Wrap]
	return fmt.Sprintf("%s%s `%s` (%s)", w, e, tagFor(ft, 0), ft.DT)
}

// reductionPaths lists index paths to every field: leaves first (pre-order),
// then structs (innermost first).
func reductionPaths(fields []FieldT) [][]int {
	var leaves, inner [][]int
	var walk func(fs []FieldT, prefix []int)
	walk = func(fs []FieldT, prefix []int) {
		for i, f := range fs {
			p := append(append([]int{}, prefix...), i)
			if f.Kind == KStruct || f.Kind == KEmbed {
				walk(f.Sub, p)
				inner = append(inner, p)
			} else {
				leaves = append(leaves, p)
			}
		}
	}
	walk(fields, nil)
	return append(leaves, inner...)
}

// reduceTo keeps only the field at path, inside its enclosing structs; the
// field itself keeps all its members.
func reduceTo(c Case, path []int) Case {
	rc := c
	rc.Type, rc.Val = reduceFields(c.Type, c.Val, path)
	rc.Val2 = nil
	return rc
}

func reduceFields(fs []FieldT, vs []FieldV, path []int) ([]FieldT, []FieldV) {
	i := path[0]
	ft, fv := fs[i], vs[i]
	if len(path) > 1 {
		sub := ft.Sub
		nv := FieldV{Nil: fv.Nil}
		var nsub []FieldT
		for _, e := range fv.Elems {
			s, ev := reduceFields(sub, e, path[1:])
			nsub = s
			nv.Elems = append(nv.Elems, ev)
		}
		if nsub == nil { // no element: reduce the type alone
			nsub = []FieldT{pathType(sub, path[1:])}
		}
		ft.Sub = nsub
		fv = nv
	}
	return []FieldT{ft}, []FieldV{fv}
}

func pathType(fs []FieldT, path []int) FieldT {
	ft := fs[path[0]]
	if len(path) > 1 {
		ft.Sub = []FieldT{pathType(ft.Sub, path[1:])}
	}
	return ft
}

// fieldAt follows a reduced (single-chain) spec down to the isolated field:
// the first field that is not a one-member struct chain link. Because the
// reduction keeps the target's members, the chain is followed only while the
// link was reduced (exactly one member) - a target struct with one member is
// indistinguishable from a link, which only makes the attribution more
// specific.
func fieldAt(fs []FieldT, enclosing []FieldT) (FieldT, []FieldT) {
	ft := fs[0]
	if (ft.Kind == KStruct || ft.Kind == KEmbed) && len(ft.Sub) == 1 {
		return fieldAt(ft.Sub, append(enclosing, ft))
	}
	return ft, enclosing
}

func valueAt(fs []FieldT, vs []FieldV) *FieldV {
	ft, fv := fs[0], vs[0]
	if (ft.Kind == KStruct || ft.Kind == KEmbed) && len(ft.Sub) == 1 {
		if len(fv.Elems) == 0 {
			return nil
		}
		return valueAt(ft.Sub, fv.Elems[0])
	}
	return &fv
}

// ---------------------------------------------------------------------------
// measurement

type shapeStats struct {
	fields, maxDepth int
	classes          map[string]bool
	structural       bool
}

func (s *shapeStats) walk(o *oracle, fs []FieldT, vs []FieldV, depth int, inGroup bool) {
	if depth > s.maxDepth {
		s.maxDepth = depth
	}
	for i, ft := range fs {
		s.fields++
		var fv *FieldV
		if vs != nil {
			fv = &vs[i]
		}
		if ft.Kind == KEmbed {
			s.structural = true
			s.classes["shape:embedded"] = true
			if inGroup {
				s.classes["shape:embedded-in-group"] = true
			}
			var sub []FieldV
			if fv != nil {
				sub = fv.Elems[0]
			}
			s.walk(o, ft.Sub, sub, depth+1, inGroup)
			continue
		}
		w := map[string]string{WNone: "T", WPtr: "*T", WSlice: "[]T", WSlicePtr: "[]*T"}[ft.Wrap]
		switch ft.Kind {
		case KScalar:
			if ft.Go == "dt" {
				s.classes["shape:datatype-"+w] = true
			} else if f, ok := foreign(ft.Go); ok {
				s.classes["shape:foreign-datatype-"+w] = true
				s.classes["foreign:"+f+"-for-"+ft.DT] = true
			} else {
				s.classes["shape:native-"+w] = true
				s.classes["native:"+ft.Go] = true
			}
		case KAVP:
			s.classes["shape:AVP-"+w] = true
			if ft.DT == gen.TGrouped {
				s.classes["shape:AVP-grouped"] = true
			}
		case KStruct:
			s.classes["shape:struct-"+w] = true
			if ft.Anon {
				s.classes["shape:struct-embedded-tagged"] = true
			}
		}
		s.classes["type:"+ft.DT] = true
		s.classes["tag:"+ft.Tag] = true
		if ft.Wrap != WNone || ft.Kind == KStruct {
			s.structural = true
		}
		if d, err := o.entry(ft); err == nil {
			if d.VendorID != 0 {
				s.classes["dict:vendor-specific"] = true
			}
			if strings.Contains(d.Must, "M") {
				s.classes["dict:must-M"] = true
			} else {
				s.classes["dict:no-M"] = true
			}
		}
		if fv == nil {
			continue
		}
		if fv.Nil && ft.Wrap == WPtr {
			s.classes["value:nil-pointer"] = true
		}
		if (ft.Wrap == WSlice || ft.Wrap == WSlicePtr) && ft.count(*fv) == 0 {
			s.classes["value:empty-slice"] = true
		}
		if (ft.Wrap == WSlice || ft.Wrap == WSlicePtr) && ft.count(*fv) >= 2 {
			s.classes["value:slice>=2"] = true
		}
		if ft.Wrap == WNone && ft.Kind == KScalar && isEmpty(ft, *fv) {
			s.classes["value:zero-scalar"] = true
		}
		if isEmpty(ft, *fv) {
			if ft.omitempty() {
				s.classes["omitempty:empty-omitted"] = true
			} else {
				s.classes["omitempty:empty-kept"] = true
			}
			if ft.multiKey() {
				s.classes["omitempty:empty-with-second-key"] = true
			}
		} else if ft.omitempty() {
			s.classes["omitempty:non-empty"] = true
		}
		if ft.Kind == KStruct {
			if len(fv.Elems) == 0 {
				s.walk(o, ft.Sub, nil, depth+1, true)
			}
			for k, e := range fv.Elems {
				if k > 0 {
					s.fields -= len(ft.Sub) // count the type's fields once
				}
				s.walk(o, ft.Sub, e, depth+1, true)
			}
		}
	}
}

func classify(c Case) (bool, []string) {
	p, _, err := c.Dict.Load()
	if err != nil || validate(c.Type, c.Val, 0) != nil {
		return false, []string{"invalid-case"}
	}
	s := &shapeStats{classes: map[string]bool{}}
	s.walk(&oracle{p: p, app: c.App}, c.Type, c.Val, 1, false)
	cl := []string{"dict:" + c.Dict.Name}
	if c.Decl != "" {
		cl = append(cl, "declared:"+c.Decl)
	}
	if c.Prefill != "" {
		cl = append(cl, "message-before:"+c.Prefill)
	}
	if c.SpareCap {
		cl = append(cl, "slices-with-spare-capacity")
	}
	if c.Val2 != nil {
		cl = append(cl, "second-value-through-the-same-message")
	}
	if c.Second {
		cl = append(cl, "second-value-sharing-slices")
	}
	if len(c.Edits) > 0 {
		cl = append(cl, "template:warm-"+c.Warm)
		seen := map[string]bool{}
		for _, e := range c.Edits {
			if !seen[e.Op] {
				seen[e.Op] = true
				cl = append(cl, "template:op-"+e.Op)
			}
		}
	}
	for k := range s.classes {
		cl = append(cl, k)
	}
	if s.maxDepth >= 2 {
		cl = append(cl, "depth>=2")
	}
	if s.maxDepth >= 3 {
		cl = append(cl, "depth>=3")
	}
	if s.fields >= 4 {
		cl = append(cl, "fields>=4")
	}
	return s.fields >= 2 && s.structural, cl
}

func sample(c Case) interface{} {
	typ := "?"
	if t, err := structType(c); err == nil {
		typ = t.String()
		if len(typ) > 1200 {
			typ = typ[:1200] + "..."
		}
	}
	return map[string]interface{}{"dict": c.Dict.Name, "app": c.App, "cmd": c.Cmd, "decl": c.Decl, "go_type": typ, "n_top_fields": len(c.Type)}
}

// ---------------------------------------------------------------------------
// tests

func TestC18Struct(t *testing.T) {
	prop.Check(t, 3000, 150000)
	poolMu.Lock()
	defer poolMu.Unlock()
	prop.Rec(t).Note("guard: dictionary names are used in tags only if (application, name) resolves to a definition that (application, code, vendor id) resolves back to and whose name fits a conventional struct tag; %d of %d names looked at were excluded by it (cached named-dictionary pools of this process)",
		poolExcluded, poolNames)
}

func TestC18Declared(t *testing.T) { declProp.Check(t, 600, 20000) }

// Regression cases kept from shrunk failures.
func TestC18Keep(t *testing.T) { ev.RunKeep(t, "C18") }

func TestReplay(t *testing.T) { ev.Replay(t) }

// fixedDict declares one AVP of every type name in the base application
// (IPv6, QoSFilterRule, IPv4 and Float64 hardly occur in the embedded
// dictionaries).
func fixedDict() gen.DictChoice {
	base := gen.DictApp{ID: 0, Name: "Base"}
	for i, typ := range gen.AllTypeNames {
		base.AVPs = append(base.AVPs, gen.DictAVP{Name: "B-" + typ, Code: 101 + uint32(i), Type: typ, Must: "M"})
	}
	base.Cmds = []gen.DictCmd{{Code: 300, Short: "XA", Name: "X-A", Req: []string{"B-Grouped"}, Ans: []string{"B-Grouped"}}}
	return gen.DictChoice{Name: "fixed", Gen: &gen.DictFile{Apps: []gen.DictApp{base}}}
}

func one(ft FieldT, fv FieldV) Case {
	return Case{Dict: gen.DictChoice{Name: "default"}, Flags: 0x80, Cmd: 257, App: 0, Type: []FieldT{ft}, Val: []FieldV{fv}}
}

// Canonical inputs of the three defects the design probes found; they are
// ordinary cases of the property (each is also reachable by the generator).

// (a) diam.AVP / *diam.AVP fields, the shapes the package documentation
// recommends for AVPs that are re-used in answers.
func TestC18CanonicalAVPField(t *testing.T) {
	state := &gen.AVP{Code: 278, Flags: 0x40, V: gen.Val{T: gen.TUnsigned32, U: 7}}
	vsa := &gen.AVP{Code: 260, Flags: 0x40, V: gen.Val{T: gen.TGrouped}, Children: []*gen.AVP{
		{Code: 266, Flags: 0x40, V: gen.Val{T: gen.TUnsigned32, U: 10415}}}}
	t.Run("AVP-Unsigned32", func(t *testing.T) {
		prop.One(t, one(FieldT{AVP: "Origin-State-Id", DT: gen.TUnsigned32, Kind: KAVP, Tag: TagPlain}, FieldV{AVPs: []*gen.AVP{state}}))
	})
	t.Run("ptr-AVP-Unsigned32", func(t *testing.T) {
		prop.One(t, one(FieldT{AVP: "Origin-State-Id", DT: gen.TUnsigned32, Kind: KAVP, Wrap: WPtr, Tag: TagPlain}, FieldV{AVPs: []*gen.AVP{state}}))
	})
	t.Run("AVP-Grouped", func(t *testing.T) {
		prop.One(t, one(FieldT{AVP: "Vendor-Specific-Application-Id", DT: gen.TGrouped, Kind: KAVP, Tag: TagPlain}, FieldV{AVPs: []*gen.AVP{vsa}}))
	})
}

// (b) omitempty next to a second tag key.
func TestC18CanonicalOmitemptySecondKey(t *testing.T) {
	zero := FieldV{Vals: []gen.Val{{T: gen.TUnsigned32}}}
	for _, tf := range []string{TagPre, TagPreOmit, TagPost, TagPostOmit, TagPostJOmit, TagPreJOmit} {
		tf := tf
		t.Run(tf, func(t *testing.T) {
			prop.One(t, one(FieldT{AVP: "Origin-State-Id", DT: gen.TUnsigned32, Kind: KScalar, Go: "uint32", Tag: tf}, zero))
		})
	}
}

// (c) IPv6 and QoSFilterRule fields.
func TestC18CanonicalIPv6QoS(t *testing.T) {
	ip6 := make([]byte, 16)
	ip6[0], ip6[15] = 0x20, 1
	cases := map[string]Case{
		"IPv6-net.IP": {Type: []FieldT{{AVP: "B-IPv6", DT: gen.TIPv6, Kind: KScalar, Go: "ip", Tag: TagPlain}},
			Val: []FieldV{{Vals: []gen.Val{{T: gen.TIPv6, B: ip6}}}}},
		// an IPv4 address in Go's 4-byte form (what IP.To4 and the library's own Unmarshal of an
		// Address / IPv4 AVP produce) in an IPv6-typed field: the same address afterwards (net.IP.Equal)
		"IPv6-net.IP-4-byte-form": {Type: []FieldT{{AVP: "B-IPv6", DT: gen.TIPv6, Kind: KScalar, Go: "ip", Tag: TagPlain}},
			Val: []FieldV{{Vals: []gen.Val{{T: gen.TIPv6, B: []byte{10, 1, 0, 1}}}}}},
		"IPv6-[]net.IP-4-byte-form": {Type: []FieldT{{AVP: "B-IPv6", DT: gen.TIPv6, Kind: KScalar, Wrap: WSlice, Go: "ip", Tag: TagPlain}},
			Val: []FieldV{{Vals: []gen.Val{{T: gen.TIPv6, B: ip6}, {T: gen.TIPv6, B: []byte{192, 0, 2, 200}}}}}},
		"QoSFilterRule-string": {Type: []FieldT{{AVP: "B-QoSFilterRule", DT: gen.TQoSFilterRule, Kind: KScalar, Go: "string", Tag: TagPlain}},
			Val: []FieldV{{Vals: []gen.Val{{T: gen.TQoSFilterRule, B: []byte("permit in ip from any to any")}}}}},
	}
	for _, name := range []string{"IPv6-net.IP", "IPv6-net.IP-4-byte-form", "IPv6-[]net.IP-4-byte-form", "QoSFilterRule-string"} {
		c := cases[name]
		c.Dict, c.Flags, c.Cmd, c.App = fixedDict(), 0x80, 300, 0
		t.Run(name, func(t *testing.T) { prop.One(t, c) })
	}
}

// (d) found by this check: an untagged embedded struct inside a struct for a
// grouped AVP. Unmarshal fills its promoted fields, Marshal drops them.
func TestC18CanonicalEmbeddedInGroup(t *testing.T) {
	u32 := func(x uint64) FieldV { return FieldV{Vals: []gen.Val{{T: gen.TUnsigned32, U: x}}} }
	ft := FieldT{AVP: "Vendor-Specific-Application-Id", DT: gen.TGrouped, Kind: KStruct, Tag: TagPlain, Sub: []FieldT{
		{Kind: KEmbed, Sub: []FieldT{{AVP: "Vendor-Id", DT: gen.TUnsigned32, Kind: KScalar, Go: "uint32", Tag: TagPlain}}},
		{AVP: "Auth-Application-Id", DT: gen.TUnsigned32, Kind: KScalar, Go: "uint32", Tag: TagPlain},
	}}
	fv := FieldV{Elems: [][]FieldV{{{Elems: [][]FieldV{{u32(10415)}}}, u32(4)}}}
	prop.One(t, one(ft, fv))
}

var _ = rapid.Check
