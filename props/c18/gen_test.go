package c18

// Generator of struct-type specs and of values for them.

import (
	"fmt"
	"sort"
	"strings"
	"sync"

	"github.com/fiorix/go-diameter/v4/diam/dict"
	"pgregory.net/rapid"

	"verif/internal/gen"
)

// cand is an AVP name usable in a tag for messages of one application.
type cand struct {
	Name string
	DT   string
	Code uint32
}

// pool holds the usable names of one (dictionary, application) pair.
type pool struct {
	byType      map[string][]cand
	types       []string // every data type with at least one name
	scalarTypes []string // the same without Grouped
	excluded    int      // names not usable (see usable)
}

var (
	poolMu       sync.Mutex
	poolCache    = map[string]*pool{}
	poolExcluded int // names rejected by usable, over the named-dictionary pools built
	poolNames    int
)

var knownType = func() map[string]bool {
	m := map[string]bool{}
	for _, t := range gen.AllTypeNames {
		m[t] = true
	}
	return m
}()

// usable: the name resolves, by the lookup Marshal and Unmarshal use, to a
// definition that the wire decoder resolves back from (code, vendor id) for
// the same application - otherwise the message would be decoded with another
// definition's type, which is not this property's subject (C17) - and the
// name can be written inside a conventional struct tag.
func usable(p *dict.Parser, app uint32, name string) (*dict.AVP, bool) {
	if name == "" || strings.ContainsAny(name, "\", `\\\n\t") {
		return nil, false
	}
	d, err := p.FindAVP(app, name)
	if err != nil || d == nil || !knownType[d.Data.TypeName] {
		return nil, false
	}
	back, err := p.FindAVPWithVendor(app, d.Code, d.VendorID)
	if err != nil || back != d {
		return nil, false
	}
	return d, true
}

func poolFor(dc gen.DictChoice, p *dict.Parser, cat *gen.Catalog, app uint32) *pool {
	key := ""
	if dc.Gen == nil {
		key = fmt.Sprintf("%s/%d", dc.Name, app)
		poolMu.Lock()
		pl, ok := poolCache[key]
		poolMu.Unlock()
		if ok {
			return pl
		}
	}
	pl := &pool{byType: map[string][]cand{}}
	seen := map[string]bool{}
	for _, e := range cat.Entries {
		if seen[e.Name] {
			continue
		}
		seen[e.Name] = true
		d, ok := usable(p, app, e.Name)
		if !ok {
			pl.excluded++
			continue
		}
		pl.byType[d.Data.TypeName] = append(pl.byType[d.Data.TypeName], cand{Name: e.Name, DT: d.Data.TypeName, Code: d.Code})
	}
	for t, cs := range pl.byType {
		sort.Slice(cs, func(i, j int) bool { return cs[i].Name < cs[j].Name })
		pl.types = append(pl.types, t)
		if t != gen.TGrouped {
			pl.scalarTypes = append(pl.scalarTypes, t)
		}
	}
	sort.Strings(pl.types)
	sort.Strings(pl.scalarTypes)
	if key != "" {
		poolMu.Lock()
		poolExcluded += pl.excluded
		poolNames += len(seen)
		if len(poolCache) > 256 {
			poolCache = map[string]*pool{}
		}
		poolCache[key] = pl
		poolMu.Unlock()
	}
	return pl
}

// pick draws a name of one of the given types whose code is not yet used at
// this struct level; it walks on to the next entries / types instead of
// rejecting. ok is false when every code is taken.
func (pl *pool) pick(t *rapid.T, types []string, used map[uint32]bool) (cand, bool) {
	if len(types) == 0 {
		return cand{}, false
	}
	t0 := rapid.IntRange(0, len(types)-1).Draw(t, "type")
	for dt := 0; dt < len(types); dt++ {
		cs := pl.byType[types[(t0+dt)%len(types)]]
		if len(cs) == 0 {
			continue
		}
		e0 := rapid.IntRange(0, len(cs)-1).Draw(t, "entry")
		for de := 0; de < len(cs) && de < 64; de++ {
			c := cs[(e0+de)%len(cs)]
			if !used[c.Code] {
				used[c.Code] = true
				return c, true
			}
		}
	}
	return cand{}, false
}

type genCtx struct {
	t  *rapid.T
	pl *pool
	o  *oracle
}

var valOpts = gen.ValueOpts{MaxBytes: 4200, NoSNaN: true}

func pickTag(t *rapid.T) string {
	switch k := rapid.IntRange(0, 7).Draw(t, "tag"); {
	case k < 2:
		return TagPlain
	case k < 4:
		return TagOmit
	default:
		return tagForms[k-2]
	}
}

// fields draws the members of one struct level. used is shared with embedded
// structs because their fields are promoted to this level.
func (g *genCtx) fields(depth, minN, maxN int, used map[uint32]bool) []FieldT {
	n := rapid.IntRange(minN, maxN).Draw(g.t, "n-fields")
	var out []FieldT
	for i := 0; i < n; i++ {
		if ft, ok := g.field(depth, used); ok {
			out = append(out, ft)
		}
	}
	return out
}

func (g *genCtx) field(depth int, used map[uint32]bool) (FieldT, bool) {
	t := g.t
	k := rapid.IntRange(0, 99).Draw(t, "kind")
	switch {
	case k >= 50 && k < 64: // diam.AVP, *diam.AVP, []*diam.AVP of any data type
		c, ok := g.pl.pick(t, g.pl.types, used)
		if !ok {
			return FieldT{}, false
		}
		return FieldT{AVP: c.Name, DT: c.DT, Kind: KAVP, Tag: pickTag(t),
			Wrap: rapid.SampledFrom([]string{WNone, WPtr, WSlicePtr, WSlicePtr, WSlice}).Draw(t, "wrap")}, true
	case k >= 64 && k < 87 && depth < 3 && len(g.pl.byType[gen.TGrouped]) > 0: // struct for a grouped AVP
		c, ok := g.pl.pick(t, []string{gen.TGrouped}, used)
		if !ok {
			return FieldT{}, false
		}
		ft := FieldT{AVP: c.Name, DT: c.DT, Kind: KStruct, Tag: pickTag(t),
			Wrap: rapid.SampledFrom([]string{WNone, WNone, WPtr, WSlice, WSlicePtr}).Draw(t, "wrap")}
		if ft.Wrap == WNone {
			ft.Anon = rapid.IntRange(0, 4).Draw(t, "anon") == 0
		}
		ft.Sub = g.fields(depth+1, 0, 4, map[uint32]bool{})
		return ft, true
	case k >= 87 && depth < 3: // embedded struct, untagged: fields promoted
		return FieldT{Kind: KEmbed, Sub: g.fields(depth+1, 0, 3, used)}, true
	}
	c, ok := g.pl.pick(t, g.pl.scalarTypes, used)
	if !ok {
		return FieldT{}, false
	}
	ft := FieldT{AVP: c.Name, DT: c.DT, Kind: KScalar, Tag: pickTag(t),
		Wrap: rapid.SampledFrom([]string{WNone, WNone, WPtr, WSlice, WSlicePtr}).Draw(t, "wrap")}
	if k := rapid.IntRange(0, 9).Draw(t, "go-dt"); k < 3 {
		ft.Go = "dt"
	} else if k < 5 && len(foreignFor[c.DT]) > 0 {
		ft.Go = "dt:" + rapid.SampledFrom(foreignFor[c.DT]).Draw(t, "foreign")
	} else if k < 4 {
		ft.Go = "dt"
	} else {
		ft.Go = rapid.SampledFrom(nativeFor[c.DT]).Draw(t, "go")
	}
	return ft, true
}

func (g *genCtx) count(ft FieldT) (n int, isNil bool) {
	t := g.t
	switch ft.Wrap {
	case WPtr:
		if rapid.IntRange(0, 9).Draw(t, "nil-ptr") < 3 {
			return 0, true
		}
		return 1, false
	case WSlice, WSlicePtr:
		n = rapid.SampledFrom([]int{0, 0, 1, 1, 2, 3}).Draw(t, "slice-len")
		if n == 0 {
			isNil = rapid.Bool().Draw(t, "nil-slice")
		}
		return n, isNil
	}
	return 1, false
}

// scalar draws a value of the data type. Zero numbers and empty strings are
// frequent (omitempty); Address, IPv4, IPv6 and Time fields always hold a
// valid value (net.IP(nil) / time.Time{} are not values of those types);
// floats are never signalling NaNs; a net.IP / []byte field holds an IP
// address (family 1 or 2), the other families only occur in datatype.Address.
func (g *genCtx) scalar(ft FieldT) gen.Val {
	t := g.t
	switch ft.DT {
	case gen.TAddress:
		if ft.Go != "dt" {
			if rapid.Bool().Draw(t, "ip4") {
				return gen.Val{T: ft.DT, Fam: 1, B: rapid.SliceOfN(rapid.Byte(), 4, 4).Draw(t, "ip4-bytes")}
			}
			b := gen.Value(t, gen.TIPv6, valOpts).B
			v := gen.Val{T: ft.DT, Fam: 2, B: b}
			if v.AddrAmbiguous() {
				v.B[0] = 0x20
			}
			return v
		}
	case gen.TIPv6:
		// a net.IP field may hold an IPv4 address in Go's 4-byte form; in an IPv6-typed AVP it
		// stays that address (IPv4-mapped)
		if ft.Go == "ip" && rapid.IntRange(0, 3).Draw(t, "ip4-form") == 0 {
			return gen.Val{T: ft.DT, B: rapid.SliceOfN(rapid.Byte(), 4, 4).Draw(t, "ip4-bytes")}
		}
	case gen.TTime, gen.TIPv4:
	default:
		if rapid.IntRange(0, 3).Draw(t, "zero") == 0 {
			if isStringLike(ft.DT) {
				return gen.Val{T: ft.DT, B: []byte{}}
			}
			return gen.Val{T: ft.DT}
		}
	}
	v := gen.Value(t, ft.DT, valOpts)
	if v.B == nil && (isStringLike(ft.DT)) {
		v.B = []byte{}
	}
	return v
}

// handAVP is the AVP a caller builds by hand from the dictionary entry.
func (g *genCtx) handAVP(ft FieldT) *gen.AVP {
	d, err := g.o.entry(ft)
	if err != nil {
		g.t.Fatalf("harness: %v", err)
	}
	a := &gen.AVP{Code: d.Code, Flags: dictFlags(d), Vendor: d.VendorID}
	if ft.DT != gen.TGrouped {
		a.V = g.scalar(FieldT{DT: ft.DT, Go: "dt"})
		return a
	}
	a.V = gen.Val{T: gen.TGrouped}
	n := rapid.IntRange(0, 3).Draw(g.t, "n-children")
	for i := 0; i < n; i++ {
		c, ok := g.pl.pick(g.t, g.pl.scalarTypes, map[uint32]bool{})
		if !ok {
			break
		}
		a.Children = append(a.Children, g.handAVP(FieldT{AVP: c.Name, DT: c.DT}))
	}
	return a
}

func (g *genCtx) values(fields []FieldT) []FieldV {
	out := make([]FieldV, len(fields))
	for i, ft := range fields {
		out[i] = g.value(ft)
	}
	return out
}

func (g *genCtx) value(ft FieldT) FieldV {
	if ft.Kind == KEmbed {
		return FieldV{Elems: [][]FieldV{g.values(ft.Sub)}}
	}
	n, isNil := g.count(ft)
	v := FieldV{Nil: isNil}
	for k := 0; k < n; k++ {
		switch ft.Kind {
		case KScalar:
			v.Vals = append(v.Vals, g.scalar(ft))
		case KAVP:
			v.AVPs = append(v.AVPs, g.handAVP(ft))
		case KStruct:
			v.Elems = append(v.Elems, g.values(ft.Sub))
		}
	}
	if ft.Kind == KScalar && ft.Wrap == WNone && ft.Go == "bytes" && len(v.Vals[0].B) == 0 {
		v.Nil = rapid.Bool().Draw(g.t, "nil-bytes")
	}
	return v
}

func pickDict(t *rapid.T) gen.DictChoice {
	switch k := rapid.IntRange(0, 19).Draw(t, "dict-kind"); {
	case k < 8:
		f := gen.CodecDict(t)
		return gen.DictChoice{Name: "generated", Gen: &f}
	case k < 16:
		return gen.DictChoice{Name: "default"}
	default:
		return gen.DictChoice{Name: rapid.SampledFrom(gen.EmbeddedNames()).Draw(t, "dict-name")}
	}
}

func genCase(t *rapid.T) Case {
	c := Case{Dict: pickDict(t)}
	p, cat, err := c.Dict.Load()
	if err != nil {
		t.Fatalf("harness: %v", err)
	}
	c.Flags, c.Cmd, c.App, _, _ = cat.Header(t)
	g := &genCtx{t: t, pl: poolFor(c.Dict, p, cat, c.App), o: &oracle{p: p, app: c.App}}
	c.Type = g.fields(1, 1, 6, map[uint32]bool{})
	c.Val = g.values(c.Type)
	if rapid.IntRange(0, 2).Draw(t, "second-value") == 0 {
		c.Val2 = g.values(c.Type)
	}
	c.SpareCap = rapid.IntRange(0, 2).Draw(t, "spare-cap") == 0
	c.Second = rapid.IntRange(0, 2).Draw(t, "second") == 0
	c.Prefill = rapid.SampledFrom([]string{"", "", "", "", "", preAVPs, preRemarshal, preOther}).Draw(t, "prefill")
	return c
}
