package c18

// The serialisable struct-type spec, the Go type and value built from it with
// reflect.StructOf, the AVP list a caller would build by hand, and the
// structure-directed comparison of an unmarshalled value with the original.

import (
	"bytes"
	"fmt"
	"math"
	"net"
	"reflect"
	"strings"
	"time"

	"github.com/fiorix/go-diameter/v4/diam"
	"github.com/fiorix/go-diameter/v4/diam/datatype"
	"github.com/fiorix/go-diameter/v4/diam/dict"

	"verif/internal/gen"
)

// Field kinds.
const (
	KScalar = "scalar" // a value of the AVP's data type (datatype.* or native Go type)
	KAVP    = "avp"    // diam.AVP: a ready-made AVP
	KStruct = "struct" // a struct for a Grouped AVP
	KEmbed  = "embed"  // anonymous, untagged struct: its fields are promoted
)

// Wrappers around the element type.
const (
	WNone     = ""         // T
	WPtr      = "ptr"      // *T
	WSlice    = "slice"    // []T
	WSlicePtr = "sliceptr" // []*T
)

// Tag forms.
const (
	TagPlain    = "plain"     // `avp:"N"`
	TagOmit     = "omit"      // `avp:"N,omitempty"`
	TagPre      = "pre"       // `json:"x" avp:"N"`
	TagPreOmit  = "pre-omit"  // `json:"x" avp:"N,omitempty"`
	TagPost     = "post"      // `avp:"N" json:"x"`
	TagPostOmit = "post-omit" // `avp:"N,omitempty" json:"x"`
	// the other key has an option of its own: it is not the avp key's option
	TagPostJOmit = "post-jomit" // `avp:"N" json:"x,omitempty"`
	TagPreJOmit  = "pre-jomit"  // `json:"x,omitempty" avp:"N"`
)

var tagForms = []string{TagPlain, TagOmit, TagPre, TagPreOmit, TagPost, TagPostOmit, TagPostJOmit, TagPreJOmit}

// FieldT is the type half of one struct field.
type FieldT struct {
	AVP  string   `json:"avp,omitempty"`  // dictionary name in the tag ("" for embed)
	DT   string   `json:"dt,omitempty"`   // data type the dictionary gives that name (checked at run time)
	Kind string   `json:"kind"`           // scalar | avp | struct | embed
	Wrap string   `json:"wrap,omitempty"` // "" | ptr | slice | sliceptr
	Go   string   `json:"go,omitempty"`   // scalar: "dt" (the datatype.* type) or a native Go type name
	Tag  string   `json:"tag,omitempty"`  // tag form
	Anon bool     `json:"anon,omitempty"` // struct: declared as an embedded field that carries a tag (= grouped AVP)
	Sub  []FieldT `json:"sub,omitempty"`  // struct / embed: the member fields
}

// FieldV is the value half of one struct field.
type FieldV struct {
	Nil   bool       `json:"nil,omitempty"`   // nil pointer / nil (rather than empty) slice
	Vals  []gen.Val  `json:"vals,omitempty"`  // scalar: one value per element
	AVPs  []*gen.AVP `json:"avps,omitempty"`  // avp: one hand-built AVP per element
	Elems [][]FieldV `json:"elems,omitempty"` // struct / embed: one member-value list per element
}

func (ft FieldT) omitempty() bool {
	return ft.Tag == TagOmit || ft.Tag == TagPreOmit || ft.Tag == TagPostOmit
}

func (ft FieldT) multiKey() bool {
	return ft.Tag == TagPre || ft.Tag == TagPreOmit || ft.Tag == TagPost || ft.Tag == TagPostOmit || ft.Tag == TagPostJOmit || ft.Tag == TagPreJOmit
}

func (ft FieldT) count(v FieldV) int {
	switch ft.Kind {
	case KScalar:
		return len(v.Vals)
	case KAVP:
		return len(v.AVPs)
	}
	return len(v.Elems)
}

// ---------------------------------------------------------------------------
// Go types

var dtTypes = map[string]reflect.Type{
	gen.TOctetString:      reflect.TypeOf(datatype.OctetString("")),
	gen.TUTF8String:       reflect.TypeOf(datatype.UTF8String("")),
	gen.TDiameterIdentity: reflect.TypeOf(datatype.DiameterIdentity("")),
	gen.TDiameterURI:      reflect.TypeOf(datatype.DiameterURI("")),
	gen.TIPFilterRule:     reflect.TypeOf(datatype.IPFilterRule("")),
	gen.TQoSFilterRule:    reflect.TypeOf(datatype.QoSFilterRule("")),
	gen.TUnsigned32:       reflect.TypeOf(datatype.Unsigned32(0)),
	gen.TUnsigned64:       reflect.TypeOf(datatype.Unsigned64(0)),
	gen.TInteger32:        reflect.TypeOf(datatype.Integer32(0)),
	gen.TInteger64:        reflect.TypeOf(datatype.Integer64(0)),
	gen.TEnumerated:       reflect.TypeOf(datatype.Enumerated(0)),
	gen.TFloat32:          reflect.TypeOf(datatype.Float32(0)),
	gen.TFloat64:          reflect.TypeOf(datatype.Float64(0)),
	gen.TTime:             reflect.TypeOf(datatype.Time{}),
	gen.TAddress:          reflect.TypeOf(datatype.Address(nil)),
	gen.TIPv4:             reflect.TypeOf(datatype.IPv4(nil)),
	gen.TIPv6:             reflect.TypeOf(datatype.IPv6(nil)),
}

var nativeTypes = map[string]reflect.Type{
	"uint32":  reflect.TypeOf(uint32(0)),
	"uint64":  reflect.TypeOf(uint64(0)),
	"uint":    reflect.TypeOf(uint(0)),
	"int32":   reflect.TypeOf(int32(0)),
	"int64":   reflect.TypeOf(int64(0)),
	"int":     reflect.TypeOf(int(0)),
	"float32": reflect.TypeOf(float32(0)),
	"float64": reflect.TypeOf(float64(0)),
	"string":  reflect.TypeOf(""),
	"bytes":   reflect.TypeOf([]byte(nil)),
	"ip":      reflect.TypeOf(net.IP(nil)),
	"time":    reflect.TypeOf(time.Time{}),
}

// nativeFor lists, per data type, the native Go types that represent every
// value of the data type losslessly (the int widths are those of the
// 64-bit platforms the harness runs on).
var nativeFor = map[string][]string{
	gen.TOctetString:      {"string", "bytes"},
	gen.TUTF8String:       {"string", "bytes"},
	gen.TDiameterIdentity: {"string", "bytes"},
	gen.TDiameterURI:      {"string", "bytes"},
	gen.TIPFilterRule:     {"string", "bytes"},
	gen.TQoSFilterRule:    {"string", "bytes"},
	gen.TUnsigned32:       {"uint32", "uint32", "uint64", "uint", "int", "int64"},
	gen.TUnsigned64:       {"uint64", "uint64", "uint"},
	gen.TInteger32:        {"int32", "int32", "int64", "int"},
	gen.TEnumerated:       {"int32", "int32", "int64", "int"},
	gen.TInteger64:        {"int64", "int64", "int"},
	gen.TFloat32:          {"float32", "float32", "float64"},
	gen.TFloat64:          {"float64"},
	gen.TTime:             {"time"},
	gen.TAddress:          {"ip", "bytes"},
	gen.TIPv4:             {"ip", "bytes"},
	gen.TIPv6:             {"ip", "bytes"},
}

// foreignFor lists, per data type, the OTHER datatype.* types a field may be
// declared with: Go converts them to the dictionary's type and back without
// loss for every value of the data type (string kinds among themselves, a
// wider or equally wide integer / float kind). Marshal must still produce the
// dictionary's type. Written "dt:<Name>" in FieldT.Go.
var foreignFor = map[string][]string{
	gen.TOctetString:      {gen.TUTF8String, gen.TDiameterIdentity, gen.TDiameterURI, gen.TIPFilterRule},
	gen.TUTF8String:       {gen.TOctetString, gen.TDiameterIdentity, gen.TQoSFilterRule},
	gen.TDiameterIdentity: {gen.TOctetString, gen.TUTF8String, gen.TDiameterURI},
	gen.TDiameterURI:      {gen.TOctetString, gen.TUTF8String, gen.TDiameterIdentity},
	gen.TIPFilterRule:     {gen.TOctetString, gen.TUTF8String, gen.TQoSFilterRule},
	gen.TQoSFilterRule:    {gen.TOctetString, gen.TUTF8String, gen.TIPFilterRule},
	gen.TUnsigned32:       {gen.TUnsigned64, gen.TInteger64},
	gen.TInteger32:        {gen.TEnumerated, gen.TInteger64},
	gen.TEnumerated:       {gen.TInteger32, gen.TInteger64},
	gen.TFloat32:          {gen.TFloat64},
}

// foreign returns the datatype name of a "dt:<Name>" shape.
func foreign(goName string) (string, bool) {
	if strings.HasPrefix(goName, "dt:") {
		return goName[3:], true
	}
	return "", false
}

// kindOf maps a field shape to the native shape with the same reflect kind,
// so that values are set and compared by kind.
func kindOf(goName string) string {
	f, ok := foreign(goName)
	if !ok {
		return goName
	}
	switch f {
	case gen.TUnsigned64:
		return "uint64"
	case gen.TInteger64:
		return "int64"
	case gen.TInteger32, gen.TEnumerated:
		return "int32"
	case gen.TFloat64:
		return "float64"
	}
	return "string"
}

func isStringLike(dt string) bool { return gen.IsStringLike(dt) }

func isIPLike(dt string) bool { return dt == gen.TAddress || dt == gen.TIPv4 || dt == gen.TIPv6 }

var avpType = reflect.TypeOf(diam.AVP{})

func tagFor(ft FieldT, i int) reflect.StructTag {
	a := `avp:"` + ft.AVP
	if ft.omitempty() {
		a += ",omitempty"
	}
	a += `"`
	j := fmt.Sprintf(`json:"f%d"`, i)
	switch ft.Tag {
	case TagPre, TagPreOmit:
		return reflect.StructTag(j + " " + a)
	case TagPost, TagPostOmit:
		return reflect.StructTag(a + " " + j)
	case TagPostJOmit:
		return reflect.StructTag(a + " " + fmt.Sprintf(`json:"f%d,omitempty"`, i))
	case TagPreJOmit:
		return reflect.StructTag(fmt.Sprintf(`json:"f%d,omitempty"`, i) + " " + a)
	}
	return reflect.StructTag(a)
}

func elemType(ft FieldT) reflect.Type {
	switch ft.Kind {
	case KAVP:
		return avpType
	case KStruct, KEmbed:
		return buildStruct(ft.Sub)
	}
	if ft.Go == "dt" {
		return dtTypes[ft.DT]
	}
	if f, ok := foreign(ft.Go); ok {
		return dtTypes[f]
	}
	return nativeTypes[ft.Go]
}

func fieldType(ft FieldT) reflect.Type {
	e := elemType(ft)
	switch ft.Wrap {
	case WPtr:
		return reflect.PointerTo(e)
	case WSlice:
		return reflect.SliceOf(e)
	case WSlicePtr:
		return reflect.SliceOf(reflect.PointerTo(e))
	}
	return e
}

// buildStruct creates the struct type: exported names F0, F1, ... (E<i> for
// embedded fields), the avp tag in the chosen form.
func buildStruct(fields []FieldT) reflect.Type {
	sf := make([]reflect.StructField, len(fields))
	for i, f := range fields {
		if f.Kind == KEmbed {
			sf[i] = reflect.StructField{Name: fmt.Sprintf("E%d", i), Type: buildStruct(f.Sub), Anonymous: true}
			continue
		}
		sf[i] = reflect.StructField{Name: fmt.Sprintf("F%d", i), Type: fieldType(f), Tag: tagFor(f, i), Anonymous: f.Anon}
	}
	return reflect.StructOf(sf)
}

// ---------------------------------------------------------------------------
// validation (replay files are data: never trust their structure)

func validate(fields []FieldT, vals []FieldV, depth int) error {
	if depth > 8 {
		return fmt.Errorf("spec nested too deep")
	}
	if len(fields) != len(vals) {
		return fmt.Errorf("%d field types but %d field values", len(fields), len(vals))
	}
	for i, ft := range fields {
		v := vals[i]
		switch ft.Kind {
		case KEmbed:
			if ft.Wrap != WNone || len(v.Elems) != 1 {
				return fmt.Errorf("field %d: an embedded struct has exactly one value", i)
			}
			if err := validate(ft.Sub, v.Elems[0], depth+1); err != nil {
				return err
			}
			continue
		case KScalar:
			if ft.Go == "dt" {
				if dtTypes[ft.DT] == nil {
					return fmt.Errorf("field %d: no datatype type for %q", i, ft.DT)
				}
			} else if f, isF := foreign(ft.Go); isF {
				ok := false
				for _, n := range foreignFor[ft.DT] {
					ok = ok || n == f
				}
				if !ok || dtTypes[f] == nil {
					return fmt.Errorf("field %d: datatype.%s is not a lossless foreign type of %s", i, f, ft.DT)
				}
			} else {
				ok := false
				for _, n := range nativeFor[ft.DT] {
					ok = ok || n == ft.Go
				}
				if !ok {
					return fmt.Errorf("field %d: %q is not a lossless native type of %s", i, ft.Go, ft.DT)
				}
			}
			for _, x := range v.Vals {
				if x.T != ft.DT {
					return fmt.Errorf("field %d: value of type %s in a %s field", i, x.T, ft.DT)
				}
			}
		case KAVP:
			for _, a := range v.AVPs {
				if a == nil {
					return fmt.Errorf("field %d: nil AVP", i)
				}
			}
		case KStruct:
			if ft.DT != gen.TGrouped {
				return fmt.Errorf("field %d: struct field for non-grouped type %s", i, ft.DT)
			}
			for _, e := range v.Elems {
				if err := validate(ft.Sub, e, depth+1); err != nil {
					return err
				}
			}
		default:
			return fmt.Errorf("field %d: unknown kind %q", i, ft.Kind)
		}
		if ft.AVP == "" || strings.ContainsAny(ft.AVP, "\", `\\") {
			return fmt.Errorf("field %d: unusable AVP name %q", i, ft.AVP)
		}
		ok := false
		for _, tf := range tagForms {
			ok = ok || tf == ft.Tag
		}
		if !ok {
			return fmt.Errorf("field %d: unknown tag form %q", i, ft.Tag)
		}
		n := ft.count(v)
		switch ft.Wrap {
		case WNone:
			if n != 1 {
				return fmt.Errorf("field %d: a plain field has exactly one value, not %d", i, n)
			}
		case WPtr:
			if (v.Nil && n != 0) || (!v.Nil && n != 1) {
				return fmt.Errorf("field %d: a pointer field is nil or has one value", i)
			}
		case WSlice, WSlicePtr:
			if v.Nil && n != 0 {
				return fmt.Errorf("field %d: a nil slice has no values", i)
			}
		default:
			return fmt.Errorf("field %d: unknown wrapper %q", i, ft.Wrap)
		}
	}
	return nil
}

// ---------------------------------------------------------------------------
// values

func setScalar(dst reflect.Value, ft FieldT, v gen.Val, nilBytes bool) {
	if ft.Go == "dt" {
		dst.Set(reflect.ValueOf(v.ToDatatype()))
		return
	}
	if _, ok := foreign(ft.Go); ok && kindOf(ft.Go) == "float64" {
		dst.SetFloat(float64(math.Float32frombits(uint32(v.U)))) // Float32 data type in a datatype.Float64 field
		return
	}
	switch kindOf(ft.Go) {
	case "uint32", "uint64", "uint":
		if ft.DT == gen.TUnsigned32 {
			dst.SetUint(uint64(uint32(v.U)))
		} else {
			dst.SetUint(v.U)
		}
	case "int32", "int64", "int":
		switch ft.DT {
		case gen.TUnsigned32:
			dst.SetInt(int64(uint32(v.U)))
		case gen.TInteger32, gen.TEnumerated:
			dst.SetInt(int64(int32(uint32(v.U))))
		default:
			dst.SetInt(int64(v.U))
		}
	case "float32":
		dst.Set(reflect.ValueOf(math.Float32frombits(uint32(v.U)))) // keeps the bits
	case "float64":
		if ft.DT == gen.TFloat32 {
			dst.Set(reflect.ValueOf(float64(math.Float32frombits(uint32(v.U)))))
		} else {
			dst.Set(reflect.ValueOf(math.Float64frombits(v.U)))
		}
	case "string":
		dst.SetString(string(v.B))
	case "bytes":
		if len(v.B) == 0 && nilBytes {
			return
		}
		dst.SetBytes(append([]byte{}, ipBytes(ft, v)...))
	case "ip":
		dst.Set(reflect.ValueOf(net.IP(append([]byte{}, ipBytes(ft, v)...))))
	case "time":
		dst.Set(reflect.ValueOf(time.Unix(v.I, 0)))
	}
}

// ipBytes is the byte form of the value in a net.IP / []byte field. An IPv4
// Address whose last byte is odd is held in Go's 16-byte form (what
// net.ParseIP returns) - the same address for net.IP.Equal.
func ipBytes(ft FieldT, v gen.Val) []byte {
	if (ft.DT == gen.TAddress || ft.DT == gen.TIPv4) && ft.Go == "ip" && len(v.B) == 4 && v.B[3]&1 == 1 {
		return net.IP(v.B).To16()
	}
	return v.B
}

func fillStruct(sv reflect.Value, fields []FieldT, vals []FieldV) {
	for i := range fields {
		fillField(sv.Field(i), fields[i], vals[i])
	}
}

// spareCap > 0: slices are built with that much unused capacity behind their elements (what
// append leaves behind); set by the runner around fillStruct.
var spareCap int

func fillField(f reflect.Value, ft FieldT, v FieldV) {
	if ft.Kind == KEmbed {
		fillStruct(f, ft.Sub, v.Elems[0])
		return
	}
	set := func(dst reflect.Value, k int) {
		switch ft.Kind {
		case KScalar:
			setScalar(dst, ft, v.Vals[k], v.Nil)
		case KAVP:
			dst.Set(reflect.ValueOf(*v.AVPs[k].ToDiamAVP()))
		case KStruct:
			fillStruct(dst, ft.Sub, v.Elems[k])
		}
	}
	n := ft.count(v)
	switch ft.Wrap {
	case WNone:
		set(f, 0)
	case WPtr:
		if v.Nil {
			return
		}
		p := reflect.New(f.Type().Elem())
		set(p.Elem(), 0)
		f.Set(p)
	case WSlice:
		if n == 0 && v.Nil {
			return
		}
		s := reflect.MakeSlice(f.Type(), n, n+spareCap)
		for k := 0; k < n; k++ {
			set(s.Index(k), k)
		}
		f.Set(s)
	case WSlicePtr:
		if n == 0 && v.Nil {
			return
		}
		s := reflect.MakeSlice(f.Type(), n, n+spareCap)
		for k := 0; k < n; k++ {
			p := reflect.New(f.Type().Elem().Elem())
			set(p.Elem(), k)
			s.Index(k).Set(p)
		}
		f.Set(s)
	}
}

// isEmpty is the conventional meaning of "empty" for omitempty (that of
// encoding/json): zero number, empty string / slice, nil pointer. Structs
// (diam.AVP, time.Time, nested structs) are never empty.
func isEmpty(ft FieldT, v FieldV) bool {
	switch ft.Wrap {
	case WPtr:
		return v.Nil
	case WSlice, WSlicePtr:
		return ft.count(v) == 0
	}
	if ft.Kind != KScalar {
		return false
	}
	x := v.Vals[0]
	switch ft.DT {
	case gen.TUnsigned32, gen.TInteger32, gen.TEnumerated:
		return uint32(x.U) == 0
	case gen.TUnsigned64, gen.TInteger64:
		return x.U == 0
	case gen.TFloat32:
		return math.Float32frombits(uint32(x.U)) == 0
	case gen.TFloat64:
		return math.Float64frombits(x.U) == 0
	case gen.TTime:
		return false
	case gen.TAddress:
		if x.Fam != 1 && x.Fam != 2 {
			return false // family-prefixed image, at least two bytes
		}
	}
	return len(x.B) == 0
}

// ---------------------------------------------------------------------------
// the AVPs a caller would build by hand

type oracle struct {
	p   *dict.Parser
	app uint32
	// fromField, when set, collects the expected AVPs that are the ready-made AVPs of AVP-typed fields
	fromField map[*gen.AVP]bool
}

func (o *oracle) entry(ft FieldT) (*dict.AVP, error) {
	d, err := o.p.FindAVP(o.app, ft.AVP)
	if err != nil || d == nil {
		return nil, fmt.Errorf("the dictionary does not define %q for application %d: %v", ft.AVP, o.app, err)
	}
	if d.Data.TypeName != ft.DT {
		return nil, fmt.Errorf("the case says %q is %s but the dictionary says %s", ft.AVP, ft.DT, d.Data.TypeName)
	}
	return d, nil
}

// dictFlags: M iff the dictionary's Must contains "M", V iff vendor-specific.
func dictFlags(d *dict.AVP) uint8 {
	var f uint8
	if strings.Contains(d.Must, "M") {
		f |= 0x40
	}
	if d.VendorID != 0 {
		f |= 0x80
	}
	return f
}

func (o *oracle) expect(fields []FieldT, vals []FieldV) ([]*gen.AVP, error) {
	var out []*gen.AVP
	for i, ft := range fields {
		v := vals[i]
		if ft.Kind == KEmbed { // promoted fields: same level, field order
			sub, err := o.expect(ft.Sub, v.Elems[0])
			if err != nil {
				return nil, err
			}
			out = append(out, sub...)
			continue
		}
		d, err := o.entry(ft)
		if err != nil {
			return nil, err
		}
		if ft.omitempty() && isEmpty(ft, v) {
			continue
		}
		for k := 0; k < ft.count(v); k++ { // nil pointer / empty slice: no element, no AVP
			switch ft.Kind {
			case KScalar:
				out = append(out, &gen.AVP{Code: d.Code, Flags: dictFlags(d), Vendor: d.VendorID, V: v.Vals[k]})
			case KAVP:
				out = append(out, v.AVPs[k])
				if o.fromField != nil {
					o.fromField[v.AVPs[k]] = true
				}
			case KStruct:
				sub, err := o.expect(ft.Sub, v.Elems[k])
				if err != nil {
					return nil, err
				}
				out = append(out, &gen.AVP{Code: d.Code, Flags: dictFlags(d), Vendor: d.VendorID, V: gen.Val{T: gen.TGrouped}, Children: sub})
			}
		}
	}
	return out, nil
}

// ---------------------------------------------------------------------------
// comparison of an unmarshalled value with the original

func cmpScalar(got reflect.Value, ft FieldT, v gen.Val) string {
	if ft.Go == "dt" {
		d, ok := got.Interface().(datatype.Type)
		if !ok {
			return fmt.Sprintf("field of type %s does not hold a datatype value", got.Type())
		}
		if ft.DT == gen.TAddress && (v.Fam == 1 || v.Fam == 2) || ft.DT == gen.TIPv4 || ft.DT == gen.TIPv6 {
			if !net.IP(got.Bytes()).Equal(net.IP(v.B)) { // net.IP.Equal: 4- and 16-byte forms of one address are equal
				return fmt.Sprintf("want %s, got % x", v.Show(), got.Bytes())
			}
			return ""
		}
		return v.EqualDatatype(d)
	}
	bad := func(g interface{}) string { return fmt.Sprintf("want %s, got %s %#v", v.Show(), got.Type(), g) }
	switch kindOf(ft.Go) {
	case "uint32", "uint64", "uint":
		w := v.U
		if ft.DT == gen.TUnsigned32 {
			w = uint64(uint32(v.U))
		}
		if got.Uint() != w {
			return bad(got.Uint())
		}
	case "int32", "int64", "int":
		var w int64
		switch ft.DT {
		case gen.TUnsigned32:
			w = int64(uint32(v.U))
		case gen.TInteger32, gen.TEnumerated:
			w = int64(int32(uint32(v.U)))
		default:
			w = int64(v.U)
		}
		if got.Int() != w {
			return bad(got.Int())
		}
	case "float32":
		if g := got.Interface().(float32); math.Float32bits(g) != uint32(v.U) {
			return fmt.Sprintf("want %s, got float32 bits %#x", v.Show(), math.Float32bits(g))
		}
	case "float64":
		g := got.Float()
		if ft.DT == gen.TFloat32 {
			if math.Float32bits(float32(g)) != uint32(v.U) || (!math.IsNaN(g) && float64(float32(g)) != g) {
				return fmt.Sprintf("want %s, got float64 bits %#x", v.Show(), math.Float64bits(g))
			}
		} else if math.Float64bits(g) != v.U {
			return fmt.Sprintf("want %s, got float64 bits %#x", v.Show(), math.Float64bits(g))
		}
	case "string":
		if got.String() != string(v.B) {
			return bad(clipS(got.String()))
		}
	case "bytes", "ip":
		if isIPLike(ft.DT) {
			if !net.IP(got.Bytes()).Equal(net.IP(v.B)) {
				return bad(got.Bytes())
			}
		} else if !bytes.Equal(got.Bytes(), v.B) {
			return bad(clipB(got.Bytes()))
		}
	case "time":
		if g := got.Interface().(time.Time); g.Unix() != v.I { // to the second
			return bad(g.Unix())
		}
	}
	return ""
}

func clipS(s string) string {
	if len(s) > 60 {
		return s[:60] + "..."
	}
	return s
}

func clipB(b []byte) []byte {
	if len(b) > 60 {
		return b[:60]
	}
	return b
}

func cmpStruct(got reflect.Value, fields []FieldT, vals []FieldV, path string) string {
	for i, ft := range fields {
		name := got.Type().Field(i).Name
		if d := cmpField(got.Field(i), ft, vals[i], path+"."+name); d != "" {
			return d
		}
	}
	return ""
}

func cmpField(got reflect.Value, ft FieldT, v FieldV, path string) string {
	if ft.Kind == KEmbed {
		return cmpStruct(got, ft.Sub, v.Elems[0], path)
	}
	where := fmt.Sprintf("%s (%s `%s`)", path, got.Type(), tagFor(ft, 0))
	if ft.omitempty() && isEmpty(ft, v) {
		// The field was omitted: the fresh struct keeps its zero value,
		// which is the original's value (nil and empty slices are equal;
		// an omitted -0.0 reads back as +0.0: both are the zero number).
		if got.IsZero() || ((got.Kind() == reflect.Slice || got.Kind() == reflect.String) && got.Len() == 0) {
			return ""
		}
		return fmt.Sprintf("%s: empty and omitted, but the fresh struct holds %v after Unmarshal", where, got.Interface())
	}
	cmp := func(g reflect.Value, k int) string {
		switch ft.Kind {
		case KScalar:
			return cmpScalar(g, ft, v.Vals[k])
		case KAVP:
			a := g.Addr().Interface().(*diam.AVP)
			return compareAVPs([]*gen.AVP{v.AVPs[k]}, []*diam.AVP{a}, "")
		}
		return cmpStruct(g, ft.Sub, v.Elems[k], fmt.Sprintf("%s[%d]", path, k))
	}
	n := ft.count(v)
	switch ft.Wrap {
	case WNone:
		if d := cmp(got, 0); d != "" {
			return where + ": " + d
		}
	case WPtr:
		if v.Nil {
			if !got.IsNil() {
				return fmt.Sprintf("%s: nil pointer in the original, non-nil after Unmarshal", where)
			}
			return ""
		}
		if got.IsNil() {
			return fmt.Sprintf("%s: non-nil pointer in the original, nil after Unmarshal", where)
		}
		if d := cmp(got.Elem(), 0); d != "" {
			return where + ": " + d
		}
	case WSlice, WSlicePtr:
		if got.Len() != n { // nil and empty are the same
			return fmt.Sprintf("%s: %d elements in the original, %d after Unmarshal", where, n, got.Len())
		}
		for k := 0; k < n; k++ {
			e := got.Index(k)
			if ft.Wrap == WSlicePtr {
				if e.IsNil() {
					return fmt.Sprintf("%s: element %d is nil after Unmarshal", where, k)
				}
				e = e.Elem()
			}
			if d := cmp(e, k); d != "" {
				return fmt.Sprintf("%s: element %d: %s", where, k, d)
			}
		}
	}
	return ""
}
