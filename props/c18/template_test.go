package c18

// "Template" AVPs in AVP-typed fields. The package documentation recommends diam.AVP / *diam.AVP /
// []*diam.AVP fields for AVPs that are re-used (taken from a request, kept, put into the answer). Such
// an AVP object has a history when it reaches Marshal: it was created with NewAVP (which measures
// it), perhaps measured, printed, serialised or marshalled + serialised once already, perhaps it
// came out of the decoder - and THEN it was changed through its exported fields (a member appended
// with append on GroupedAVP.AVP, a member removed, the Data of a member replaced by a value of
// another length, a member object swapped). The property speaks about the field values: what is
// marshalled is the AVP as it is at Marshal time, whatever was computed from it earlier.
//
// A case carries the history as data (Warm, Edits); the runner applies the edits to the library's
// objects through the exported fields only, and in lockstep to a private copy of the abstract
// value, which is then the oracle's input for every stage of the ordinary check.

import (
	"bytes"
	"fmt"
	"reflect"
	"testing"

	"github.com/fiorix/go-diameter/v4/diam"
	"github.com/fiorix/go-diameter/v4/diam/dict"
	"pgregory.net/rapid"

	"verif/internal/ev"
	"verif/internal/gen"
	"verif/internal/refcodec"
)

// What happened to the AVP objects of the AVP-typed fields between their creation (NewAVP on the
// finished member list) and the edits.
const (
	warmNone      = ""              // nothing: measured once, by NewAVP
	warmLen       = "len"           // Len() was called
	warmString    = "string"        // printed
	warmSerialize = "serialize"     // serialised on its own
	warmDecoded   = "decoded"       // the object comes out of DecodeAVP (a received AVP), and was printed
	warmMessage   = "first-message" // the struct was marshalled into another message, which was serialised
)

var warmKinds = []string{warmNone, warmLen, warmString, warmSerialize, warmDecoded, warmMessage}

// Edit operations, all through exported fields (g is the target's *GroupedAVP, a the target AVP).
const (
	opAppend   = "append"   // g.AVP = append(g.AVP, new)
	opInsert   = "insert"   // new becomes g.AVP[i]
	opRemove   = "remove"   // g.AVP[i] is cut out
	opSetElem  = "set-elem" // g.AVP[i] = new
	opTruncate = "truncate" // g.AVP = g.AVP[:i]
	opClear    = "clear"    // g.AVP = nil
	opSetData  = "set-data" // a.Data = another value of the AVP's type (for a group: a GroupedAVP literal with new members)
)

// TplEdit is one change. Target counts the AVPs held by AVP-typed fields in document order (a
// field's AVP, then its members, depth first), modulo their number at the time of the edit.
type TplEdit struct {
	Target int      `json:"target"`
	Op     string   `json:"op"`
	Index  int      `json:"index,omitempty"`
	New    *gen.AVP `json:"new,omitempty"` // the new member; set-data: New.V is the value / New.Children are the members
}

// ---------------------------------------------------------------------------
// deep copies (the case itself is never modified)

func cloneAVP(a *gen.AVP) *gen.AVP {
	if a == nil {
		return nil
	}
	c := *a
	c.Children = nil
	for _, ch := range a.Children {
		c.Children = append(c.Children, cloneAVP(ch))
	}
	return &c
}

func cloneVals(vs []FieldV) []FieldV {
	if vs == nil {
		return nil
	}
	out := make([]FieldV, len(vs))
	for i, v := range vs {
		c := FieldV{Nil: v.Nil}
		if v.Vals != nil {
			c.Vals = append([]gen.Val{}, v.Vals...)
		}
		if v.AVPs != nil {
			c.AVPs = make([]*gen.AVP, len(v.AVPs))
			for k, a := range v.AVPs {
				c.AVPs[k] = cloneAVP(a)
			}
		}
		if v.Elems != nil {
			c.Elems = make([][]FieldV, len(v.Elems))
			for k, e := range v.Elems {
				c.Elems[k] = cloneVals(e)
			}
		}
		out[i] = c
	}
	return out
}

// ---------------------------------------------------------------------------
// the AVP objects of the AVP-typed fields

// tplNode pairs an abstract AVP with the library object that stands for it (nil while generating).
type tplNode struct {
	abs  *gen.AVP
	conc *diam.AVP
}

// tplRoots lists the AVPs held by AVP-typed fields, in field order, through nested and embedded
// structs. sv is the struct value built by fillStruct (or the zero Value: abstract side only).
func tplRoots(sv reflect.Value, fields []FieldT, vals []FieldV, out *[]tplNode) {
	for i, ft := range fields {
		v := vals[i]
		var f reflect.Value
		if sv.IsValid() {
			f = sv.Field(i)
		}
		if ft.Kind == KEmbed {
			tplRoots(f, ft.Sub, v.Elems[0], out)
			continue
		}
		if ft.Kind != KAVP && ft.Kind != KStruct {
			continue
		}
		for k := 0; k < ft.count(v); k++ {
			var e reflect.Value // the k-th element, addressable
			if f.IsValid() {
				switch ft.Wrap {
				case WNone:
					e = f
				case WPtr:
					e = f.Elem()
				case WSlice:
					e = f.Index(k)
				case WSlicePtr:
					e = f.Index(k).Elem()
				}
			}
			if ft.Kind == KStruct {
				tplRoots(e, ft.Sub, v.Elems[k], out)
				continue
			}
			n := tplNode{abs: v.AVPs[k]}
			if e.IsValid() {
				n.conc = e.Addr().Interface().(*diam.AVP)
			}
			*out = append(*out, n)
		}
	}
}

// tplNodes expands the roots: every AVP of the trees, pre-order.
func tplNodes(roots []tplNode) []tplNode {
	var out []tplNode
	var walk func(n tplNode)
	walk = func(n tplNode) {
		out = append(out, n)
		if n.abs.V.T != gen.TGrouped {
			return
		}
		var members []*diam.AVP
		if n.conc != nil {
			g, ok := n.conc.Data.(*diam.GroupedAVP)
			if !ok || len(g.AVP) != len(n.abs.Children) {
				return // (cannot happen: both sides are edited in lockstep)
			}
			members = g.AVP
		}
		for i, c := range n.abs.Children {
			m := tplNode{abs: c}
			if members != nil {
				m.conc = members[i]
			}
			walk(m)
		}
	}
	for _, r := range roots {
		walk(r)
	}
	return out
}

// applyEdit performs one edit on the abstract tree and, when the node has a library object, the same
// edit on that object through its exported fields. It reports whether the edit applied (an edit
// that does not fit its target - possible after a case was reduced - is skipped on both sides).
func applyEdit(n tplNode, e TplEdit) bool {
	abs := n.abs
	isGroup := abs.V.T == gen.TGrouped
	var g *diam.GroupedAVP
	if n.conc != nil && isGroup {
		var ok bool
		if g, ok = n.conc.Data.(*diam.GroupedAVP); !ok {
			return false
		}
	}
	idx := e.Index
	if idx < 0 {
		idx = -idx
	}
	op := e.Op
	if isGroup && len(abs.Children) == 0 && (op == opRemove || op == opSetElem) {
		op = opAppend
	}
	needNew := op == opAppend || op == opInsert || op == opSetElem || op == opSetData
	if needNew && e.New == nil {
		return false
	}
	if op != opSetData && !isGroup {
		return false
	}
	switch op {
	case opAppend:
		abs.Children = append(abs.Children, cloneAVP(e.New))
		if g != nil {
			g.AVP = append(g.AVP, e.New.ToDiamAVP())
		}
	case opInsert:
		i := idx % (len(abs.Children) + 1)
		abs.Children = append(abs.Children[:i:i], append([]*gen.AVP{cloneAVP(e.New)}, abs.Children[i:]...)...)
		if g != nil {
			g.AVP = append(g.AVP[:i:i], append([]*diam.AVP{e.New.ToDiamAVP()}, g.AVP[i:]...)...)
		}
	case opRemove:
		i := idx % len(abs.Children)
		abs.Children = append(abs.Children[:i:i], abs.Children[i+1:]...)
		if g != nil {
			g.AVP = append(g.AVP[:i:i], g.AVP[i+1:]...)
		}
	case opSetElem:
		i := idx % len(abs.Children)
		abs.Children[i] = cloneAVP(e.New)
		if g != nil {
			g.AVP[i] = e.New.ToDiamAVP()
		}
	case opTruncate:
		i := idx % (len(abs.Children) + 1)
		abs.Children = abs.Children[:i:i]
		if g != nil {
			g.AVP = g.AVP[:i]
		}
	case opClear:
		abs.Children = nil
		if g != nil {
			g.AVP = nil
		}
	case opSetData:
		if e.New.V.T != abs.V.T {
			return false
		}
		if !isGroup {
			abs.V = e.New.V
			if n.conc != nil {
				n.conc.Data = e.New.V.ToDatatype()
			}
			return true
		}
		abs.Children = nil
		lit := &diam.GroupedAVP{}
		for _, c := range e.New.Children {
			abs.Children = append(abs.Children, cloneAVP(c))
			lit.AVP = append(lit.AVP, c.ToDiamAVP())
		}
		if n.conc != nil {
			n.conc.Data = lit
		}
	default:
		return false
	}
	return true
}

// applyEdits runs the edit list; roots yields the current roots (abstract + library objects).
func applyEdits(roots []tplNode, edits []TplEdit) {
	for _, e := range edits {
		nodes := tplNodes(roots)
		if len(nodes) == 0 {
			return
		}
		t := e.Target
		if t < 0 {
			t = -t
		}
		applyEdit(nodes[t%len(nodes)], e)
	}
}

// warmUp gives the AVP objects of the AVP-typed fields their earlier use.
func warmUp(c Case, p *dict.Parser, typ reflect.Type, orig reflect.Value, roots []tplNode) {
	switch c.Warm {
	case warmLen:
		for _, n := range tplNodes(roots) {
			a := n.conc
			protect(func() error { _ = a.Len(); return nil })
		}
	case warmString:
		for _, r := range roots {
			a := r.conc
			protect(func() error { _ = a.String(); return nil })
		}
	case warmSerialize:
		for _, r := range roots {
			a := r.conc
			protect(func() error { _, err := a.Serialize(); return err })
		}
	case warmDecoded:
		for _, r := range roots {
			a := r.conc
			protect(func() error {
				b, err := a.Serialize()
				if err != nil {
					return err
				}
				d, err := diam.DecodeAVP(b, c.App, p)
				if err != nil {
					return err
				}
				// only a decoded object that is the AVP (what C01 demands of the decoder) takes its place
				if compareAVPs([]*gen.AVP{r.abs}, []*diam.AVP{d}, "") == "" {
					*a = *d
					_ = a.String()
				}
				return nil
			})
		}
	case warmMessage:
		protect(func() error {
			m0 := diam.NewMessage(c.Cmd, c.Flags, c.App, 5, 6, p)
			if err := m0.Marshal(orig.Interface()); err != nil {
				return err
			}
			_, err := m0.Serialize()
			return err
		})
	}
}

func knownWarm(w string) bool {
	for _, k := range warmKinds {
		if k == w {
			return true
		}
	}
	return false
}

// avpFieldImages: every AVP that an AVP-typed field contributed to the message serialises to the RFC 6733
// image of the hand-built AVP (reference encoder on the abstract tree as it is at Marshal time).
// want and got have the same shape (compareAVPs passed).
func avpFieldImages(want []*gen.AVP, got []*diam.AVP, fromField map[*gen.AVP]bool, path string) string {
	for i, w := range want {
		if i >= len(got) || got[i] == nil {
			return ""
		}
		g := got[i]
		p := fmt.Sprintf("%s/%d(code %d)", path, i, w.Code)
		if fromField[w] {
			ambiguous := false
			gen.Walk([]*gen.AVP{w}, 1, func(a *gen.AVP, _ int) {
				ambiguous = ambiguous || (a.V.T == gen.TAddress && a.V.AddrAmbiguous())
			})
			if ambiguous {
				continue // the Address representation finding recorded for C01 / C02
			}
			var b []byte
			err, pan := protect(func() (e error) { b, e = g.Serialize(); return })
			if pan != "" || err != nil {
				return fmt.Sprintf("%s: the AVP the field put into the message does not serialise: %v %s", p, err, pan)
			}
			if ref := refcodec.EncodeAVP(w.Node()); !bytes.Equal(b, ref) {
				return fmt.Sprintf("%s: the AVP the field put into the message serialises to %d bytes % x, the hand-built AVP is %d bytes % x",
					p, len(b), clipB(b), len(ref), clipB(ref))
			}
			continue
		}
		if w.V.T == gen.TGrouped {
			if gg, ok := g.Data.(*diam.GroupedAVP); ok {
				if d := avpFieldImages(w.Children, gg.AVP, fromField, p); d != "" {
					return d
				}
			}
		}
	}
	return ""
}

// ---------------------------------------------------------------------------
// generator

// handTree is handAVP with groups inside groups (to depth 3 below the field's AVP).
func (g *genCtx) handTree(ft FieldT, depth int) *gen.AVP {
	if ft.DT != gen.TGrouped {
		return g.handAVP(ft)
	}
	d, err := g.o.entry(ft)
	if err != nil {
		g.t.Fatalf("harness: %v", err)
	}
	a := &gen.AVP{Code: d.Code, Flags: dictFlags(d), Vendor: d.VendorID, V: gen.Val{T: gen.TGrouped}}
	n := rapid.IntRange(0, 3).Draw(g.t, "n-members")
	for i := 0; i < n; i++ {
		types := g.pl.scalarTypes
		if depth < 3 && rapid.IntRange(0, 3).Draw(g.t, "member-group") == 0 {
			types = []string{gen.TGrouped}
		}
		c, ok := g.pl.pick(g.t, types, map[uint32]bool{})
		if !ok {
			break
		}
		a.Children = append(a.Children, g.handTree(FieldT{AVP: c.Name, DT: c.DT}, depth+1))
	}
	return a
}

// newMember draws an AVP to put into a group: mostly a short or long string (the lengths of the
// members are what an earlier measurement remembers), now and then a group.
func (g *genCtx) newMember() *gen.AVP {
	types := g.pl.scalarTypes
	if rapid.IntRange(0, 4).Draw(g.t, "new-group") == 0 && len(g.pl.byType[gen.TGrouped]) > 0 {
		types = []string{gen.TGrouped}
	}
	c, ok := g.pl.pick(g.t, types, map[uint32]bool{})
	if !ok {
		return nil
	}
	return g.handTree(FieldT{AVP: c.Name, DT: c.DT}, 2)
}

func (g *genCtx) edit(nodes []tplNode) TplEdit {
	t := g.t
	var groups []int
	for i, n := range nodes {
		if n.abs.V.T == gen.TGrouped {
			groups = append(groups, i)
		}
	}
	e := TplEdit{Target: rapid.IntRange(0, len(nodes)-1).Draw(t, "target")}
	if len(groups) > 0 && rapid.IntRange(0, 3).Draw(t, "target-group") > 0 {
		e.Target = rapid.SampledFrom(groups).Draw(t, "group")
	}
	n := nodes[e.Target]
	if n.abs.V.T != gen.TGrouped {
		e.Op = opSetData
		e.New = &gen.AVP{Code: n.abs.Code, Flags: n.abs.Flags, Vendor: n.abs.Vendor, V: g.scalar(FieldT{DT: n.abs.V.T, Go: "dt"})}
		return e
	}
	e.Op = rapid.SampledFrom([]string{opAppend, opAppend, opAppend, opInsert, opRemove, opRemove, opSetElem, opTruncate, opClear, opSetData}).Draw(t, "op")
	e.Index = rapid.IntRange(0, 4).Draw(t, "index")
	switch e.Op {
	case opAppend, opInsert, opSetElem:
		e.New = g.newMember()
	case opRemove:
		e.New = g.newMember() // an empty group gets a member instead
	case opSetData:
		e.New = &gen.AVP{Code: n.abs.Code, Flags: n.abs.Flags, Vendor: n.abs.Vendor, V: gen.Val{T: gen.TGrouped}}
		for i, k := 0, rapid.IntRange(0, 3).Draw(t, "n-new-members"); i < k; i++ {
			if m := g.newMember(); m != nil {
				e.New.Children = append(e.New.Children, m)
			}
		}
	}
	return e
}

// genTemplateCase: a struct with scalar fields before and after one or two AVP-typed fields tagged
// with grouped AVPs (now and then inside a struct for a grouped AVP), and a history for them.
func genTemplateCase(t *rapid.T) Case {
	c := Case{Dict: pickDict(t)}
	p, cat, err := c.Dict.Load()
	if err != nil {
		t.Fatalf("harness: %v", err)
	}
	c.Flags, c.Cmd, c.App, _, _ = cat.Header(t)
	g := &genCtx{t: t, pl: poolFor(c.Dict, p, cat, c.App), o: &oracle{p: p, app: c.App}}
	used := map[uint32]bool{}
	tplField := func(used map[uint32]bool) (FieldT, bool) {
		types := []string{gen.TGrouped}
		if rapid.IntRange(0, 5).Draw(t, "scalar-template") == 0 {
			types = g.pl.scalarTypes
		}
		cd, ok := g.pl.pick(t, types, used)
		if !ok {
			return FieldT{}, false
		}
		return FieldT{AVP: cd.Name, DT: cd.DT, Kind: KAVP, Tag: pickTag(t),
			Wrap: rapid.SampledFrom([]string{WNone, WPtr, WPtr, WSlicePtr, WSlicePtr, WSlice}).Draw(t, "wrap")}, true
	}
	for i, n := 0, rapid.IntRange(0, 2).Draw(t, "before"); i < n; i++ {
		if ft, ok := g.field(2, used); ok {
			c.Type = append(c.Type, ft)
		}
	}
	for i, n := 0, rapid.IntRange(1, 2).Draw(t, "templates"); i < n; i++ {
		if len(g.pl.byType[gen.TGrouped]) > 0 && rapid.IntRange(0, 3).Draw(t, "in-struct") == 0 {
			// the AVP-typed field is a member of a struct for a grouped AVP
			if cd, ok := g.pl.pick(t, []string{gen.TGrouped}, used); ok {
				inner := map[uint32]bool{}
				st := FieldT{AVP: cd.Name, DT: cd.DT, Kind: KStruct, Tag: pickTag(t),
					Wrap: rapid.SampledFrom([]string{WNone, WPtr, WSlice, WSlicePtr}).Draw(t, "struct-wrap")}
				if ft, ok := g.field(3, inner); ok {
					st.Sub = append(st.Sub, ft)
				}
				if ft, ok := tplField(inner); ok {
					st.Sub = append(st.Sub, ft)
				}
				if ft, ok := g.field(3, inner); ok {
					st.Sub = append(st.Sub, ft)
				}
				c.Type = append(c.Type, st)
				continue
			}
		}
		if ft, ok := tplField(used); ok {
			c.Type = append(c.Type, ft)
		}
	}
	for i, n := 0, rapid.IntRange(1, 2).Draw(t, "after"); i < n; i++ {
		if ft, ok := g.field(2, used); ok {
			c.Type = append(c.Type, ft)
		}
	}
	if len(c.Type) == 0 {
		c.Type = g.fields(1, 1, 4, used)
	}
	c.Val = g.templateValues(c.Type)
	c.Warm = rapid.SampledFrom(warmKinds).Draw(t, "warm")
	// the edits are drawn against the abstract value as the earlier edits leave it
	sim := cloneVals(c.Val)
	var roots []tplNode
	tplRoots(reflect.Value{}, c.Type, sim, &roots)
	if len(roots) > 0 {
		for i, n := 0, rapid.IntRange(1, 4).Draw(t, "edits"); i < n; i++ {
			nodes := tplNodes(roots)
			e := g.edit(nodes)
			applyEdit(nodes[e.Target], e)
			c.Edits = append(c.Edits, e)
		}
	}
	c.SpareCap = rapid.IntRange(0, 3).Draw(t, "spare-cap") == 0
	c.Second = rapid.IntRange(0, 3).Draw(t, "second") == 0
	c.Prefill = rapid.SampledFrom([]string{"", "", "", "", "", preAVPs, preRemarshal, preOther}).Draw(t, "prefill")
	return c
}

// templateValues is values with AVP-typed fields that hold something: a pointer is set, a slice has
// one to three elements, groups nest.
func (g *genCtx) templateValues(fields []FieldT) []FieldV {
	out := make([]FieldV, len(fields))
	for i, ft := range fields {
		switch {
		case ft.Kind == KAVP:
			n := 1
			if ft.Wrap == WSlice || ft.Wrap == WSlicePtr {
				n = rapid.IntRange(1, 3).Draw(g.t, "template-elems")
			}
			for k := 0; k < n; k++ {
				out[i].AVPs = append(out[i].AVPs, g.handTree(ft, 1))
			}
		case ft.Kind == KEmbed:
			out[i] = FieldV{Elems: [][]FieldV{g.templateValues(ft.Sub)}}
		case ft.Kind == KStruct:
			n := 1
			if ft.Wrap == WSlice || ft.Wrap == WSlicePtr {
				n = rapid.IntRange(1, 2).Draw(g.t, "struct-elems")
			}
			for k := 0; k < n; k++ {
				out[i].Elems = append(out[i].Elems, g.templateValues(ft.Sub))
			}
		default:
			out[i] = g.value(ft)
		}
	}
	return out
}

const templateRule = "the struct check (same runner, same oracle) on cases built around AVP objects with a history: 0..2 generated fields, then 1..2 AVP-typed fields (diam.AVP / *diam.AVP / []*diam.AVP / []diam.AVP, 5 in 6 tagged with a grouped AVP, 1 in 4 as a member of a struct for a grouped AVP between two other members), then 1..2 generated fields; the AVPs are built by hand with NewAVP from the dictionary (groups in groups to depth 3, 0..3 members), then used once {not at all | Len | String | Serialize | replaced by the object DecodeAVP returns for their image, and printed | the struct marshalled into another message that was serialised}, then changed by 1..4 edits through the exported fields only - on a group: append / insert / remove / replace a member, truncate, clear, Data replaced by a GroupedAVP literal with other members; on a non-grouped AVP: Data replaced by another value of its type (string lengths differ) - applied after the message was prepared (fresh / used) and before the Marshal under test. " +
	"Demanded: everything the struct check demands, for the value AS IT IS AT MARSHAL TIME (Message.AVP equals the hand-built list, MessageLength, direct and wire round trip reproduce the fields, a later Marshal elsewhere changes nothing), and every AVP an AVP-typed field contributed serialises to the reference encoder's image of the hand-built tree. non-trivial = at least one edit applies; distinct by hash of the JSON form"

var templateProp = ev.Register(&ev.Prop[Case]{
	ID: "C18", Name: "template-avp", Rule: templateRule,
	Gen: genTemplateCase, Run: runCase, Sample: sample,
	Classify: func(c Case) (bool, []string) {
		_, cl := classify(c)
		return len(c.Edits) > 0 && validate(c.Type, c.Val, 0) == nil, cl
	},
})

func TestC18TemplateAVP(t *testing.T) { templateProp.Check(t, 1500, 60000) }

// The two histories of the round-14 change that was missed, as fixed cases over dict.Default:
// a member appended to / a member's value replaced in a group AVP that NewAVP measured.
func TestC18TemplateCanonical(t *testing.T) {
	str := func(code uint32, s string) *gen.AVP {
		return &gen.AVP{Code: code, Flags: 0x40, V: gen.Val{T: gen.TUTF8String, B: []byte(s)}}
	}
	u32 := func(code uint32, x uint64) *gen.AVP {
		return &gen.AVP{Code: code, Flags: 0x40, V: gen.Val{T: gen.TUnsigned32, U: x}}
	}
	vsa := func() *gen.AVP {
		return &gen.AVP{Code: 260, Flags: 0x40, V: gen.Val{T: gen.TGrouped}, Children: []*gen.AVP{u32(266, 10415), u32(258, 16777251)}}
	}
	typ := func(wrap string) []FieldT {
		return []FieldT{
			{AVP: "Session-Id", DT: gen.TUTF8String, Kind: KScalar, Go: "string", Tag: TagPlain},
			{AVP: "Vendor-Specific-Application-Id", DT: gen.TGrouped, Kind: KAVP, Wrap: wrap, Tag: TagPlain},
			{AVP: "Origin-State-Id", DT: gen.TUnsigned32, Kind: KScalar, Go: "uint32", Tag: TagPlain},
		}
	}
	val := func() []FieldV {
		return []FieldV{{Vals: []gen.Val{{T: gen.TUTF8String, B: []byte("s;1")}}}, {AVPs: []*gen.AVP{vsa()}}, {Vals: []gen.Val{{T: gen.TUnsigned32, U: 7}}}}
	}
	for _, wrap := range []string{WNone, WPtr, WSlicePtr, WSlice} {
		for _, warm := range []string{warmNone, warmMessage, warmDecoded} {
			for name, edits := range map[string][]TplEdit{
				"member-appended":  {{Target: 0, Op: opAppend, New: u32(258, 4)}},
				"member-removed":   {{Target: 0, Op: opRemove, Index: 0}},
				"member-data-set":  {{Target: 0, Op: opAppend, New: str(263, "a")}, {Target: 3, Op: opSetData, New: str(263, "a-much-longer-session-id")}},
				"group-data-set":   {{Target: 0, Op: opSetData, New: &gen.AVP{Code: 260, Flags: 0x40, V: gen.Val{T: gen.TGrouped}, Children: []*gen.AVP{u32(266, 1), u32(258, 2), u32(259, 3)}}}},
				"appended-to-tail": {{Target: 0, Op: opAppend, New: vsa()}, {Target: 3, Op: opAppend, New: u32(259, 9)}},
			} {
				c := Case{Dict: gen.DictChoice{Name: "default"}, Flags: 0x80, Cmd: 257, App: 0, Type: typ(wrap), Val: val(), Warm: warm, Edits: edits}
				t.Run(fmt.Sprintf("%s/%s/%s", name, map[string]string{WNone: "AVP", WPtr: "ptr", WSlicePtr: "slice-of-ptr", WSlice: "slice"}[wrap], "warm-"+warm), func(t *testing.T) {
					templateProp.One(t, c)
				})
			}
		}
	}
}
