package c18

// A small family of hand-declared struct types, driven by generated values.
// reflect.StructOf expresses every field shape of the property, but only with
// unnamed struct types; the shapes the maintainers test use NAMED types
// (embedded Common, named nested VSA) and an embedded non-struct type with a
// tag (net.IP), which StructOf cannot create unless it is the first field.
// The specs below mirror the declarations field by field (checked by
// sameLayout), so the same oracle applies.

import (
	"fmt"
	"net"
	"reflect"
	"time"

	"github.com/fiorix/go-diameter/v4/diam"
	"github.com/fiorix/go-diameter/v4/diam/datatype"
	"pgregory.net/rapid"

	"verif/internal/ev"
	"verif/internal/gen"
)

type DeclCommon struct {
	OriginHost  string                    `avp:"Origin-Host"`
	OriginRealm datatype.DiameterIdentity `avp:"Origin-Realm"`
}

type DeclVSA struct {
	AuthAppID uint32  `avp:"Auth-Application-Id"`
	VendorID  *uint32 `avp:"Vendor-Id,omitempty"`
}

type DeclProxy struct {
	Host  string `json:"host" avp:"Proxy-Host"`
	State []byte `avp:"Proxy-State,omitempty" json:"state"`
}

// DeclA: named embedded struct, named nested struct, slice of pointers to a
// named struct, inline anonymous struct type, *diam.AVP, time.Time.
type DeclA struct {
	DeclCommon
	HostIP  net.IP       `avp:"Host-IP-Address"`
	VSA     DeclVSA      `avp:"Vendor-Specific-Application-Id"`
	Proxies []*DeclProxy `avp:"Proxy-Info"`
	Failed  struct {
		Code    int    `avp:"Result-Code"`
		Message string `avp:"Error-Message,omitempty"`
	} `avp:"Failed-AVP"`
	State *diam.AVP `avp:"Origin-State-Id"`
	Stamp time.Time `avp:"Event-Timestamp"`
}

// DeclB: the maintainers' CEREmb shape (embedded net.IP carrying a tag, not
// in first position), an embedded struct carrying a tag (= grouped AVP), and
// pointer-to-named-struct.
type DeclB struct {
	DeclCommon
	net.IP  `avp:"Host-IP-Address"`
	DeclVSA `avp:"Vendor-Specific-Application-Id"`
	Vendors []uint32   `avp:"Supported-Vendor-Id"`
	Proxy   *DeclProxy `avp:"Proxy-Info,omitempty"`
	Apps    []int      `json:"apps" avp:"Auth-Application-Id,omitempty"`
}

// DeclC: an embedded struct that itself embeds a struct.
type DeclInner struct {
	DeclCommon
	Session datatype.UTF8String `avp:"Session-Id"`
}

type DeclC struct {
	DeclInner
	Result  datatype.Unsigned32 `avp:"Result-Code"`
	Vendors []*diam.AVP         `avp:"Supported-Vendor-Id"`
}

// DeclD: embedded structs whose TYPES are unexported (their tagged fields are exported and
// reachable all the same), at top level and inside a group struct.
type declOrigin struct {
	OriginHost  string                    `avp:"Origin-Host"`
	OriginRealm datatype.DiameterIdentity `avp:"Origin-Realm"`
}

type declIDs struct {
	AuthAppID uint32  `avp:"Auth-Application-Id"`
	VendorID  *uint32 `avp:"Vendor-Id,omitempty"`
}

type DeclGroupD struct {
	declIDs
}

type DeclD struct {
	declOrigin
	VSA    DeclGroupD `avp:"Vendor-Specific-Application-Id"`
	Result uint32     `avp:"Result-Code"`
}

func sc(name, dt, goT, wrap, tag string) FieldT {
	return FieldT{AVP: name, DT: dt, Kind: KScalar, Go: goT, Wrap: wrap, Tag: tag}
}

var (
	specCommon = []FieldT{
		sc("Origin-Host", gen.TDiameterIdentity, "string", WNone, TagPlain),
		sc("Origin-Realm", gen.TDiameterIdentity, "dt", WNone, TagPlain),
	}
	specVSA = []FieldT{
		sc("Auth-Application-Id", gen.TUnsigned32, "uint32", WNone, TagPlain),
		sc("Vendor-Id", gen.TUnsigned32, "uint32", WPtr, TagOmit),
	}
	specProxy = []FieldT{
		sc("Proxy-Host", gen.TDiameterIdentity, "string", WNone, TagPre),
		sc("Proxy-State", gen.TOctetString, "bytes", WNone, TagPostOmit),
	}
)

type declType struct {
	typ  reflect.Type
	spec []FieldT
}

var declared = map[string]declType{
	"DeclA": {reflect.TypeOf(DeclA{}), []FieldT{
		{Kind: KEmbed, Sub: specCommon},
		sc("Host-IP-Address", gen.TAddress, "ip", WNone, TagPlain),
		{AVP: "Vendor-Specific-Application-Id", DT: gen.TGrouped, Kind: KStruct, Tag: TagPlain, Sub: specVSA},
		{AVP: "Proxy-Info", DT: gen.TGrouped, Kind: KStruct, Wrap: WSlicePtr, Tag: TagPlain, Sub: specProxy},
		{AVP: "Failed-AVP", DT: gen.TGrouped, Kind: KStruct, Tag: TagPlain, Sub: []FieldT{
			sc("Result-Code", gen.TUnsigned32, "int", WNone, TagPlain),
			sc("Error-Message", gen.TUTF8String, "string", WNone, TagOmit),
		}},
		{AVP: "Origin-State-Id", DT: gen.TUnsigned32, Kind: KAVP, Wrap: WPtr, Tag: TagPlain},
		sc("Event-Timestamp", gen.TTime, "time", WNone, TagPlain),
	}},
	"DeclB": {reflect.TypeOf(DeclB{}), []FieldT{
		{Kind: KEmbed, Sub: specCommon},
		{AVP: "Host-IP-Address", DT: gen.TAddress, Kind: KScalar, Go: "ip", Tag: TagPlain, Anon: true},
		{AVP: "Vendor-Specific-Application-Id", DT: gen.TGrouped, Kind: KStruct, Tag: TagPlain, Anon: true, Sub: specVSA},
		sc("Supported-Vendor-Id", gen.TUnsigned32, "uint32", WSlice, TagPlain),
		{AVP: "Proxy-Info", DT: gen.TGrouped, Kind: KStruct, Wrap: WPtr, Tag: TagOmit, Sub: specProxy},
		sc("Auth-Application-Id", gen.TUnsigned32, "int", WSlice, TagPreOmit),
	}},
	"DeclD": {reflect.TypeOf(DeclD{}), []FieldT{
		{Kind: KEmbed, Sub: specCommon},
		{AVP: "Vendor-Specific-Application-Id", DT: gen.TGrouped, Kind: KStruct, Tag: TagPlain, Sub: []FieldT{{Kind: KEmbed, Sub: specVSA}}},
		sc("Result-Code", gen.TUnsigned32, "uint32", WNone, TagPlain),
	}},
	"DeclC": {reflect.TypeOf(DeclC{}), []FieldT{
		{Kind: KEmbed, Sub: []FieldT{
			{Kind: KEmbed, Sub: specCommon},
			sc("Session-Id", gen.TUTF8String, "dt", WNone, TagPlain),
		}},
		sc("Result-Code", gen.TUnsigned32, "dt", WNone, TagPlain),
		{AVP: "Supported-Vendor-Id", DT: gen.TUnsigned32, Kind: KAVP, Wrap: WSlicePtr, Tag: TagPlain},
	}},
}

var declNames = []string{"DeclA", "DeclB", "DeclC", "DeclD", "DeclD"}

// sameLayout verifies that the spec mirrors the declared type: same number
// of fields, same field types up to the names of struct types, same avp tag
// value, same embedding.
func sameLayout(t reflect.Type, spec []FieldT, path string) error {
	if t.Kind() != reflect.Struct || t.NumField() != len(spec) {
		return fmt.Errorf("%s: declared type %s does not have the %d fields of the spec", path, t, len(spec))
	}
	for i, ft := range spec {
		f := t.Field(i)
		p := path + "." + f.Name
		if ft.Kind == KEmbed {
			if !f.Anonymous || f.Tag != "" {
				return fmt.Errorf("%s: the spec says embedded and untagged", p)
			}
			if err := sameLayout(f.Type, ft.Sub, p); err != nil {
				return err
			}
			continue
		}
		want := tagFor(ft, 0)
		if f.Tag.Get("avp") != want.Get("avp") || f.Anonymous != ft.Anon {
			return fmt.Errorf("%s: declared tag `%s` / embedded=%v, the spec says `%s` / %v", p, f.Tag, f.Anonymous, want, ft.Anon)
		}
		multi := f.Tag.Get("json") != ""
		if multi != ft.multiKey() {
			return fmt.Errorf("%s: declared tag `%s` and the spec's tag form %q disagree about a second key", p, f.Tag, ft.Tag)
		}
		if multi {
			declFirst := len(f.Tag) > 4 && f.Tag[:4] == "avp:"
			specFirst := ft.Tag == TagPost || ft.Tag == TagPostOmit || ft.Tag == TagPostJOmit
			if declFirst != specFirst {
				return fmt.Errorf("%s: declared tag `%s` and the spec's tag form %q disagree about the key order", p, f.Tag, ft.Tag)
			}
		}
		e := f.Type
		switch ft.Wrap {
		case WPtr:
			if e.Kind() != reflect.Ptr {
				return fmt.Errorf("%s: %s is not a pointer", p, e)
			}
			e = e.Elem()
		case WSlice:
			if e.Kind() != reflect.Slice {
				return fmt.Errorf("%s: %s is not a slice", p, e)
			}
			e = e.Elem()
		case WSlicePtr:
			if e.Kind() != reflect.Slice || e.Elem().Kind() != reflect.Ptr {
				return fmt.Errorf("%s: %s is not a slice of pointers", p, e)
			}
			e = e.Elem().Elem()
		}
		if ft.Kind == KStruct {
			if err := sameLayout(e, ft.Sub, p); err != nil {
				return err
			}
			continue
		}
		if w := elemType(ft); e != w {
			return fmt.Errorf("%s: declared element type %s, the spec says %s", p, e, w)
		}
	}
	return nil
}

func genDeclCase(t *rapid.T) Case {
	c := Case{Dict: gen.DictChoice{Name: "default"}, Flags: 0x80, Cmd: 257, App: 0}
	if rapid.Bool().Draw(t, "answer") {
		c.Flags = 0
	}
	c.Decl = rapid.SampledFrom(declNames).Draw(t, "decl")
	c.Type = declared[c.Decl].spec
	p, cat, err := c.Dict.Load()
	if err != nil {
		t.Fatalf("harness: %v", err)
	}
	g := &genCtx{t: t, pl: poolFor(c.Dict, p, cat, c.App), o: &oracle{p: p, app: c.App}}
	c.Val = g.values(c.Type)
	return c
}

var declProp = ev.Register(&ev.Prop[Case]{
	ID: "C18", Name: "declared",
	Rule: "three hand-declared struct types over dict.Default (named embedded structs, also nested; named nested struct types; inline anonymous struct type; embedded net.IP carrying a tag; embedded struct carrying a tag; *diam.AVP, []*diam.AVP, time.Time) driven by generated values; every case is non-trivial by construction of the types; distinct by hash of the JSON form",
	Gen:  genDeclCase, Run: runCase, Classify: classify, Sample: sample,
})
