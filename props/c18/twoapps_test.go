package c18

import (
	"bytes"
	"fmt"
	"sync"
	"testing"

	"github.com/fiorix/go-diameter/v4/diam"
	"github.com/fiorix/go-diameter/v4/diam/datatype"
	"github.com/fiorix/go-diameter/v4/diam/dict"
	"pgregory.net/rapid"

	"verif/internal/dicts"
	"verif/internal/ev"
)

// "Dictionary-faithful": the AVP a tagged field stands for is the one the MESSAGE's application
// gives that name. One declared Go struct type is used, in one process and in generated order, for
// messages of two applications (and of the base application) of one private dictionary that bind
// the same names to different codes, vendors and flags.

const (
	taAppA = 16779921
	taAppB = 16779922
)

const twoAppsXML = `<?xml version="1.0" encoding="UTF-8"?>
<diameter>
 <application id="0" name="Base">
  <vendor id="777" name="V777"/>
  <command code="302" short="TA" name="Two-Apps"><request><rule avp="TA-Token" required="false"/></request><answer><rule avp="TA-Token" required="false"/></answer></command>
  <avp name="TA-Token" code="9001" must="M"><data type="UTF8String"/></avp>
  <avp name="TA-Count" code="9002" must="M"><data type="Unsigned32"/></avp>
  <avp name="TA-Box" code="9003" must="M"><data type="Grouped"/></avp>
 </application>
 <application id="16779921" name="TA-A">
  <avp name="TA-Token" code="9101" must="M,V" vendor-id="777"><data type="UTF8String"/></avp>
  <avp name="TA-Count" code="9102"><data type="Unsigned32"/></avp>
 </application>
 <application id="16779922" name="TA-B">
  <avp name="TA-Token" code="9201"><data type="UTF8String"/></avp>
  <avp name="TA-Box" code="9203" must="V" vendor-id="777"><data type="Grouped"/></avp>
 </application>
</diameter>`

type taDef struct {
	code, vendor uint32
	flags        uint8
}

// what each application's lookup chain (application, then base) gives the three names
var taDefs = map[uint32]map[string]taDef{
	0:      {"TA-Token": {9001, 0, 0x40}, "TA-Count": {9002, 0, 0x40}, "TA-Box": {9003, 0, 0x40}},
	taAppA: {"TA-Token": {9101, 777, 0xc0}, "TA-Count": {9102, 0, 0}, "TA-Box": {9003, 0, 0x40}},
	taAppB: {"TA-Token": {9201, 0, 0}, "TA-Count": {9002, 0, 0x40}, "TA-Box": {9203, 777, 0x80}},
}

type taInner struct {
	Token string `avp:"TA-Token"`
	Count uint32 `avp:"TA-Count"`
}

type taRecord struct {
	Token string   `avp:"TA-Token"`
	Count uint32   `avp:"TA-Count"`
	Box   *taInner `avp:"TA-Box,omitempty"`
}

type TAStep struct {
	App   uint32 `json:"app"`
	Token string `json:"token"`
	Count uint32 `json:"count"`
	Box   bool   `json:"box"`
}

type TACase struct {
	Steps []TAStep `json:"steps"`
}

var (
	taOnce   sync.Once
	taParser *dict.Parser
	taErr    error
)

func runTwoApps(c TACase) *ev.Failure {
	taOnce.Do(func() { taParser, taErr = dicts.Load(twoAppsXML) })
	if taErr != nil {
		return ev.Failf("harness-dict", "%v", taErr)
	}
	for i, st := range c.Steps {
		defs := taDefs[st.App]
		v := taRecord{Token: st.Token, Count: st.Count}
		if st.Box {
			v.Box = &taInner{Token: st.Token + "/in", Count: st.Count + 1}
		}
		desc := fmt.Sprintf("step %d: a taRecord marshalled into a message of application %d", i, st.App)
		m := diam.NewMessage(302, 0x80, st.App, 1, 2, taParser)
		if err := m.Marshal(&v); err != nil {
			return ev.Failf("twoapps:marshal-error", "%s: %v", desc, err)
		}
		check := func(a *diam.AVP, name string, where string) *ev.Failure {
			d := defs[name]
			if a.Code != d.code || a.VendorID != d.vendor || a.Flags&0xc0 != d.flags {
				return ev.Failf("twoapps:avp-of-another-application", "%s: %s%s came out as code %d vendor %d flags %#x; application %d defines it as code %d vendor %d flags %#x",
					desc, where, name, a.Code, a.VendorID, a.Flags&0xc0, st.App, d.code, d.vendor, d.flags)
			}
			return nil
		}
		wantTop := 2
		if st.Box {
			wantTop = 3
		}
		if len(m.AVP) != wantTop {
			return ev.Failf("twoapps:avps-differ", "%s: %d top-level AVPs, want %d", desc, len(m.AVP), wantTop)
		}
		if f := check(m.AVP[0], "TA-Token", ""); f != nil {
			return f
		}
		if f := check(m.AVP[1], "TA-Count", ""); f != nil {
			return f
		}
		if tok, ok := m.AVP[0].Data.(datatype.UTF8String); !ok || string(tok) != st.Token {
			return ev.Failf("twoapps:avps-differ", "%s: TA-Token holds %v", desc, m.AVP[0].Data)
		}
		if st.Box {
			if f := check(m.AVP[2], "TA-Box", ""); f != nil {
				return f
			}
			g, ok := m.AVP[2].Data.(*diam.GroupedAVP)
			if !ok || len(g.AVP) != 2 {
				return ev.Failf("twoapps:avps-differ", "%s: TA-Box holds %v", desc, m.AVP[2].Data)
			}
			if f := check(g.AVP[0], "TA-Token", "TA-Box/"); f != nil {
				return f
			}
			if f := check(g.AVP[1], "TA-Count", "TA-Box/"); f != nil {
				return f
			}
		}
		for _, via := range []string{"direct", "wire"} {
			src := m
			if via == "wire" {
				b, err := m.Serialize()
				if err != nil {
					return ev.Failf("twoapps:serialize-error", "%s: %v", desc, err)
				}
				if src, err = diam.ReadMessage(bytes.NewReader(b), taParser); err != nil {
					return ev.Failf("twoapps:wire-read-error", "%s: %v", desc, err)
				}
			}
			var back taRecord
			if err := src.Unmarshal(&back); err != nil {
				return ev.Failf("twoapps:unmarshal-error", "%s (%s): %v", desc, via, err)
			}
			same := back.Token == v.Token && back.Count == v.Count && (back.Box == nil) == (v.Box == nil)
			if same && v.Box != nil {
				same = *back.Box == *v.Box
			}
			if !same {
				return ev.Failf("twoapps:roundtrip-"+via+"-differs", "%s: Unmarshal (%s) gives %+v (box %+v), marshalled %+v (box %+v)", desc, via, back, back.Box, v, v.Box)
			}
		}
	}
	return nil
}

var twoAppsProp = ev.Register(&ev.Prop[TACase]{
	ID: "C18", Name: "one-type-two-applications",
	Rule: "one declared struct type (string, uint32 and an omitempty *struct for a group, tagged TA-Token / TA-Count / TA-Box) is marshalled, in one process and in generated order (2..6 steps), into messages of the base application and of two applications of a private dictionary that give those names other codes, vendors and M / V flags; " +
		"demanded per step: the AVPs carry code, vendor id and M / V bits of the MESSAGE's application (top level and inside the group), and Unmarshal - directly and after Serialize + ReadMessage - reproduces the value. non-trivial = consecutive steps use different applications",
	Gen: func(t *rapid.T) TACase {
		var c TACase
		n := rapid.IntRange(2, 6).Draw(t, "steps")
		for i := 0; i < n; i++ {
			c.Steps = append(c.Steps, TAStep{App: rapid.SampledFrom([]uint32{0, taAppA, taAppB}).Draw(t, "app"), Token: rapid.StringMatching("[a-z]{0,6}").Draw(t, "token"),
				Count: rapid.Uint32().Draw(t, "count"), Box: rapid.Bool().Draw(t, "box")})
		}
		return c
	},
	Run: runTwoApps,
	Classify: func(c TACase) (bool, []string) {
		nt := false
		for i := 1; i < len(c.Steps); i++ {
			nt = nt || c.Steps[i].App != c.Steps[i-1].App
		}
		if nt {
			return true, []string{"application-switch"}
		}
		return false, nil
	},
})

func TestC18OneTypeTwoApplications(t *testing.T) { twoAppsProp.Check(t, 800, 30000) }
