package c07

import (
	"bytes"
	"fmt"
	"testing"

	"github.com/fiorix/go-diameter/v4/diam"
	"pgregory.net/rapid"

	"verif/internal/ev"
	"verif/internal/memnet"
)

// "Each exactly once, whole": per WRITE. A message object may be written more than once - the
// library's own retransmission loops write the same CER / DWR object again, an application
// re-sends a request after a fail-over - with other messages written in between. Every write
// must put the message's own bytes on the transport, whatever was written since the last time.

type RewriteCase struct {
	Fills     []int  `json:"fills"`     // filler size of each message object
	Order     []int  `json:"order"`     // which object each write sends
	Transport string `json:"transport"` // writer | conn
	Retry     bool   `json:"retry"`     // writes use WriteToWithRetry(w, 2)
}

func runRewrite(c RewriteCase) *ev.Failure {
	var msgs []*diam.Message
	var refs [][]byte
	for i, fill := range c.Fills {
		a := abstractMsg(i, i, fill)
		refs = append(refs, a.RefBytes())
		msgs = append(msgs, diamMsg(&a))
	}
	var w interface {
		Write([]byte) (int, error)
	}
	var record func() []byte
	var mc *memnet.Conn
	if c.Transport == "conn" {
		mc = memnet.NewConn()
		conn, err := serveConn(mc)
		if err != nil {
			return ev.Failf("harness-conn", "NewConn: %v", err)
		}
		w, record = conn, mc.Written
	} else {
		buf := &bytes.Buffer{}
		w, record = buf, buf.Bytes
	}
	var want []byte
	for k, idx := range c.Order {
		var err error
		if c.Retry {
			_, err = msgs[idx].WriteToWithRetry(w, 2)
		} else {
			_, err = msgs[idx].WriteTo(w)
		}
		if err != nil {
			return ev.Failf("rewrite:write-failed", "write %d (message object %d): %v", k, idx, err)
		}
		want = append(want, refs[idx]...)
		if got := record(); !bytes.Equal(got, want) {
			d := 0
			for d < len(got) && d < len(want) && got[d] == want[d] {
				d++
			}
			return ev.Failf("rewrite:message-corrupted", "message objects with fillers %v written in the order %v (transport %s): after write %d, which sent object %d for the %s time, the transport holds %d bytes, want %d; first difference at offset %d (that write starts at offset %d)",
				c.Fills, c.Order[:k+1], c.Transport, k, idx, nth(c.Order[:k+1], idx), len(got), len(want), d, len(want)-len(refs[idx]))
		}
	}
	if mc != nil {
		return finish(mc)
	}
	return nil
}

func nth(order []int, idx int) string {
	n := 0
	for _, o := range order {
		if o == idx {
			n++
		}
	}
	return fmt.Sprintf("%d.", n)
}

var rewriteProp = ev.Register(&ev.Prop[RewriteCase]{
	ID: "C07", Name: "message-objects-written-again",
	Rule: "2..4 message objects (filler 0..1500, i.e. both sides of the 1 KiB pooled serialisation buffer) written 3..8 times in a generated order that repeats objects, with WriteTo or WriteToWithRetry, to a bytes.Buffer or through a diam.Conn over the in-memory transport; after every write the transport must hold exactly the reference images of the messages written so far. non-trivial = some object is written again after another object was written",
	Gen: func(t *rapid.T) RewriteCase {
		c := RewriteCase{Transport: rapid.SampledFrom([]string{"writer", "conn"}).Draw(t, "transport"), Retry: rapid.Bool().Draw(t, "retry")}
		n := rapid.IntRange(2, 4).Draw(t, "objects")
		for i := 0; i < n; i++ {
			c.Fills = append(c.Fills, rapid.SampledFrom([]int{0, 40, 400, 900, 1500}).Draw(t, "fill"))
		}
		k := rapid.IntRange(3, 8).Draw(t, "writes")
		for i := 0; i < k; i++ {
			c.Order = append(c.Order, rapid.IntRange(0, n-1).Draw(t, "object"))
		}
		return c
	},
	Run: runRewrite,
	Classify: func(c RewriteCase) (bool, []string) {
		again := false
		last := map[int]int{}
		for k, o := range c.Order {
			if p, ok := last[o]; ok && p < k-1 {
				again = true
			}
			last[o] = k
		}
		return again, []string{"transport:" + c.Transport, fmt.Sprintf("retry:%v", c.Retry)}
	},
})

func TestC07MessageObjectsWrittenAgain(t *testing.T) { rewriteProp.Check(t, 300, 10000) }
