package c07

import (
	"fmt"
	"sync"
	"sync/atomic"
	"testing"
	"time"

	"github.com/fiorix/go-diameter/v4/diam"
	"github.com/fiorix/go-diameter/v4/diam/dict"
	"pgregory.net/rapid"

	"verif/internal/ev"
	"verif/internal/memnet"
	"verif/internal/refcodec"
)

// Three writers on a connection accepted by a Server with a WriteTimeout, the first of them
// stalled in the transport for (much) longer than that timeout: writer 2 starts while writer 1 is
// stalled, writer 3 starts when writer 2 has returned (it may have given up with an error) or,
// failing that, a few timeouts later; only then does the transport go on. Two kinds of transport:
// one that ignores write deadlines (as the multi-stream path of the library and many wrapped
// connections do): the stalled Write finally takes the rest and reports success; and one that
// honours them the way a kernel does: the stalled Write returns (bytes accepted so far, timeout)
// and writer 1, who asked for retries, sends the rest in further attempts - the connection stays
// his between the attempts.

type WTimeoutCase struct {
	WriteTimeoutMs int    `json:"write_timeout_ms"` // Server.WriteTimeout
	Deadline       string `json:"deadline"`         // "ignored" | "honoured" by the transport
	Stalled        int    `json:"stalled"`          // honoured: transport writes of writer 1 that end with (prefix, timeout)
	Retries        int    `json:"retries"`          // retries writer 1 asks for (>= Stalled when honoured)
	Prefix         int    `json:"prefix"`           // permille of the offered slice accepted before the stall
	Fill1          int    `json:"fill1"`            // writer 1's message
	Fill2          int    `json:"fill2"`            // writer 2's message
	Fills3         []int  `json:"fills3"`           // writer 3's messages
	Retries23      int    `json:"retries23"`        // retries writers 2 and 3 ask for
}

func runWTimeout(c WTimeoutCase) *ev.Failure {
	wt := time.Duration(c.WriteTimeoutMs) * time.Millisecond
	type key struct{ w, s int }
	expect := map[string]key{}
	m1 := abstractMsg(0, 0, c.Fill1)
	m2 := abstractMsg(1, 0, c.Fill2)
	expect[string(m1.RefBytes())] = key{0, 0}
	expect[string(m2.RefBytes())] = key{1, 0}
	for s, f := range c.Fills3 {
		a := abstractMsg(2, s, f)
		expect[string(a.RefBytes())] = key{2, s}
	}

	mc := memnet.NewConn()
	var entered int32
	inStall := make(chan struct{})
	goOn := make(chan struct{})
	var goOnce sync.Once
	free := func() { goOnce.Do(func() { close(goOn) }) }
	mc.WriteHook = func(b []byte, accept func([]byte)) (int, error) {
		idx := int(atomic.AddInt32(&entered, 1)) - 1
		honoured := c.Deadline == "honoured"
		if (honoured && idx >= c.Stalled) || (!honoured && idx >= 1) {
			accept(b)
			return len(b), nil
		}
		k := len(b) * c.Prefix / 1000
		accept(b[:k])
		if idx == 0 {
			close(inStall)
		}
		if honoured {
			time.Sleep(wt) // the deadline was set just before this Write: it has passed after this
		}
		<-goOn // the first stall lasts until the test says so (a Write may return late, never early)
		if honoured {
			return k, &memnet.TimeoutError{}
		}
		accept(b[k:])
		return len(b), nil
	}

	got := make(chan diam.Conn, 1)
	mux := diam.NewServeMux()
	mux.HandleFunc("ALL", func(cn diam.Conn, _ *diam.Message) {
		select {
		case got <- cn:
		default:
		}
	})
	stop := make(chan struct{})
	defer close(stop)
	go func() {
		for {
			select {
			case <-mux.ErrorReports():
			case <-stop:
				return
			}
		}
	}()
	lis := memnet.NewListener(1)
	srv := &diam.Server{Handler: mux, Dict: dict.Default, WriteTimeout: wt}
	go srv.Serve(lis)
	defer lis.Close()
	lis.Push(mc)
	defer func() {
		free()
		mc.FeedEOF()
		mc.WaitClosed(2 * time.Second)
		mc.Close()
	}()
	hello := abstractMsg(50, 0, 0)
	mc.Feed(hello.RefBytes())
	var conn diam.Conn
	select {
	case conn = <-got:
	case <-time.After(5 * time.Second):
		return ev.Failf("harness-conn", "the served connection did not dispatch its first request within 5 s")
	}

	write := func(w int, msgs []*diam.Message, wants []int, retries int, out chan<- []wresult) {
		var rs []wresult
		for s, m := range msgs {
			r := wresult{writer: w, seq: s, want: wants[s]}
			func() {
				defer func() {
					if p := recover(); p != nil {
						r.panicked = p
					}
				}()
				if retries > 0 {
					r.n, r.err = m.WriteToWithRetry(conn, uint(retries))
				} else {
					r.n, r.err = m.WriteTo(conn)
				}
			}()
			rs = append(rs, r)
		}
		out <- rs
	}
	done1, done2, done3 := make(chan []wresult, 1), make(chan []wresult, 1), make(chan []wresult, 1)
	go write(0, []*diam.Message{diamMsg(&m1)}, []int{msgLen(c.Fill1)}, c.Retries, done1)
	select {
	case <-inStall:
	case <-time.After(5 * time.Second):
		return ev.Failf("harness-write", "writer 1 did not reach the transport within 5 s")
	}
	// bounded waits only: on a library that queues writers without a limit writers 2 and 3 return
	// after the stall, not before
	patience := 4*wt + 50*time.Millisecond
	var res [][]wresult
	go write(1, []*diam.Message{diamMsg(&m2)}, []int{msgLen(c.Fill2)}, c.Retries23, done2)
	var r2, r3 []wresult
	select {
	case r2 = <-done2:
	case <-time.After(patience):
	}
	var msgs3 []*diam.Message
	var wants3 []int
	for s, f := range c.Fills3 {
		a := abstractMsg(2, s, f)
		msgs3 = append(msgs3, diamMsg(&a))
		wants3 = append(wants3, msgLen(f))
	}
	go write(2, msgs3, wants3, c.Retries23, done3)
	select {
	case r3 = <-done3:
	case <-time.After(patience):
	}
	free()
	desc := fmt.Sprintf("connection accepted by a Server with WriteTimeout %d ms; the transport (write deadline %s) stalls writer 1's message after %d permille; writer 2 starts during the stall, writer 3 after writer 2 returned or %v later; then the transport goes on", c.WriteTimeoutMs, c.Deadline, c.Prefix, patience)
	limit := time.After(20*time.Second + time.Duration(c.Stalled+2)*wt)
	for _, p := range []struct {
		ch  chan []wresult
		dst *[]wresult
	}{{done1, nil}, {done2, &r2}, {done3, &r3}} {
		if p.dst != nil && *p.dst != nil {
			res = append(res, *p.dst)
			continue
		}
		select {
		case r := <-p.ch:
			res = append(res, r)
		case <-limit:
			return ev.Failf("writers-stuck", "%s: not all writers returned within 20 s of that", desc)
		}
	}
	stream := mc.Written()
	overlap := atomic.LoadInt32(&mc.Overlap) != 0

	ok := map[key]bool{}
	for _, rs := range res {
		for _, r := range rs {
			if r.panicked != nil {
				return ev.Failf("writer-panic", "%s: the write of message w%d-%d panicked: %v", desc, r.writer+1, r.seq, r.panicked)
			}
			if r.err == nil {
				if int(r.n) != r.want {
					return ev.Failf("writer-count", "%s: the write of message w%d-%d returned n=%d, nil for a %d-byte message", desc, r.writer+1, r.seq, r.n, r.want)
				}
				ok[key{r.writer, r.seq}] = true
			} else if r.writer == 0 {
				// the only errors the transport reports are temporary, fewer than the retries asked for
				return ev.Failf("writer-error", "%s: writer 1 (%d retries, %d transport writes ending with a timeout) failed: n=%d, %v", desc, c.Retries, c.stalledWrites(), r.n, r.err)
			}
			// a write of writer 2 or 3 that reports an error is not required to have delivered anything
		}
	}
	if overlap {
		return ev.Failf("overlapping-writes", "%s: two Write calls were inside the transport at the same time", desc)
	}
	msgs, tail, err := refcodec.SplitMessages(stream)
	if err != nil {
		return ev.Failf("stream-garbled", "%s: the recorded stream (%d bytes) does not parse into messages: %v", desc, len(stream), err)
	}
	seen := map[key]int{}
	last := map[int]int{}
	for i, b := range msgs {
		k, known := expect[string(b)]
		if !known {
			return ev.Failf("message-corrupted", "%s: message #%d of the recorded stream (%d bytes, header %x) is none of the messages written", desc, i, len(b), b[:20])
		}
		seen[k]++
		if seen[k] > 1 {
			return ev.Failf("message-duplicated", "%s: message w%d-%d appears %d times in the recorded stream", desc, k.w+1, k.s, seen[k])
		}
		if prev, have := last[k.w]; have && k.s < prev {
			return ev.Failf("writer-order", "%s: writer %d: message %d appears after message %d", desc, k.w+1, k.s, prev)
		}
		last[k.w] = k.s
	}
	if len(tail) != 0 {
		return ev.Failf("stream-garbled", "%s: %d trailing bytes after the last complete message of the recorded stream", desc, len(tail))
	}
	for k := range ok {
		if seen[k] != 1 {
			return ev.Failf("message-lost", "%s: the write of message w%d-%d reported success but it is not in the recorded stream", desc, k.w+1, k.s)
		}
	}
	return nil
}

func (c WTimeoutCase) stalledWrites() int {
	if c.Deadline == "honoured" {
		return c.Stalled
	}
	return 0
}

var wtimeoutProp = ev.Register(&ev.Prop[WTimeoutCase]{
	ID: "C07", Name: "write-timeout-three-writers-first-stalled",
	Rule: "an in-memory connection accepted by Server.Serve with WriteTimeout 20..40 ms; writer 1 (message 56..6000 bytes) is stalled in the transport after 0..900 permille of the slice until the test lets go - at least 4 write timeouts; the transport either ignores write deadlines (the stalled Write then takes the rest) or honours them (1..2 Writes of writer 1 end with (prefix, timeout); writer 1 asked for at least as many retries); writer 2 (1 message) starts during the stall, writer 3 (1..2 messages) when writer 2 has returned or 4 timeouts + 50 ms later, the stall ends when writer 3 has returned or after the same wait. " +
		"Demanded: writer 1 succeeds; no two transport writes overlap; the recorded stream parses into whole messages, each one of those written, none twice, each writer's in order, every write that reported success present (a write of writer 2 / 3 that reports an error need not have delivered anything). Every case is non-trivial",
	Gen: func(t *rapid.T) WTimeoutCase {
		c := WTimeoutCase{
			WriteTimeoutMs: rapid.SampledFrom([]int{20, 30, 40}).Draw(t, "write-timeout"),
			Deadline:       rapid.SampledFrom([]string{"ignored", "honoured"}).Draw(t, "deadline"),
			Prefix:         rapid.SampledFrom([]int{0, 250, 500, 500, 900}).Draw(t, "prefix"),
			Fill1:          rapid.SampledFrom([]int{4, 600, 600, 1500, 4040, 5948}).Draw(t, "fill1"),
			Fill2:          rapid.SampledFrom([]int{0, 300, 1500, 4100}).Draw(t, "fill2"),
			Retries23:      rapid.SampledFrom([]int{0, 0, 2}).Draw(t, "retries23"),
		}
		if c.Deadline == "honoured" {
			c.Stalled = rapid.IntRange(1, 2).Draw(t, "stalled")
			c.Retries = c.Stalled + rapid.IntRange(0, 2).Draw(t, "spare-retries")
		} else {
			c.Retries = rapid.SampledFrom([]int{0, 0, 3}).Draw(t, "retries")
		}
		n := rapid.IntRange(1, 2).Draw(t, "messages3")
		for i := 0; i < n; i++ {
			c.Fills3 = append(c.Fills3, rapid.SampledFrom([]int{0, 900, 900, 4200}).Draw(t, "fill3"))
		}
		return c
	},
	Run: runWTimeout,
	Classify: func(c WTimeoutCase) (bool, []string) {
		return true, []string{"deadline:" + c.Deadline, fmt.Sprintf("write-timeout:%d", c.WriteTimeoutMs), fmt.Sprintf("writer1-retries:%d", c.Retries), sizeClass(c.Fill1)}
	},
})

func TestC07WriteTimeoutThreeWriters(t *testing.T) { wtimeoutProp.Check(t, 14, 120) }
