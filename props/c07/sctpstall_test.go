package c07

import (
	"bytes"
	"fmt"
	"sync"
	"sync/atomic"
	"testing"
	"time"

	"github.com/fiorix/go-diameter/v4/diam"
	"github.com/fiorix/go-diameter/v4/diam/dict"
	"pgregory.net/rapid"

	"verif/internal/ev"
	"verif/internal/memnet"
)

// "With a transport that may stall in the middle of a write", on a multi-stream association
// ACCEPTED by a Server - with or without a WriteTimeout, the option the other multi-stream
// scenarios leave at zero. One writer sends a few messages with a retry budget; the first
// transport write stalls (longer than the WriteTimeout when there is one). Whatever the writes
// report, what the transport is handed must be the messages written, whole, each at most once -
// exactly once for every write that reported success - in the order they were written.

type SCTPStallCase struct {
	WriteTimeoutMs int   `json:"write_timeout_ms"` // Server.WriteTimeout (0 = none)
	StallMs        int   `json:"stall_ms"`         // how long the first transport write stalls
	Fills          []int `json:"fills"`            // filler size of each message written
	Retries        int   `json:"retries"`
	FromHandler    bool  `json:"from_handler"` // the writes happen inside the handler (else on another goroutine)
}

func runSCTPStall(c SCTPStallCase) *ev.Failure {
	be := memnet.NewSCTP()
	var calls int32
	release := make(chan struct{})
	var relOnce sync.Once
	be.WriteStall = func() {
		if atomic.AddInt32(&calls, 1) == 1 && c.StallMs > 0 {
			select {
			case <-release:
			case <-time.After(time.Duration(c.StallMs) * time.Millisecond):
			}
		}
	}
	sc := diam.NewVerifSCTPConn(be)
	got := make(chan diam.Conn, 1)
	proceed := make(chan struct{})
	mux := diam.NewServeMux()
	var sent [][]byte
	var errs []error
	write := func(cn diam.Conn) {
		for i, fill := range c.Fills {
			a := abstractMsg(3, i, fill)
			sent = append(sent, a.RefBytes())
			_, err := diamMsg(&a).WriteToWithRetry(cn, uint(c.Retries))
			errs = append(errs, err)
		}
	}
	done := make(chan struct{})
	mux.HandleFunc("ALL", func(cn diam.Conn, _ *diam.Message) {
		if c.FromHandler {
			write(cn)
			close(done)
			return
		}
		select {
		case got <- cn:
		default:
		}
		<-proceed
	})
	stop := make(chan struct{})
	defer close(stop)
	go func() {
		for {
			select {
			case <-mux.ErrorReports():
			case <-stop:
				return
			}
		}
	}()
	lis := memnet.NewListener(1)
	srv := &diam.Server{Handler: mux, Dict: dict.Default, WriteTimeout: time.Duration(c.WriteTimeoutMs) * time.Millisecond}
	go srv.Serve(lis)
	defer lis.Close()
	lis.Push(sc)
	defer func() {
		relOnce.Do(func() { close(release) })
		select {
		case <-proceed:
		default:
			close(proceed)
		}
		be.FeedEOF()
		be.WaitClosed(2 * time.Second)
		be.Close()
	}()
	hello := abstractMsg(50, 0, 0)
	be.Feed(memnet.Chunk{Stream: 1, Data: hello.RefBytes()})
	if !c.FromHandler {
		select {
		case cn := <-got:
			go func() { write(cn); close(done) }()
		case <-time.After(5 * time.Second):
			return ev.Failf("harness-conn", "the served association did not dispatch its first request within 5 s")
		}
	}
	select {
	case <-done:
	case <-time.After(time.Duration(c.StallMs)*time.Millisecond*time.Duration(c.Retries+2) + 10*time.Second):
		return ev.Failf("write-stuck", "the writer did not finish within the stall time x (retries+2) + 10 s")
	}
	// let a write that was abandoned by its caller (if the library does such a thing) finish
	relOnce.Do(func() { close(release) })
	time.Sleep(time.Duration(c.StallMs)*time.Millisecond + 20*time.Millisecond)
	desc := fmt.Sprintf("association accepted by a Server with WriteTimeout %d ms, first transport write stalls %d ms, %d messages written with %d retries", c.WriteTimeoutMs, c.StallMs, len(c.Fills), c.Retries)
	recs := be.Writes()
	next := 0
	seen := make([]int, len(sent))
	for k, r := range recs {
		idx := -1
		for i := range sent {
			if bytes.Equal(r.Data, sent[i]) {
				idx = i
				break
			}
		}
		if idx < 0 {
			return ev.Failf("sctp-stall:message-corrupted", "%s: transport write #%d (%d bytes) is none of the messages written: % x...", desc, k, len(r.Data), r.Data[:min(len(r.Data), 40)])
		}
		seen[idx]++
		if seen[idx] > 1 {
			return ev.Failf("sctp-stall:message-duplicated", "%s: message %d reached the transport %d times (write results: %v)", desc, idx, seen[idx], errs)
		}
		if idx < next {
			return ev.Failf("sctp-stall:order", "%s: message %d reached the transport after message %d", desc, idx, next-1)
		}
		next = idx + 1
	}
	for i, err := range errs {
		if err == nil && seen[i] != 1 {
			return ev.Failf("sctp-stall:message-lost", "%s: the write of message %d reported success, the transport was handed it %d times", desc, i, seen[i])
		}
	}
	return nil
}

var sctpStallProp = ev.Register(&ev.Prop[SCTPStallCase]{
	ID: "C07", Name: "sctp-served-association-stalled-write",
	Rule: "an in-memory multi-stream association accepted by Server.Serve, WriteTimeout 0 or 25 ms; one writer (inside the handler or on another goroutine) writes 2..4 messages (fill 0..1500) with WriteToWithRetry and 0..3 retries; the first transport write stalls 0 or 80 ms. " +
		"Demanded: every transport write is one of the messages, whole; none is handed over twice; order of first appearance = order written; every write that reported success was handed over exactly once. non-trivial = the stall outlasts a configured WriteTimeout",
	Gen: func(t *rapid.T) SCTPStallCase {
		c := SCTPStallCase{WriteTimeoutMs: rapid.SampledFrom([]int{0, 25, 25}).Draw(t, "write-timeout"), StallMs: rapid.SampledFrom([]int{0, 80, 80}).Draw(t, "stall"),
			Retries: rapid.IntRange(0, 3).Draw(t, "retries"), FromHandler: rapid.Bool().Draw(t, "from-handler")}
		n := rapid.IntRange(2, 4).Draw(t, "messages")
		for i := 0; i < n; i++ {
			c.Fills = append(c.Fills, rapid.SampledFrom([]int{0, 40, 400, 1500}).Draw(t, "fill"))
		}
		return c
	},
	Run: runSCTPStall,
	Classify: func(c SCTPStallCase) (bool, []string) {
		return c.WriteTimeoutMs > 0 && c.StallMs > c.WriteTimeoutMs, []string{fmt.Sprintf("write-timeout:%d", c.WriteTimeoutMs), fmt.Sprintf("stall:%d", c.StallMs), fmt.Sprintf("retries:%d", c.Retries)}
	},
})

func TestC07SCTPServedStalledWrite(t *testing.T) { sctpStallProp.Check(t, 24, 600) }
