package c07

import (
	"fmt"
	"runtime"
	"sync"
	"sync/atomic"
	"testing"
	"time"

	"github.com/fiorix/go-diameter/v4/diam"
	"github.com/fiorix/go-diameter/v4/diam/dict"
	"pgregory.net/rapid"

	"verif/internal/ev"
	"verif/internal/memnet"
	"verif/internal/refcodec"
)

// "Messages written to one connection from any number of goroutines reach the transport whole and
// un-interleaved", on a multi-stream association: several goroutines write numbered messages -
// small ones and ones far above the 4 KiB buffer, up to a few hundred KiB, on both sides of
// 16 / 32 / 64 / 128 KiB - to the same stream and to different streams of one connection, while
// the association stalls in its writes. What is demanded is per stream: the concatenation of the
// user messages the association was handed on that stream parses into exactly the messages
// written to it, whole, each once, each writer's in the order written. (A message carried by
// several user messages is not by itself a violation; pieces of two messages mixed on a stream are.)

type SCTPWriter struct {
	Stream int    `json:"stream"`
	Via    string `json:"via"` // stream: WriteToStream | retry: WriteToStreamWithRetry(.., 3) | plain: WriteTo (stream 0) | raw: Conn.Write of the serialised message
	Fills  []int  `json:"fills"`
}

type SCTPConcCase struct {
	Accepted bool         `json:"accepted,omitempty"` // the association is accepted by a Server (else: diam.NewConn)
	Writers  []SCTPWriter `json:"writers"`
	Stalls   []Stall      `json:"stalls"` // behaviour of the i-th SCTPWrite call (cyclic): kind and k
}

// total message sizes on both sides of limits a multi-stream transport may have
var sctpBigTotals = []int{65536, 65540, 65532, 102400, 131072, 131076, 200000, 16384, 16388, 32768, 32772, 8192, 70000, 262148}

func genSCTPFill(t *rapid.T) int {
	switch rapid.IntRange(0, 9).Draw(t, "fill-how") {
	case 0, 1, 2:
		return genFill(t, "fill")
	case 3:
		return rapid.IntRange(9000, 300000).Draw(t, "fill-large")
	default:
		total := rapid.SampledFrom(sctpBigTotals).Draw(t, "fill-total")
		return total - fixedLen - rapid.IntRange(0, 3).Draw(t, "fill-pad")
	}
}

func sctpSizeClass(fill int) string {
	switch l := msgLen(fill); {
	case l <= 4096:
		return "len<=4KiB"
	case l < 65536:
		return "4KiB<len<64KiB"
	case l == 65536:
		return "len=64KiB"
	case l <= 131072:
		return "64KiB<len<=128KiB"
	default:
		return "len>128KiB"
	}
}

func runSCTPConc(c SCTPConcCase) *ev.Failure {
	type key struct{ w, s int }
	expect := map[string]key{}
	total := 0
	for w, wr := range c.Writers {
		for s, fill := range wr.Fills {
			a := abstractMsg(w, s, fill)
			expect[string(a.RefBytes())] = key{w, s}
			total++
		}
	}
	be := memnet.NewSCTP()
	var calls, inCall, active, stallsWithOther int32
	be.WriteStall = func() {
		idx := int(atomic.AddInt32(&calls, 1)) - 1
		atomic.AddInt32(&inCall, 1)
		defer atomic.AddInt32(&inCall, -1)
		if len(c.Stalls) == 0 {
			return
		}
		st := c.Stalls[idx%len(c.Stalls)]
		switch st.Kind {
		case "gosched":
			for i := 0; i < st.K; i++ {
				runtime.Gosched()
			}
		case "sleep":
			time.Sleep(time.Duration(st.K) * time.Microsecond)
		case "pending":
			// stall until another goroutine hands the association a user message as well
			deadline := time.Now().Add(20 * time.Millisecond)
			for int(atomic.LoadInt32(&calls)) == idx+1 && atomic.LoadInt32(&active) > 1 && time.Now().Before(deadline) {
				runtime.Gosched()
			}
			if int(atomic.LoadInt32(&calls)) > idx+1 {
				atomic.AddInt32(&stallsWithOther, 1)
			}
			for i := 0; i < st.K; i++ {
				runtime.Gosched()
			}
		}
	}
	sc := diam.NewVerifSCTPConn(be)
	mux := diam.NewServeMux()
	stop := make(chan struct{})
	defer close(stop)
	go func() {
		for {
			select {
			case <-mux.ErrorReports():
			case <-stop:
				return
			}
		}
	}()
	defer func() {
		be.FeedEOF()
		be.WaitClosed(2 * time.Second)
		be.Close()
	}()
	var conn diam.Conn
	if c.Accepted {
		got := make(chan diam.Conn, 1)
		proceed := make(chan struct{})
		defer close(proceed)
		mux.HandleFunc("ALL", func(cn diam.Conn, _ *diam.Message) {
			select {
			case got <- cn:
			default:
			}
			<-proceed
		})
		lis := memnet.NewListener(1)
		srv := &diam.Server{Handler: mux, Dict: dict.Default}
		go srv.Serve(lis)
		defer lis.Close()
		lis.Push(sc)
		hello := abstractMsg(50, 0, 0)
		be.Feed(memnet.Chunk{Stream: 1, Data: hello.RefBytes()})
		select {
		case conn = <-got:
		case <-time.After(5 * time.Second):
			return ev.Failf("harness-conn", "the served association did not dispatch its first request within 5 s")
		}
	} else {
		mux.HandleFunc("ALL", func(diam.Conn, *diam.Message) {})
		var err error
		if conn, err = diam.NewConn(sc, "", mux, dict.Default); err != nil {
			return ev.Failf("harness-conn", "NewConn: %v", err)
		}
	}

	results := make(chan wresult, total)
	start := make(chan struct{})
	var wg sync.WaitGroup
	atomic.StoreInt32(&active, int32(len(c.Writers)))
	for w := range c.Writers {
		wg.Add(1)
		go func(w int) {
			defer wg.Done()
			defer atomic.AddInt32(&active, -1)
			wr := c.Writers[w]
			var msgs []*diam.Message
			var raws [][]byte
			for s, fill := range wr.Fills {
				a := abstractMsg(w, s, fill)
				msgs = append(msgs, diamMsg(&a))
				raws = append(raws, a.RefBytes())
			}
			<-start
			for s, m := range msgs {
				r := wresult{writer: w, seq: s, want: msgLen(wr.Fills[s])}
				func() {
					defer func() {
						if p := recover(); p != nil {
							r.panicked = p
						}
					}()
					var n int
					switch wr.Via {
					case "retry":
						n, r.err = m.WriteToStreamWithRetry(conn, uint(wr.Stream), 3)
					case "plain":
						r.n, r.err = m.WriteTo(conn)
						n = int(r.n)
					case "raw":
						n, r.err = conn.Write(raws[s])
					default:
						n, r.err = m.WriteToStream(conn, uint(wr.Stream))
					}
					r.n = int64(n)
				}()
				results <- r
			}
		}(w)
	}
	close(start)
	done := make(chan struct{})
	go func() { wg.Wait(); close(done) }()
	select {
	case <-done:
	case <-time.After(30 * time.Second):
		return ev.Failf("writers-stuck", "%d writers did not finish %d messages on a multi-stream connection within 30 s (%d user messages handed over)", len(c.Writers), total, atomic.LoadInt32(&calls))
	}
	close(results)
	dynCount("dyn:sctp-stall-with-another-user-message-arriving", int64(atomic.LoadInt32(&stallsWithOther)))

	how := "diam.NewConn"
	if c.Accepted {
		how = "accepted by a Server"
	}
	var sizes []string
	for w, wr := range c.Writers {
		var l []int
		for _, f := range wr.Fills {
			l = append(l, msgLen(f))
		}
		sizes = append(sizes, fmt.Sprintf("w%d(%s, stream %d): %v", w, wr.Via, c.Writers[w].expectStream(), l))
	}
	recs := be.Writes()
	desc := fmt.Sprintf("multi-stream connection (%s), writers and message sizes %v; the association was handed %d user messages", how, sizes, len(recs))
	for r := range results {
		if r.panicked != nil {
			return ev.Failf("writer-panic", "%s: the write of message w%d-%d panicked: %v", desc, r.writer, r.seq, r.panicked)
		}
		if r.err != nil {
			return ev.Failf("sctp-conc:writer-error", "%s: the write of message w%d-%d failed although the association never fails: %v", desc, r.writer, r.seq, r.err)
		}
		if int(r.n) != r.want {
			return ev.Failf("sctp-conc:writer-count", "%s: the write of message w%d-%d returned n=%d for a %d-byte message", desc, r.writer, r.seq, r.n, r.want)
		}
	}
	var order []uint16
	perStream := map[uint16][]byte{}
	for _, r := range recs {
		if _, ok := perStream[r.Stream]; !ok {
			order = append(order, r.Stream)
		}
		perStream[r.Stream] = append(perStream[r.Stream], r.Data...)
	}
	seen := map[key]int{}
	for _, st := range order {
		stream := perStream[st]
		msgs, tail, err := refcodec.SplitMessages(stream)
		if err != nil {
			return ev.Failf("sctp-conc:stream-garbled", "%s: the %d bytes handed over on stream %d do not parse into messages: %v", desc, len(stream), st, err)
		}
		last := map[int]int{}
		for i, b := range msgs {
			k, ok := expect[string(b)]
			if !ok {
				return ev.Failf("sctp-conc:message-corrupted", "%s: message #%d on stream %d (%d bytes, header %x) is none of the %d messages written", desc, i, st, len(b), b[:20], total)
			}
			seen[k]++
			if seen[k] > 1 {
				return ev.Failf("sctp-conc:message-duplicated", "%s: message w%d-%d was handed over %d times", desc, k.w, k.s, seen[k])
			}
			if want := c.Writers[k.w].expectStream(); want >= 0 && int(st) != want {
				return ev.Failf("sctp-conc:wrong-stream", "%s: message w%d-%d, written to stream %d, was handed over on stream %d", desc, k.w, k.s, want, st)
			}
			if prev, ok := last[k.w]; ok && k.s < prev {
				return ev.Failf("sctp-conc:writer-order", "%s: stream %d: message w%d-%d appears after message w%d-%d", desc, st, k.w, k.s, k.w, prev)
			}
			last[k.w] = k.s
		}
		if len(tail) != 0 {
			return ev.Failf("sctp-conc:stream-garbled", "%s: %d trailing bytes after the last complete message on stream %d", desc, len(tail), st)
		}
	}
	for _, k := range expect {
		if seen[k] == 0 {
			return ev.Failf("sctp-conc:message-lost", "%s: message w%d-%d was written without error but was not handed to the association (%d of %d present)", desc, k.w, k.s, len(seen), total)
		}
	}
	return nil
}

// expectStream is the stream the writer's messages have to appear on (-1: whichever the
// connection chooses for a Write without a stream).
func (w SCTPWriter) expectStream() int {
	switch w.Via {
	case "plain":
		return 0
	case "raw":
		return -1
	}
	return w.Stream
}

func classifySCTPConc(c SCTPConcCase) (bool, []string) {
	var cl classSet
	if c.Accepted {
		cl.add("association:accepted-by-server")
	} else {
		cl.add("association:NewConn")
	}
	cl.add(fmt.Sprintf("writers:%d", len(c.Writers)))
	onStream := map[int]int{}
	bigOnStream := map[int]int{}
	for _, w := range c.Writers {
		cl.add("via:" + w.Via)
		big := false
		for _, f := range w.Fills {
			cl.add(sctpSizeClass(f))
			if msgLen(f) > 4096 {
				big = true
			}
		}
		st := w.expectStream()
		if st < 0 {
			continue
		}
		onStream[st]++
		if big {
			bigOnStream[st]++
		}
	}
	shared, sharedBig := false, false
	for st, n := range onStream {
		if n >= 2 {
			shared = true
			if bigOnStream[st] >= 2 {
				sharedBig = true
			}
		}
	}
	if shared {
		cl.add("two-writers-on-one-stream")
	}
	if sharedBig {
		cl.add("two-writers-of-large-messages-on-one-stream")
	}
	if len(onStream) >= 2 {
		cl.add("writers-on-different-streams")
	}
	stall := false
	for i := 0; i < len(c.Stalls); i++ {
		cl.add("stall:" + c.Stalls[i].Kind)
		if c.Stalls[i].Kind != "none" {
			stall = true
		}
	}
	return len(c.Writers) >= 2 && stall, cl.list
}

func genSCTPConc(t *rapid.T) SCTPConcCase {
	c := SCTPConcCase{Accepted: rapid.IntRange(0, 3).Draw(t, "accepted") == 0}
	nw := rapid.IntRange(2, 4).Draw(t, "writers")
	for w := 0; w < nw; w++ {
		wr := SCTPWriter{Stream: rapid.SampledFrom([]int{0, 1, 1, 1, 3, 7}).Draw(t, "stream"),
			Via: rapid.SampledFrom([]string{"stream", "stream", "stream", "retry", "plain", "raw"}).Draw(t, "via")}
		n := rapid.IntRange(1, 3).Draw(t, "messages")
		for i := 0; i < n; i++ {
			wr.Fills = append(wr.Fills, genSCTPFill(t))
		}
		c.Writers = append(c.Writers, wr)
	}
	ns := rapid.IntRange(1, 6).Draw(t, "stalls")
	for i := 0; i < ns; i++ {
		s := Stall{Kind: rapid.SampledFrom([]string{"none", "gosched", "sleep", "pending", "pending", "pending"}).Draw(t, "stall")}
		switch s.Kind {
		case "gosched", "pending":
			s.K = rapid.IntRange(1, 20).Draw(t, "k")
		case "sleep":
			s.K = rapid.IntRange(50, 500).Draw(t, "us")
		}
		c.Stalls = append(c.Stalls, s)
	}
	return c
}

var sctpConcProp = ev.Register(&ev.Prop[SCTPConcCase]{
	ID: "C07", Name: "sctp-concurrent-writers",
	Rule: "an in-memory multi-stream association behind diam.NewConn or (1 in 4) accepted by Server.Serve; 2..4 goroutines write 1..3 numbered messages each to stream 0, 1, 3 or 7 (shared or not) with WriteToStream, WriteToStreamWithRetry(.., 3), WriteTo (stream 0) or Conn.Write of the serialised message; message sizes from 52 bytes to 300 KB, most of them on both sides of 8 / 16 / 32 / 64 / 128 / 256 KiB (65532, 65536, 65540, 100 KiB, 200000, ...); every SCTPWrite call of the association starts with a stall (none / Gosched / 50-500 us / until another goroutine's SCTPWrite call arrives). " +
		"Demanded: every write returns (len, nil); per stream the concatenation of the user messages handed to the association parses into messages that are each one of the messages written, none twice, on the stream named by its writer, each writer's in the order written; none is missing. non-trivial = a stalling call (the class dyn:* counts the stalls during which another goroutine's user message arrived)",
	Gen: genSCTPConc, Run: runSCTPConc, Classify: classifySCTPConc, Attempts: 5,
})

func TestC07SCTPConcurrentWriters(t *testing.T) {
	dynRec = sctpConcProp.Rec(t)
	defer func() { dynRec = nil }()
	sctpConcProp.Check(t, 250, 6000)
}

// The minimal histories: two or three goroutines, one message each, sizes around 64 KiB and
// above, same stream and different streams, the first user message stalls until another arrives.
func TestC07SCTPConcurrentCanonical(t *testing.T) {
	dynRec = sctpConcProp.Rec(t)
	defer func() { dynRec = nil }()
	sctpConcProp.Enumerate(t, false, func(yield func(SCTPConcCase) bool) {
		stalls := []Stall{{Kind: "pending", K: 3}, {Kind: "none"}, {Kind: "pending", K: 1}}
		for _, total := range []int{4096, 65532, 65536, 65540, 102400, 200000} {
			fill := total - fixedLen
			for _, vias := range [][]string{{"stream", "stream"}, {"stream", "retry", "stream"}, {"plain", "raw"}} {
				for _, same := range []bool{true, false} {
					c := SCTPConcCase{Accepted: total == 102400 && same, Stalls: stalls}
					for w, via := range vias {
						st := 0
						if via != "plain" && via != "raw" {
							st = 3
							if !same {
								st = 3 + w
							}
						}
						c.Writers = append(c.Writers, SCTPWriter{Stream: st, Via: via, Fills: []int{fill, 40}})
					}
					if !yield(c) {
						return
					}
				}
			}
		}
	})
}
