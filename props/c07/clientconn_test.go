package c07

import (
	"bytes"
	"fmt"
	"runtime"
	"sync"
	"sync/atomic"
	"testing"
	"time"

	"github.com/fiorix/go-diameter/v4/diam"
	"github.com/fiorix/go-diameter/v4/diam/avp"
	"github.com/fiorix/go-diameter/v4/diam/datatype"
	"github.com/fiorix/go-diameter/v4/diam/dict"
	"github.com/fiorix/go-diameter/v4/diam/sm"
	"pgregory.net/rapid"

	"verif/internal/ev"
	"verif/internal/memnet"
	"verif/internal/refcodec"
)

// "Messages written to one connection from any number of goroutines", for the connection an
// application gets from sm.Client (with and without the watchdog): after a scripted handshake
// the application writes with WriteToWithRetry through a transport that accepts part of a
// message and reports a temporary error, while other writers are active on the same connection -
// further application goroutines (retrying or plain) and the client's own state machine, which
// answers the peer's Device-Watchdog requests from the goroutine serving the connection.
// The recorded byte stream must parse into whole messages, each exactly once, per-writer order kept.

type ClientConnCase struct {
	// Side "" : the connection is the one sm.Client.NewConn returns. Side "server": the connection of
	// a peer that dialled in and did its handshake with a server-side sm.StateMachine; the writers
	// use, in turn, the handle NewConn returned, the Conn an application handler of the state machine
	// was called with and the Conn announced by HandshakeNotify.
	Side     string  `json:"side,omitempty"`
	Watchdog bool    `json:"watchdog"`        // sm.Client.EnableWatchdog (interval 1 h: no requests of its own during the case)
	Writers  [][]int `json:"writers"`         // per application writer: filler length of each of its messages, in order
	Plain    []bool  `json:"plain,omitempty"` // writer w uses plain WriteTo (its transport writes are never faulted)
	Attempts int     `json:"attempts"`        // per retried message: that many transport writes end with (part accepted, temporary error)
	Permille int     `json:"permille"`        // part of the offered slice such a write accepts
	PeerDWRs int     `json:"peer_dwrs"`       // at most that many watchdog requests of the peer arrive, each during a faulted transport write
	StallUs  int     `json:"stall_us"`        // a faulted transport write lasts that long once another writer is under way
	Stream0  bool    `json:"stream0,omitempty"`
	Budget   string  `json:"budget,omitempty"`
}

func (c ClientConnCase) plain(w int) bool { return w < len(c.Plain) && c.Plain[w] }

func ccCEA(h refcodec.Header) []byte {
	return refcodec.EncodeMessage(refcodec.Header{Version: 1, Code: 257, HopByHop: h.HopByHop, EndToEnd: h.EndToEnd},
		[]*refcodec.Node{{Code: 268, Flags: 0x40, Payload: refcodec.U32(2001)}, {Code: 264, Flags: 0x40, Payload: []byte("srv.example")},
			{Code: 296, Flags: 0x40, Payload: []byte("example")}, {Code: 257, Flags: 0x40, Payload: refcodec.Address(1, []byte{10, 0, 0, 1})},
			{Code: 266, Flags: 0x40, Payload: refcodec.U32(13)}, {Code: 269, Payload: []byte("peer")},
			{Code: 258, Flags: 0x40, Payload: refcodec.U32(4)}}, false)
}

func ccDWR(j uint32) []byte {
	return refcodec.EncodeMessage(refcodec.Header{Version: 1, Flags: 0x80, Code: 280, HopByHop: 0xD0000000 + j, EndToEnd: 0xE0000000 + j},
		[]*refcodec.Node{{Code: 264, Flags: 0x40, Payload: []byte("srv.example")}, {Code: 296, Flags: 0x40, Payload: []byte("example")}}, false)
}

const ccTemplateID = 0x00FFFFFF

func runClientConn(c ClientConnCase) *ev.Failure {
	type key struct{ w, s int }
	expect := map[string]key{}
	var retried [][]byte // images of the messages written with a retry budget
	total := 0
	for w, fills := range c.Writers {
		for s, fill := range fills {
			a := abstractMsg(w, s, fill)
			ref := a.RefBytes()
			expect[string(ref)] = key{w, s}
			if !c.plain(w) {
				retried = append(retried, ref)
			}
			total++
		}
	}
	left := make([]int, len(retried)) // faulted transport writes still to come, per retried message
	for i := range left {
		left[i] = c.Attempts
	}

	mc := memnet.NewConn()
	machine := sm.New(&sm.Settings{OriginHost: "cc-client.example", OriginRealm: "example", VendorID: 13, ProductName: "verif",
		HostIPAddresses: []datatype.Address{datatype.Address([]byte{10, 0, 0, 9})}})
	stop := make(chan struct{})
	defer close(stop)
	notified := make(chan diam.Conn, 1)
	ready := make(chan struct{})
	go func() {
		close(ready)
		for {
			select {
			case <-machine.ErrorReports():
			case cn := <-machine.HandshakeNotify():
				select {
				case notified <- cn:
				default:
				}
			case <-stop:
				return
			}
		}
	}()
	cli := &sm.Client{Handler: machine, MaxRetransmits: 0, RetransmitInterval: 5 * time.Second,
		EnableWatchdog: c.Watchdog, WatchdogInterval: time.Hour,
		AuthApplicationID: []*diam.AVP{diam.NewAVP(avp.AuthApplicationID, avp.Mbit, 0, datatype.Unsigned32(4))}}

	var armed, inflight, active, fed, dwasSeen, faults, faultsWithDWR int32
	var hmu sync.Mutex
	mc.WriteHook = func(b []byte, accept func([]byte)) (int, error) {
		if atomic.LoadInt32(&armed) == 0 {
			accept(b)
			if h, err := refcodec.DecodeHeader(b); err == nil && h.Code == 257 && h.Flags&0x80 != 0 {
				mc.Feed(ccCEA(h))
				mc.WaitParked(2 * time.Second)
			}
			return len(b), nil
		}
		// (the rest of) a message written with a retry budget that still has faulted writes to come?
		idx := -1
		hmu.Lock()
		for i, ref := range retried {
			if left[i] > 0 && len(b) > 0 && len(b) <= len(ref) && bytes.HasSuffix(ref, b) {
				idx = i
				left[i]--
				break
			}
		}
		hmu.Unlock()
		if idx < 0 {
			if h, err := refcodec.DecodeHeader(b); err == nil && h.Code == 280 && h.Flags&0x80 == 0 && int(h.Length) == len(b) {
				atomic.AddInt32(&dwasSeen, 1)
			}
			accept(b)
			return len(b), nil
		}
		k := len(b) * c.Permille / 1000
		if k < 0 {
			k = 0
		}
		if k > len(b) {
			k = len(b)
		}
		accept(b[:k])
		atomic.AddInt32(&faults, 1)
		// another writer gets under way while this write is inside the transport: the peer's
		// watchdog request is read and answered by the goroutine serving the connection ...
		hmu.Lock()
		feed := int(atomic.LoadInt32(&fed)) < c.PeerDWRs && atomic.LoadInt32(&fed) == atomic.LoadInt32(&dwasSeen) && mc.Pending() == 0
		var j int32
		if feed {
			j = atomic.AddInt32(&fed, 1) - 1
		}
		hmu.Unlock()
		if feed {
			mc.Feed(ccDWR(uint32(j)))
			mc.WaitDrained(50 * time.Millisecond)
			atomic.AddInt32(&faultsWithDWR, 1)
		}
		// ... and the other application writers have their writes pending
		deadline := time.Now().Add(20 * time.Millisecond)
		for atomic.LoadInt32(&inflight) < 2 && atomic.LoadInt32(&active) > 1 && time.Now().Before(deadline) {
			runtime.Gosched()
		}
		if c.StallUs > 0 {
			time.Sleep(time.Duration(c.StallUs) * time.Microsecond)
		} else {
			runtime.Gosched()
		}
		return k, &memnet.TempError{Msg: "scripted temporary write error"}
	}

	var handles []diam.Conn // handles of the one connection, used by the writers in turn
	if c.Side == "server" {
		got := make(chan diam.Conn, 1)
		machine.HandleFunc("ALL", func(cn diam.Conn, _ *diam.Message) {
			select {
			case got <- cn:
			default:
			}
		})
		h0, err := diam.NewConn(mc, "", machine, dict.Default)
		if err != nil {
			return ev.Failf("harness-conn", "NewConn: %v", err)
		}
		handles = append(handles, h0)
		// HandshakeNotify is a non-blocking send: let the receiver get to its select first
		<-ready
		for i := 0; i < 5; i++ {
			runtime.Gosched()
		}
		time.Sleep(100 * time.Microsecond)
		mc.Feed(refcodec.EncodeMessage(refcodec.Header{Version: 1, Flags: 0x80, Code: 257, HopByHop: 1, EndToEnd: 2},
			[]*refcodec.Node{{Code: 264, Flags: 0x40, Payload: []byte("srv.example")}, {Code: 296, Flags: 0x40, Payload: []byte("example")},
				{Code: 257, Flags: 0x40, Payload: refcodec.Address(1, []byte{10, 0, 0, 1})}, {Code: 266, Flags: 0x40, Payload: refcodec.U32(13)},
				{Code: 269, Payload: []byte("peer")}, {Code: 258, Flags: 0x40, Payload: refcodec.U32(4)}}, false))
		if !mc.WaitWrites(1, 5*time.Second) {
			mc.Close()
			return ev.Failf("harness-conn", "the server-side state machine did not answer the CER within 5 s")
		}
		mc.WaitParked(2 * time.Second)
		// an accounting request of the base application reaches the application's handler
		mc.Feed(refcodec.EncodeMessage(refcodec.Header{Version: 1, Flags: 0x80, Code: 271, HopByHop: 3, EndToEnd: 4},
			[]*refcodec.Node{{Code: 263, Flags: 0x40, Payload: []byte("s;1")}}, false))
		select {
		case cn := <-got:
			handles = append(handles, cn)
		case <-time.After(5 * time.Second):
			mc.Close()
			return ev.Failf("harness-conn", "a request sent after the handshake did not reach the handler registered on the state machine within 5 s")
		}
		select { // sent, if at all, before the handler of the CER returned
		case cn := <-notified:
			handles = append(handles, cn)
			dynCount("dyn:client-conn-handle-from-HandshakeNotify", 1)
		default:
		}
	} else {
		type dialres struct {
			conn diam.Conn
			err  error
		}
		dialled := make(chan dialres, 1)
		go func() { cn, err := cli.NewConn(mc, "peer"); dialled <- dialres{cn, err} }()
		select {
		case r := <-dialled:
			if r.err != nil {
				mc.Close()
				return ev.Failf("harness-conn", "sm.Client.NewConn with a peer that answers the CER with a success CEA: %v", r.err)
			}
			handles = append(handles, r.conn)
		case <-time.After(10 * time.Second):
			mc.Close()
			return ev.Failf("harness-conn", "sm.Client.NewConn did not return within 10 s of the CEA")
		}
	}
	// how this client answers a watchdog request, observed while nothing else is written
	mc.WaitParked(2 * time.Second)
	base0 := len(mc.Written())
	mc.Feed(ccDWR(ccTemplateID))
	var template []byte
	for deadline := time.Now().Add(5 * time.Second); ; {
		msgs, tail, err := refcodec.SplitMessages(mc.Written()[base0:])
		if err == nil && len(msgs) >= 1 && len(tail) == 0 {
			template = msgs[0]
			if len(msgs) > 1 {
				mc.Close()
				return ev.Failf("harness-dwa-template", "one watchdog request on a quiet connection was answered with %d messages", len(msgs))
			}
			break
		}
		if time.Now().After(deadline) {
			mc.Close()
			return ev.Failf("harness-dwa-template", "the client did not answer a watchdog request on a quiet connection within 5 s (%d bytes written, err %v)", len(mc.Written())-base0, err)
		}
		time.Sleep(100 * time.Microsecond)
	}
	if h, err := refcodec.DecodeHeader(template); err != nil || h.Code != 280 || h.Flags&0x80 != 0 || h.HopByHop != 0xD0000000+ccTemplateID || h.EndToEnd != 0xE0000000+ccTemplateID {
		mc.Close()
		return ev.Failf("harness-dwa-template", "the answer to a watchdog request on a quiet connection has the header %x", template[:20])
	}
	mc.WaitParked(2 * time.Second)
	time.Sleep(200 * time.Microsecond) // the handler has returned
	base := len(mc.Written())
	dwaFor := func(j int) []byte {
		d := append([]byte{}, template...)
		copy(d[12:], refcodec.U32(0xD0000000+uint32(j)))
		copy(d[16:], refcodec.U32(0xE0000000+uint32(j)))
		return d
	}
	atomic.StoreInt32(&armed, 1)

	results := make(chan wresult, total)
	start := make(chan struct{})
	var wg sync.WaitGroup
	atomic.StoreInt32(&active, int32(len(c.Writers)))
	for w := range c.Writers {
		wg.Add(1)
		go func(w int) {
			defer wg.Done()
			defer atomic.AddInt32(&active, -1)
			var msgs []*diam.Message
			for s, fill := range c.Writers[w] {
				a := abstractMsg(w, s, fill)
				msgs = append(msgs, diamMsg(&a))
			}
			conn := handles[w%len(handles)]
			<-start
			for s, m := range msgs {
				r := wresult{writer: w, seq: s, want: msgLen(c.Writers[w][s])}
				func() {
					defer func() {
						if p := recover(); p != nil {
							r.panicked = p
						}
					}()
					atomic.AddInt32(&inflight, 1)
					defer atomic.AddInt32(&inflight, -1)
					switch {
					case c.plain(w):
						r.n, r.err = m.WriteTo(conn)
					case c.Stream0:
						var n int
						n, r.err = m.WriteToStreamWithRetry(conn, 0, budget(c.Budget, 64))
						r.n = int64(n)
					default:
						r.n, r.err = m.WriteToWithRetry(conn, budget(c.Budget, 64))
					}
				}()
				results <- r
			}
		}(w)
	}
	close(start)
	done := make(chan struct{})
	go func() { wg.Wait(); close(done) }()
	select {
	case <-done:
	case <-time.After(20 * time.Second):
		mc.Close()
		return ev.Failf("writers-stuck", "%d writers did not finish %d messages on the connection of an sm.Client within 20 s", len(c.Writers), total)
	}
	close(results)
	nfed := int(atomic.LoadInt32(&fed))
	origin := fmt.Sprintf("connection returned by sm.Client.NewConn (EnableWatchdog %v)", c.Watchdog)
	if c.Side == "server" {
		origin = fmt.Sprintf("connection of a peer after its handshake with a server-side sm.StateMachine (%d handles: NewConn, the Conn a handler was called with, HandshakeNotify)", len(handles))
	}
	desc := fmt.Sprintf("%s; %d application writers, %d messages, every retried message meets %d transport writes that accept %d permille and report a temporary error; the peer sent %d watchdog requests during such writes",
		origin, len(c.Writers), total, c.Attempts, c.Permille, nfed)
	// the state machine's answers belong to the recorded stream: wait for the last of them
	for deadline := time.Now().Add(5 * time.Second); int(atomic.LoadInt32(&dwasSeen)) < nfed; {
		if time.Now().After(deadline) {
			break
		}
		time.Sleep(200 * time.Microsecond)
	}
	mc.WaitParked(2 * time.Second)
	dynCount("dyn:client-conn-faulted-transport-writes", int64(atomic.LoadInt32(&faults)))
	dynCount("dyn:client-conn-peer-dwr-during-a-faulted-write", int64(atomic.LoadInt32(&faultsWithDWR)))
	stream := mc.Written()[base:]
	if f := finish(mc); f != nil {
		return f
	}

	if atomic.LoadInt32(&mc.Overlap) != 0 {
		return ev.Failf("overlapping-writes", "%s: two Write calls were inside the transport at the same time", desc)
	}
	for r := range results {
		if r.panicked != nil {
			return ev.Failf("writer-panic", "%s: the write of message w%d-%d panicked: %v", desc, r.writer, r.seq, r.panicked)
		}
		if r.err != nil {
			return ev.Failf("client-conn:writer-error", "%s: the write of message w%d-%d failed although the temporary errors are within the budget: %v", desc, r.writer, r.seq, r.err)
		}
		if int(r.n) != r.want {
			return ev.Failf("client-conn:writer-count", "%s: the write of message w%d-%d returned n=%d for a %d-byte message", desc, r.writer, r.seq, r.n, r.want)
		}
	}
	const dwaWriter = -1
	for j := 0; j < nfed; j++ {
		expect[string(dwaFor(j))] = key{dwaWriter, j}
	}
	name := func(k key) string {
		if k.w == dwaWriter {
			return fmt.Sprintf("the state machine's answer to watchdog request %d", k.s)
		}
		return fmt.Sprintf("message w%d-%d", k.w, k.s)
	}
	msgs, tail, err := refcodec.SplitMessages(stream)
	if err != nil {
		return ev.Failf("client-conn:stream-garbled", "%s: the recorded stream (%d bytes) does not parse into messages: %v", desc, len(stream), err)
	}
	seen := map[key]int{}
	last := map[int]int{}
	for i, b := range msgs {
		k, ok := expect[string(b)]
		if !ok {
			return ev.Failf("client-conn:message-corrupted", "%s: message #%d of the recorded stream (%d bytes, header %x) is none of the %d messages written", desc, i, len(b), b[:20], len(expect))
		}
		seen[k]++
		if seen[k] > 1 {
			return ev.Failf("client-conn:message-duplicated", "%s: %s appears %d times in the recorded stream", desc, name(k), seen[k])
		}
		if prev, ok := last[k.w]; ok && k.s < prev {
			return ev.Failf("client-conn:writer-order", "%s: %s appears after %s", desc, name(k), name(key{k.w, prev}))
		}
		last[k.w] = k.s
	}
	if len(tail) != 0 {
		return ev.Failf("client-conn:stream-garbled", "%s: %d trailing bytes after the last complete message of the recorded stream", desc, len(tail))
	}
	for _, k := range expect {
		if seen[k] == 0 {
			return ev.Failf("client-conn:message-lost", "%s: %s is not in the recorded stream (%d of %d present)", desc, name(k), len(seen), len(expect))
		}
	}
	return nil
}

func classifyClientConn(c ClientConnCase) (bool, []string) {
	var cl classSet
	retrying, others := 0, 0
	for w, fills := range c.Writers {
		if c.plain(w) {
			others++
		} else {
			retrying++
		}
		for _, f := range fills {
			cl.add(sizeClass(f))
		}
	}
	if c.Side == "server" {
		cl.add("server-side-state-machine")
	} else {
		cl.add(fmt.Sprintf("client-watchdog:%v", c.Watchdog))
	}
	cl.add(fmt.Sprintf("writers:%d", len(c.Writers)))
	cl.add(fmt.Sprintf("faulted-writes-per-message:%d", c.Attempts))
	if c.PeerDWRs > 0 {
		cl.add("state-machine-answers-peer-watchdog-meanwhile")
	}
	if others > 0 && retrying > 0 {
		cl.add("retrying-and-plain-writers-share-the-connection")
	}
	if c.Stream0 {
		cl.add("messages-addressed-to-stream-0")
	}
	if c.Budget != "" {
		cl.add("retry-budget:" + c.Budget)
	}
	switch {
	case c.Permille == 0:
		cl.add("zero-accept")
	case c.Permille == 1000:
		cl.add("fault-after-accepting-all")
	default:
		cl.add("partial-accept")
	}
	if c.StallUs >= 1000 {
		cl.add("stall>=1ms")
	}
	second := retrying+others >= 2 || c.PeerDWRs > 0
	return retrying > 0 && c.Attempts > 0 && c.Permille < 1000 && second, cl.list
}

func genClientConn(t *rapid.T) ClientConnCase {
	c := ClientConnCase{Watchdog: rapid.Bool().Draw(t, "watchdog")}
	if rapid.IntRange(0, 3).Draw(t, "server-side") == 0 {
		c.Side, c.Watchdog = "server", false
	}
	nw := rapid.IntRange(1, 3).Draw(t, "writers")
	for w := 0; w < nw; w++ {
		n := rapid.IntRange(1, 2).Draw(t, "messages")
		var fills []int
		for i := 0; i < n; i++ {
			fills = append(fills, genFill(t, "fill"))
		}
		c.Writers = append(c.Writers, fills)
		c.Plain = append(c.Plain, w > 0 && rapid.IntRange(0, 3).Draw(t, "plain") == 0)
	}
	c.Attempts = rapid.SampledFrom([]int{1, 2, 2, 3, 3, 4}).Draw(t, "attempts")
	c.Permille = rapid.SampledFrom([]int{0, 1, 100, 250, 500, 500, 900, 999, 1000}).Draw(t, "permille")
	if rapid.Bool().Draw(t, "permille-any") {
		c.Permille = rapid.IntRange(1, 999).Draw(t, "permille-value")
	}
	c.PeerDWRs = rapid.SampledFrom([]int{0, 1, 2, 4, 4}).Draw(t, "peer-dwrs")
	if nw == 1 && c.PeerDWRs == 0 {
		c.PeerDWRs = 2
	}
	c.StallUs = rapid.SampledFrom([]int{0, 300, 1300, 1300, 1300, 2000}).Draw(t, "stall-us")
	c.Stream0 = rapid.Bool().Draw(t, "stream0")
	c.Budget = rapid.SampledFrom([]string{"", "", "", "maxint", "maxuint"}).Draw(t, "budget")
	return c
}

var clientConnProp = ev.Register(&ev.Prop[ClientConnCase]{
	ID: "C07", Name: "client-connection-retried-writes",
	Rule: "the diam.Conn returned by sm.Client.NewConn (EnableWatchdog on or off, WatchdogInterval 1 h) over a memnet.Conn after a scripted CER/CEA, or (1 in 4) the connection of a peer that did its handshake with a server-side sm.StateMachine, written to through the handle NewConn returned, the Conn an application handler of the state machine was called with and the Conn announced by HandshakeNotify; 1..3 application goroutines write 1..2 numbered messages each (sizes below/at/above 1 KiB and 4 KiB) through it, with WriteToWithRetry / WriteToStreamWithRetry(stream 0) (budget 64, MaxInt, MaxUint) or (1 in 4 of the further writers) plain WriteTo; the first 1..4 transport writes of every retried message accept a part (0..1000 permille) of what is offered, wait until another writer is under way - the peer's Device-Watchdog request fed at that moment and answered by the client's state machine from the goroutine serving the connection, and/or another application writer - stall 0..2 ms and report a temporary error; everything else is accepted whole. " +
		"Demanded: every write returns (len, nil); no two transport writes overlap; the recorded stream after the handshake parses into exactly the application messages and the state machine's watchdog answers (byte-identical to the answer observed on the quiet connection, identifiers of the request), each once, each writer's in order. non-trivial = a retrying writer, >= 1 faulted write accepting less than everything, and a second writer (application or state machine)",
	Gen: genClientConn, Run: runClientConn, Classify: classifyClientConn, Attempts: 3,
})

func TestC07ClientConnRetriedWrites(t *testing.T) {
	dynRec = clientConnProp.Rec(t)
	defer func() { dynRec = nil }()
	clientConnProp.Check(t, 150, 3000)
}

// The minimal histories: one retried message taken in pieces, the other writer is the client's
// state machine answering the peer's watchdog request, or a second application goroutine.
func TestC07ClientConnCanonical(t *testing.T) {
	dynRec = clientConnProp.Rec(t)
	defer func() { dynRec = nil }()
	clientConnProp.Enumerate(t, false, func(yield func(ClientConnCase) bool) {
		for _, origin := range []string{"client-watchdog", "client", "server"} {
			for _, fill := range []int{100, 1200, 6000} {
				for _, writers := range [][][]int{{{fill}}, {{fill}, {40, 8}}} {
					for _, stream0 := range []bool{false, true} {
						c := ClientConnCase{Watchdog: origin == "client-watchdog", Writers: writers, Attempts: 4, Permille: 200, PeerDWRs: 3 - len(writers), StallUs: 1500, Stream0: stream0}
						if origin == "server" {
							c.Side = "server"
						}
						if len(writers) > 1 {
							c.Plain = []bool{false, true}
						}
						if !yield(c) {
							return
						}
					}
				}
			}
		}
	})
}
