// C07 - Concurrent and retried writes deliver each message whole, exactly once.
//
// Part (a) "concurrent": several goroutines write numbered messages to one
// diam.Conn (diam.NewConn over a memnet.Conn) whose transport stalls in the
// middle of a write. Part (b) "faults": one message is written with a retry
// budget to a transport that follows a scripted plan of (bytes accepted,
// temporary / permanent error) outcomes - a plain io.Writer, a
// MultistreamWriter, and the diam.Conn wrapper over a faulty memnet.Conn.
package c07

import (
	"bytes"
	"errors"
	"fmt"
	"github.com/ishidawataru/sctp"
	"io"
	"math"
	"net"
	"runtime"
	"sync"
	"sync/atomic"
	"testing"
	"time"

	"github.com/fiorix/go-diameter/v4/diam"
	"github.com/fiorix/go-diameter/v4/diam/dict"
	"pgregory.net/rapid"

	"verif/internal/ev"
	"verif/internal/gen"
	"verif/internal/memnet"
	"verif/internal/refcodec"
)

// ---------------------------------------------------------------------------
// messages

const (
	codeWriter = 258 // Auth-Application-Id, Unsigned32: writer number
	codeSeq    = 278 // Origin-State-Id, Unsigned32: sequence number of the writer
	codeFill   = 33  // Proxy-State, OctetString: filler
	fixedLen   = 20 + 12 + 12 + 8
)

// msgLen is the wire size of a message with a filler of fill bytes.
func msgLen(fill int) int { return fixedLen + refcodec.Pad4(fill) }

// abstractMsg is the message (writer, seq) with fill filler bytes. The filler
// depends on (writer, seq) so that bytes of two messages mixed together never
// form a third expected message.
func abstractMsg(writer, seq, fill int) gen.Msg {
	f := make([]byte, fill)
	for i := range f {
		f[i] = byte(17*writer + 101*seq + i + i/251)
	}
	return gen.Msg{Flags: 0x80, Code: 280, App: 0, HbH: uint32(writer + 1), E2E: uint32(seq + 1), AVPs: []*gen.AVP{
		{Code: codeWriter, Flags: 0x40, V: gen.Val{T: gen.TUnsigned32, U: uint64(writer)}},
		{Code: codeSeq, Flags: 0x40, V: gen.Val{T: gen.TUnsigned32, U: uint64(seq)}},
		{Code: codeFill, Flags: 0x40, V: gen.Val{T: gen.TOctetString, B: f}},
	}}
}

func diamMsg(a *gen.Msg) *diam.Message {
	m := diam.NewMessage(a.Code, a.Flags, a.App, a.HbH, a.E2E, dict.Default)
	for _, x := range a.AVPs {
		m.AddAVP(x.ToDiamAVP())
	}
	return m
}

// fills on both sides of the 1 KiB serialisation pool buffer and of the
// 4 KiB bufio buffer (message sizes are multiples of four).
var boundaryTotals = []int{4096, 1024, 4100, 1028, 4092, 1020, 6000, 2048, 9000, 4104, 1032, 4088, 1016, 200, 64, 56, fixedLen}

func genFill(t *rapid.T, label string) int {
	switch rapid.IntRange(0, 9).Draw(t, label+"-how") {
	case 8, 9:
		return rapid.IntRange(0, 40).Draw(t, label)
	case 7:
		return rapid.IntRange(0, 9000).Draw(t, label)
	default:
		total := rapid.SampledFrom(boundaryTotals).Draw(t, label+"-total")
		f := total - fixedLen - rapid.IntRange(0, 3).Draw(t, label+"-pad")
		if f < 0 {
			f = 0
		}
		return f
	}
}

func sizeClass(fill int) string {
	switch l := msgLen(fill); {
	case l < 1024:
		return "len<1KiB"
	case l == 1024:
		return "len=1KiB"
	case l < 4096:
		return "1KiB<len<4KiB"
	case l == 4096:
		return "len=4KiB"
	default:
		return "len>4KiB"
	}
}

type classSet struct {
	seen map[string]bool
	list []string
}

func (s *classSet) add(c string) {
	if s.seen == nil {
		s.seen = map[string]bool{}
	}
	if !s.seen[c] {
		s.seen[c] = true
		s.list = append(s.list, c)
	}
}

// dynRec receives counters of facts that are only known at run time.
var dynRec *ev.Recorder

func dynCount(class string, n int64) {
	if dynRec != nil && n > 0 {
		dynRec.Count(class, n)
	}
}

// serveConn wraps mc into the library's connection (its read loop parks in
// mc.Read until finish feeds EOF).
func serveConn(mc *memnet.Conn) (diam.Conn, error) {
	mux := diam.NewServeMux()
	mux.HandleFunc("ALL", func(diam.Conn, *diam.Message) {})
	return diam.NewConn(mc, "", mux, dict.Default)
}

// finish ends the library's read loop and waits for it.
func finish(mc *memnet.Conn) *ev.Failure {
	mc.FeedEOF()
	ok := mc.WaitClosed(5 * time.Second)
	mc.Close()
	if !ok {
		return ev.Failf("harness-conn-not-closed", "the connection loop did not close the transport within 5 s of EOF")
	}
	return nil
}

// ---------------------------------------------------------------------------
// part (a): concurrent writers

type Stall struct {
	Prefix int    `json:"prefix"` // permille of the offered slice accepted before the stall
	Kind   string `json:"kind"`   // none | gosched | sleep | pending
	K      int    `json:"k"`      // Gosched count / sleep in microseconds
	// Fault: after the stall the transport reports (prefix bytes accepted, temporary error)
	// instead of taking the rest. Only generated together with ConcCase.Retries > 0.
	Fault bool `json:"fault,omitempty"`
}

type ConcCase struct {
	Writers [][]int `json:"writers"` // per writer: filler length of each of its messages, in order
	Stalls  []Stall `json:"stalls"`  // behaviour of the i-th transport write (cyclic)
	// Retries > 0: every writer uses WriteToWithRetry(conn, Retries); some transport writes then
	// end with (bytes accepted, temporary error). The budget is far above what the cycle of
	// stalls can consume (at least one entry of the cycle accepts everything).
	Retries int `json:"retries,omitempty"`
	// Stream0 (with Retries): the messages are addressed to stream 0, as every answer built with
	// Message.Answer from a request read over TCP is (WriteToStreamWithRetry(conn, 0, n)).
	Stream0 bool `json:"stream0,omitempty"`
	// Inbound: that many requests of the peer arrive, and are handled by a handler that returns
	// at once, while the writers are at work (the goroutine serving the connection is busy too).
	Inbound int `json:"inbound,omitempty"`
	// InboundAnswers (with Inbound, no transport faults): the handler writes a message of its own
	// for every request, through the Conn it was called with - another handle of the same
	// connection than the one NewConn returned to the writers.
	InboundAnswers bool `json:"inbound_answers,omitempty"`
	// Mixed (with Retries, no transport faults): only the even-numbered writers use the retrying
	// entry points, the odd-numbered ones write with plain WriteTo - both kinds share the connection.
	Mixed bool `json:"mixed,omitempty"`
	// Budget (with Retries): the retry budget handed over is "maxint" or "maxuint" ("retry for ever")
	// instead of 64; the writes must behave as with any budget that is never used up.
	Budget string `json:"budget,omitempty"`
}

// budget is the retries argument for a case: 64, or one of the ends of the uint range.
func budget(name string, n int) uint {
	switch name {
	case "maxint":
		return uint(math.MaxInt)
	case "maxuint":
		return ^uint(0)
	}
	return uint(n)
}

func genStall(t *rapid.T) Stall {
	s := Stall{Prefix: rapid.SampledFrom([]int{0, 0, 1, 100, 500, 500, 900, 999, 1000}).Draw(t, "prefix")}
	if rapid.Bool().Draw(t, "prefix-any") {
		s.Prefix = rapid.IntRange(0, 1000).Draw(t, "prefix-permille")
	}
	s.Kind = rapid.SampledFrom([]string{"none", "gosched", "sleep", "pending", "pending"}).Draw(t, "stall")
	switch s.Kind {
	case "gosched", "pending":
		s.K = rapid.IntRange(1, 20).Draw(t, "k")
	case "sleep":
		s.K = rapid.IntRange(50, 500).Draw(t, "us")
	}
	return s
}

func genConc(t *rapid.T) ConcCase {
	var c ConcCase
	nw := rapid.IntRange(1, 8).Draw(t, "writers")
	for w := 0; w < nw; w++ {
		n := rapid.IntRange(1, 5).Draw(t, "messages")
		var fills []int
		for i := 0; i < n; i++ {
			fills = append(fills, genFill(t, "fill"))
		}
		c.Writers = append(c.Writers, fills)
	}
	ns := rapid.IntRange(1, 8).Draw(t, "stalls")
	for i := 0; i < ns; i++ {
		c.Stalls = append(c.Stalls, genStall(t))
	}
	if rapid.IntRange(0, 2).Draw(t, "inbound") == 0 {
		c.Inbound = rapid.IntRange(1, 12).Draw(t, "n-inbound")
		c.InboundAnswers = rapid.Bool().Draw(t, "handler-writes-too")
	}
	if rapid.IntRange(0, 2).Draw(t, "with-retries") == 0 {
		c.Retries = 64
		c.Stream0 = rapid.Bool().Draw(t, "stream0")
		c.Mixed = rapid.IntRange(0, 2).Draw(t, "mixed-writers") == 0
		for i := 1; i < len(c.Stalls) && !c.Mixed; i++ { // entry 0 always accepts everything
			c.Stalls[i].Fault = rapid.IntRange(0, 2).Draw(t, "fault") == 0
		}
		c.Budget = rapid.SampledFrom([]string{"", "", "maxint", "maxuint"}).Draw(t, "budget")
		if !c.Mixed {
			c.InboundAnswers = false // the handler writes with plain WriteTo: no scripted transport errors then
		}
	}
	return c
}

type wresult struct {
	writer, seq int
	n           int64
	want        int
	err         error
	panicked    interface{}
}

func runConc(c ConcCase) *ev.Failure {
	type key struct{ w, s int }
	expect := map[string]key{}
	total := 0
	for w, fills := range c.Writers {
		for s, fill := range fills {
			a := abstractMsg(w, s, fill)
			expect[string(a.RefBytes())] = key{w, s}
			total++
		}
	}
	mc := memnet.NewConn()
	var entered, inflight, active, stallsWithPending, faults int32
	mc.WriteHook = func(b []byte, accept func([]byte)) (int, error) {
		idx := int(atomic.AddInt32(&entered, 1)) - 1
		var st Stall
		if len(c.Stalls) > 0 {
			st = c.Stalls[idx%len(c.Stalls)]
		}
		k := len(b) * st.Prefix / 1000
		if k < 0 {
			k = 0
		}
		if k > len(b) {
			k = len(b)
		}
		accept(b[:k])
		pending := false
		note := func() {
			if atomic.LoadInt32(&inflight) >= 2 {
				pending = true
			}
		}
		note()
		switch st.Kind {
		case "gosched":
			for i := 0; i < st.K; i++ {
				runtime.Gosched()
				note()
			}
		case "sleep":
			time.Sleep(time.Duration(st.K) * time.Microsecond)
			note()
		case "pending":
			// stall until another writer has a write under way (it is then
			// waiting for this one to finish, or - if nothing serialises the
			// writers - inside the transport already), then give it room.
			deadline := time.Now().Add(20 * time.Millisecond)
			for atomic.LoadInt32(&inflight) < 2 && atomic.LoadInt32(&active) > 1 &&
				int(atomic.LoadInt32(&entered)) == idx+1 && time.Now().Before(deadline) {
				runtime.Gosched()
			}
			note()
			for i := 0; i < st.K; i++ {
				runtime.Gosched()
			}
		}
		if pending {
			atomic.AddInt32(&stallsWithPending, 1)
		}
		if st.Fault && c.Retries > 0 && !c.Mixed {
			atomic.AddInt32(&faults, 1)
			return k, &memnet.TempError{Msg: "scripted temporary write error"}
		}
		accept(b[k:]) // read from the caller's slice after the wait
		return len(b), nil
	}
	answers := c.InboundAnswers && c.Inbound > 0
	if answers {
		for i := 0; i < c.Inbound; i++ {
			a := abstractMsg(97, i, 3)
			expect[string(a.RefBytes())] = key{97, i}
			total++
		}
	}
	var hmu sync.Mutex
	var herr error
	var handled int32
	mux := diam.NewServeMux()
	mux.HandleFunc("ALL", func(cn diam.Conn, m *diam.Message) {
		defer atomic.AddInt32(&handled, 1)
		if !answers {
			return
		}
		// the inbound request is abstractMsg(99, i, 0): End-to-End id = i + 1
		a := abstractMsg(97, int(m.Header.EndToEndID)-1, 3)
		n, err := diamMsg(&a).WriteTo(cn)
		if err == nil && int(n) != len(a.RefBytes()) {
			err = fmt.Errorf("WriteTo returned %d for a %d-byte message", n, len(a.RefBytes()))
		}
		if err != nil {
			hmu.Lock()
			if herr == nil {
				herr = err
			}
			hmu.Unlock()
		}
	})
	conn, err := diam.NewConn(mc, "", mux, dict.Default)
	if err != nil {
		return ev.Failf("harness-conn", "NewConn: %v", err)
	}
	results := make(chan wresult, total)
	start := make(chan struct{})
	var wg sync.WaitGroup
	atomic.StoreInt32(&active, int32(len(c.Writers)))
	for w := range c.Writers {
		wg.Add(1)
		go func(w int) {
			defer wg.Done()
			defer atomic.AddInt32(&active, -1)
			var msgs []*diam.Message
			for s, fill := range c.Writers[w] {
				a := abstractMsg(w, s, fill)
				msgs = append(msgs, diamMsg(&a))
			}
			<-start
			for s, m := range msgs {
				r := wresult{writer: w, seq: s, want: msgLen(c.Writers[w][s])}
				func() {
					defer func() {
						if p := recover(); p != nil {
							r.panicked = p
						}
					}()
					atomic.AddInt32(&inflight, 1)
					defer atomic.AddInt32(&inflight, -1)
					retrying := c.Retries > 0 && !(c.Mixed && w%2 == 1)
					if retrying && c.Stream0 {
						var n int
						n, r.err = m.WriteToStreamWithRetry(conn, 0, budget(c.Budget, c.Retries))
						r.n = int64(n)
					} else if retrying {
						r.n, r.err = m.WriteToWithRetry(conn, budget(c.Budget, c.Retries))
					} else {
						r.n, r.err = m.WriteTo(conn)
					}
				}()
				results <- r
			}
		}(w)
	}
	close(start)
	if c.Inbound > 0 {
		// the peer's requests trickle in while the writers write
		wg.Add(1)
		go func() {
			defer wg.Done()
			for i := 0; i < c.Inbound; i++ {
				in := abstractMsg(99, i, 0)
				mc.Feed(in.RefBytes())
				for k := 0; k < 3; k++ {
					runtime.Gosched()
				}
				mc.WaitParked(50 * time.Millisecond)
			}
		}()
	}
	done := make(chan struct{})
	go func() { wg.Wait(); close(done) }()
	select {
	case <-done:
	case <-time.After(20 * time.Second):
		mc.Close()
		return ev.Failf("writers-stuck", "%d writers did not finish %d messages within 20 s (%d transport writes entered)", len(c.Writers), total, atomic.LoadInt32(&entered))
	}
	if answers {
		// the handler's own writes belong to the recorded stream: wait for the last of them
		for deadline := time.Now().Add(20 * time.Second); atomic.LoadInt32(&handled) < int32(c.Inbound); {
			if time.Now().After(deadline) {
				mc.Close()
				return ev.Failf("writers-stuck", "the connection's handler finished %d of %d requests within 20 s", atomic.LoadInt32(&handled), c.Inbound)
			}
			time.Sleep(200 * time.Microsecond)
		}
	}
	close(results)
	dynCount("dyn:stall-with-another-write-pending", int64(atomic.LoadInt32(&stallsWithPending)))
	if atomic.LoadInt32(&stallsWithPending) > 0 {
		dynCount("dyn:case-with-stall-and-pending-writer", 1)
	}
	stream := mc.Written()
	if f := finish(mc); f != nil {
		return f
	}

	if atomic.LoadInt32(&mc.Overlap) != 0 {
		return ev.Failf("overlapping-writes", "two Write calls were inside the transport at the same time (%d writers, %d messages)", len(c.Writers), total)
	}
	for r := range results {
		if r.panicked != nil {
			return ev.Failf("writer-panic", "WriteTo of message w%d-%d panicked: %v", r.writer, r.seq, r.panicked)
		}
		if r.err != nil {
			return ev.Failf("writer-error", "WriteTo of message w%d-%d failed although the transport never fails: %v", r.writer, r.seq, r.err)
		}
		if int(r.n) != r.want {
			return ev.Failf("writer-count", "WriteTo of message w%d-%d returned n=%d for a %d-byte message", r.writer, r.seq, r.n, r.want)
		}
	}
	hmu.Lock()
	he := herr
	hmu.Unlock()
	if he != nil {
		return ev.Failf("writer-error", "a message written by the connection's handler through its own Conn failed although the transport never fails: %v", he)
	}
	msgs, tail, err := refcodec.SplitMessages(stream)
	if err != nil {
		return ev.Failf("stream-garbled", "the recorded stream (%d bytes) does not parse into messages: %v", len(stream), err)
	}
	seen := map[key]int{}
	last := map[int]int{}
	for i, b := range msgs {
		k, ok := expect[string(b)]
		if !ok {
			return ev.Failf("message-corrupted", "message #%d of the recorded stream (%d bytes, header %x) is none of the %d messages written", i, len(b), b[:20], total)
		}
		seen[k]++
		if seen[k] > 1 {
			return ev.Failf("message-duplicated", "message w%d-%d appears %d times in the recorded stream", k.w, k.s, seen[k])
		}
		if prev, ok := last[k.w]; ok && k.s < prev {
			return ev.Failf("writer-order", "writer %d: message %d appears after message %d", k.w, k.s, prev)
		}
		last[k.w] = k.s
	}
	if len(tail) != 0 {
		return ev.Failf("stream-garbled", "%d trailing bytes after the last complete message of the recorded stream", len(tail))
	}
	if len(seen) != total {
		for _, k := range expect {
			if seen[k] == 0 {
				return ev.Failf("message-lost", "message w%d-%d was written without error but is not in the recorded stream (%d of %d present)", k.w, k.s, len(seen), total)
			}
		}
	}
	return nil
}

func classifyConc(c ConcCase) (bool, []string) {
	var cl classSet
	total := 0
	for _, fills := range c.Writers {
		total += len(fills)
		for _, f := range fills {
			cl.add(sizeClass(f))
		}
	}
	cl.add(fmt.Sprintf("writers:%d", len(c.Writers)))
	if c.Retries > 0 {
		cl.add("writers-retry-on-temporary-errors")
		if c.Stream0 {
			cl.add("messages-addressed-to-stream-0")
		}
		if c.Mixed && len(c.Writers) > 1 {
			cl.add("retrying-and-plain-writers-share-the-connection")
		}
		if c.Budget != "" {
			cl.add("retry-budget:" + c.Budget)
		}
	}
	if c.Inbound > 0 {
		cl.add("peer-requests-handled-meanwhile")
		if c.InboundAnswers {
			cl.add("handler-writes-through-its-own-conn-meanwhile")
		}
	}
	stall := false
	for i := 0; i < total && i < len(c.Stalls); i++ {
		s := c.Stalls[i]
		cl.add("stall:" + s.Kind)
		if s.Kind != "none" {
			stall = true
			if s.Prefix > 0 && s.Prefix < 1000 {
				cl.add("stall-mid-write")
			}
		}
	}
	multi := 0
	for _, fills := range c.Writers {
		if len(fills) > 0 {
			multi++
		}
	}
	return multi >= 2 && stall, cl.list
}

var concProp = ev.Register(&ev.Prop[ConcCase]{
	ID: "C07", Name: "concurrent",
	Rule: "1..8 goroutines each WriteTo 1..5 numbered messages (sizes below/at/above 1 KiB and 4 KiB) to one diam.Conn over a memnet.Conn whose Write accepts a prefix, stalls (none / Gosched / 50-500 us / until another writer has a write under way) and copies the rest from the caller's slice; 1 in 3 cases requests of the peer are handled by the connection meanwhile (half of those: the handler writes a message per request through the Conn it was called with, while the writers use the Conn NewConn returned); 1 in 3 cases every writer uses WriteToWithRetry (half of them addressed to stream 0, as answers are) and some transport writes end with (prefix accepted, temporary error) instead - or, without such faults, only the even-numbered writers retry and the others use plain WriteTo; the retry budget is 64, MaxInt or MaxUint; non-trivial = >= 2 writers and >= 1 stalling transport write (the classes dyn:* count the stalls during which another writer was observed inside WriteTo)",
	Gen:  genConc, Run: runConc, Classify: classifyConc, Attempts: 5,
})

// ---------------------------------------------------------------------------
// part (b): fault plans

const (
	kindTemp    = 0 // temporary net.Error
	kindPlain   = 1 // error that is no net.Error
	kindNetPerm = 2 // net.Error that is not temporary
)

type Fault struct {
	K    int `json:"k"`    // bytes of the offered slice accepted by this write (clipped to its length)
	Kind int `json:"kind"` // 0 temporary, 1 plain error, 2 permanent net.Error
}

type FaultCase struct {
	Transport string  `json:"transport"` // writer | stream | conn
	Fill      int     `json:"fill"`
	Plan      []Fault `json:"plan"` // outcome of the i-th non-empty transport write; afterwards writes succeed
	Retries   int     `json:"retries"`
	Stream    int     `json:"stream"`
	Follow    bool    `json:"follow"` // after a successful write, write a second message
	// Budget "maxint" / "maxuint": that value is handed over as the retry budget instead of Retries
	// (the model then never runs out of retries).
	Budget string `json:"budget,omitempty"`
}

func (c FaultCase) modelRetries() int {
	if c.Budget != "" {
		return 1 << 30
	}
	return c.Retries
}

type permNetErr struct{}

func (permNetErr) Error() string   { return "scripted permanent network error" }
func (permNetErr) Timeout() bool   { return false }
func (permNetErr) Temporary() bool { return false }

var errPlain = errors.New("scripted permanent error")

func faultErr(kind int) error {
	switch kind {
	case kindTemp:
		return &memnet.TempError{Msg: "scripted temporary error"}
	case kindNetPerm:
		return permNetErr{}
	}
	return errPlain
}

// planner applies a fault plan to successive writes and checks what is offered.
type planner struct {
	mu      sync.Mutex
	plan    []Fault
	cur     int
	expect  []byte // the bytes that are to reach the transport, in order
	record  []byte
	calls   int
	badOff  string // first offer that did not start at the first unsent byte
	streams []uint
	// timeouts: a temporary fault is reported as a timeout error (Timeout() and Temporary() both
	// true), which is what an expired write deadline looks like
	timeouts bool
}

func (p *planner) write(b []byte, accept func([]byte)) (int, error) {
	p.mu.Lock()
	defer p.mu.Unlock()
	if len(b) == 0 {
		return 0, nil
	}
	p.calls++
	if p.badOff == "" {
		rest := p.expect[min(len(p.record), len(p.expect)):]
		if len(b) > len(rest) || !bytes.Equal(b, rest[:len(b)]) {
			p.badOff = fmt.Sprintf("transport write #%d offered %d bytes that are not the bytes following the %d already accepted", p.calls, len(b), len(p.record))
		}
	}
	if p.cur < len(p.plan) {
		f := p.plan[p.cur]
		p.cur++
		k := f.K
		if k > len(b) {
			k = len(b)
		}
		if k < 0 {
			k = 0
		}
		p.record = append(p.record, b[:k]...)
		if accept != nil {
			accept(b[:k])
		}
		if p.timeouts && f.Kind == kindTemp {
			return k, &memnet.TimeoutError{}
		}
		return k, faultErr(f.Kind)
	}
	p.record = append(p.record, b...)
	if accept != nil {
		accept(b)
	}
	return len(b), nil
}

// sctpPlanned is an in-memory SCTP association (backend of the verif hook) whose writes follow
// the plan; reads block until it is closed.
type sctpPlanned struct {
	p      *planner
	once   sync.Once
	closed chan struct{}
}

func newSCTPPlanned(p *planner) *sctpPlanned { return &sctpPlanned{p: p, closed: make(chan struct{})} }

func (s *sctpPlanned) SCTPRead(b []byte) (int, *sctp.SndRcvInfo, error) {
	<-s.closed
	return 0, nil, io.EOF
}
func (s *sctpPlanned) SCTPWrite(b []byte, info *sctp.SndRcvInfo) (int, error) {
	st := uint(0)
	if info != nil {
		st = uint(info.Stream)
	}
	s.p.mu.Lock()
	s.p.streams = append(s.p.streams, st)
	s.p.mu.Unlock()
	return s.p.write(b, nil)
}
func (s *sctpPlanned) Close() error         { s.once.Do(func() { close(s.closed) }); return nil }
func (s *sctpPlanned) LocalAddr() net.Addr  { return memnet.Addr{Net: "sctp", Str: "10.1.2.3:3868"} }
func (s *sctpPlanned) RemoteAddr() net.Addr { return memnet.Addr{Net: "sctp", Str: "10.9.8.7:40000"} }

type plainWriter struct{ p *planner }

func (w plainWriter) Write(b []byte) (int, error) { return w.p.write(b, nil) }

// streamWriter is a minimal diam.MultistreamWriter.
type streamWriter struct {
	p   *planner
	cur uint
}

func (w *streamWriter) Write(b []byte) (int, error) { return w.WriteStream(b, w.cur) }
func (w *streamWriter) WriteStream(b []byte, stream uint) (int, error) {
	w.p.mu.Lock()
	w.p.streams = append(w.p.streams, stream)
	w.p.mu.Unlock()
	return w.p.write(b, nil)
}
func (w *streamWriter) CurrentWriterStream() uint   { return w.cur }
func (w *streamWriter) ResetWriterStream()          { w.cur = 0 }
func (w *streamWriter) SetWriterStream(s uint) uint { w.cur = s; return s }

var _ diam.MultistreamWriter = (*streamWriter)(nil)

// outcome is what the statement demands for a plan: the model performs the
// writes "send what remains; on a temporary error with budget left, send what
// remains again".
type outcome struct {
	success   bool
	why       string // exhausted | permanent
	planDone  bool   // every plan entry was consumed
	partial   bool   // some write accepted 0 < k < offered
	zero      bool   // some write accepted nothing
	allBut    bool   // a faulted write accepted everything offered
	tempsSeen int
}

func model(l int, plan []Fault, retries int) outcome {
	var o outcome
	remaining, cur := l, 0
	for {
		if remaining == 0 || cur >= len(plan) {
			o.success = true
			o.planDone = cur >= len(plan)
			return o
		}
		f := plan[cur]
		cur++
		k := f.K
		if k > remaining {
			k = remaining
		}
		if k < 0 {
			k = 0
		}
		switch {
		case k == 0:
			o.zero = true
		case k < remaining:
			o.partial = true
		default:
			o.allBut = true
		}
		remaining -= k
		if f.Kind != kindTemp {
			o.why = "permanent"
			return o
		}
		o.tempsSeen++
		if retries == 0 {
			o.why = "exhausted"
			return o
		}
		retries--
	}
}

func genFaultCase(transports []string) func(t *rapid.T) FaultCase {
	return func(t *rapid.T) FaultCase {
		c := FaultCase{Transport: rapid.SampledFrom(transports).Draw(t, "transport")}
		c.Fill = genFill(t, "fill")
		remaining := msgLen(c.Fill)
		n := rapid.IntRange(0, 5).Draw(t, "plan")
		for i := 0; i < n; i++ {
			var f Fault
			switch rapid.IntRange(0, 7).Draw(t, "k-how") {
			case 0:
				f.K = 0
			case 1:
				f.K = min(remaining, rapid.SampledFrom([]int{1, 4, 5, 19, 20, 21}).Draw(t, "k-small"))
			case 2:
				f.K = remaining
			case 3:
				f.K = max(remaining-rapid.IntRange(1, 8).Draw(t, "k-tail"), 0)
			case 4:
				f.K = remaining / 2
			default:
				f.K = rapid.IntRange(0, remaining).Draw(t, "k")
			}
			if rapid.IntRange(0, 6).Draw(t, "perm") == 0 {
				f.Kind = rapid.SampledFrom([]int{kindPlain, kindNetPerm}).Draw(t, "perm-kind")
			}
			remaining -= f.K
			c.Plan = append(c.Plan, f)
		}
		switch rapid.IntRange(0, 5).Draw(t, "retries-how") {
		case 0:
			c.Retries = 0
		case 1:
			c.Retries = max(n-1, 0)
		case 2, 3:
			c.Retries = n
		case 4:
			c.Retries = n + 1
		default:
			c.Retries = rapid.IntRange(0, 8).Draw(t, "retries")
		}
		if rapid.IntRange(0, 7).Draw(t, "huge-budget") == 0 {
			c.Budget = rapid.SampledFrom([]string{"maxint", "maxuint"}).Draw(t, "budget")
		}
		c.Stream = rapid.IntRange(0, 3).Draw(t, "stream")
		c.Follow = rapid.Bool().Draw(t, "follow")
		return c
	}
}

func runFault(c FaultCase) *ev.Failure {
	a := abstractMsg(0, 0, c.Fill)
	ref := a.RefBytes()
	follow := abstractMsg(1, 1, 7)
	followRef := follow.RefBytes()
	want := model(len(ref), c.Plan, c.modelRetries())
	p := &planner{plan: c.Plan, expect: append(append([]byte{}, ref...), followRef...)}

	var w io.Writer
	var mc *memnet.Conn
	switch c.Transport {
	case "writer":
		w = plainWriter{p}
	case "stream":
		w = &streamWriter{p: p}
	case "sctp", "sctp-conn":
		be := newSCTPPlanned(p)
		sc := diam.NewVerifSCTPConn(be)
		defer func() {
			be.Close()
			if c.Transport == "sctp" { // behind NewConn the serving loop may still be using it
				diam.ReleaseVerifSCTPConn(sc)
			}
		}()
		w = sc
		if c.Transport == "sctp-conn" {
			mux := diam.NewServeMux()
			mux.HandleFunc("ALL", func(diam.Conn, *diam.Message) {})
			conn, err := diam.NewConn(sc, "", mux, dict.Default)
			if err != nil {
				return ev.Failf("harness-conn", "NewConn: %v", err)
			}
			w = conn
		}
	case "conn":
		mc = memnet.NewConn()
		mc.WriteHook = p.write
		conn, err := serveConn(mc)
		if err != nil {
			return ev.Failf("harness-conn", "NewConn: %v", err)
		}
		w = conn
	case "server-conn":
		// a connection ACCEPTED by a Server that has a WriteTimeout; temporary faults look like expired deadlines
		mc = memnet.NewConn()
		p.timeouts = true
		got := make(chan diam.Conn, 1)
		mux := diam.NewServeMux()
		mux.HandleFunc("ALL", func(cn diam.Conn, _ *diam.Message) {
			select {
			case got <- cn:
			default:
			}
		})
		lis := memnet.NewListener(1)
		srv := &diam.Server{Handler: mux, Dict: dict.Default, WriteTimeout: 10 * time.Second}
		go srv.Serve(lis)
		defer lis.Close()
		lis.Push(mc)
		hello := abstractMsg(50, 0, 0)
		mc.Feed(hello.RefBytes())
		select {
		case w = <-got:
		case <-time.After(5 * time.Second):
			mc.Close()
			return ev.Failf("harness-conn", "the served connection did not dispatch its first request within 5 s")
		}
		mc.WriteHook = p.write
	default:
		return ev.Failf("harness-case", "unknown transport %q", c.Transport)
	}
	f := checkFault(c, w, p, want, &a, ref, &follow, followRef)
	if mc != nil {
		if f2 := finish(mc); f == nil {
			f = f2
		}
	}
	return f
}

func checkFault(c FaultCase, w io.Writer, p *planner, want outcome, a *gen.Msg, ref []byte, follow *gen.Msg, followRef []byte) *ev.Failure {
	m := diamMsg(a)
	var n int64
	var err error
	switch {
	case c.Transport == "stream" || c.Transport == "sctp" || c.Transport == "sctp-conn":
		var k int
		k, err = m.WriteToStreamWithRetry(w, uint(c.Stream), budget(c.Budget, c.Retries))
		n = int64(k)
	case c.Retries == 0 && c.Budget == "" && c.Fill%2 == 0:
		n, err = m.WriteTo(w)
	default:
		n, err = m.WriteToWithRetry(w, budget(c.Budget, c.Retries))
	}
	p.mu.Lock()
	record := append([]byte{}, p.record...)
	badOff, calls := p.badOff, p.calls
	p.mu.Unlock()
	desc := fmt.Sprintf("%d-byte message, plan %v, retries %d%s, transport %s", len(ref), c.Plan, c.Retries, c.Budget, c.Transport)

	if !bytes.HasPrefix(ref, record) {
		d := 0
		for d < len(record) && d < len(ref) && record[d] == ref[d] {
			d++
		}
		return ev.Failf("retry-resent-or-skipped-bytes", "%s: the %d bytes accepted by the transport are not a prefix of the message (first difference at offset %d, %d transport writes)", desc, len(record), d, calls)
	}
	if badOff != "" {
		return ev.Failf("retry-wrong-offset", "%s: %s", desc, badOff)
	}
	// a message is whole on ONE stream: every transport write of it, the retried ones included,
	// goes to the stream the caller named
	if c.Transport == "stream" || c.Transport == "sctp" || c.Transport == "sctp-conn" {
		p.mu.Lock()
		streams := append([]uint{}, p.streams...)
		p.mu.Unlock()
		for k, st := range streams {
			if st != uint(c.Stream) {
				return ev.Failf("retry-on-another-stream", "%s, written with WriteToStreamWithRetry to stream %d: transport write #%d went to stream %d (streams of all writes: %v)", desc, c.Stream, k+1, st, streams)
			}
		}
	}
	if want.success {
		if err != nil {
			sig := "retry-gave-up"
			if c.Transport == "conn" {
				// root cause from the input: a temporary fault on the transport
				// under the connection wrapper, within the retry budget
				sig = "retry-through-conn-stuck"
			}
			return ev.Failf(sig, "%s: %d temporary faults are within the budget, but the write failed with %q after %d transport writes; %d of %d bytes reached the transport", desc, want.tempsSeen, err, calls, len(record), len(ref))
		}
		if !bytes.Equal(record, ref) {
			return ev.Failf("retry-incomplete", "%s: the write returned n=%d err=nil but only %d of %d bytes reached the transport", desc, n, len(record), len(ref))
		}
		if int(n) != len(ref) {
			return ev.Failf("retry-count", "%s: the whole message reached the transport but the write returned n=%d", desc, n)
		}
	} else {
		if err == nil {
			return ev.Failf("fault-swallowed", "%s: the plan ends in a fault outside the budget (%s) but the write returned n=%d err=nil; %d of %d bytes reached the transport in %d writes", desc, want.why, n, len(record), len(ref), calls)
		}
		return nil
	}
	if !c.Follow || !want.planDone {
		return nil
	}
	// the connection is usable after a write that succeeded through retries
	fm := diamMsg(follow)
	n, err = fm.WriteTo(w)
	p.mu.Lock()
	record = append([]byte{}, p.record...)
	badOff = p.badOff
	p.mu.Unlock()
	if err != nil || int(n) != len(followRef) {
		sig := "next-message-failed"
		if c.Transport == "conn" {
			sig = "retry-through-conn-stuck"
		}
		return ev.Failf(sig, "%s: the message after the retried one returned n=%d err=%v (want %d, nil)", desc, n, err, len(followRef))
	}
	if !bytes.Equal(record, p.expect) || badOff != "" {
		return ev.Failf("next-message-garbled", "%s: after the retried message the next one did not reach the transport whole, exactly once (%d bytes recorded, want %d) %s", desc, len(record), len(p.expect), badOff)
	}
	return nil
}

func classifyFault(c FaultCase) (bool, []string) {
	var cl classSet
	o := model(msgLen(c.Fill), c.Plan, c.modelRetries())
	cl.add("transport:" + c.Transport)
	cl.add(sizeClass(c.Fill))
	switch {
	case o.success && o.tempsSeen == 0:
		cl.add("outcome:success-no-fault")
	case o.success:
		cl.add("outcome:success-after-retries")
		cl.add(fmt.Sprintf("retries-used:%d", o.tempsSeen))
	default:
		cl.add("outcome:error-" + o.why)
	}
	switch {
	case c.Budget != "":
		cl.add("budget:" + c.Budget)
	case c.Retries < len(c.Plan):
		cl.add("budget<plan")
	case c.Retries == len(c.Plan):
		cl.add("budget=plan")
	default:
		cl.add("budget>plan")
	}
	if o.partial {
		cl.add("partial-accept")
	}
	if o.zero {
		cl.add("zero-accept")
	}
	if o.allBut {
		cl.add("fault-after-accepting-all")
	}
	if o.success && o.planDone && c.Follow {
		cl.add("follow-up-message")
	}
	return o.partial, cl.list
}

const faultRule = "one message (sizes below/at/above 1 KiB and 4 KiB) written with a retry budget R to a transport following a plan [(k1,kind1),...] of (bytes accepted, temporary | plain | permanent-net error) outcomes with 0 <= ki <= remaining, then success; R on both sides of the plan length; the model 'send what remains, on a temporary error with budget left send what remains again' decides success (record == message, n == len, err == nil, and a following message arrives whole) or failure (err != nil, record is a prefix); non-trivial = a write reached by the model accepts 0 < k < offered"

var faultProp = ev.Register(&ev.Prop[FaultCase]{
	ID: "C07", Name: "faults",
	Rule: "transports: plain io.Writer and a MultistreamWriter; " + faultRule,
	Gen:  genFaultCase([]string{"writer", "stream"}), Run: runFault, Classify: classifyFault,
})

var faultSCTPProp = ev.Register(&ev.Prop[FaultCase]{
	ID: "C07", Name: "faults-sctp",
	Rule: "transports: a diam.SCTPConn over an in-memory association whose writes follow the plan, bare and behind diam.NewConn; " + faultRule,
	Gen:  genFaultCase([]string{"sctp", "sctp-conn"}), Run: runFault, Classify: classifyFault,
})

var faultConnProp = ev.Register(&ev.Prop[FaultCase]{
	ID: "C07", Name: "faults-conn",
	Rule: "transport: the diam.Conn returned by diam.NewConn over a memnet.Conn whose Write follows the plan, or (1 in 3) the Conn of a connection accepted by a Server with a WriteTimeout whose temporary faults are timeout errors; " + faultRule,
	Gen:  genFaultCase([]string{"conn", "conn", "server-conn"}), Run: runFault, Classify: classifyFault,
})

func TestC07Concurrent(t *testing.T) {
	dynRec = concProp.Rec(t)
	defer func() { dynRec = nil }()
	concProp.Check(t, 400, 10000)
}
func TestC07Faults(t *testing.T)     { faultProp.Check(t, 2400, 120000) }
func TestC07FaultsConn(t *testing.T) { faultConnProp.Check(t, 1600, 80000) }
func TestC07FaultsSCTP(t *testing.T) { faultSCTPProp.Check(t, 1200, 60000) }
func TestC07Keep(t *testing.T)       { ev.RunKeep(t, "C07") }
func TestReplay(t *testing.T)        { ev.Replay(t) }

// The minimal histories behind the finding "retry released the connection between attempts":
// two writers with WriteToWithRetry, the first transport write accepts a prefix, waits until the
// other writer has its write under way and reports a temporary error.
func TestC07RetryKeepsTheConnection(t *testing.T) {
	concProp.Enumerate(t, false, func(yield func(ConcCase) bool) {
		for _, fill := range []int{0, 100, 1200, 5000} {
			for _, prefix := range []int{1, 100, 500, 999} {
				for _, writers := range [][][]int{{{fill}, {fill}}, {{fill, 8}, {fill}, {40}}} {
					c := ConcCase{Writers: writers, Retries: 8, Stream0: prefix%2 == 0,
						Stalls: []Stall{{Prefix: prefix, Kind: "pending", K: 5, Fault: true}, {Prefix: 1000, Kind: "none"}, {Prefix: 1000, Kind: "none"}}}
					if !yield(c) {
						return
					}
				}
			}
		}
	})
}

// ---------------------------------------------------------------------------
// part (c): a handle that outlives its connection. The diam.Conn of a connection whose peer has
// gone is still held by the application (a session table, a relay) and written to later on,
// while newer connections are in use: whatever those stale writes return, nothing of them may
// reach another connection's transport, and the newer connections' own messages still arrive
// whole, once, in order.

type StaleCase struct {
	Conns  int   `json:"conns"`   // connections opened one after the other (2..4); all but the last have ended when the last is used
	Fills  []int `json:"fills"`   // filler sizes of the messages written to the live connection
	StaleK int   `json:"stale_k"` // a write to every stale handle happens before the StaleK-th live write (and once at the end)
	Retry  bool  `json:"retry"`   // writers use WriteToWithRetry
}

func runStale(c StaleCase) *ev.Failure {
	runtime.GC() // start from empty pools: what the library pools, if anything, comes from this case
	runtime.GC()
	var handles []diam.Conn
	var transports []*memnet.Conn
	for i := 0; i < c.Conns; i++ {
		mc := memnet.NewConn()
		mc.Remote = memnet.Addr{Net: "tcp", Str: fmt.Sprintf("10.9.3.%d:40000", i+1)}
		conn, err := serveConn(mc)
		if err != nil {
			return ev.Failf("harness-conn", "NewConn: %v", err)
		}
		handles, transports = append(handles, conn), append(transports, mc)
		if i < c.Conns-1 {
			a := abstractMsg(10+i, 0, 20)
			if _, err := diamMsg(&a).WriteTo(conn); err != nil {
				return ev.Failf("harness-write", "connection %d: %v", i, err)
			}
			if f := finish(mc); f != nil { // the peer goes away, the serving loop ends
				return f
			}
		}
	}
	live, liveT := handles[c.Conns-1], transports[c.Conns-1]
	before := make([]int, c.Conns)
	for i, mc := range transports {
		before[i] = len(mc.Written())
	}
	writeStale := func(round int) {
		for i := 0; i < c.Conns-1; i++ {
			a := abstractMsg(50+i, round, 33)
			m := diamMsg(&a)
			func() {
				defer func() { recover() }()
				if c.Retry {
					m.WriteToWithRetry(handles[i], 2)
				} else {
					m.WriteTo(handles[i])
				}
			}()
		}
	}
	var want [][]byte
	for s, fill := range c.Fills {
		if s == c.StaleK {
			writeStale(s)
		}
		a := abstractMsg(0, s, fill)
		want = append(want, a.RefBytes())
		var n int64
		var err error
		if c.Retry {
			n, err = diamMsg(&a).WriteToWithRetry(live, 2)
		} else {
			n, err = diamMsg(&a).WriteTo(live)
		}
		if err != nil || int(n) != len(a.RefBytes()) {
			return ev.Failf("writer-error", "message %d written to the live connection (while %d earlier connections of the process have ended and their handles were written to): n=%d err=%v, want %d bytes and no error", s, c.Conns-1, n, err, len(a.RefBytes()))
		}
	}
	writeStale(len(c.Fills))
	stream := liveT.Written()[before[c.Conns-1]:]
	f := finish(liveT)
	msgs, tail, err := refcodec.SplitMessages(stream)
	if err != nil || len(tail) != 0 || len(msgs) != len(want) {
		return ev.Failf("stream-garbled", "the live connection's transport received %d bytes that split into %d messages (%d trailing bytes, err %v); %d messages were written to it - writes to handles of connections that had ended went on meanwhile", len(stream), len(msgs), len(tail), err, len(want))
	}
	for i := range want {
		if !bytes.Equal(msgs[i], want[i]) {
			return ev.Failf("message-corrupted", "message %d on the live connection's transport is not the %d-th message written to it (header %x): something written to the handle of a connection that had ended arrived here", i, i, msgs[i][:20])
		}
	}
	return f
}

var staleProp = ev.Register(&ev.Prop[StaleCase]{
	ID: "C07", Name: "stale-handles",
	Rule: "2..4 connections opened one after the other in one process; all but the last have ended (peer EOF) when the last one is used; 1..6 messages (sizes around 1 KiB and 4 KiB) are written to the live connection while messages are also written to the handles of the ended ones; the live transport must receive exactly its own messages, whole, once, in order, and its writes must succeed; every case non-trivial",
	Gen: func(t *rapid.T) StaleCase {
		c := StaleCase{Conns: rapid.IntRange(2, 4).Draw(t, "conns"), Retry: rapid.Bool().Draw(t, "retry")}
		n := rapid.IntRange(1, 6).Draw(t, "messages")
		for i := 0; i < n; i++ {
			c.Fills = append(c.Fills, genFill(t, "fill"))
		}
		c.StaleK = rapid.IntRange(0, n).Draw(t, "stale-at")
		return c
	},
	Run: runStale,
	Classify: func(c StaleCase) (bool, []string) {
		return true, []string{fmt.Sprintf("ended-connections:%d", c.Conns-1)}
	},
})

func TestC07StaleHandles(t *testing.T) { staleProp.Check(t, 150, 5000) }
