// C17 - Dictionary lookups resolve through the application, its parents,
// then base.
//
// Oracle: the independent dictionary model internal/refdict, fed with the
// same XML documents in the same order as the parser under test. Five parts:
//
//	c17_test.go    the single-lookup comparison (shared) and part 1: the
//	               exhaustive grid over the embedded dictionaries (dict.Default)
//	sets_test.go   part 2: generated dictionary sets loaded in every order
//	               into fresh parsers; model comparison + monotonicity
//	types_test.go  part 3: every type name the parser accepts loads, decodes
//	               and encodes (DecodeAVP / NewAVP)
//	marshal_test.go        ... and is encoded by Message.Marshal from a struct
//	               field and given back by Unmarshal
//	consts_test.go part 4: exported code constants vs the embedded XML
//	default_test.go part 5: documents loaded into dict.Default itself (before
//	               / after its first use), each case in a child process
//
// What is consciously NOT asserted (the statement is silent):
//   - which of two differing definitions of the same key inside ONE document
//     wins (both are accepted; across documents the later document must win);
//   - name and vendor id of the placeholder returned for an undefined code
//     (only: non-nil, carries the queried code, type Unknown, error set);
//   - lookups of an undefined code given as Go int (only uint32 codes are
//     looked up by the decoder; the library returns nothing for int);
//   - that a Load which the library refuses (duplicate command, unknown type
//     name) returns an error, and what such a Load leaves behind: after a
//     refused Load only monotonicity is asserted for that parser;
//   - which definition a command defined twice resolves to;
//   - App(id, type) when the id was loaded both untyped and with other types,
//     and monotonicity of the (id, type) pair (only of the id).
package c17

import (
	"fmt"
	"math"
	"sync"
	"testing"

	"github.com/fiorix/go-diameter/v4/diam/datatype"
	"github.com/fiorix/go-diameter/v4/diam/dict"

	"verif/internal/dicts"
	"verif/internal/ev"
	"verif/internal/refdict"
)

// Lookup is one query against a parser. Vendor 4294967295 is the any-vendor
// wildcard (dict.UndefinedVendorID).
type Lookup struct {
	Kind   string `json:"kind"` // code | name | cmd | app
	App    uint32 `json:"app"`
	Code   uint32 `json:"code,omitempty"`
	Name   string `json:"name,omitempty"`
	Vendor uint32 `json:"vendor,omitempty"`
	Typed  bool   `json:"typed,omitempty"` // app: App(id, Typ) instead of App(id)
	Typ    string `json:"typ,omitempty"`
}

func (q Lookup) String() string {
	switch q.Kind {
	case "code":
		return fmt.Sprintf("FindAVPWithVendor(app %d, code %d, vendor %d)", q.App, q.Code, q.Vendor)
	case "name":
		return fmt.Sprintf("FindAVPWithVendor(app %d, name %q, vendor %d)", q.App, q.Name, q.Vendor)
	case "cmd":
		return fmt.Sprintf("FindCommand(app %d, code %d)", q.App, q.Code)
	}
	if q.Typed {
		return fmt.Sprintf("App(%d, %q)", q.App, q.Typ)
	}
	return fmt.Sprintf("App(%d)", q.App)
}

func (q Lookup) hash() uint64 {
	return ev.HashBytes([]byte(fmt.Sprintf("%s|%d|%d|%s|%d|%t|%s", q.Kind, q.App, q.Code, q.Name, q.Vendor, q.Typed, q.Typ)))
}

// profile describes, from the model alone, how a lookup resolves: it gives
// the root-cause signature of a failure (computed from the input, never from
// the library's answer), the classes and the non-triviality of the case.
type profile struct {
	sig        string
	classes    []string
	nontrivial bool
}

func avpProfile(kind string, q Lookup, r refdict.Resolution) profile {
	p := profile{}
	how := "exact-vendor"
	if q.Vendor == refdict.AnyVendor {
		how = "wildcard"
	}
	var where string
	switch {
	case !r.Found && kind == "code":
		where = "placeholder"
	case !r.Found:
		where = "undefined-name"
	case r.Hops == 0:
		where = "own-level"
	case r.Level == 0:
		where = "base-fallback"
	default:
		where = "parent-fallback"
	}
	p.sig = kind + "-lookup:" + where + ":" + how
	p.classes = []string{"avp-by-" + kind, where, how}
	if r.Found && r.Hops >= 2 {
		p.classes = append(p.classes, fmt.Sprintf("hops:%d", r.Hops))
	}
	if r.Contested {
		p.classes = append(p.classes, "contested(>=2 vendors or levels)")
	}
	if r.OtherVendorOnly {
		p.classes = append(p.classes, "defined-for-other-vendor-only")
	}
	if len(r.Alt) > 0 {
		p.classes = append(p.classes, "same-document-alternatives")
	}
	p.nontrivial = (r.Found && r.Hops > 0) || r.Contested
	return p
}

func lookupProfile(m *refdict.Model, q Lookup) profile {
	switch q.Kind {
	case "code":
		return avpProfile("code", q, m.FindAVPByCode(q.App, q.Code, q.Vendor))
	case "name":
		return avpProfile("name", q, m.FindAVPByName(q.App, q.Name, q.Vendor))
	case "cmd":
		defs, fb := m.FindCommand(q.App, q.Code)
		switch {
		case len(defs) == 0:
			return profile{sig: "cmd-lookup:undefined", classes: []string{"command", "undefined"}}
		case fb:
			return profile{sig: "cmd-lookup:base-fallback", classes: []string{"command", "base-fallback"}, nontrivial: true}
		}
		return profile{sig: "cmd-lookup:own-level", classes: []string{"command", "own-level"}, nontrivial: len(defs) > 1}
	}
	if !q.Typed {
		n := len(m.App(q.App))
		if n == 0 {
			return profile{sig: "app-lookup:unknown-id", classes: []string{"application", "unknown-id"}}
		}
		return profile{sig: "app-lookup:id", classes: []string{"application", "by-id"}, nontrivial: n > 1}
	}
	v, cands := m.AppTyped(q.App, q.Typ)
	p := profile{sig: "app-lookup:typed:" + v.String(), classes: []string{"application", "typed:" + v.String()}}
	if v == refdict.Yes && len(cands) > 0 && cands[0].Type != q.Typ {
		p.classes = append(p.classes, "typed-through-untyped-element")
		p.nontrivial = true
	}
	if len(m.App(q.App)) > 1 {
		p.nontrivial = true
	}
	return p
}

// describe renders what the library returned.
func describe(a *dict.AVP, err error) string {
	if a == nil {
		return fmt.Sprintf("(nil, err=%v)", err)
	}
	app := "nil"
	if a.App != nil {
		app = fmt.Sprint(a.App.ID)
	}
	return fmt.Sprintf("({app %s code %d name %q vendor %d type %s}, err=%v)", app, a.Code, a.Name, a.VendorID, a.Data.TypeName, err)
}

// checkAVP compares one answer of the library with the model's resolution.
// placeholder: an undefined key must yield the Unknown placeholder (uint32
// codes); otherwise an undefined key must yield an error.
func checkAVP(callf func() string, r refdict.Resolution, got *dict.AVP, err error, placeholder, strictUndefined bool) string {
	call := lazy(callf)
	if r.Found {
		if err != nil || got == nil {
			return fmt.Sprintf("%s: the model resolves it to %v (level %d), the library returned %s", call, r.Def, r.Level, describe(got, err))
		}
		d := &refdict.AVPDef{App: r.Def.App, Name: got.Name, Code: got.Code, Vendor: got.VendorID, Type: got.Data.TypeName}
		if got.App != nil {
			d.App = got.App.ID
		}
		if !r.Accepts(d) {
			alt := ""
			if len(r.Alt) > 0 {
				alt = fmt.Sprintf(" (or one of %d alternatives of the same document)", len(r.Alt))
			}
			return fmt.Sprintf("%s: expected %v%s, the library returned %s", call, r.Def, alt, describe(got, err))
		}
		return ""
	}
	// undefined
	if placeholder {
		if got == nil || err == nil {
			return fmt.Sprintf("%s: undefined code: expected an Unknown placeholder together with an error, the library returned %s", call, describe(got, err))
		}
		if got.Data.TypeName != "Unknown" || got.Data.Type != datatype.UnknownType {
			return fmt.Sprintf("%s: undefined code: the placeholder must be of type Unknown, the library returned %s (type id %d)", call, describe(got, err), got.Data.Type)
		}
		return ""
	}
	if err == nil && got != nil {
		return fmt.Sprintf("%s: the model has no matching definition on the chain %v, the library returned %s", call, "app->parents->0", describe(got, err))
	}
	if strictUndefined && err == nil {
		return fmt.Sprintf("%s: undefined, but the library reported no error (%s)", call, describe(got, err))
	}
	return ""
}

// lazy defers the rendering of a call to the moment a message needs it
// (the grids make millions of lookups, nearly all of which agree).
type lazy func() string

func (l lazy) String() string { return l() }

// checkLookup runs one query against parser and model.
func checkLookup(p *dict.Parser, m *refdict.Model, q Lookup) *ev.Failure {
	fail := func(d string) *ev.Failure {
		if d == "" {
			return nil
		}
		return ev.Failf(lookupProfile(m, q).sig, "%s", d)
	}
	switch q.Kind {
	case "code":
		r := m.FindAVPByCode(q.App, q.Code, q.Vendor)
		got, err := p.FindAVPWithVendor(q.App, q.Code, q.Vendor)
		if !r.Found && got != nil && got.Code != q.Code {
			return fail(fmt.Sprintf("%v: the placeholder carries code %d", q, got.Code))
		}
		if f := fail(checkAVP(q.String, r, got, err, true, true)); f != nil {
			return f
		}
		if q.Code <= math.MaxInt32 {
			// the same code as a Go int: must agree when defined; the shape
			// of the answer for an undefined int code is not asserted
			got, err = p.FindAVPWithVendor(q.App, int(q.Code), q.Vendor)
			if f := fail(checkAVP(func() string { return q.String() + "[int code]" }, r, got, err, false, false)); f != nil {
				return f
			}
		}
		if q.Vendor == refdict.AnyVendor {
			got, err = p.FindAVP(q.App, q.Code)
			if f := fail(checkAVP(func() string { return fmt.Sprintf("FindAVP(app %d, code %d)", q.App, q.Code) }, r, got, err, true, true)); f != nil {
				return f
			}
		}
	case "name":
		r := m.FindAVPByName(q.App, q.Name, q.Vendor)
		got, err := p.FindAVPWithVendor(q.App, q.Name, q.Vendor)
		if f := fail(checkAVP(q.String, r, got, err, false, true)); f != nil {
			return f
		}
		if q.Vendor == refdict.AnyVendor {
			got, err = p.FindAVP(q.App, q.Name)
			if f := fail(checkAVP(func() string { return fmt.Sprintf("FindAVP(app %d, name %q)", q.App, q.Name) }, r, got, err, false, true)); f != nil {
				return f
			}
		}
	case "cmd":
		defs, _ := m.FindCommand(q.App, q.Code)
		got, err := p.FindCommand(q.App, q.Code)
		if len(defs) == 0 {
			if err == nil {
				return fail(fmt.Sprintf("%v: neither the application nor the base application defines it, the library returned %v", q, got))
			}
			return nil
		}
		if err != nil || got == nil {
			return fail(fmt.Sprintf("%v: expected %+v, the library returned (%v, err=%v)", q, *defs[0], got, err))
		}
		for _, d := range defs {
			if d.Code == got.Code && d.Name == got.Name && d.Short == got.Short {
				return nil
			}
		}
		return fail(fmt.Sprintf("%v: expected %+v, the library returned {code %d name %q short %q}", q, *defs[0], got.Code, got.Name, got.Short))
	case "app":
		var (
			want  refdict.Verdict
			cands []*refdict.AppDef
			got   *dict.App
			err   error
		)
		if q.Typed {
			want, cands = m.AppTyped(q.App, q.Typ)
			got, err = p.App(q.App, q.Typ)
		} else {
			cands = m.App(q.App)
			want = refdict.No
			if len(cands) > 0 {
				want = refdict.Yes
			}
			got, err = p.App(q.App)
		}
		found := err == nil && got != nil
		if want == refdict.No && found {
			return fail(fmt.Sprintf("%v: nothing loaded supports it, the library returned {id %d type %q name %q}", q, got.ID, got.Type, got.Name))
		}
		if want == refdict.Yes && !found {
			return fail(fmt.Sprintf("%v: expected {id %d type %q name %q}, the library returned (%v, err=%v)", q, cands[0].ID, cands[0].Type, cands[0].Name, got, err))
		}
		if found {
			if want == refdict.Unspecified {
				cands = m.App(q.App)
			}
			for _, c := range cands {
				if c.ID == got.ID && c.Type == got.Type && c.Name == got.Name {
					return nil
				}
			}
			return fail(fmt.Sprintf("%v: the library returned {id %d type %q name %q}, which is none of the %d acceptable loaded elements", q, got.ID, got.Type, got.Name, len(cands)))
		}
	default:
		return ev.Failf("harness-case", "unknown lookup kind %q", q.Kind)
	}
	return nil
}

// ---------------------------------------------------------------------------
// part 1: dict.Default against the model of the embedded documents

type embEnv struct {
	model   *refdict.Model
	keys    refdict.Keys
	apps    []uint32 // loaded ids, their relatives, unrelated ids
	vendors []uint32 // wildcard, 0, each defined vendor, an undefined vendor
	err     error
}

var (
	embOnce sync.Once
	emb     embEnv
)

const undefinedVendor = 99999

func embedded() *embEnv {
	embOnce.Do(func() {
		docs, err := dicts.EmbeddedXML()
		if err != nil {
			emb.err = err
			return
		}
		m := refdict.New()
		unloadedApps := map[uint32]bool{}
		for _, d := range docs {
			if !d.Loaded {
				// defined in default.go but not loaded by init(): its
				// applications serve as realistic unrelated ids
				x := refdict.New()
				x.Load(d.XML)
				for _, a := range x.Keys().Apps {
					unloadedApps[a] = true
				}
				continue
			}
			if iss := m.Load(d.XML); len(iss) > 0 {
				emb.err = fmt.Errorf("the model finds fault with embedded document %s: %+v", d.Var, iss)
				return
			}
		}
		emb.model = m
		emb.keys = m.Keys()
		emb.apps, emb.vendors = grid(m, unloadedApps)
	})
	return &emb
}

// grid derives the application and vendor axes of the lookup grid of a model.
func grid(m *refdict.Model, extraApps map[uint32]bool) (apps, vendors []uint32) {
	k := m.Keys()
	aset := map[uint32]bool{}
	for _, a := range k.Apps {
		for _, r := range refdict.Related(a) {
			aset[r] = true
		}
	}
	// every application with a static parent, even when nothing was loaded for it
	for _, a := range []uint32{0, 1, 4, 16777238, 16777251} {
		aset[a] = true
	}
	for a := range extraApps {
		aset[a] = true
	}
	for _, a := range []uint32{999, 4294967294} { // unrelated ids
		aset[a] = true
	}
	for a := range aset {
		apps = append(apps, a)
	}
	sortU32(apps)
	vendors = []uint32{refdict.AnyVendor, 0}
	def := map[uint32]bool{refdict.AnyVendor: true, 0: true}
	for _, v := range k.Vendors {
		if !def[v] {
			def[v] = true
			vendors = append(vendors, v)
		}
	}
	u := uint32(undefinedVendor)
	for def[u] {
		u++
	}
	vendors = append(vendors, u)
	return apps, vendors
}

func sortU32(s []uint32) {
	for i := 1; i < len(s); i++ {
		for j := i; j > 0 && s[j] < s[j-1]; j-- {
			s[j], s[j-1] = s[j-1], s[j]
		}
	}
}

// codesWithNeighbours returns every defined code plus code-1 / code+1 where
// those are undefined (the absent neighbours).
func codesWithNeighbours(defined []uint32) (codes []uint32, absent map[uint32]bool) {
	def := map[uint32]bool{}
	for _, c := range defined {
		def[c] = true
	}
	absent = map[uint32]bool{}
	seen := map[uint32]bool{}
	add := func(c uint32) {
		if !seen[c] {
			seen[c] = true
			codes = append(codes, c)
			if !def[c] {
				absent[c] = true
			}
		}
	}
	for _, c := range defined {
		add(c)
		if c > 0 {
			add(c - 1)
		}
		if c < math.MaxUint32 {
			add(c + 1)
		}
	}
	for _, c := range []uint32{0, math.MaxUint32, math.MaxInt32, math.MaxInt32 + 1} {
		add(c)
	}
	return codes, absent
}

// enumerate yields the full lookup grid of a model.
func enumerate(m *refdict.Model, apps, vendors []uint32, yield func(Lookup) bool) {
	k := m.Keys()
	codes, _ := codesWithNeighbours(k.Codes)
	names := append(append([]string{}, k.Names...), "No-Such-AVP-Name")
	cmds, _ := codesWithNeighbours(k.Cmds)
	for _, app := range apps {
		for _, v := range vendors {
			for _, c := range codes {
				if !yield(Lookup{Kind: "code", App: app, Code: c, Vendor: v}) {
					return
				}
			}
			for _, n := range names {
				if !yield(Lookup{Kind: "name", App: app, Name: n, Vendor: v}) {
					return
				}
			}
		}
		for _, c := range cmds {
			if !yield(Lookup{Kind: "cmd", App: app, Code: c}) {
				return
			}
		}
		if !yield(Lookup{Kind: "app", App: app}) {
			return
		}
		for _, typ := range []string{"auth", "acct", "", "other"} {
			if !yield(Lookup{Kind: "app", App: app, Typed: true, Typ: typ}) {
				return
			}
		}
	}
}

const lookupRule = "non-trivial = the resolution needed a fallback (parent application or base) or a decision (the code/name is defined for >= 2 vendors or at >= 2 levels of the chain; command answered by the base application; application id loaded more than once or typed query answered by an untyped element); distinct by query"

var embProp = ev.Register(&ev.Prop[Lookup]{
	ID:   "C17",
	Name: "embedded",
	Rule: "EXHAUSTIVE grid over dict.Default vs the model fed with the XML documents of dict/default.go in init() order: (every loaded application id + its parents/children + unrelated ids) x (wildcard, 0, every defined vendor, an undefined vendor) x (every defined code, its undefined neighbours code+-1, 0, 2^31-1, 2^31, 2^32-1, every defined name, an absent name), FindCommand for every (application, command code and neighbours), App(id) and App(id, auth|acct|''|other); " + lookupRule,
	Run: func(q Lookup) *ev.Failure {
		e := embedded()
		if e.err != nil {
			return ev.Failf("harness-embedded", "%v", e.err)
		}
		return checkLookup(dict.Default, e.model, q)
	},
	Classify: func(q Lookup) (bool, []string) {
		e := embedded()
		if e.err != nil {
			return false, []string{"harness-error"}
		}
		p := lookupProfile(e.model, q)
		return p.nontrivial, p.classes
	},
	Hash: func(q Lookup) uint64 { return q.hash() },
})

func TestC17Embedded(t *testing.T) {
	e := embedded()
	if e.err != nil {
		t.Fatalf("harness: %v", e.err)
	}
	rec := embProp.Rec(t)
	rec.Note("embedded grid: applications %v, vendors %v, %d codes, %d names, %d AVP definitions, %d commands in %d documents",
		e.apps, e.vendors, len(e.keys.Codes), len(e.keys.Names), len(e.model.AVPs), len(e.model.Cmds), e.model.Files())
	embProp.Enumerate(t, true, func(yield func(Lookup) bool) { enumerate(e.model, e.apps, e.vendors, yield) })
}

func TestReplay(t *testing.T) { ev.Replay(t) }

// Regression cases kept from shrunk failures.
func TestC17Keep(t *testing.T) { ev.RunKeep(t, "C17") }
