package c17

// Part 3, second half: the struct encoder. Message.Marshal chooses the wire
// representation of a field from the TYPE NAME the dictionary declares for the
// AVP named in the field's tag (a table from type id to Go type, separate from
// datatype.Available and datatype.Decoder), and Message.Unmarshal stores the
// decoded value back into the field. "Every data type name a dictionary may
// declare can be both encoded and decoded" is therefore also demanded of this
// encoder, for every key of datatype.Available:
//
//	struct with one field tagged T-Under-Test --Marshal--> message --WriteTo-->
//	bytes == reference encoding of the value --ReadMessage--> AVP of the declared
//	type id, payload length and payload --Unmarshal--> the value again.
//
// Flags are not asserted here (which flag bits Marshal derives from the
// dictionary belongs to C18): the reference image is built with the flags the
// marshalled AVP carries, after checking that the V bit agrees with the
// vendor id.

import (
	"bytes"
	"fmt"
	"math"
	"net"
	"reflect"
	"time"

	"github.com/fiorix/go-diameter/v4/diam"
	"github.com/fiorix/go-diameter/v4/diam/datatype"
	"github.com/fiorix/go-diameter/v4/diam/dict"

	"verif/internal/ev"
	"verif/internal/gen"
	"verif/internal/refcodec"
)

const (
	marshalCmd = 8388000

	ShapeDatatype = ""       // the field has the datatype.* type of the declared name
	ShapeNative   = "native" // the field has the plain Go type that holds every value of the type
)

// dtGoTypes: the library's Go type per type name.
var dtGoTypes = map[string]reflect.Type{
	gen.TOctetString:      reflect.TypeOf(datatype.OctetString("")),
	gen.TUTF8String:       reflect.TypeOf(datatype.UTF8String("")),
	gen.TDiameterIdentity: reflect.TypeOf(datatype.DiameterIdentity("")),
	gen.TDiameterURI:      reflect.TypeOf(datatype.DiameterURI("")),
	gen.TIPFilterRule:     reflect.TypeOf(datatype.IPFilterRule("")),
	gen.TQoSFilterRule:    reflect.TypeOf(datatype.QoSFilterRule("")),
	gen.TUnsigned32:       reflect.TypeOf(datatype.Unsigned32(0)),
	gen.TUnsigned64:       reflect.TypeOf(datatype.Unsigned64(0)),
	gen.TInteger32:        reflect.TypeOf(datatype.Integer32(0)),
	gen.TInteger64:        reflect.TypeOf(datatype.Integer64(0)),
	gen.TEnumerated:       reflect.TypeOf(datatype.Enumerated(0)),
	gen.TFloat32:          reflect.TypeOf(datatype.Float32(0)),
	gen.TFloat64:          reflect.TypeOf(datatype.Float64(0)),
	gen.TTime:             reflect.TypeOf(datatype.Time{}),
	gen.TAddress:          reflect.TypeOf(datatype.Address(nil)),
	gen.TIPv4:             reflect.TypeOf(datatype.IPv4(nil)),
	gen.TIPv6:             reflect.TypeOf(datatype.IPv6(nil)),
}

// nativeGoTypes: the plain Go type that represents every value of the type
// name without loss (Go converts it to the datatype.* type and back).
var nativeGoTypes = map[string]reflect.Type{
	gen.TOctetString:      reflect.TypeOf(""),
	gen.TUTF8String:       reflect.TypeOf(""),
	gen.TDiameterIdentity: reflect.TypeOf(""),
	gen.TDiameterURI:      reflect.TypeOf(""),
	gen.TIPFilterRule:     reflect.TypeOf(""),
	gen.TQoSFilterRule:    reflect.TypeOf(""),
	gen.TUnsigned32:       reflect.TypeOf(uint32(0)),
	gen.TUnsigned64:       reflect.TypeOf(uint64(0)),
	gen.TInteger32:        reflect.TypeOf(int32(0)),
	gen.TInteger64:        reflect.TypeOf(int64(0)),
	gen.TEnumerated:       reflect.TypeOf(int32(0)),
	gen.TFloat32:          reflect.TypeOf(float32(0)),
	gen.TFloat64:          reflect.TypeOf(float64(0)),
	gen.TTime:             reflect.TypeOf(time.Time{}),
	gen.TAddress:          reflect.TypeOf(net.IP(nil)),
	gen.TIPv4:             reflect.TypeOf(net.IP(nil)),
	gen.TIPv6:             reflect.TypeOf(net.IP(nil)),
}

func fieldGoType(typ, shape string) reflect.Type {
	if shape == ShapeNative {
		return nativeGoTypes[typ]
	}
	return dtGoTypes[typ]
}

// isNaN: reflect conversions between float kinds may quiet a signalling NaN,
// so a NaN is only required to stay a NaN of the same width where a
// conversion is involved.
func isNaN(v gen.Val) bool {
	switch v.T {
	case gen.TFloat32:
		f := math.Float32frombits(uint32(v.U))
		return f != f
	case gen.TFloat64:
		f := math.Float64frombits(v.U)
		return f != f
	}
	return false
}

func tagged(name string, t reflect.Type, avpName string) reflect.StructField {
	return reflect.StructField{Name: name, Type: t, Tag: reflect.StructTag(fmt.Sprintf(`avp:"%s"`, avpName))}
}

// backToDatatype converts what Unmarshal stored in a field to the library
// type of the type name, so that it can be compared with the abstract value.
func backToDatatype(fv reflect.Value, typ string) (datatype.Type, string) {
	dt := dtGoTypes[typ]
	if !fv.Type().ConvertibleTo(dt) {
		return nil, fmt.Sprintf("a field of Go type %s does not convert to %s", fv.Type(), dt)
	}
	d, ok := fv.Convert(dt).Interface().(datatype.Type)
	if !ok {
		return nil, fmt.Sprintf("%s is not a datatype.Type", dt)
	}
	return d, ""
}

// equalAfterConversion compares a value that went through Go conversions.
func equalAfterConversion(v gen.Val, d datatype.Type) string {
	if isNaN(v) {
		switch g := d.(type) {
		case datatype.Float32:
			if v.T == gen.TFloat32 && g != g {
				return ""
			}
		case datatype.Float64:
			if v.T == gen.TFloat64 && g != g {
				return ""
			}
		}
		return fmt.Sprintf("type %s: want a NaN, got %T %#v", v.T, d, d)
	}
	return v.EqualDatatype(d)
}

// marshalPath runs the struct encoder / decoder over one TypeCase. p is the
// parser loaded with c.dictionary().
func marshalPath(c TypeCase, p *dict.Parser) *ev.Failure {
	sig := "type-marshal:" + c.Type
	id := datatype.Available[c.Type]
	shape := c.Shape
	if shape != ShapeNative {
		shape = ShapeDatatype
	}
	what := fmt.Sprintf("a struct field of Go type %%s tagged with the %s AVP of the dictionary", c.Type)

	// ---- the struct that is marshalled, and the one that is unmarshalled into
	var src, dst reflect.Value
	var goType string
	if c.Type == gen.TGrouped {
		// one member field per child, in order (child i is field C<i>)
		var members []reflect.StructField
		for i, ch := range c.Children {
			members = append(members, tagged(fmt.Sprintf("C%d", i), fieldGoType(ch.T, shape), "Child-"+ch.T))
		}
		inner := reflect.StructOf(members)
		st := reflect.StructOf([]reflect.StructField{tagged("V", inner, "T-Under-Test")})
		src = reflect.New(st)
		for i, ch := range c.Children {
			f := src.Elem().Field(0).Field(i)
			f.Set(reflect.ValueOf(ch.ToDatatype()).Convert(f.Type()))
		}
		// decoded into one slice per child type: all children of that type, in order
		var slots []reflect.StructField
		for i, t := range childTypes {
			slots = append(slots, tagged(fmt.Sprintf("S%d", i), reflect.SliceOf(fieldGoType(t, shape)), "Child-"+t))
		}
		dst = reflect.New(reflect.StructOf([]reflect.StructField{tagged("V", reflect.StructOf(slots), "T-Under-Test")}))
		goType = inner.String()
	} else {
		ft := fieldGoType(c.Type, shape)
		if ft == nil {
			return ev.Failf("harness-case", "no Go type known for type name %q", c.Type)
		}
		st := reflect.StructOf([]reflect.StructField{tagged("V", ft, "T-Under-Test")})
		src = reflect.New(st)
		src.Elem().Field(0).Set(reflect.ValueOf(c.V.ToDatatype()).Convert(ft))
		dst = reflect.New(st)
		goType = ft.String()
	}
	what = fmt.Sprintf(what, goType)

	// ---- encode
	m := diam.NewRequest(marshalCmd, 0, p)
	if err := m.Marshal(src.Interface()); err != nil {
		return ev.Failf(sig, "Marshal of %s fails: %v", what, err)
	}
	if len(m.AVP) != 1 || m.AVP[0] == nil || m.AVP[0].Data == nil {
		return ev.Failf(sig, "Marshal of %s produced %d AVPs, expected one", what, len(m.AVP))
	}
	sent := m.AVP[0]
	if sent.Code != typeCode || sent.VendorID != c.Vendor || (sent.Flags&0x80 != 0) != (c.Vendor != 0) {
		return ev.Failf(sig, "Marshal of %s: AVP header code %d vendor %d flags %#x, the dictionary declares code %d vendor %d", what, sent.Code, sent.VendorID, sent.Flags, typeCode, c.Vendor)
	}
	// (a decoded or marshalled group is a *diam.GroupedAVP, which has a type id of its own)
	if c.Type != gen.TGrouped && sent.Data.Type() != id {
		return ev.Failf(sig, "Marshal of %s encodes the value as data type id %d (%T), the name %q has id %d", what, sent.Data.Type(), sent.Data, c.Type, id)
	}
	// the reference image, with the flags Marshal chose
	n := &refcodec.Node{Code: typeCode, Flags: sent.Flags, Vendor: c.Vendor}
	if c.Type == gen.TGrouped {
		g, ok := sent.Data.(*diam.GroupedAVP)
		if !ok || len(g.AVP) != len(c.Children) {
			return ev.Failf(sig, "Marshal of %s: Data is %T with %d members, expected %d", what, sent.Data, groupLen(sent.Data), len(c.Children))
		}
		n.Group = true
		for i, ch := range c.Children {
			if g.AVP[i] == nil || g.AVP[i].Code != childCode(ch.T) || g.AVP[i].VendorID != 0 {
				return ev.Failf(sig, "Marshal of %s: member %d is %v, expected code %d", what, i, g.AVP[i], childCode(ch.T))
			}
			n.Children = append(n.Children, &refcodec.Node{Code: childCode(ch.T), Flags: g.AVP[i].Flags, Payload: ch.Payload()})
		}
	} else {
		n.Payload = c.V.Payload()
		if !isNaN(c.V) || shape == ShapeDatatype {
			if sent.Data.Len() != len(n.Payload) {
				return ev.Failf(sig, "Marshal of %s encodes %d payload bytes, the value takes %d", what, sent.Data.Len(), len(n.Payload))
			}
		}
	}
	var buf bytes.Buffer
	if _, err := m.WriteTo(&buf); err != nil {
		return ev.Failf(sig, "WriteTo of the message marshalled from %s fails: %v", what, err)
	}
	wire := append([]byte{}, buf.Bytes()...)
	want := refcodec.EncodeAVP(n)
	exact := c.Type == gen.TGrouped || !isNaN(c.V) || shape == ShapeDatatype
	if len(wire) != refcodec.HeaderLen+len(want) || (exact && !bytes.Equal(wire[refcodec.HeaderLen:], want)) {
		return ev.Failf(sig, "the message marshalled from %s differs from the reference encoding of the value:\n want % x\n got  % x", what, clip(want), clip(wire[min(len(wire), refcodec.HeaderLen):]))
	}

	// ---- decode
	got, err := diam.ReadMessage(bytes.NewReader(wire), p)
	if err != nil {
		return ev.Failf(sig, "the message marshalled from %s does not decode with the same dictionary: %v; AVP bytes % x", what, err, clip(wire[refcodec.HeaderLen:]))
	}
	if len(got.AVP) != 1 || got.AVP[0] == nil || got.AVP[0].Code != typeCode || got.AVP[0].VendorID != c.Vendor || got.AVP[0].Data == nil {
		return ev.Failf(sig, "the message marshalled from %s decodes to %d AVPs (%v), expected one of code %d vendor %d", what, len(got.AVP), got.AVP, typeCode, c.Vendor)
	}
	rcvd := got.AVP[0].Data
	if c.Type != gen.TGrouped && rcvd.Type() != id {
		return ev.Failf(sig, "the AVP marshalled from %s decodes to data type id %d (%T), the name %q has id %d", what, rcvd.Type(), rcvd, c.Type, id)
	}
	if c.Type == gen.TGrouped {
		g, ok := rcvd.(*diam.GroupedAVP)
		if !ok || len(g.AVP) != len(c.Children) {
			return ev.Failf(sig, "the Grouped AVP marshalled from %s decodes to %T with %d members, expected %d", what, rcvd, groupLen(rcvd), len(c.Children))
		}
		for i, ch := range c.Children {
			if g.AVP[i] == nil || g.AVP[i].Code != childCode(ch.T) {
				return ev.Failf(sig, "member %d decodes to %v, expected code %d", i, g.AVP[i], childCode(ch.T))
			}
			if d := equalAfterConversion(ch, g.AVP[i].Data); d != "" {
				return ev.Failf(sig, "member %d of the Grouped AVP marshalled from %s decodes differently: %s", i, what, d)
			}
		}
	} else {
		if rcvd.Len() != len(n.Payload) {
			return ev.Failf(sig, "the AVP marshalled from %s decodes to a value of %d payload bytes, a %s value of this kind takes %d", what, rcvd.Len(), c.Type, len(n.Payload))
		}
		if d := equalAfterConversion(c.V, rcvd); d != "" {
			return ev.Failf(sig, "the AVP marshalled from %s decodes differently: %s", what, d)
		}
	}

	// ---- Unmarshal on the receiving side
	if err := got.Unmarshal(dst.Interface()); err != nil {
		return ev.Failf(sig, "Unmarshal into %s fails: %v", what, err)
	}
	if c.Type == gen.TGrouped {
		for ti, t := range childTypes {
			var wantVals []gen.Val
			for _, ch := range c.Children {
				if ch.T == t {
					wantVals = append(wantVals, ch)
				}
			}
			s := dst.Elem().Field(0).Field(ti)
			if s.Len() != len(wantVals) {
				return ev.Failf(sig, "Unmarshal of the Grouped AVP: %d members of type %s were sent, the []%s field received %d", len(wantVals), t, s.Type().Elem(), s.Len())
			}
			for k, wv := range wantVals {
				d, msg := backToDatatype(s.Index(k), t)
				if msg != "" {
					return ev.Failf("harness-case", "%s", msg)
				}
				if dd := equalAfterConversion(wv, d); dd != "" {
					return ev.Failf(sig, "Unmarshal of the Grouped AVP: member %d of type %s: %s", k, t, dd)
				}
			}
		}
		return nil
	}
	d, msg := backToDatatype(dst.Elem().Field(0), c.Type)
	if msg != "" {
		return ev.Failf("harness-case", "%s", msg)
	}
	if dd := equalAfterConversion(c.V, d); dd != "" {
		return ev.Failf(sig, "Unmarshal into %s does not give the marshalled value back: %s", what, dd)
	}
	return nil
}

func groupLen(d datatype.Type) int {
	if g, ok := d.(*diam.GroupedAVP); ok && g != nil {
		return len(g.AVP)
	}
	return -1
}
