package c17

import (
	"bytes"
	"fmt"
	"os"
	"path/filepath"
	"strings"
	"testing"

	"github.com/fiorix/go-diameter/v4/diam/dict"
	"pgregory.net/rapid"

	"verif/internal/ev"
	"verif/internal/gen"
	"verif/internal/refdict"
)

// SetCase is a set of generated dictionary documents. Order is the drawn
// load order; every other permutation is run as well.
type SetCase struct {
	Files []gen.DictFile `json:"files"`
	Order []int          `json:"order"`
	// ViaFile: every document is written to a file of its own and loaded with Parser.LoadFile
	// instead of Parser.Load.
	ViaFile bool `json:"via_file,omitempty"`
	// Reload: after the order, its first document is loaded once more (an application that
	// re-reads a dictionary; with ViaFile: the same path, spelled dir/./name): it is then the most
	// recently loaded again.
	Reload bool `json:"reload,omitempty"`
}

// Small pools, so that documents overlap in applications, codes, names and
// vendors. Codes are adjacent so that "absent neighbours" of one document are
// defined by another.
var (
	setApps    = []uint32{0, 0, 0, 1, 4, 4, 4, 16777238, 16777251, 7, 1000}
	setCodes   = []uint32{10, 11, 12, 20, 264}
	setVendors = []uint32{0, 0, 0, 10415, 10415, 13}
	setNames   = []string{"A-One", "A-Two", "B-One", "Origin-Host"}
	setCmds    = []uint32{257, 272, 300, 301, 8388635}
	setTypes   = []string{"auth", "acct", ""}
	badTypes   = []string{"Foo", "unsigned32", "Unknown", "Integer16"}
)

func genSet(t *rapid.T) SetCase {
	var c SetCase
	nf := rapid.SampledFrom([]int{1, 2, 2, 3, 3, 3}).Draw(t, "n-files")
	// one set in six has a document with an undeclarable type name
	badFile := -1
	if rapid.IntRange(0, 5).Draw(t, "bad-type") == 0 {
		badFile = rapid.IntRange(0, nf-1).Draw(t, "bad-file")
	}
	cmdsOn := rapid.SampledFrom([]int{0, 1, 2, 2}).Draw(t, "commands") // 0: none, 1: few, 2: many (collisions)
	// one set in four repeats keys inside one document (the statement does
	// not order those, so they weaken the comparison; kept rare on purpose)
	twice := rapid.IntRange(0, 3).Draw(t, "same-key-twice") == 0
	type appVendor struct{ id, vendor uint32 }
	var prior []appVendor // (application, home vendor) pairs of earlier documents
	for f := 0; f < nf; f++ {
		var file gen.DictFile
		na := rapid.IntRange(1, 3).Draw(t, "n-apps")
		usedApp := map[uint32]bool{}
		for a := 0; a < na; a++ {
			app := gen.DictApp{ID: rapid.SampledFrom(setApps).Draw(t, "app-id")}
			home := rapid.SampledFrom(setVendors).Draw(t, "home-vendor")
			// half of the later applications revisit an (application, vendor)
			// of an earlier document: redefinition by a later document
			if len(prior) > 0 && rapid.Bool().Draw(t, "revisit") {
				pv := rapid.SampledFrom(prior).Draw(t, "revisited")
				app.ID, home = pv.id, pv.vendor
			}
			// the same id twice in one document is legal but rare
			if usedApp[app.ID] && !(twice && rapid.Bool().Draw(t, "app-twice")) {
				continue
			}
			usedApp[app.ID] = true
			app.Type = rapid.SampledFrom(setTypes).Draw(t, "app-type")
			if app.ID == 0 && rapid.IntRange(0, 3).Draw(t, "typed-base") != 0 {
				app.Type = ""
			}
			app.Name = fmt.Sprintf("App %d f%d a%d", app.ID, f, a)
			nv := rapid.IntRange(0, 7).Draw(t, "n-avps")
			// one document mostly uses one vendor per application, so that
			// vendor and redefinition conflicts arise ACROSS documents (where
			// the statement decides the winner) more often than inside one
			usedKey := map[[2]uint32]bool{}
			usedCode := map[uint32]bool{}
			for i := 0; i < nv; i++ {
				d := gen.DictAVP{Code: rapid.SampledFrom(setCodes).Draw(t, "code"), Vendor: home,
					Type: rapid.SampledFrom(gen.AllTypeNames).Draw(t, "type")}
				if rapid.IntRange(0, 4).Draw(t, "other-vendor") == 0 {
					d.Vendor = rapid.SampledFrom(setVendors).Draw(t, "vendor")
				}
				k := [2]uint32{d.Code, d.Vendor}
				if (usedKey[k] || usedCode[d.Code]) && !twice {
					continue
				}
				usedKey[k], usedCode[d.Code] = true, true
				// a name usually belongs to its (code, vendor); sometimes names collide across codes
				if rapid.IntRange(0, 3).Draw(t, "free-name") == 0 {
					d.Name = rapid.SampledFrom(setNames).Draw(t, "name")
				} else {
					d.Name = fmt.Sprintf("N-%d-%d", d.Code, d.Vendor)
				}
				app.AVPs = append(app.AVPs, d)
			}
			if f == badFile && a == 0 {
				app.AVPs = append(app.AVPs, gen.DictAVP{Name: "Bad-Type", Code: rapid.SampledFrom(setCodes).Draw(t, "bad-code"),
					Type: rapid.SampledFrom(badTypes).Draw(t, "bad-type-name")})
				// the offending definition is not always the last one
				if n := len(app.AVPs); n > 1 && rapid.Bool().Draw(t, "bad-first") {
					app.AVPs[0], app.AVPs[n-1] = app.AVPs[n-1], app.AVPs[0]
				}
			}
			nc := 0
			switch cmdsOn {
			case 1:
				nc = rapid.IntRange(0, 1).Draw(t, "n-cmds")
			case 2:
				nc = rapid.IntRange(0, 2).Draw(t, "n-cmds")
			}
			used := map[uint32]bool{}
			for i := 0; i < nc; i++ {
				code := rapid.SampledFrom(setCmds).Draw(t, "cmd-code")
				if used[code] && rapid.IntRange(0, 7).Draw(t, "dup-in-app") != 0 {
					continue
				}
				used[code] = true
				app.Cmds = append(app.Cmds, gen.DictCmd{Code: code, Short: fmt.Sprintf("C%d", code%1000),
					Name: fmt.Sprintf("Cmd-%d-f%d-a%d", code, f, a)})
			}
			file.Apps = append(file.Apps, app)
		}
		for _, a := range file.Apps {
			v := uint32(0)
			if len(a.AVPs) > 0 {
				v = a.AVPs[0].Vendor
			}
			prior = append(prior, appVendor{a.ID, v})
		}
		c.Files = append(c.Files, file)
	}
	c.Order = rapid.Permutation(seq(nf)).Draw(t, "order")
	c.ViaFile = rapid.IntRange(0, 2).Draw(t, "via-file") == 0
	c.Reload = rapid.IntRange(0, 2).Draw(t, "reload") == 0
	return c
}

func seq(n int) []int {
	s := make([]int, n)
	for i := range s {
		s[i] = i
	}
	return s
}

func permutations(n int) [][]int {
	var out [][]int
	var rec func(cur []int, used []bool)
	rec = func(cur []int, used []bool) {
		if len(cur) == n {
			out = append(out, append([]int{}, cur...))
			return
		}
		for i := 0; i < n; i++ {
			if !used[i] {
				used[i] = true
				rec(append(cur, i), used)
				used[i] = false
			}
		}
	}
	rec(nil, make([]bool, n))
	return out
}

func validOrder(o []int, n int) bool {
	if len(o) != n {
		return false
	}
	seen := make([]bool, n)
	for _, i := range o {
		if i < 0 || i >= n || seen[i] {
			return false
		}
		seen[i] = true
	}
	return true
}

// orders returns the drawn order followed by every other permutation.
func (c SetCase) orders() [][]int {
	n := len(c.Files)
	var out [][]int
	if validOrder(c.Order, n) {
		out = append(out, c.Order)
	}
	if n > 4 {
		return out // replay files written by hand: factorial growth is not wanted
	}
	for _, p := range permutations(n) {
		if len(out) > 0 && fmt.Sprint(p) == fmt.Sprint(out[0]) {
			continue
		}
		out = append(out, p)
	}
	return out
}

// setGrid is the query grid of a whole set: computed from the model of all
// documents, so that it is the same after every Load of every order.
func setGrid(docs []string) []Lookup {
	all := refdict.New()
	for _, d := range docs {
		all.Load(d)
	}
	apps, vendors := grid(all, nil)
	var qs []Lookup
	enumerate(all, apps, vendors, func(q Lookup) bool { qs = append(qs, q); return true })
	return qs
}

// resolvable asks the library alone whether a query resolves.
func resolvable(p *dict.Parser, q Lookup) bool {
	switch q.Kind {
	case "code":
		_, err := p.FindAVPWithVendor(q.App, q.Code, q.Vendor)
		return err == nil
	case "name":
		_, err := p.FindAVPWithVendor(q.App, q.Name, q.Vendor)
		return err == nil
	case "cmd":
		_, err := p.FindCommand(q.App, q.Code)
		return err == nil
	case "app":
		if q.Typed {
			return false // the statement speaks of application ids: only App(id) is tracked
		}
		_, err := p.App(q.App)
		return err == nil
	}
	return false
}

func runSet(c SetCase) *ev.Failure {
	if len(c.Files) == 0 {
		return nil
	}
	docs := make([]string, len(c.Files))
	for i, f := range c.Files {
		docs[i] = f.XML()
	}
	qs := setGrid(docs)
	var dir string
	if c.ViaFile {
		var err error
		if dir, err = os.MkdirTemp(os.Getenv("VERIF_WORK"), "c17-docs-"); err != nil {
			return ev.Failf("harness-tempdir", "%v", err)
		}
		defer os.RemoveAll(dir)
		for i, d := range docs {
			if err := os.WriteFile(filepath.Join(dir, fmt.Sprintf("doc%d.xml", i)), []byte(d), 0o644); err != nil {
				return ev.Failf("harness-tempdir", "%v", err)
			}
		}
	}
	for _, order := range c.orders() {
		if c.Reload && len(order) > 1 {
			order = append(append([]int{}, order...), order[0])
		}
		p, err := dict.NewParser()
		if err != nil {
			return ev.Failf("harness-parser", "%v", err)
		}
		m := refdict.New()
		refused := false // a Load was refused: from then on only monotonicity is asserted
		prev := make([]bool, len(qs))
		for step, fi := range order {
			where := fmt.Sprintf("order %v, after Load #%d (document %d)", order, step+1, fi)
			issues := m.Load(docs[fi])
			var lerr error
			if c.ViaFile {
				path := filepath.Join(dir, fmt.Sprintf("doc%d.xml", fi))
				if step >= len(c.Files) { // the reload: the same file under another spelling
					path = dir + string(filepath.Separator) + "." + string(filepath.Separator) + fmt.Sprintf("doc%d.xml", fi)
				}
				lerr = p.LoadFile(path)
			} else {
				lerr = p.Load(bytes.NewReader([]byte(docs[fi])))
			}
			if lerr != nil {
				if len(issues) == 0 {
					return ev.Failf("load:valid-document-refused", "%s: Load returned %v for a document with known type names and no command defined twice", where, lerr)
				}
				refused = true
			}
			for i, q := range qs {
				now := resolvable(p, q)
				if prev[i] && !now {
					return ev.Failf("monotonic:"+q.Kind, "%s: %v resolved before this Load and does not resolve any more (Load returned %v)", where, q, lerr)
				}
				prev[i] = now
				if refused {
					continue
				}
				if f := checkLookup(p, m, q); f != nil {
					f.Detail = where + ": " + f.Detail
					return f
				}
			}
		}
		// the same files handed to NewParser in one call: "loads them in order", so the parser
		// answers like the one loaded step by step. The file that comes first is the slowest to
		// parse (a long comment), as a big vendor dictionary followed by a small override is.
		if c.ViaFile && !refused && !c.Reload && len(order) > 1 {
			var paths []string
			for step, fi := range order {
				path := filepath.Join(dir, fmt.Sprintf("np-%d-doc%d.xml", step, fi))
				body := docs[fi]
				if step == 0 {
					if k := strings.LastIndex(body, "</diameter>"); k >= 0 {
						body = body[:k] + "<!-- " + strings.Repeat("padding ", 40000) + "-->\n" + body[k:]
					}
				}
				if err := os.WriteFile(path, []byte(body), 0o644); err != nil {
					return ev.Failf("harness-tempdir", "%v", err)
				}
				paths = append(paths, path)
			}
			np, err := dict.NewParser(paths...)
			if err != nil {
				return ev.Failf("load:valid-document-refused", "order %v: NewParser(%d files) returned %v for documents that Load accepted one by one", order, len(paths), err)
			}
			for _, q := range qs {
				if f := checkLookup(np, m, q); f != nil {
					f.Sig = "newparser:" + f.Sig
					f.Detail = fmt.Sprintf("order %v, all files given to ONE NewParser call (which loads them in argument order): ", order) + f.Detail
					return f
				}
			}
		}
	}
	// Two dictionaries side by side in one process (a server with a dictionary per listener):
	// one holds the whole set, the other only its first document. Both are loaded completely
	// BEFORE anything is looked up; then the grid is asked of the first, of the second, and of
	// the first again. Each parser answers from its own documents only.
	if len(docs) > 1 {
		full, part := refdict.New(), refdict.New()
		pFull, err1 := dict.NewParser()
		pPart, err2 := dict.NewParser()
		if err1 != nil || err2 != nil {
			return ev.Failf("harness-parser", "%v %v", err1, err2)
		}
		ok := true
		for _, d := range docs {
			if len(full.Load(d)) > 0 || pFull.Load(bytes.NewReader([]byte(d))) != nil {
				ok = false
			}
		}
		if len(part.Load(docs[0])) > 0 || pPart.Load(bytes.NewReader([]byte(docs[0]))) != nil {
			ok = false
		}
		if ok {
			for round, pm := range []struct {
				p *dict.Parser
				m *refdict.Model
				n string
			}{{pFull, full, "the parser holding all documents"}, {pPart, part, "the parser holding only the first document"}, {pFull, full, "the parser holding all documents (asked again)"}} {
				for _, q := range qs {
					if f := checkLookup(pm.p, pm.m, q); f != nil {
						f.Sig = "two-parsers:" + f.Sig
						f.Detail = fmt.Sprintf("two parsers in one process, both loaded before any lookup; round %d, %s: ", round, pm.n) + f.Detail
						return f
					}
				}
			}
		}
	}
	return nil
}

// setFeatures classifies a set from the model alone.
func setFeatures(c SetCase) (nontrivial bool, classes []string) {
	classes = []string{fmt.Sprintf("files:%d", len(c.Files))}
	if c.ViaFile {
		classes = append(classes, "loaded-with-LoadFile")
	}
	if c.Reload && len(c.Files) > 1 {
		classes = append(classes, "first-document-loaded-again-at-the-end")
	}
	m := refdict.New()
	issueKinds := map[string]bool{}
	for _, i := range c.orders()[0] {
		for _, is := range m.Load(c.Files[i].XML()) {
			issueKinds[is.Kind] = true
		}
	}
	for k := range issueKinds {
		classes = append(classes, "drawn-order-has:"+k)
	}
	if len(issueKinds) == 0 {
		classes = append(classes, "drawn-order-loads-cleanly")
	}
	type key struct{ app, code, vendor uint32 }
	files := map[key]map[int]bool{}
	inFile := map[key]map[int]int{}
	vendorsAt := map[[2]uint32]map[uint32]bool{}
	vendorsInDoc := map[[3]uint32]map[uint32]bool{}
	for _, d := range m.AVPs {
		dk := [3]uint32{d.App, d.Code, uint32(d.File)}
		if vendorsInDoc[dk] == nil {
			vendorsInDoc[dk] = map[uint32]bool{}
		}
		vendorsInDoc[dk][d.Vendor] = true
		k := key{d.App, d.Code, d.Vendor}
		if files[k] == nil {
			files[k], inFile[k] = map[int]bool{}, map[int]int{}
		}
		files[k][d.File] = true
		inFile[k][d.File]++
		lk := [2]uint32{d.App, d.Code}
		if vendorsAt[lk] == nil {
			vendorsAt[lk] = map[uint32]bool{}
		}
		vendorsAt[lk][d.Vendor] = true
	}
	var redefinition, dupInFile, multiVendor, chainOverlap, multiVendorDoc bool
	for _, vs := range vendorsInDoc {
		multiVendorDoc = multiVendorDoc || len(vs) > 1
	}
	for k := range files {
		redefinition = redefinition || len(files[k]) > 1
		for _, n := range inFile[k] {
			dupInFile = dupInFile || n > 1
		}
	}
	for lk, vs := range vendorsAt {
		multiVendor = multiVendor || len(vs) > 1
		for _, lvl := range refdict.Chain(lk[0])[1:] {
			if vendorsAt[[2]uint32{lvl, lk[1]}] != nil {
				chainOverlap = true
			}
		}
	}
	appTypes := map[uint32]map[string]bool{}
	for _, a := range m.Apps {
		if appTypes[a.ID] == nil {
			appTypes[a.ID] = map[string]bool{}
		}
		appTypes[a.ID][a.Type] = true
	}
	typeMix := false
	for _, ts := range appTypes {
		typeMix = typeMix || len(ts) > 1
	}
	for name, on := range map[string]bool{"redefinition-across-documents": redefinition, "same-key-twice-in-one-document": dupInFile,
		"code-for->=2-vendors-at-one-level": multiVendor, "code-for->=2-vendors-in-one-document(order not asserted)": multiVendorDoc, "code-at->=2-levels-of-a-chain": chainOverlap, "application-with->=2-types": typeMix} {
		if on {
			classes = append(classes, name)
		}
	}
	return redefinition || multiVendor || chainOverlap, classes
}

var setProp = ev.Register(&ev.Prop[SetCase]{
	ID:   "C17",
	Name: "sets",
	Rule: "(1 in 3 through files and Parser.LoadFile, and then once more through ONE NewParser(files...) call whose first file is the slowest to parse; 1 in 3 with the first document loaded once more at the end, under another spelling of its path) generated sets of 1..3 XML documents over small pools of application ids (0, 1, 4, 16777238, 16777251, 7, 1000), codes, names, vendors and command codes, some with an undeclarable type name or a command defined twice; each set is loaded in EVERY order into fresh parsers; after each Load the full lookup grid of the set (as in the embedded test) is compared with the model and every query that resolved before must still resolve (also across refused Loads); non-trivial = the set redefines an (application, code, vendor) across documents, or defines a code for >= 2 vendors at one level, or at >= 2 levels of a parent chain; distinct by hash of the documents + drawn order",
	Gen:  genSet,
	Run:  runSet,
	Classify: func(c SetCase) (bool, []string) {
		if len(c.Files) == 0 {
			return false, []string{"empty"}
		}
		return setFeatures(c)
	},
	Sample: func(c SetCase) interface{} {
		docs := []string{}
		for _, f := range c.Files {
			docs = append(docs, f.XML())
		}
		return map[string]interface{}{"order": c.Order, "documents": docs}
	},
})

func TestC17Sets(t *testing.T) { setProp.Check(t, 300, 20000) }

// A fixed set exercising every rule at once (hand-written regression case):
// base and NASREQ define code 10, Credit-Control redefines it for a vendor,
// a later document redefines the base definition with another type.
func TestC17SetsCanonical(t *testing.T) {
	c := SetCase{Order: []int{0, 1, 2}, Files: []gen.DictFile{
		{Apps: []gen.DictApp{
			{ID: 0, Name: "Base", AVPs: []gen.DictAVP{{Name: "X", Code: 10, Type: "Unsigned32"}, {Name: "Y", Code: 11, Type: "UTF8String"}},
				Cmds: []gen.DictCmd{{Code: 257, Short: "CE", Name: "Capabilities-Exchange"}}},
			{ID: 1, Type: "auth", Name: "Nasreq", AVPs: []gen.DictAVP{{Name: "X1", Code: 10, Type: "Integer32"}}},
		}},
		{Apps: []gen.DictApp{
			{ID: 4, Type: "auth", Name: "CC", AVPs: []gen.DictAVP{{Name: "XV", Code: 10, Vendor: 10415, Type: "Grouped"}},
				Cmds: []gen.DictCmd{{Code: 272, Short: "CC", Name: "Credit-Control"}}},
			{ID: 16777251, Type: "auth", Name: "S6a", AVPs: []gen.DictAVP{{Name: "Y", Code: 11, Vendor: 10415, Type: "OctetString"}}},
		}},
		{Apps: []gen.DictApp{
			{ID: 0, Name: "Base again", AVPs: []gen.DictAVP{{Name: "X", Code: 10, Type: "Time"}}},
			{ID: 4, Type: "acct", Name: "CC acct", AVPs: []gen.DictAVP{{Name: "XV0", Code: 10, Type: "Float64"}}},
		}},
	}}
	setProp.One(t, c)
}
