package c17

// Part 5: documents loaded into dict.Default itself.
//
// dict.Default is documented as a Parser with the embedded dictionaries
// pre-loaded: whatever a program loads into it is loaded AFTER them, so for
// every (application, code / name, vendor) the program's document redefines,
// "the most recently loaded definition winning" makes the document's
// definition the answer - whether the Load is the very first thing the
// process does with dict.Default (the usual start-up customisation) or
// follows lookups.
//
// dict.Default is shared by every test of the process, and the scenario needs
// it untouched, so each case runs in a CHILD PROCESS: the test binary is
// re-executed with only TestC17DefaultChild selected and the case on its
// standard input. The child feeds internal/refdict with the embedded XML (in
// init() order), then performs the case's steps on dict.Default and on the
// model side by side and compares lookups; it prints one verdict line, which
// the parent turns into the usual ev.Failure. The parent never mutates
// dict.Default.

import (
	"bytes"
	"context"
	"encoding/json"
	"fmt"
	"os"
	"os/exec"
	"path/filepath"
	"strings"
	"testing"
	"time"

	"github.com/fiorix/go-diameter/v4/diam/dict"
	"pgregory.net/rapid"

	"verif/internal/dicts"
	"verif/internal/ev"
	"verif/internal/gen"
	"verif/internal/refdict"
)

// DefaultCase is one life of a process that customises dict.Default.
type DefaultCase struct {
	// Docs are loaded into dict.Default, in this order.
	Docs []gen.DictFile `json:"docs"`
	// Warm says what the process does with dict.Default BEFORE the first Load:
	// "" = nothing at all (the Load is the first use); "lookup" = the one lookup WarmQ;
	// "grid" = the whole query list of the case.
	Warm  string  `json:"warm,omitempty"`
	WarmQ *Lookup `json:"warm_q,omitempty"`
	// ViaFile: documents are written to files and loaded with LoadFile.
	ViaFile bool `json:"via_file,omitempty"`
	// Stride: besides the queries about everything the documents mention, every Stride-th query
	// of the full grid of (embedded + documents) is asked as a control (1 = the full grid).
	Stride int `json:"stride,omitempty"`
}

const (
	defaultChildEnv = "C17_DEFAULT_CHILD"
	childMarker     = "C17-CHILD-VERDICT "
)

type childVerdict struct {
	OK      bool   `json:"ok"`
	Sig     string `json:"sig,omitempty"`
	Detail  string `json:"detail,omitempty"`
	Lookups int    `json:"lookups"`
}

// ---------------------------------------------------------------------------
// the child

// defaultQueries builds the query list of a case: everything the documents
// mention (their codes and the codes next to them, names, command codes,
// application ids) over the full application x vendor axes of (embedded +
// documents), plus the strided control sample of the full grid.
func defaultQueries(embeddedDocs, docs []string, stride int) []Lookup {
	all, own := refdict.New(), refdict.New()
	for _, d := range embeddedDocs {
		all.Load(d)
	}
	for _, d := range docs {
		all.Load(d)
		own.Load(d)
	}
	apps, vendors := grid(all, nil)
	k := own.Keys()
	codes, _ := codesWithNeighbours(k.Codes)
	cmds, _ := codesWithNeighbours(k.Cmds)
	var qs []Lookup
	seen := map[uint64]bool{}
	add := func(q Lookup) {
		if h := q.hash(); !seen[h] {
			seen[h] = true
			qs = append(qs, q)
		}
	}
	for _, app := range apps {
		for _, v := range vendors {
			for _, c := range codes {
				add(Lookup{Kind: "code", App: app, Code: c, Vendor: v})
			}
			for _, n := range k.Names {
				add(Lookup{Kind: "name", App: app, Name: n, Vendor: v})
			}
		}
		for _, c := range cmds {
			add(Lookup{Kind: "cmd", App: app, Code: c})
		}
		add(Lookup{Kind: "app", App: app})
		for _, typ := range []string{"auth", "acct", "", "other"} {
			add(Lookup{Kind: "app", App: app, Typed: true, Typ: typ})
		}
	}
	if stride < 1 {
		stride = 16
	}
	i := 0
	enumerate(all, apps, vendors, func(q Lookup) bool {
		if i%stride == 0 {
			add(q)
		}
		i++
		return true
	})
	return qs
}

// runDefaultInProcess performs the case on dict.Default. ONLY the child may
// call it.
func runDefaultInProcess(c DefaultCase) (f *ev.Failure, lookups int) {
	e := embedded() // reads the XML out of dict/default.go; does not touch dict.Default
	if e.err != nil {
		return ev.Failf("harness-embedded", "%v", e.err), 0
	}
	embDocs, err := embeddedLoadedXML()
	if err != nil {
		return ev.Failf("harness-embedded", "%v", err), 0
	}
	docs := make([]string, len(c.Docs))
	for i, d := range c.Docs {
		docs[i] = d.XML()
	}
	qs := defaultQueries(embDocs, docs, c.Stride)
	m := refdict.New()
	for _, d := range embDocs {
		m.Load(d)
	}
	variant := "load-is-first-use"
	if c.Warm != "" {
		variant = "used-before-load"
	}
	wrap := func(f *ev.Failure, where string) *ev.Failure {
		if !strings.HasPrefix(f.Sig, "harness-") {
			f.Sig = "default:" + variant + ":" + f.Sig
		}
		f.Detail = "dict.Default in a fresh process, " + where + ": " + f.Detail
		return f
	}
	prev := make([]bool, len(qs))
	asked := false
	sweep := func(where string, compare bool, lerr error) *ev.Failure {
		for i, q := range qs {
			now := resolvable(dict.Default, q)
			lookups++
			if asked && prev[i] && !now {
				return wrap(ev.Failf("monotonic:"+q.Kind, "%v resolved before this Load and does not resolve any more (Load returned %v)", q, lerr), where)
			}
			prev[i] = now
			if !compare {
				continue
			}
			if f := checkLookup(dict.Default, m, q); f != nil {
				return wrap(f, where)
			}
		}
		asked = true
		return nil
	}
	switch c.Warm {
	case "":
	case "lookup":
		if c.WarmQ == nil {
			return ev.Failf("harness-case", "warm lookup missing"), 0
		}
		lookups++
		if f := checkLookup(dict.Default, m, *c.WarmQ); f != nil {
			return wrap(f, "the first use of dict.Default, before any Load"), lookups
		}
	case "grid":
		if f := sweep("before any Load (only the embedded dictionaries)", true, nil); f != nil {
			return f, lookups
		}
	default:
		return ev.Failf("harness-case", "unknown warm kind %q", c.Warm), 0
	}
	var dir string
	if c.ViaFile {
		if dir, err = os.MkdirTemp(os.Getenv("VERIF_WORK"), "c17-default-"); err != nil {
			return ev.Failf("harness-tempdir", "%v", err), lookups
		}
		defer os.RemoveAll(dir)
	}
	refused := false
	for i, d := range docs {
		first := "Load"
		if c.Warm == "" && i == 0 {
			first = "Load (the first use of dict.Default in the process)"
		}
		where := fmt.Sprintf("after %s of document %d of %d", first, i+1, len(docs))
		issues := m.Load(d)
		var lerr error
		if c.ViaFile {
			path := filepath.Join(dir, fmt.Sprintf("doc%d.xml", i))
			if err := os.WriteFile(path, []byte(d), 0o644); err != nil {
				return ev.Failf("harness-tempdir", "%v", err), lookups
			}
			lerr = dict.Default.LoadFile(path)
		} else {
			lerr = dict.Default.Load(bytes.NewReader([]byte(d)))
		}
		if lerr != nil {
			if len(issues) == 0 {
				return wrap(ev.Failf("load:valid-document-refused", "Load returned %v for a document with known type names that defines no command twice", lerr), where), lookups
			}
			refused = true
		}
		if f := sweep(where, !refused, lerr); f != nil {
			return f, lookups
		}
	}
	return nil, lookups
}

// embeddedLoadedXML: the documents init() loads into dict.Default, in order.
func embeddedLoadedXML() ([]string, error) {
	docs, err := dicts.EmbeddedXML()
	if err != nil {
		return nil, err
	}
	var out []string
	for _, d := range docs {
		if d.Loaded {
			out = append(out, d.XML)
		}
	}
	return out, nil
}

// TestC17DefaultChild is the body of the child process; a no-op in a normal run.
func TestC17DefaultChild(t *testing.T) {
	if os.Getenv(defaultChildEnv) != "1" {
		t.Skip("helper of TestC17Default: runs only in the re-executed test binary")
	}
	var c DefaultCase
	v := childVerdict{}
	if err := json.NewDecoder(os.Stdin).Decode(&c); err != nil {
		v.Sig, v.Detail = "harness-child", fmt.Sprintf("the child cannot read its case: %v", err)
	} else {
		f, n := runDefaultInProcess(c)
		v.Lookups = n
		if f == nil {
			v.OK = true
		} else {
			v.Sig, v.Detail = f.Sig, f.Detail
		}
	}
	b, _ := json.Marshal(v)
	fmt.Printf("\n%s%s\n", childMarker, b)
}

// ---------------------------------------------------------------------------
// the parent

func childBinary() string {
	bin := os.Args[0]
	if !filepath.IsAbs(bin) {
		if v := os.Getenv("VERIF_BIN"); v != "" {
			return v
		}
		if abs, err := filepath.Abs(bin); err == nil {
			return abs
		}
	}
	return bin
}

func tail(b []byte, n int) string {
	if len(b) > n {
		b = b[len(b)-n:]
	}
	return string(b)
}

func runDefault(c DefaultCase) *ev.Failure {
	if len(c.Docs) == 0 {
		return nil
	}
	in, err := json.Marshal(c)
	if err != nil {
		return ev.Failf("harness-case", "%v", err)
	}
	// generous: the child needs a fraction of a second
	ctx, cancel := context.WithTimeout(context.Background(), 5*time.Minute)
	defer cancel()
	cmd := exec.CommandContext(ctx, childBinary(), "-test.run=^TestC17DefaultChild$", "-test.count=1", "-test.timeout=4m")
	cmd.Env = append(os.Environ(), defaultChildEnv+"=1")
	cmd.Stdin = bytes.NewReader(in)
	out, err := cmd.CombinedOutput()
	for _, line := range strings.Split(string(out), "\n") {
		if !strings.HasPrefix(line, childMarker) {
			continue
		}
		var v childVerdict
		if jerr := json.Unmarshal([]byte(strings.TrimPrefix(line, childMarker)), &v); jerr != nil {
			return ev.Failf("harness-child", "unreadable verdict of the child: %v: %s", jerr, line)
		}
		if v.OK {
			return nil
		}
		return &ev.Failure{Sig: v.Sig, Detail: v.Detail}
	}
	// no verdict: the child died
	variant := "load-is-first-use"
	if c.Warm != "" {
		variant = "used-before-load"
	}
	if bytes.Contains(out, []byte("panic:")) || bytes.Contains(out, []byte("fatal error:")) {
		if bytes.Contains(out, []byte("go-diameter/v4/diam")) {
			return ev.Failf("default:"+variant+":crash", "the process that loads the case's documents into dict.Default and looks definitions up died inside the library (%v):\n%s", err, tail(out, 1500))
		}
	}
	return ev.Failf("harness-child", "the child process gave no verdict (%v):\n%s", err, tail(out, 1500))
}

// ---------------------------------------------------------------------------
// generator: documents that redefine what the embedded dictionaries define

var redefinitionKinds = []string{"retype", "retype", "rename", "recode", "vendor-twin", "vendor-twin-same-name", "other-level", "new"}

func otherType(t *rapid.T, typ string) string {
	for {
		n := rapid.SampledFrom(gen.AllTypeNames).Draw(t, "new-type")
		if n != typ {
			return n
		}
	}
}

func genDefault(t *rapid.T) DefaultCase {
	e := embedded()
	var c DefaultCase
	if e.err != nil || len(e.model.AVPs) == 0 {
		return c // Run reports the harness error
	}
	defs, cmds := e.model.AVPs, e.model.Cmds
	nd := rapid.SampledFrom([]int{1, 1, 2}).Draw(t, "n-docs")
	fresh := uint32(99000)
	usedCmd := map[[2]uint32]bool{}
	for k := 0; k < nd; k++ {
		apps := map[uint32]*gen.DictApp{}
		var order []uint32
		appOf := func(id uint32) *gen.DictApp {
			if a, ok := apps[id]; ok {
				return a
			}
			a := &gen.DictApp{ID: id, Name: fmt.Sprintf("C17 doc %d app %d", k, id)}
			// the type of the element: the one the embedded dictionaries use for the id, or another
			if cur := e.model.App(id); len(cur) > 0 && rapid.IntRange(0, 2).Draw(t, "keep-app-type") != 0 {
				a.Type = cur[len(cur)-1].Type
			} else if id != 0 {
				a.Type = rapid.SampledFrom(setTypes).Draw(t, "app-type")
			}
			apps[id] = a
			order = append(order, id)
			return a
		}
		usedCode, usedName := map[[2]uint32]bool{}, map[string]bool{}
		n := rapid.IntRange(1, 6).Draw(t, "n-avps")
		for i := 0; i < n; i++ {
			d := defs[rapid.IntRange(0, len(defs)-1).Draw(t, "embedded-def")]
			if k > 0 && rapid.IntRange(0, 2).Draw(t, "redefine-earlier-doc") == 0 {
				// the second document redefines what the first one (re)defined
				var earlier []gen.DictAVP
				var earlierApp []uint32
				for _, a := range c.Docs[0].Apps {
					for _, x := range a.AVPs {
						earlier = append(earlier, x)
						earlierApp = append(earlierApp, a.ID)
					}
				}
				if len(earlier) > 0 {
					j := rapid.IntRange(0, len(earlier)-1).Draw(t, "earlier-def")
					d = &refdict.AVPDef{App: earlierApp[j], Name: earlier[j].Name, Code: earlier[j].Code, Vendor: earlier[j].Vendor, Type: earlier[j].Type}
				}
			}
			kind := rapid.SampledFrom(redefinitionKinds).Draw(t, "kind")
			app := d.App
			x := gen.DictAVP{Name: d.Name, Code: d.Code, Vendor: d.Vendor, Type: otherType(t, d.Type)}
			switch kind {
			case "retype":
			case "rename":
				x.Name = fmt.Sprintf("C17-Renamed-%d-%d", k, i)
				if rapid.Bool().Draw(t, "keep-type") {
					x.Type = d.Type
				}
			case "recode":
				x.Code = fresh
				fresh++
			case "vendor-twin", "vendor-twin-same-name":
				if d.Vendor == 0 {
					x.Vendor = rapid.SampledFrom([]uint32{10415, 13, undefinedVendor}).Draw(t, "twin-vendor")
				} else {
					x.Vendor = rapid.SampledFrom([]uint32{0, d.Vendor + 1}).Draw(t, "twin-vendor")
				}
				if kind == "vendor-twin" {
					x.Name = fmt.Sprintf("C17-Twin-%d-%d", k, i)
				}
			case "other-level":
				// the same key at another level of the chains the application is on
				rel := refdict.Related(d.App)
				app = rel[rapid.IntRange(0, len(rel)-1).Draw(t, "level")]
			case "new":
				x = gen.DictAVP{Name: fmt.Sprintf("C17-New-%d-%d", k, i), Code: fresh, Type: rapid.SampledFrom(gen.AllTypeNames).Draw(t, "type"),
					Vendor: rapid.SampledFrom([]uint32{0, 10415}).Draw(t, "vendor")}
				fresh++
				app = rapid.SampledFrom(e.apps).Draw(t, "new-app")
			}
			if !refdict.ValidType(x.Type) {
				x.Type = gen.TOctetString
			}
			ck, nk := [2]uint32{app, x.Code}, fmt.Sprintf("%d|%s", app, x.Name)
			if usedCode[ck] || usedName[nk] {
				continue // the statement does not order two definitions of one key inside ONE document
			}
			usedCode[ck], usedName[nk] = true, true
			a := appOf(app)
			a.AVPs = append(a.AVPs, x)
		}
		// commands: a command code the base application defines, given to an application that so
		// far resolved it through the base fallback; or a new code. (A command that is already
		// defined for the application itself is refused by Load: outside the statement.)
		nc := rapid.IntRange(0, 2).Draw(t, "n-cmds")
		for i := 0; i < nc && len(cmds) > 0; i++ {
			cd := cmds[rapid.IntRange(0, len(cmds)-1).Draw(t, "embedded-cmd")]
			app := rapid.SampledFrom(e.apps).Draw(t, "cmd-app")
			code := cd.Code
			if rapid.IntRange(0, 3).Draw(t, "new-cmd-code") == 0 {
				code = 8388100 + uint32(k*10+i)
			}
			if own, fb := e.model.FindCommand(app, code); (len(own) > 0 && !fb) || usedCmd[[2]uint32{app, code}] {
				continue
			}
			usedCmd[[2]uint32{app, code}] = true
			a := appOf(app)
			a.Cmds = append(a.Cmds, gen.DictCmd{Code: code, Short: fmt.Sprintf("X%d", i), Name: fmt.Sprintf("C17-Cmd-%d-%d", k, i)})
		}
		if len(order) == 0 {
			appOf(0).AVPs = append(appOf(0).AVPs, gen.DictAVP{Name: "User-Name", Code: 1, Type: gen.TOctetString})
		}
		var f gen.DictFile
		for _, id := range order {
			f.Apps = append(f.Apps, *apps[id])
		}
		c.Docs = append(c.Docs, f)
	}
	switch rapid.IntRange(0, 5).Draw(t, "warm") {
	case 0, 1, 2: // the Load is the first use
	case 3, 4:
		c.Warm = "lookup"
		q := Lookup{Kind: rapid.SampledFrom([]string{"code", "name", "cmd", "app"}).Draw(t, "warm-kind")}
		d := defs[rapid.IntRange(0, len(defs)-1).Draw(t, "warm-def")]
		q.App = d.App
		switch q.Kind {
		case "code":
			q.Code, q.Vendor = d.Code, rapid.SampledFrom([]uint32{refdict.AnyVendor, d.Vendor}).Draw(t, "warm-vendor")
		case "name":
			q.Name, q.Vendor = d.Name, rapid.SampledFrom([]uint32{refdict.AnyVendor, d.Vendor}).Draw(t, "warm-vendor")
		case "cmd":
			q.Code = cmds[rapid.IntRange(0, len(cmds)-1).Draw(t, "warm-cmd")].Code
		}
		c.WarmQ = &q
	default:
		c.Warm = "grid"
	}
	c.ViaFile = rapid.IntRange(0, 3).Draw(t, "via-file") == 0
	c.Stride = rapid.SampledFrom([]int{16, 16, 16, 64, 64, 7, 1}).Draw(t, "stride")
	return c
}

func classifyDefault(c DefaultCase) (bool, []string) {
	e := embedded()
	if e.err != nil {
		return false, []string{"harness-error"}
	}
	if len(c.Docs) == 0 {
		return false, []string{"empty"}
	}
	cl := []string{fmt.Sprintf("documents:%d", len(c.Docs))}
	switch c.Warm {
	case "":
		cl = append(cl, "Load-is-the-first-use-of-dict.Default")
	case "lookup":
		cl = append(cl, "one-lookup-before-the-first-Load")
	default:
		cl = append(cl, "query-list-asked-before-the-first-Load")
	}
	if c.ViaFile {
		cl = append(cl, "loaded-with-LoadFile")
	}
	if c.Stride == 1 {
		cl = append(cl, "full-grid-as-control")
	}
	on := map[string]bool{}
	for _, f := range c.Docs {
		for _, a := range f.Apps {
			for _, x := range a.AVPs {
				rc := e.model.FindAVPByCode(a.ID, x.Code, x.Vendor)
				rn := e.model.FindAVPByName(a.ID, x.Name, x.Vendor)
				ra := e.model.FindAVPByCode(a.ID, x.Code, refdict.AnyVendor)
				switch {
				case rc.Found && rc.Hops == 0:
					on["redefines-embedded-(application,code,vendor)"] = true
				case ra.Found && ra.Hops == 0:
					on["vendor-twin-of-an-embedded-(application,code)"] = true
				case ra.Found:
					on["shadows-a-parent-or-base-definition-of-the-code"] = true
				}
				if rn.Found && rn.Hops == 0 {
					on["redefines-embedded-(application,name,vendor)"] = true
				}
				if !ra.Found && !rn.Found {
					on["new-avp"] = true
				}
			}
			for _, x := range a.Cmds {
				if _, fb := e.model.FindCommand(a.ID, x.Code); fb {
					on["command-so-far-answered-by-base"] = true
				} else {
					on["new-command"] = true
				}
			}
			if cur := e.model.App(a.ID); len(cur) > 0 && cur[len(cur)-1].Type != a.Type {
				on["application-element-with-another-type"] = true
			}
		}
	}
	for k := range on {
		cl = append(cl, k)
	}
	nontrivial := on["redefines-embedded-(application,code,vendor)"] || on["redefines-embedded-(application,name,vendor)"] ||
		on["vendor-twin-of-an-embedded-(application,code)"]
	return nontrivial, cl
}

var defaultProp = ev.Register(&ev.Prop[DefaultCase]{
	ID:       "C17",
	Name:     "default-load",
	Rule:     "each case in a CHILD PROCESS (the test binary re-executed, so that dict.Default is untouched): 1..2 generated documents that redefine what the embedded dictionaries define - same (application, code, vendor) with another type and/or name, same (application, name) with another code, a vendor-specific or vendor-less twin of an embedded (application, code) with a new or the same name, the same key at another level of the parent chain, new AVPs, commands for applications that so far resolved them through base, application elements with another type; the second document also redefines the first - are loaded into dict.Default with Load / LoadFile, either as the very FIRST use of dict.Default in the process (3 in 6) or after one lookup / after the whole query list; after each Load the queries about everything the documents mention (codes +-1, names, commands, ids x the application and vendor axes of the embedded grid) plus every Stride-th query of the full grid are compared with the model fed the embedded XML and then the documents, and what resolved before must still resolve; non-trivial = a document redefines an embedded (application, code or name, vendor) or adds a vendor twin; distinct by hash of the case",
	Gen:      genDefault,
	Run:      runDefault,
	Classify: classifyDefault,
	Sample: func(c DefaultCase) interface{} {
		docs := []string{}
		for _, f := range c.Docs {
			docs = append(docs, f.XML())
		}
		return map[string]interface{}{"warm": c.Warm, "warm_q": c.WarmQ, "via_file": c.ViaFile, "stride": c.Stride, "documents": docs}
	},
})

func TestC17Default(t *testing.T) {
	if e := embedded(); e.err != nil {
		t.Fatalf("harness: %v", e.err)
	}
	defaultProp.Check(t, 12, 300)
}

// The start-up customisation of a program, written by hand: the base User-Name becomes an
// OctetString, Credit-Control's CC-Request-Number an Unsigned64, a vendor twin of Origin-Host and one
// new AVP are added - loaded as the first use of dict.Default, after one lookup, and after the grid.
func TestC17DefaultCanonical(t *testing.T) {
	doc := gen.DictFile{Apps: []gen.DictApp{
		{ID: 0, Name: "Base customised", AVPs: []gen.DictAVP{
			{Name: "User-Name", Code: 1, Type: gen.TOctetString},
			{Name: "Origin-Host-Twin", Code: 264, Vendor: 10415, Type: gen.TUTF8String},
			{Name: "C17-Extra", Code: 99901, Type: gen.TUnsigned32}}},
		{ID: 4, Type: "auth", Name: "Charging Control customised", AVPs: []gen.DictAVP{
			{Name: "CC-Request-Number", Code: 415, Type: gen.TUnsigned64}},
			Cmds: []gen.DictCmd{{Code: 257, Short: "CX", Name: "C17-Capabilities-Exchange-Of-App-4"}}},
	}}
	defaultProp.One(t, DefaultCase{Docs: []gen.DictFile{doc}, Stride: 1})
	defaultProp.One(t, DefaultCase{Docs: []gen.DictFile{doc}, Stride: 16, ViaFile: true})
	defaultProp.One(t, DefaultCase{Docs: []gen.DictFile{doc}, Stride: 16, Warm: "lookup", WarmQ: &Lookup{Kind: "name", App: 4, Name: "User-Name", Vendor: refdict.AnyVendor}})
	defaultProp.One(t, DefaultCase{Docs: []gen.DictFile{doc}, Stride: 16, Warm: "lookup", WarmQ: &Lookup{Kind: "cmd", App: 4, Code: 272}})
	defaultProp.One(t, DefaultCase{Docs: []gen.DictFile{doc}, Stride: 16, Warm: "grid"})
}
