package c17

import (
	"bytes"
	"sort"
	"testing"

	"github.com/fiorix/go-diameter/v4/diam"
	"github.com/fiorix/go-diameter/v4/diam/datatype"
	"pgregory.net/rapid"

	"verif/internal/dicts"
	"verif/internal/ev"
	"verif/internal/gen"
	"verif/internal/refcodec"
)

// TypeCase declares one AVP of a type name in a generated dictionary and
// carries one valid value of it. For Grouped the value is the list of
// children (their types are declared by the same dictionary).
type TypeCase struct {
	Type     string    `json:"type"`
	Vendor   uint32    `json:"vendor,omitempty"`
	Flags    uint8     `json:"flags"` // M / P bits; the V bit follows Vendor
	V        gen.Val   `json:"v"`
	Children []gen.Val `json:"children,omitempty"`
	// Shape of the struct field the value is marshalled from / unmarshalled into (marshal_test.go):
	// "" = the datatype.* type of the declared name, "native" = the plain Go type.
	Shape string `json:"shape,omitempty"`
}

const (
	typeCode      = 5000
	childCodeBase = 6000
)

var childTypes = []string{gen.TUnsigned32, gen.TUTF8String, gen.TOctetString, gen.TTime, gen.TAddress}

func childCode(typ string) uint32 {
	for i, t := range childTypes {
		if t == typ {
			return childCodeBase + uint32(i)
		}
	}
	return 0
}

func (c TypeCase) dictionary() string {
	app := gen.DictApp{ID: 0, Name: "Base", AVPs: []gen.DictAVP{{Name: "T-Under-Test", Code: typeCode, Vendor: c.Vendor, Type: c.Type}},
		// the command of the message the struct encoder path marshals into (ReadMessage wants one)
		Cmds: []gen.DictCmd{{Code: marshalCmd, Short: "TM", Name: "Type-Marshal", Req: []string{"T-Under-Test"}, Ans: []string{"T-Under-Test"}}}}
	for _, t := range childTypes {
		app.AVPs = append(app.AVPs, gen.DictAVP{Name: "Child-" + t, Code: childCode(t), Type: t})
	}
	return gen.DictFile{Apps: []gen.DictApp{app}}.XML()
}

func (c TypeCase) node() *refcodec.Node {
	n := &refcodec.Node{Code: typeCode, Flags: c.Flags &^ 0x80, Vendor: c.Vendor}
	if c.Vendor != 0 {
		n.Flags |= 0x80
	}
	if c.Type == gen.TGrouped {
		n.Group = true
		for _, ch := range c.Children {
			n.Children = append(n.Children, &refcodec.Node{Code: childCode(ch.T), Flags: 0x40, Payload: ch.Payload()})
		}
		return n
	}
	n.Payload = c.V.Payload()
	return n
}

func runType(c TypeCase) *ev.Failure {
	sig := "type:" + c.Type
	_, declarable := datatype.Available[c.Type]
	p, err := dicts.Load(c.dictionary())
	if err != nil {
		if declarable {
			return ev.Failf(sig, "datatype.Available lists %q but a dictionary declaring an AVP of that type does not load: %v", c.Type, err)
		}
		return nil // not a name the parser accepts: outside the quantifier
	}
	def, err := p.FindAVP(0, uint32(typeCode))
	if err != nil || def == nil || def.Data.TypeName != c.Type {
		return ev.Failf(sig, "the loaded definition of code %d is not of the declared type %q: %s", typeCode, c.Type, describe(def, err))
	}
	if !declarable {
		// a name outside Available that the parser nevertheless accepts must
		// be usable: any payload has to decode and re-encode
		c.V = gen.Val{T: gen.TOctetString, B: []byte("12345678")}
	}
	for _, ch := range c.Children {
		if childCode(ch.T) == 0 {
			return ev.Failf("harness-case", "child type %q is not declared by the case dictionary", ch.T)
		}
	}
	n := c.node()
	wire := refcodec.EncodeAVP(n)
	a, err := diam.DecodeAVP(wire, 0, p)
	if err != nil {
		return ev.Failf(sig, "a valid %s AVP does not decode: %v; wire % x", c.Type, err, clip(wire))
	}
	if a.Code != n.Code || a.Flags != n.Flags || a.VendorID != n.Vendor || a.Data == nil {
		return ev.Failf(sig, "decoded header differs: code %d flags %#x vendor %d data %v; wire % x", a.Code, a.Flags, a.VendorID, a.Data, clip(wire))
	}
	switch {
	case !declarable:
	case c.Type == gen.TGrouped:
		g, ok := a.Data.(*diam.GroupedAVP)
		if !ok {
			return ev.Failf(sig, "a Grouped AVP decoded to %T", a.Data)
		}
		if len(g.AVP) != len(c.Children) {
			return ev.Failf(sig, "Grouped AVP with %d children decoded to %d children; wire % x", len(c.Children), len(g.AVP), clip(wire))
		}
		for i, ch := range c.Children {
			if g.AVP[i] == nil || g.AVP[i].Code != childCode(ch.T) {
				return ev.Failf(sig, "child %d: expected code %d, got %v", i, childCode(ch.T), g.AVP[i])
			}
			if d := ch.EqualDatatype(g.AVP[i].Data); d != "" {
				return ev.Failf(sig, "child %d: %s", i, d)
			}
		}
	default:
		if d := c.V.EqualDatatype(a.Data); d != "" {
			return ev.Failf(sig, "decoded value differs: %s; wire % x", d, clip(wire))
		}
		if id := datatype.Available[c.Type]; a.Data.Type() != id {
			return ev.Failf(sig, "decoded value reports type id %d, the name %q has id %d", a.Data.Type(), c.Type, id)
		}
	}
	back, err := a.Serialize()
	if err != nil || !bytes.Equal(back, wire) {
		return ev.Failf(sig, "decoded %s AVP does not re-serialise identically (err=%v):\n wire % x\n back % x", c.Type, err, clip(wire), clip(back))
	}
	if !declarable {
		return nil
	}
	// built through the API
	var built *diam.AVP
	if c.Type == gen.TGrouped {
		g := &diam.GroupedAVP{}
		for _, ch := range c.Children {
			g.AddAVP(diam.NewAVP(childCode(ch.T), 0x40, 0, ch.ToDatatype()))
		}
		built = diam.NewAVP(typeCode, n.Flags, c.Vendor, g)
	} else {
		built = diam.NewAVP(typeCode, n.Flags, c.Vendor, c.V.ToDatatype())
	}
	enc, err := built.Serialize()
	if err != nil || !bytes.Equal(enc, wire) {
		return ev.Failf(sig, "%s value built with diam.NewAVP serialises differently from the reference encoding (err=%v):\n want % x\n got  % x", c.Type, err, clip(wire), clip(enc))
	}
	// built through the struct encoder, which picks the representation from the declared type name
	return marshalPath(c, p)
}

func clip(b []byte) []byte {
	if len(b) > 200 {
		return b[:200]
	}
	return b
}

// typeNames lists every name datatype.Available accepts, sorted.
func typeNames() []string {
	var names []string
	for n := range datatype.Available {
		names = append(names, n)
	}
	sort.Strings(names)
	return names
}

// notTypeNames are spellings that are no type names; should the parser accept
// one of them, it becomes "a type name the parser accepts" and must work.
var notTypeNames = []string{"Unknown", "unsigned32", "Integer16", "Foo", "", "Group", "IPAddress"}

func drawTypeCase(t *rapid.T, typ string) TypeCase {
	c := TypeCase{Type: typ, Flags: rapid.SampledFrom([]uint8{0, 0x40, 0x20, 0x60}).Draw(t, "flags"),
		Vendor: rapid.SampledFrom([]uint32{0, 0, 10415, 4294967294}).Draw(t, "vendor")}
	vo := gen.ValueOpts{MaxBytes: 5000}
	if typ == gen.TGrouped {
		n := rapid.IntRange(0, 4).Draw(t, "children")
		for i := 0; i < n; i++ {
			c.Children = append(c.Children, gen.Value(t, rapid.SampledFrom(childTypes).Draw(t, "child-type"), gen.ValueOpts{MaxBytes: 300}))
		}
		c.V = gen.Val{T: gen.TGrouped}
		c.Shape = rapid.SampledFrom([]string{ShapeDatatype, ShapeNative}).Draw(t, "field-shape")
		return c
	}
	c.V = gen.Value(t, typ, vo)
	c.Shape = rapid.SampledFrom([]string{ShapeDatatype, ShapeNative}).Draw(t, "field-shape")
	return c
}

func knownToGenerator(typ string) bool {
	for _, n := range gen.AllTypeNames {
		if n == typ {
			return true
		}
	}
	return false
}

var typeProp = ev.Register(&ev.Prop[TypeCase]{
	ID:   "C17",
	Name: "types",
	Rule: "EXHAUSTIVE over the type names: every key of datatype.Available (plus spellings that are no type names, which only count if the parser accepts them) x a fixed number of valid values per name (boundary-biased, drawn reproducibly from the seed) x vendor / flag variants: a generated dictionary declaring an AVP of that type must load; the reference encoding of the value must DecodeAVP to an equal value of that type and re-serialise to identical bytes; the value built with diam.NewAVP must serialise to the reference bytes; and through the struct encoder: a struct with one field tagged with the AVP (field of the datatype.* type or of the plain Go type; Grouped: a nested struct with one member field per child) is marshalled with Message.Marshal, written, and must equal the reference encoding of the value (type id, payload length, bytes), decode with ReadMessage to the declared type id and the same value, and Unmarshal must give the value back; non-trivial = a declarable name; distinct by case",
	Run:  runType,
	Classify: func(c TypeCase) (bool, []string) {
		if _, ok := datatype.Available[c.Type]; !ok {
			return false, []string{"not-a-type-name"}
		}
		cl := []string{"type:" + c.Type}
		if c.Vendor != 0 {
			cl = append(cl, "vendor-specific")
		}
		if c.Shape == ShapeNative {
			cl = append(cl, "marshalled-from-native-Go-field")
		} else {
			cl = append(cl, "marshalled-from-datatype-field")
		}
		return true, cl
	},
})

func TestC17Types(t *testing.T) {
	names := typeNames()
	for _, n := range names {
		if !knownToGenerator(n) {
			// inconclusive, not a violation: the harness has no value generator for a new type
			t.Fatalf("harness: datatype.Available lists %q, for which internal/gen has no value generator", n)
		}
	}
	per := ev.Pick(40, 1000)
	seed := int(ev.GetEnv().Seed%100000)*7919 + 17 // the same enumeration in every shard
	rec := typeProp.Rec(t)
	rec.Note("%d type names in datatype.Available: %v; %d values per name", len(names), names, per)
	typeProp.Enumerate(t, true, func(yield func(TypeCase) bool) {
		for ti, typ := range names {
			typ := typ
			g := rapid.Custom(func(rt *rapid.T) TypeCase { return drawTypeCase(rt, typ) })
			for k := 0; k < per; k++ {
				if !yield(g.Example(seed + ti*1000003 + k)) {
					return
				}
			}
		}
		for _, typ := range notTypeNames {
			if !yield(TypeCase{Type: typ, V: gen.Val{T: gen.TOctetString}}) {
				return
			}
		}
	})
}

// The two names the pinned upstream tree could not decode (regression).
func TestC17TypesCanonical(t *testing.T) {
	typeProp.One(t, TypeCase{Type: gen.TQoSFilterRule, Flags: 0x40, V: gen.Val{T: gen.TQoSFilterRule, B: []byte("permit in ip from any to any")}})
	typeProp.One(t, TypeCase{Type: gen.TIPv6, Flags: 0x40, Vendor: 10415, V: gen.Val{T: gen.TIPv6, B: []byte{0x20, 1, 0xd, 0xb8, 0, 0, 0, 0, 0, 0, 0, 0, 0, 0, 0, 1}}})
}
