package c17

import (
	"encoding/json"
	"fmt"
	"go/ast"
	"go/parser"
	"go/token"
	"os"
	"path/filepath"
	"regexp"
	"sort"
	"strconv"
	"strings"
	"sync"
	"testing"

	"github.com/fiorix/go-diameter/v4/diam"
	"github.com/fiorix/go-diameter/v4/diam/avp"

	"verif/internal/dicts"
	"verif/internal/ev"
	"verif/internal/refdict"
)

// ConstCase is one exported constant, or one dictionary entry that may have
// a constant. Kinds: avp-const, cmd-const, app-const (Name = Go identifier)
// and avp-def, cmd-def, app-def (Name = dictionary name, Code = its code).
type ConstCase struct {
	Kind string `json:"kind"`
	Name string `json:"name"`
	Code uint32 `json:"code,omitempty"`
}

// The name normalisation of diam/autogen.sh (sed expressions quoted).

var idSuffix = regexp.MustCompile(`-Id([-"s])`)

// avp/codes.go:  s/-Id\([-"s]\)/-ID\1/g ; s/-//g ; avp name="\(.*\)" code="\([0-9]*\)" -> \1 = \2
func avpConstName(name string) string {
	s := idSuffix.ReplaceAllString(name+`"`, `-ID$1`)
	s = strings.TrimSuffix(s, `"`)
	return strings.ReplaceAll(s, "-", "")
}

// commands.go:  s/-//g ; command code="\(.*\)" .* name="\(.*\)" -> \2 = \1
func cmdConstName(name string) string { return strings.ReplaceAll(name, "-", "") }

// applications.go: blanks inside quotes -> _ ; \U name _APP_ID
func appConstName(name string) string {
	return strings.ToUpper(strings.Join(strings.Fields(name), "_")) + "_APP_ID"
}

// overlayPath honours VERIF_OVERLAY (go build -overlay): the source that is
// compiled is the source that is parsed.
func overlayPath(path string) string {
	ov := os.Getenv("VERIF_OVERLAY")
	if ov == "" {
		return path
	}
	b, err := os.ReadFile(ov)
	if err != nil {
		return path
	}
	var o struct{ Replace map[string]string }
	if json.Unmarshal(b, &o) != nil {
		return path
	}
	if r, ok := o.Replace[path]; ok && r != "" {
		return r
	}
	return path
}

type constEnv struct {
	avpConst, cmdConst, appConst map[string]uint32
	shortConst                   map[string]string
	avpDef, cmdDef, appDef       map[string]map[uint32]bool // normalised name -> codes in the embedded XML
	avpDefs, cmdDefs, appDefs    []ConstCase                // every dictionary entry (dictionary spelling)
	err                          error
}

var (
	constOnce sync.Once
	cenv      constEnv
)

func parseConsts(path string) (ints map[string]uint32, strs map[string]string, err error) {
	ints, strs = map[string]uint32{}, map[string]string{}
	f, err := parser.ParseFile(token.NewFileSet(), overlayPath(path), nil, 0)
	if err != nil {
		return nil, nil, err
	}
	for _, d := range f.Decls {
		gd, ok := d.(*ast.GenDecl)
		if !ok || gd.Tok != token.CONST {
			continue
		}
		for _, s := range gd.Specs {
			vs := s.(*ast.ValueSpec)
			for i, n := range vs.Names {
				if !n.IsExported() || i >= len(vs.Values) {
					continue
				}
				lit, ok := vs.Values[i].(*ast.BasicLit)
				if !ok {
					return nil, nil, fmt.Errorf("%s: constant %s is not a literal", path, n.Name)
				}
				switch lit.Kind {
				case token.INT:
					v, err := strconv.ParseUint(lit.Value, 0, 32)
					if err != nil {
						return nil, nil, fmt.Errorf("%s: constant %s = %s: %v", path, n.Name, lit.Value, err)
					}
					ints[n.Name] = uint32(v)
				case token.STRING:
					v, _ := strconv.Unquote(lit.Value)
					strs[n.Name] = v
				}
			}
		}
	}
	return ints, strs, nil
}

func constants() *constEnv {
	constOnce.Do(func() {
		e := &cenv
		repo := dicts.RepoDir()
		if e.avpConst, _, e.err = parseConsts(filepath.Join(repo, "diam", "avp", "codes.go")); e.err != nil {
			return
		}
		if e.cmdConst, e.shortConst, e.err = parseConsts(filepath.Join(repo, "diam", "commands.go")); e.err != nil {
			return
		}
		if e.appConst, _, e.err = parseConsts(filepath.Join(repo, "diam", "applications.go")); e.err != nil {
			return
		}
		// the parsed source must be the compiled source
		if e.avpConst["SessionID"] != avp.SessionID || e.avpConst["OriginHost"] != avp.OriginHost ||
			e.cmdConst["CapabilitiesExchange"] != diam.CapabilitiesExchange || e.appConst["TGPP_S6A_APP_ID"] != diam.TGPP_S6A_APP_ID {
			e.err = fmt.Errorf("the constants parsed from the sources differ from the compiled ones (overlay not honoured?)")
			return
		}
		docs, err := dicts.EmbeddedXML()
		if err != nil {
			e.err = err
			return
		}
		// every XML document of default.go, whether init() loads it or not
		m := refdict.New()
		for _, d := range docs {
			for _, is := range m.Load(d.XML) {
				if is.Kind == "malformed" {
					e.err = fmt.Errorf("embedded document %s: %s", d.Var, is.Detail)
					return
				}
			}
		}
		add := func(idx map[string]map[uint32]bool, list *[]ConstCase, seen map[string]bool, kind, name, norm string, code uint32) {
			if idx[norm] == nil {
				idx[norm] = map[uint32]bool{}
			}
			idx[norm][code] = true
			k := fmt.Sprintf("%s|%d", name, code)
			if !seen[k] {
				seen[k] = true
				*list = append(*list, ConstCase{Kind: kind, Name: name, Code: code})
			}
		}
		e.avpDef, e.cmdDef, e.appDef = map[string]map[uint32]bool{}, map[string]map[uint32]bool{}, map[string]map[uint32]bool{}
		s1, s2, s3 := map[string]bool{}, map[string]bool{}, map[string]bool{}
		for _, d := range m.AVPs {
			add(e.avpDef, &e.avpDefs, s1, "avp-def", d.Name, avpConstName(d.Name), d.Code)
		}
		for _, c := range m.Cmds {
			add(e.cmdDef, &e.cmdDefs, s2, "cmd-def", c.Name, cmdConstName(c.Name), c.Code)
		}
		for _, a := range m.Apps {
			add(e.appDef, &e.appDefs, s3, "app-def", a.Name, appConstName(a.Name), a.ID)
		}
	})
	return &cenv
}

func (e *constEnv) tables(kind string) (consts map[string]uint32, defs map[string]map[uint32]bool, norm func(string) string, what string) {
	switch strings.SplitN(kind, "-", 2)[0] {
	case "avp":
		return e.avpConst, e.avpDef, avpConstName, "avp/codes.go"
	case "cmd":
		return e.cmdConst, e.cmdDef, cmdConstName, "commands.go"
	case "app":
		return e.appConst, e.appDef, appConstName, "applications.go"
	}
	return nil, nil, nil, ""
}

func codeList(s map[uint32]bool) []uint32 {
	var out []uint32
	for c := range s {
		out = append(out, c)
	}
	sortU32(out)
	return out
}

func runConst(c ConstCase) *ev.Failure {
	e := constants()
	if e.err != nil {
		return ev.Failf("harness-constants", "%v", e.err)
	}
	consts, defs, norm, file := e.tables(c.Kind)
	if consts == nil {
		return ev.Failf("harness-case", "unknown kind %q", c.Kind)
	}
	if strings.HasSuffix(c.Kind, "-const") {
		v, ok := consts[c.Name]
		if !ok {
			return nil // the constant no longer exists (stale replay case)
		}
		codes := defs[c.Name]
		if len(codes) == 0 {
			return nil // no dictionary entry normalises to this name: reported in the notes
		}
		if !codes[v] {
			return ev.Failf("constant:"+c.Kind, "%s: %s = %d, but the embedded dictionaries give that name the code %v", file, c.Name, v, codeList(codes))
		}
		return nil
	}
	id := norm(c.Name)
	v, ok := consts[id]
	if !ok {
		return nil // no constant for this entry
	}
	if v != c.Code {
		return ev.Failf("constant:"+c.Kind, "the embedded dictionaries define %q with code %d, %s has %s = %d", c.Name, c.Code, file, id, v)
	}
	return nil
}

var constProp = ev.Register(&ev.Prop[ConstCase]{
	ID:   "C17",
	Name: "constants",
	Rule: "EXHAUSTIVE: every exported integer constant of diam/avp/codes.go, diam/commands.go and diam/applications.go (parsed with go/parser) against the codes of the XML documents in dict/default.go under autogen.sh's name normalisation, and every AVP / command / application of those documents against the constant its name normalises to; non-trivial = a constant and a dictionary entry correspond; distinct by (kind, name, code)",
	Run:  runConst,
	Classify: func(c ConstCase) (bool, []string) {
		e := constants()
		if e.err != nil {
			return false, []string{"harness-error"}
		}
		consts, defs, norm, _ := e.tables(c.Kind)
		if consts == nil {
			return false, []string{"bad-kind"}
		}
		if strings.HasSuffix(c.Kind, "-const") {
			if len(defs[c.Name]) == 0 {
				return false, []string{c.Kind, "constant-without-dictionary-entry"}
			}
			return true, []string{c.Kind, "matched"}
		}
		if _, ok := consts[norm(c.Name)]; !ok {
			return false, []string{c.Kind, "entry-without-constant"}
		}
		return true, []string{c.Kind, "matched"}
	},
})

func sortedKeys(m map[string]uint32) []string {
	var out []string
	for k := range m {
		out = append(out, k)
	}
	sort.Strings(out)
	return out
}

func TestC17Constants(t *testing.T) {
	e := constants()
	if e.err != nil {
		t.Fatalf("harness: %v", e.err)
	}
	rec := constProp.Rec(t)
	for _, k := range []string{"avp-const", "cmd-const", "app-const"} {
		consts, defs, _, file := e.tables(k)
		var unmatched []string
		for _, n := range sortedKeys(consts) {
			if len(defs[n]) == 0 {
				unmatched = append(unmatched, fmt.Sprintf("%s=%d", n, consts[n]))
			}
		}
		rec.Note("%s: %d exported constants, %d without an entry in the embedded dictionaries (not a violation): %s",
			file, len(consts), len(unmatched), strings.Join(unmatched, " "))
	}
	rec.Note("commands.go: %d short-name string constants are not code constants and are not checked", len(e.shortConst))
	constProp.Enumerate(t, true, func(yield func(ConstCase) bool) {
		for _, k := range []string{"avp-const", "cmd-const", "app-const"} {
			consts, _, _, _ := e.tables(k)
			for _, n := range sortedKeys(consts) {
				if !yield(ConstCase{Kind: k, Name: n}) {
					return
				}
			}
		}
		for _, list := range [][]ConstCase{e.avpDefs, e.cmdDefs, e.appDefs} {
			for _, c := range list {
				if !yield(c) {
					return
				}
			}
		}
	})
}
