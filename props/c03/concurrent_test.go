package c03

import (
	"bytes"
	"fmt"
	"runtime"
	"sync"
	"testing"

	"github.com/fiorix/go-diameter/v4/diam"
	"github.com/fiorix/go-diameter/v4/diam/dict"
	"pgregory.net/rapid"

	"verif/internal/ev"
	"verif/internal/refcodec"
)

// Every connection decodes on its own goroutine with the SAME dictionary.
// (1) Decoding and inspecting hostile input from several goroutines at once
// must not abort the process (a fatal "concurrent map writes" cannot be
// recovered: the driver reports the death of the test process as a violation).
// (2) Memory must be bounded by what is supplied: once decoded messages are
// dropped, nothing proportional to the number of DISTINCT unknown codes /
// vendors / applications seen so far may stay behind.

type CCase struct {
	Goroutines int   `json:"goroutines"`
	PerG       int   `json:"per_goroutine"`
	Salt       int64 `json:"salt"`
}

func unknownHeavy(salt int64, i int) []byte {
	var nodes []*refcodec.Node
	for k := 0; k < 6; k++ {
		code := uint32(5000000 + (salt*7919+int64(i)*31+int64(k)*3)%2000000)
		n := &refcodec.Node{Code: code, Payload: []byte{byte(i), byte(k)}}
		if (i+k)%3 == 0 {
			n.Flags, n.Vendor = 0x80, uint32(100+(i*7+k)%5000)
		}
		nodes = append(nodes, n)
	}
	nodes = append(nodes, &refcodec.Node{Code: 279, Flags: 0x40, Group: true, Children: []*refcodec.Node{{Code: uint32(6000000 + i), Payload: []byte("x")}}})
	app := uint32(0)
	if i%4 == 1 {
		app = uint32(20000 + i%3000) // base commands resolve for any application id
	}
	return refcodec.EncodeMessage(refcodec.Header{Version: 1, Flags: 0x80, Code: 257, App: app, HopByHop: uint32(i), EndToEnd: 1}, nodes, false)
}

func runConcurrent(c CCase) *ev.Failure {
	var wg sync.WaitGroup
	fails := make(chan *ev.Failure, c.Goroutines)
	for g := 0; g < c.Goroutines; g++ {
		wg.Add(1)
		go func(g int) {
			defer wg.Done()
			for i := 0; i < c.PerG; i++ {
				wire := unknownHeavy(c.Salt, g*c.PerG+i)
				if f := guard("concurrent decode", func() {
					m, err := diam.ReadMessage(bytes.NewReader(wire), dict.Default)
					if err != nil {
						panic(fmt.Sprintf("valid message rejected: %v", err))
					}
					_ = m.String()
					_ = m.PrettyDump()
					m.Serialize()
					m.FindAVP(uint32(264), dict.UndefinedVendorID)
				}); f != nil {
					fails <- f
					return
				}
			}
		}(g)
	}
	wg.Wait()
	select {
	case f := <-fails:
		return f
	default:
	}
	return nil
}

var concurrent = ev.Register(&ev.Prop[CCase]{
	ID: "C03", Name: "concurrent-decoding",
	Rule: "2..8 goroutines decode, render, re-serialise and search messages full of AVPs with codes / vendors / application ids the dictionary does not know, all with the shared dict.Default, at the same time; nothing may panic and the process must survive (a runtime abort is reported by the driver); every case is distinct by (goroutines, messages, salt)",
	Gen: func(t *rapid.T) CCase {
		return CCase{Goroutines: rapid.IntRange(2, 8).Draw(t, "goroutines"), PerG: rapid.IntRange(50, 400).Draw(t, "per-goroutine"), Salt: rapid.Int64Range(0, 1<<20).Draw(t, "salt")}
	},
	Run: runConcurrent,
})

func TestC03ConcurrentDecoding(t *testing.T) { concurrent.Check(t, 40, 1500) }

// Retention: decode many messages with distinct unknown codes, drop them, collect garbage:
// the heap must be back where it was (within a fraction of the bytes supplied).
type RCase struct {
	Messages int   `json:"messages"`
	Salt     int64 `json:"salt"`
}

func heapInUse() uint64 {
	runtime.GC()
	runtime.GC()
	var ms runtime.MemStats
	runtime.ReadMemStats(&ms)
	return ms.HeapAlloc
}

func runRetention(c RCase) *ev.Failure {
	// warm up so that one-time allocations are not counted
	for i := 0; i < 50; i++ {
		diam.ReadMessage(bytes.NewReader(unknownHeavy(c.Salt+1, i)), dict.Default)
	}
	before := heapInUse()
	supplied := 0
	for i := 0; i < c.Messages; i++ {
		wire := unknownHeavy(c.Salt, 1000+i)
		supplied += len(wire)
		m, err := diam.ReadMessage(bytes.NewReader(wire), dict.Default)
		if err != nil {
			return ev.Failf("harness-valid-rejected", "%v", err)
		}
		_ = m.String()
		m.FindAVP(uint32(264), dict.UndefinedVendorID)
	}
	after := heapInUse()
	if after > before && after-before > uint64(256<<10+supplied/2) {
		return ev.Failf("memory-retained-after-decoding", "%d messages (%d bytes) with AVP codes, vendors and application ids unknown to the dictionary were decoded, inspected and dropped; after garbage collection the heap holds %d bytes more than before (bound: 256 KiB + half the bytes supplied): decoding leaves something behind per distinct unknown code",
			c.Messages, supplied, after-before)
	}
	return nil
}

var retention = ev.Register(&ev.Prop[RCase]{
	ID: "C03", Name: "retention",
	Rule: "2 000..20 000 messages whose AVPs use distinct codes / vendors / application ids unknown to the dictionary are decoded, rendered, searched and dropped; after two garbage collections the live heap may exceed its previous size by at most 256 KiB + half the bytes supplied; every case is distinct by (messages, salt)",
	Gen: func(t *rapid.T) RCase {
		return RCase{Messages: rapid.IntRange(2000, 20000).Draw(t, "messages"), Salt: rapid.Int64Range(0, 1<<20).Draw(t, "salt")}
	},
	Run: runRetention,
})

func TestC03Retention(t *testing.T) { retention.Check(t, 6, 200) }
